(* C04 / C07: the provider state machine for the authorization-code and
   refresh-token grants, once per router, over an abstract storage that mirrors
   the refstore contract (DESIGN 4.5).  Model only - proofs are in
   C04_OP_proofs.v / C04_proofs.v / C07_proofs.v.

   Go functions <-> definitions
     refstore.Store (AuthReqs, Codes, Refresh, seq)        st
     op.Authorize + Storage.CreateAuthRequest               do_authorize
     op.ParseRequestObject / CopyRequestObjectToAuthRequest  ro_accepted, eff_uri / eff_scopes /
        (the signed `request` parameter, both routers)          eff_nonce / eff_chal
     refstore.Login (test side)                             do_login
     op.AuthorizeCallback / AuthResponseCode / SaveAuthCode do_callback
     op.CodeExchange -> ValidateAccessTokenRequest
        -> AuthorizeCodeClient                              prov_code_client, prov_code
     webServer.tokensHandler/withClient/verifyRequestClient
        + LegacyServer.VerifyClient                         legacy_client
     webServer.codeExchangeHandler + LegacyServer.CodeExchange   legacy_code
     op.RefreshTokenExchange -> ValidateRefreshTokenRequest
        -> AuthorizeRefreshClient                           prov_refresh_client, prov_refresh
     webServer.refreshTokenHandler + LegacyServer.RefreshToken   legacy_refresh
     op.AuthorizeCodeChallenge / oidc.VerifyCodeChallenge   pkce, verify_chal
     op.ValidateRefreshTokenScopes                          subset / narrowed
     op.CreateTokenResponse (+ createTokens, CreateIDToken,
        Storage.CreateAccessAndRefreshTokens / CreateAccessToken /
        DeleteAuthRequest)                                  issue_code, issue_refresh
     op.RequestError / op.WriteError status mapping         err                    *)
From OIDC Require Import Lib.

Inductive router := Provider | Legacy.
(* Client.AuthMethod(): the four values the library names, and AM_Other = ANY other string a
   registration may carry ("" - unset, the default client_secret_basic -, client_secret_jwt,
   tls_client_auth, case variants of the named values, ...).  Every decision of the library is
   "private_key_jwt? / none? / client_secret_post and the post flag?" and otherwise the secret
   check, so such a client is a confidential client that must present its secret. *)
Inductive authm := AM_Basic | AM_Post | AM_Other | AM_None | AM_PKJWT.

Record client := {
  c_id : string; c_secret : string; c_auth : authm;
  c_redirects : list string;
  c_code : bool;      (* authorization_code grant registered *)
  c_refresh : bool;   (* refresh_token grant registered *)
  c_jwt : bool        (* AccessTokenTypeJWT *)
}.

Record cfg := {
  f_post : bool;      (* Config.AuthMethodPost *)
  f_pkjwt : bool;     (* Config.AuthMethodPrivateKeyJWT *)
  f_refresh : bool;   (* Config.GrantTypeRefreshToken *)
  f_reqobj : bool;    (* Config.RequestObjectSupported *)
  f_keep : bool;      (* storage policy, not a provider flag: Storage.CreateAccessAndRefreshTokens hands the
                         PRESENTED refresh token back as the valid one (non-rotating / sliding refresh
                         tokens) instead of replacing it by a fresh one *)
  f_aud : option (list string);   (* storage policy: the audience the storage gives every grant
                         (AuthRequest.GetAudience): None = [the client] (as the example storage), Some l = l,
                         e.g. a resource server only, several entries, with or without the client *)
  clients : list client
}.

Definition grant_aud (cf : cfg) (client : string) : list string :=
  match f_aud cf with None => [client] | Some l => l end.

(* What the caller sends to identify itself - every place the code reads, so that one
   request can present two identities:
     cr_basic   Authorization: Basic id:secret (overrides the form fields on both routers:
                ParseAuthenticatedTokenRequest / parseClientCredentials)
     cr_id, cr_sec   form fields client_id / client_secret ("" = absent)
     cr_assert  a client_assertion of type jwt-bearer; its content is the outcome of
                op.VerifyJWTAssertion (C14): Some iss = verifies under a key registered for
                client iss, None = does not verify. When present, both routers authenticate
                by the assertion alone and ignore the other fields. *)
Record cred := MkCred {
  cr_basic : option (string * string);
  cr_id : string; cr_sec : string;
  cr_assert : option (option string)
}.
(* The Basic header on the wire.  RFC 6749 2.3.1: client id and secret are each encoded with the
   application/x-www-form-urlencoded algorithm and the results are user name and password of the
   header; the server undoes that: '+' is a space, %XY (two hex digits, either case) is the byte XY,
   anything else stands for itself, a '%' not followed by two hex digits is malformed.  Written from
   the RFC / the HTML form-encoding rules, not from url.QueryUnescape.  [wire_basic hi hs] is the
   identity a request with the header texts hi, hs presents (the cases carry the header texts, so
   the decoding is done here and not by the driver); None = malformed (never generated). *)
Definition hex_val (c : ascii) : option nat :=
  let n := nat_of_ascii c in
  if (48 <=? n) && (n <=? 57) then Some (n - 48)
  else if (65 <=? n) && (n <=? 70) then Some (n - 55)
  else if (97 <=? n) && (n <=? 102) then Some (n - 87)
  else None.
Fixpoint form_unescape (s : string) : option string :=
  match s with
  | EmptyString => Some EmptyString
  | String c r =>
      if Ascii.eqb c "+"%char then option_map (String " "%char) (form_unescape r)
      else if Ascii.eqb c "%"%char then
        match r with
        | String h1 (String h2 r') =>
            match hex_val h1, hex_val h2 with
            | Some a, Some b => option_map (String (ascii_of_nat (16 * a + b))) (form_unescape r')
            | _, _ => None
            end
        | _ => None
        end
      else option_map (String c) (form_unescape r)
  end.
Definition wire_basic (hi hs : string) : option (string * string) :=
  match form_unescape hi, form_unescape hs with
  | Some i, Some s => Some (i, s)
  | _, _ => None
  end.

Definition NoCred : cred := MkCred None "" "" None.
Definition Basic (id sec : string) : cred := MkCred (Some (id, sec)) "" "" None.
Definition Post (id sec : string) : cred := MkCred None id sec None.
Definition Assertion (v : option string) : cred := MkCred None "" "" (Some v).

Definition challenge := (bool * string)%type.   (* (method is S256, challenge) *)

(* What else an authorization request may carry.  x_hint: an id_token_hint; its content is the
   outcome of op.VerifyIDTokenHint: Some sub = verifies (valid, or merely expired) for subject
   sub - that subject is handed to Storage.CreateAuthRequest -, None = does not verify
   (login_required, no request).  x_prompt: the prompt values; `none` never yields a request
   (invalid together with other values, login_required from the storage when alone). *)
(* A signed Request Object (OIDC Core 6.1, the `request` parameter).  ro_ok = the outcome of
   op.ParseRequestObject's checks (client_id and response_type agree with the query, iss =
   client_id, the provider is in aud, the signature verifies under a key registered for that
   client).  The other fields are the members it carries; "" / [] / None = member absent.  A member
   that is present supersedes the query parameter of the same name
   (op.CopyRequestObjectToAuthRequest); `scope` does so only when the query scope has `openid`.
   ro_cm: code_challenge_method, Some true = S256, Some false = plain. *)
Record reqobj := {
  ro_ok : bool; ro_uri : string; ro_scopes : list string; ro_nonce : string;
  ro_cc : string; ro_cm : option bool
}.

(* How the authorization request travels (OIDC Core 3.1.2.1): by GET, or by POST with the parameters
   named in the list in the query part of the URL and all others form-encoded in the body.  Both
   routers read url query and body alike (r.Form): nothing in the machine depends on it
   (C04_authorize_transport_irrelevant). *)
Inductive avia := V_get | V_post (in_query : list string).

Record auth_extra := { x_hint : option (option string); x_prompt : list string; x_ro : option reqobj; x_via : avia }.
Definition no_extra : auth_extra := {| x_hint := None; x_prompt := []; x_ro := None; x_via := V_get |}.
Definition by_get (x : auth_extra) : auth_extra :=
  {| x_hint := x_hint x; x_prompt := x_prompt x; x_ro := x_ro x; x_via := V_get |}.
Definition hinted_sub (x : auth_extra) : string :=
  match x_hint x with Some (Some sub) => sub | _ => "" end.
Definition extra_ok (x : auth_extra) : bool :=
  negb (string_in "none" (x_prompt x)) && match x_hint x with Some None => false | _ => true end.

(* The parameters of the authorization request proper: the query parameters, each superseded by
   the member of the same name of the Request Object when there is one.  The PKCE pair is merged
   member by member as well; a challenge without any method is a `plain` one (RFC 7636 4.3). *)
Definition eff_uri (uri : string) (x : auth_extra) : string :=
  match x_ro x with
  | Some ro => if String.eqb (ro_uri ro) "" then uri else ro_uri ro
  | None => uri
  end.
Definition eff_scopes (scopes : list string) (x : auth_extra) : list string :=
  match x_ro x with
  | Some ro => if string_in "openid" scopes && negb (match ro_scopes ro with [] => true | _ => false end)
               then ro_scopes ro else scopes
  | None => scopes
  end.
Definition eff_nonce (nonce : string) (x : auth_extra) : string :=
  match x_ro x with
  | Some ro => if String.eqb (ro_nonce ro) "" then nonce else ro_nonce ro
  | None => nonce
  end.
Definition eff_chal (chal : option challenge) (x : auth_extra) : option challenge :=
  match x_ro x with
  | None => chal
  | Some ro =>
      let cc := if String.eqb (ro_cc ro) "" then match chal with Some c => snd c | None => "" end else ro_cc ro in
      let cm := match ro_cm ro with Some m => m | None => match chal with Some c => fst c | None => false end end in
      if String.eqb cc "" then None else Some (cm, cc)
  end.

Record areq := {
  q_id : nat; q_client : string; q_uri : string; q_scopes : list string;
  q_nonce : string; q_chal : option challenge;
  q_done : bool; q_sub : string; q_auth : nat;
  q_extra : auth_extra
}.

Record rtok := {
  r_id : nat; r_client : string; r_sub : string; r_aud : list string;
  r_auth : nat; r_scopes : list string
}.

Record st := {
  reqs : list areq;
  codes : list (nat * nat);     (* code -> request id *)
  rtoks : list rtok;
  next : nat;                   (* refstore seq: req / at / rt ids *)
  ncode : nat;                  (* number of codes issued (canonical code ids) *)
  norefresh : list string       (* clients whose refresh_token grant was withdrawn after start *)
}.

Definition init : st := {| reqs := []; codes := []; rtoks := []; next := 0; ncode := 0; norefresh := [] |}.

(* How the parameters of a token request travel.  The routers read grant_type with
   url.Values.Get / FormValue (first value; body before query) and every other field through
   the schema decoder over r.Form (LAST value; i.e. the query string wins). *)
Inductive place :=
| P_body              (* everything in the body *)
| P_query             (* everything in the query string, empty body *)
| P_grant_query       (* grant_type in the query string only, the rest in the body *)
| P_grant_conflict    (* body as usual, the query string carries another grant_type *)
| P_field_conflict    (* the body carries a decoy code / refresh_token, the query string the real one *)
| P_stray (names : list string)
                      (* everything in the body, PLUS the named parameters, which this grant does not define
                         (a refresh request with code_verifier / code / redirect_uri, a code exchange with
                         refresh_token / scope, username, password, resource ... - in the body or the query
                         string): the token endpoint reads what the grant defines and nothing else, so the
                         machine answers as for P_body (C04_placement_irrelevant, C07_stray_irrelevant) *)
| P_overlap.          (* schedule rather than placement: the request (everything in the body) was SENT BEFORE the
                         operation that precedes it in the history and was in flight - past its client
                         authentication, about to make its first state-dependent storage call (code / refresh
                         token lookup) - while that operation ran from start to end.  The machine answers it
                         as if it had been sent alone afterwards (C04_placement_irrelevant, C07_overlap_alone),
                         and has no in-flight state through which it could influence the overlapping operation *)

Inductive grant := G_code | G_refresh.
Definition other_grant (g : grant) : grant := match g with G_code => G_refresh | G_refresh => G_code end.

Definition param (A : Type) := (option A * option A)%type.       (* (in the body, in the query string) *)
Definition form_get {A} (p : param A) : option A := match fst p with Some v => Some v | None => snd p end.
Definition form_last {A} (p : param A) : option A := match snd p with Some v => Some v | None => fst p end.

Definition place_grant (pl : place) (g : grant) : param grant :=
  match pl with
  | P_body | P_field_conflict | P_overlap | P_stray _ => (Some g, None)
  | P_query | P_grant_query => (None, Some g)
  | P_grant_conflict => (Some g, Some (other_grant g))
  end.
Definition place_field {A} (pl : place) (v decoy : A) : param A :=
  match pl with
  | P_body | P_grant_query | P_grant_conflict | P_overlap | P_stray _ => (Some v, None)
  | P_query => (None, Some v)
  | P_field_conflict => (Some decoy, Some v)
  end.
(* the grant the dispatcher sees / the code or refresh token the handler sees *)
Definition read_grant (pl : place) (g : grant) : option grant := form_get (place_grant pl g).
Definition read_field (pl : place) (v : option nat) (decoy : nat) : option nat :=
  match v with None => None | Some x => form_last (place_field pl x decoy) end.
Definition decoy_id := 999.

(* Storage methods that can be made to fail for the duration of one code exchange
   (refstore FaultMethod). *)
Inductive smethod :=
| SM_AuthRequestByCode | SM_GetClientByClientID
| SM_CreateAccessAndRefreshTokens | SM_CreateAccessToken
| SM_SigningKey | SM_GetPrivateClaimsFromScopes | SM_DeleteAuthRequest.

Inductive op :=
| Authorize (client uri : string) (scopes : list string) (nonce : string) (chal : option challenge) (x : auth_extra)
| Login (req : nat) (sub : string) (stamp : nat)
| Callback (req : nat)
| TokenCode (pl : place) (f : option smethod) (c : cred) (code : option nat) (uri ver : string)
| TokenRefresh (pl : place) (c : cred) (rt : option nat) (scopes : list string)
| TokenRefreshRF (pl : place) (c : cred) (rt : option nat) (scopes : list string)
                                     (* a refresh request DURING WHICH THE STORAGE REFUSES THE ROTATION:
                                        Storage.CreateAccessAndRefreshTokens fails (the presented token was rotated by a
                                        competing request, revoked or expired after the lookup; a transient fault).  No
                                        rotation, no success: whatever the request would have been answered, it is not
                                        answered with tokens, and nothing changes *)
| DropRefresh (client : string)      (* test side: the client's registration loses the refresh_token grant *)
| DropGrants (client : string)      (* test side: the registration is left with NO grant type at all (empty list) *)
| RevokeRT (rt : nat).               (* storage side: refresh token rt is revoked / expires: from now on
                                        Storage.TokenRequestByRefreshToken refuses it (with an error - whatever
                                        else it returns next to the error) *)

Record tokresp := {
  t_at : nat; t_at_sub : string;
  t_jwt : option string;   (* JWT access token: its client_id claim (no scope claim is written) *)
  t_at_aud : list string;  (* JWT access token: its aud claim = the audience of the grant, the client only when
                              the grant has none (oidc.NewAccessTokenClaims); [] for an opaque token *)
  t_rt : option nat;
  t_sub : string; t_aud : list string; t_azp : string; t_nonce : string; t_auth : nat;  (* id_token; t_sub is
     its sub claim - the request's subject whether or not the storage's userinfo mapping asserts one *)
  t_scope : list string                    (* scope member of the response *)
}.

Inductive out :=
| OAuthz (req : option nat)
| OLogin (ok : bool)
| OCode (c : nat)
| OCbErr            (* error redirect to the client *)
| OCbFail           (* no redirect *)
| OTokens (t : tokresp)
| OErr (class : nat) (code : string)
| ODone             (* test-side operation performed *)
| OPanic
| OOther.

Definition is_tokens (x : out) : bool := match x with OTokens _ => true | _ => false end.

(* ---- lookups ---- *)
Definition find_client (cf : cfg) (id : string) : option client :=
  find (fun c => String.eqb (c_id c) id) (clients cf).
Definition find_req (s : st) (n : nat) : option areq :=
  find (fun q => Nat.eqb (q_id q) n) (reqs s).
Definition find_rt (s : st) (n : nat) : option rtok :=
  find (fun t => Nat.eqb (r_id t) n) (rtoks s).
Fixpoint lookup (n : nat) (l : list (nat * nat)) : option nat :=
  match l with
  | [] => None
  | (k, v) :: r => if Nat.eqb k n then Some v else lookup n r
  end.
(* Storage.AuthRequestByCode *)
Definition code_req (s : st) (c : nat) : option areq :=
  match lookup c (codes s) with
  | Some q => find_req s q
  | None => None
  end.

(* the client is registered for the refresh_token grant right now *)
Definition has_refresh (s : st) (c : client) : bool :=
  c_refresh c && negb (string_in (c_id c) (norefresh s)).

(* ... and for the authorization_code grant: DropGrants leaves the registration without any grant
   type and records that as the entry "*" ++ id *)
Definition has_code (s : st) (c : client) : bool :=
  c_code c && negb (string_in ("*" ++ c_id c)%string (norefresh s)).

Definition subset (a b : list string) : bool := forallb (fun x => string_in x b) a.
Definition is_nil {A} (l : list A) : bool := match l with [] => true | _ => false end.
Definition aud_with (id : string) (aud : list string) : list string :=
  if string_in id aud then aud else aud ++ [id].

Definition E_request := "invalid_request".
Definition E_grant := "invalid_grant".
Definition E_client := "invalid_client".
Definition E_unauthorized := "unauthorized_client".
Definition E_scope := "invalid_scope".
Definition E_unsupported := "unsupported_grant_type".
Definition E_server := "server_error".

(* RequestError (Provider): 400/401; WriteError (Legacy): 500 for server_error *)
Definition err (r : router) (code : string) : out :=
  match r with
  | Provider => OErr 4 code
  | Legacy => OErr (if String.eqb code E_server then 5 else 4) code
  end.

(* ClientID / ClientSecret of the parsed request: Basic wins over the form *)
Definition cred_id_sec (c : cred) : string * string :=
  match cr_basic c with
  | Some p => p
  | None => (cr_id c, cr_sec c)
  end.

Section Machine.
Variable H : string -> string.       (* S256: base64url(sha256 v) *)
Variable cf : cfg.

Definition verify_chal (ch : challenge) (ver : string) : bool :=
  String.eqb (if fst ch then H ver else ver) (snd ch).

(* AuthorizeCodeChallenge: None = passed *)
Definition pkce (ch : option challenge) (ver : string) : option string :=
  if String.eqb ver "" then Some E_request
  else match ch with
       | Some c => if verify_chal c ver then None else Some E_grant
       | None => Some E_grant       (* VerifyCodeChallenge(nil, _) = false *)
       end.

(* AuthorizePrivateJWTKey *)
Definition assertion_client (v : option string) : client + string :=
  match v with
  | None => inr E_server                       (* plain Go error *)
  | Some iss =>
      match find_client cf iss with
      | None => inr E_server                   (* storage error, unwrapped *)
      | Some c => match c_auth c with AM_PKJWT => inl c | _ => inr E_client end
      end
  end.

(* secret-based part shared by AuthorizeCodeClient / VerifyClient / AuthorizeRefreshClient *)
Definition secret_ok (c : client) (sec : string) : option string :=
  if (match c_auth c with AM_Post => negb (f_post cf) | _ => false end) then Some E_client
  else if String.eqb sec "" then Some E_client          (* an empty secret never authenticates *)
  else if String.eqb sec (c_secret c) then None else Some E_client.

(* ---------- authorize / login / callback (same code on both routers) ---------- *)
(* the `request` parameter is honoured only when the provider supports it and the object verifies;
   otherwise no authorization request comes into being (invalid_request / request_not_supported) *)
Definition ro_accepted (x : auth_extra) : bool :=
  match x_ro x with None => true | Some ro => f_reqobj cf && ro_ok ro end.

Definition do_authorize (s : st) cl uri scopes nonce chal (x : auth_extra) : st * out :=
  match find_client cf cl with
  | None => (s, OAuthz None)
  | Some c =>
      if ro_accepted x && string_in (eff_uri uri x) (c_redirects c) && negb (is_nil (eff_scopes scopes x)) && extra_ok x then
        let n := S (next s) in
        ({| reqs := {| q_id := n; q_client := cl; q_uri := eff_uri uri x; q_scopes := eff_scopes scopes x;
                       q_nonce := eff_nonce nonce x; q_chal := eff_chal chal x;
                       q_done := false; q_sub := hinted_sub x; q_auth := 0;
                       q_extra := x |} :: reqs s;
            codes := codes s; rtoks := rtoks s; next := n; ncode := ncode s; norefresh := norefresh s |}, OAuthz (Some n))
      else (s, OAuthz None)
  end.

Definition set_login (n : nat) (sub : string) (stamp : nat) (q : areq) : areq :=
  if Nat.eqb (q_id q) n then
    {| q_id := q_id q; q_client := q_client q; q_uri := q_uri q; q_scopes := q_scopes q;
       q_nonce := q_nonce q; q_chal := q_chal q; q_done := true; q_sub := sub; q_auth := stamp;
       q_extra := q_extra q |}
  else q.

Definition do_login (s : st) n sub stamp : st * out :=
  match find_req s n with
  | None => (s, OLogin false)
  | Some _ =>
      ({| reqs := map (set_login n sub stamp) (reqs s); codes := codes s; rtoks := rtoks s;
          next := next s; ncode := ncode s; norefresh := norefresh s |}, OLogin true)
  end.

Definition do_callback (s : st) n : st * out :=
  match find_req s n with
  | None => (s, OCbFail)
  | Some q =>
      if q_done q then
        let c := S (ncode s) in
        ({| reqs := reqs s; codes := (c, n) :: codes s; rtoks := rtoks s; next := next s; ncode := c;
           norefresh := norefresh s |},
         OCode c)
      else (s, OCbErr)
  end.

(* ---------- token issuance (CreateTokenResponse over the storage) ---------- *)
Definition issue_code (s : st) (q : areq) (c : client) : st * out :=
  let want_rt := string_in "offline_access" (q_scopes q) && has_refresh s c in
  let rid := S (next s) in
  let aid := if want_rt then S rid else rid in
  let aud := grant_aud cf (q_client q) in
  let rest := filter (fun x => negb (Nat.eqb (q_id x) (q_id q))) (reqs s) in
  let cds := filter (fun p => negb (Nat.eqb (snd p) (q_id q))) (codes s) in
  let rts := if want_rt
             then {| r_id := rid; r_client := q_client q; r_sub := q_sub q; r_aud := aud;
                     r_auth := q_auth q; r_scopes := q_scopes q |} :: rtoks s
             else rtoks s in
  ({| reqs := rest; codes := cds; rtoks := rts; next := aid; ncode := ncode s; norefresh := norefresh s |},
   OTokens {| t_at := aid; t_at_sub := q_sub q;
              t_jwt := if c_jwt c then Some (c_id c) else None;
              t_at_aud := if c_jwt c then (match aud with [] => [q_client q] | _ => aud end) else [];
              t_rt := if want_rt then Some rid else None;
              t_sub := q_sub q; t_aud := aud_with (q_client q) aud; t_azp := q_client q;
              t_nonce := q_nonce q; t_auth := q_auth q; t_scope := q_scopes q |}).

(* ValidateRefreshTokenScopes: None = invalid_scope *)
Definition narrowed (requested granted : list string) : option (list string) :=
  if is_nil requested then Some granted
  else if subset requested granted then Some requested else None.

(* CreateTokenResponse(..., refreshToken) -> Storage.CreateAccessAndRefreshTokens(request, current):
   a rotating storage (f_keep = false) drops the presented token and creates a fresh one, a
   non-rotating storage (f_keep = true) keeps the presented token - now standing for the narrowed
   grant - and creates an access token only.  Either way the response carries the refresh token
   the storage returned. *)
Definition issue_refresh (s : st) (t : rtok) (c : client) (scopes : list string) : st * out :=
  let rid := if f_keep cf then r_id t else S (next s) in
  let aid := if f_keep cf then S (next s) else S (S (next s)) in
  ({| reqs := reqs s; codes := codes s;
      rtoks := {| r_id := rid; r_client := r_client t; r_sub := r_sub t; r_aud := r_aud t;
                  r_auth := r_auth t; r_scopes := scopes |}
               :: filter (fun x => negb (Nat.eqb (r_id x) (r_id t))) (rtoks s);
      next := aid; ncode := ncode s; norefresh := norefresh s |},
   OTokens {| t_at := aid; t_at_sub := r_sub t;
              t_jwt := if c_jwt c then Some (c_id c) else None;
              t_at_aud := if c_jwt c then (match r_aud t with [] => [r_client t] | _ => r_aud t end) else [];
              t_rt := Some rid;
              t_sub := r_sub t; t_aud := aud_with (r_client t) (r_aud t); t_azp := r_client t;
              t_nonce := ""; t_auth := r_auth t; t_scope := scopes |}).

(* ---------- Provider router: code ---------- *)
Definition prov_code_client (q : areq) (cr : cred) : client + string :=
  match cr_assert cr with
  | Some v => if f_pkjwt cf then assertion_client v else inr E_client
  | None =>
      let (id, sec) := cred_id_sec cr in
      match find_client cf id with
      | None => inr E_client
      | Some c =>
          match c_auth c with
          | AM_PKJWT => inr E_client
          | AM_None => match q_chal q with None => inr E_request | Some _ => inl c end
          | _ => match secret_ok c sec with Some e => inr e | None => inl c end
          end
      end
  end.

Definition prov_code (s : st) (cr : cred) (code : option nat) (uri ver : string) : st * out :=
  match code with
  | None => (s, err Provider E_request)
  | Some cd =>
      match code_req s cd with
      | None => (s, err Provider E_grant)
      | Some q =>
          match (match q_chal q with Some _ => pkce (q_chal q) ver | None => None end) with
          | Some e => (s, err Provider e)
          | None =>
              match prov_code_client q cr with
              | inr e => (s, err Provider e)
              | inl c =>
                  if negb (String.eqb (c_id c) (q_client q)) then (s, err Provider E_grant)
                  else if negb (has_code s c) then (s, err Provider E_unauthorized)
                  else if negb (String.eqb uri (q_uri q)) then (s, err Provider E_grant)
                  else issue_code s q c
              end
          end
      end
  end.

(* ---------- Legacy router: client verification (withClient) ---------- *)
Definition legacy_client (cr : cred) : client + string :=
  match cr_assert cr with
  | Some v => if f_pkjwt cf then assertion_client v else inr E_client
  | None =>
      let (id, sec) := cred_id_sec cr in
      if String.eqb id "" then inr E_request
      else match find_client cf id with
           | None => inr E_client
           | Some c =>
               match c_auth c with
               | AM_None => inl c
               | AM_PKJWT => inr E_client
               | _ => match secret_ok c sec with Some e => inr e | None => inl c end
               end
           end
  end.

Definition is_public (c : client) : bool := match c_auth c with AM_None => true | _ => false end.

(* LegacyServer.CodeExchange with the F04 (client-id equality) and F05 (verifier
   required whenever the request carried a challenge) repairs *)
Definition legacy_code (s : st) (cr : cred) (code : option nat) (uri ver : string) : st * out :=
  match legacy_client cr with
  | inr e => (s, err Legacy e)
  | inl c =>
      if negb (has_code s c) then (s, err Legacy E_unauthorized)
      else match code with
      | None => (s, err Legacy E_request)
      | Some cd =>
          if String.eqb uri "" then (s, err Legacy E_request)
          else match code_req s cd with
          | None => (s, err Legacy E_grant)
          | Some q =>
              match (if is_public c || negb (String.eqb ver "")
                        || (match q_chal q with Some _ => true | None => false end)
                     then pkce (q_chal q) ver else None) with
              | Some e => (s, err Legacy e)
              | None =>
                  if negb (String.eqb (c_id c) (q_client q)) then (s, err Legacy E_grant)
                  else if negb (String.eqb uri (q_uri q)) then (s, err Legacy E_grant)
                  else issue_code s q c
              end
          end
      end
  end.

(* ---------- refresh ---------- *)
Definition finish_refresh (r : router) (s : st) (t : rtok) (c : client) (scopes : list string) : st * out :=
  if negb (String.eqb (c_id c) (r_client t)) then (s, err r E_grant)
  else match narrowed scopes (r_scopes t) with
       | None => (s, err r E_scope)
       | Some sc => issue_refresh s t c sc
       end.

(* AuthorizeRefreshClient: the client, or the error *)
Definition prov_refresh_client (s : st) (cr : cred) : client + string :=
  match cr_assert cr with
  | Some v =>
      if f_pkjwt cf then
        match assertion_client v with
        | inr e => inr e
        | inl c => if has_refresh s c then inl c else inr E_unauthorized
        end
      else inr E_server                         (* errors.New(...) *)
  | None =>
      let (id, sec) := cred_id_sec cr in
      match find_client cf id with
      | None => inr E_server                    (* storage error, unwrapped *)
      | Some c =>
          if negb (has_refresh s c) then inr E_unauthorized
          else match c_auth c with
               | AM_PKJWT => inr E_client
               | AM_None => inl c
               | _ => match secret_ok c sec with Some e => inr e | None => inl c end
               end
      end
  end.

Definition prov_refresh (s : st) (cr : cred) (rt : option nat) (scopes : list string) : st * out :=
  if negb (f_refresh cf) then (s, err Provider E_unsupported)
  else match rt with
  | None => (s, err Provider E_request)
  | Some n =>
      match prov_refresh_client s cr with
      | inr e => (s, err Provider e)
      | inl c =>
          match find_rt s n with
          | None => (s, err Provider E_grant)
          | Some t => finish_refresh Provider s t c scopes
          end
      end
  end.

Definition legacy_refresh (s : st) (cr : cred) (rt : option nat) (scopes : list string) : st * out :=
  match legacy_client cr with
  | inr e => (s, err Legacy e)
  | inl c =>
      if negb (has_refresh s c) then (s, err Legacy E_unauthorized)
      else match rt with
      | None => (s, err Legacy E_request)
      | Some n =>
          if negb (f_refresh cf) then (s, err Legacy E_unsupported)
          else match find_rt s n with
               | None => (s, err Legacy E_grant)
               | Some t => finish_refresh Legacy s t c scopes
               end
      end
  end.

End Machine.

(* ---------- storage faults during one code exchange ---------- *)
Definition code_step (H : string -> string) (cf : cfg) (r : router) (s : st) cr code uri ver : st * out :=
  match r with Provider => prov_code H cf s cr code uri ver | Legacy => legacy_code H cf s cr code uri ver end.

Definition no_clients (cf : cfg) : cfg :=
  {| f_post := f_post cf; f_pkjwt := f_pkjwt cf; f_refresh := f_refresh cf; f_reqobj := f_reqobj cf;
     f_keep := f_keep cf; f_aud := f_aud cf; clients := [] |}.
Definition no_codes (s : st) : st :=
  {| reqs := reqs s; codes := []; rtoks := rtoks s; next := next s; ncode := ncode s; norefresh := norefresh s |}.

(* is the failing method called on the way to this (otherwise successful) response? *)
Definition fault_reached (f : smethod) (t : tokresp) : bool :=
  match f with
  | SM_CreateAccessAndRefreshTokens => match t_rt t with Some _ => true | None => false end
  | SM_CreateAccessToken => match t_rt t with Some _ => false | None => true end
  | SM_GetPrivateClaimsFromScopes => match t_jwt t with Some _ => true | None => false end
  | _ => true
  end.

(* A failing AuthRequestByCode is a code that does not resolve; a failing GetClientByClientID
   is a client that does not exist; every later call (token creation, signing key, private
   claims, removal of the request) is reached only by an exchange that passed all guards and
   turns it into server_error.  In every faulted case nothing the history can refer to
   changes: request and code stay, and tokens the storage may already have created were never
   handed out (identifiers are canonicalised by the order in which they are handed out). *)
Definition code_fault (H : string -> string) (cf : cfg) (f : smethod) (r : router) (s : st) cr code uri ver : st * out :=
  match f with
  | SM_AuthRequestByCode => (s, snd (code_step H cf r (no_codes s) cr code uri ver))
  | SM_GetClientByClientID => (s, snd (code_step H (no_clients cf) r s cr code uri ver))
  | _ => match code_step H cf r s cr code uri ver with
         | (s', OTokens t) => if fault_reached f t then (s, err r E_server) else (s', OTokens t)
         | other => other
         end
  end.

(* ---------- one step ---------- *)
Definition step (H : string -> string) (cf : cfg) (r : router) (s : st) (o : op) : st * out :=
  match o with
  | Authorize cl uri scopes nonce chal x => do_authorize cf s cl uri scopes nonce chal x
  | Login n sub stamp => do_login s n sub stamp
  | Callback n => do_callback s n
  | TokenCode pl f cr code uri ver =>
      match read_grant pl G_code with
      | Some G_code =>
          let cd := read_field pl code decoy_id in
          match f with
          | None => code_step H cf r s cr cd uri ver
          | Some m => code_fault H cf m r s cr cd uri ver
          end
      | _ => (s, err r E_unsupported)
      end
  | TokenRefresh pl cr rt scopes =>
      match read_grant pl G_refresh with
      | Some G_refresh =>
          let n := read_field pl rt decoy_id in
          match r with
          | Provider => prov_refresh cf s cr n scopes
          | Legacy => legacy_refresh cf s cr n scopes
          end
      | _ => (s, err r E_unsupported)
      end
  | TokenRefreshRF pl cr rt scopes =>
      (s, match snd (match r with
                     | Provider => prov_refresh cf s cr (read_field pl rt decoy_id) scopes
                     | Legacy => legacy_refresh cf s cr (read_field pl rt decoy_id) scopes
                     end) with
          | OTokens _ => err r E_server       (* the storage's error surfaces as server_error *)
          | x => match read_grant pl G_refresh with Some G_refresh => x | _ => err r E_unsupported end
          end)
  | DropRefresh cl =>
      ({| reqs := reqs s; codes := codes s; rtoks := rtoks s; next := next s; ncode := ncode s;
          norefresh := cl :: norefresh s |}, ODone)
  | DropGrants cl =>
      ({| reqs := reqs s; codes := codes s; rtoks := rtoks s; next := next s; ncode := ncode s;
          norefresh := cl :: ("*" ++ cl)%string :: norefresh s |}, ODone)
  | RevokeRT n =>
      ({| reqs := reqs s; codes := codes s;
          rtoks := filter (fun x => negb (Nat.eqb (r_id x) n)) (rtoks s);
          next := next s; ncode := ncode s; norefresh := norefresh s |}, ODone)
  end.

(* ---------- histories ---------- *)
Record event := { e_pre : st; e_r : router; e_op : op; e_out : out; e_post : st }.

Section Histories.
Variable H : string -> string.
Variable cf : cfg.

Definition exec1 (hs : list event * st) (ro : router * op) : list event * st :=
  let (h, s) := hs in
  let (r, o) := ro in
  let (s', x) := step H cf r s o in
  (h ++ [{| e_pre := s; e_r := r; e_op := o; e_out := x; e_post := s' |}], s').

Definition exec_from (h : list event) (s : st) (ops : list (router * op)) : list event * st :=
  fold_left exec1 ops (h, s).
Definition exec (ops : list (router * op)) : list event * st := exec_from [] init ops.
Definition outs (ops : list (router * op)) : list out := map e_out (fst (exec ops)).

End Histories.
