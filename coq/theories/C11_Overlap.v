(* C11: authorization callbacks that overlap in time on one provider.

   op.AuthRequestError (pkg/op/error.go; TryErrorRedirect is its copy) obtains an
   *oidc.Error from the error it is handed (oidc.DefaultToServerError: errors.As
   returns the very object inside the chain), WRITES the request's state and
   session_state into that object (step [SSet]), then reads further getters of
   the auth request - which may be backed by the storage and take time - and
   only then ENCODES the object into the redirect (step [SEnc]).  Between the
   two steps of one callback any step of another callback can run.

   Which error object a callback writes to is the design decision this file
   states: [PerCall] - every call builds its own value
   (oidc.ErrInteractionRequired() is a constructor), or [Shared] - all calls
   use one package-level value.  The schedule is an arbitrary list of steps;
   [program_order] only asks that a callback encodes after it wrote. *)
From OIDC Require Import Lib.

Inductive step :=
| SSet (c : nat)    (* callback c: e.State = authReq.GetState(); e.SessionState = ... *)
| SEnc (c : nat).   (* callback c: AuthResponseURL(.., e, encoder) *)

Inductive alloc := PerCall | Shared.

(* the error object callback c works on *)
Definition cell_of (a : alloc) (c : nat) : nat :=
  match a with PerCall => S c | Shared => 0 end.

(* error object -> (state, session_state) currently stored in it *)
Definition errmem := nat -> (string * string).
Definition upd (m : errmem) (k : nat) (v : string * string) : errmem :=
  fun j => if Nat.eqb j k then v else m j.

(* what each callback encodes, in the order of the encodings;
   req c = (state, session_state) of callback c's own auth request *)
Fixpoint run_sched (a : alloc) (req : nat -> string * string) (m : errmem) (s : list step)
  : list (nat * (string * string)) :=
  match s with
  | [] => []
  | SSet c :: r => run_sched a req (upd m (cell_of a c) (req c)) r
  | SEnc c :: r => (c, m (cell_of a c)) :: run_sched a req m r
  end.

Fixpoint program_order (written : list nat) (s : list step) : bool :=
  match s with
  | [] => true
  | SSet c :: r => program_order (c :: written) r
  | SEnc c :: r => existsb (Nat.eqb c) written && program_order written r
  end.

(* every callback delivered the values of its own request *)
Definition own_values (req : nat -> string * string) (out : list (nat * (string * string))) : Prop :=
  Forall (fun p => snd p = req (fst p)) out.

(* the two schedules the correspondence run drives for callbacks A = 0, B = 1:
   B entirely inside A, and A and B crossing *)
Definition sched_nested : list step := [SSet 0; SSet 1; SEnc 1; SEnc 0].
Definition sched_crossed : list step := [SSet 0; SSet 1; SEnc 0; SEnc 1].
