(* C02: case vocabulary, model runner and property predicate.
   "Every token verifier accepts a token only if it carries exactly one
   signature, made with an allowed algorithm, that verifies under a key of the
   configured key set whose type fits, whose use permits signatures and whose
   key id is consistent with the header; the claims handed back are the payload
   that signature covers; kid-less ambiguity is reported, not guessed." *)
From OIDC Require Export Lib C02_Jws C01_Verifier C02_Verifiers C02_Ground.

(* one call in a sequence on a reused verifier *)
Record vstep := mkVStep { vs_tok : token; vs_mid : middle; vs_now0 : Z; vs_now1 : Z }.

(* one verification on a multi-tenant provider: the issuer found in the call's
   context and the keys the storage holds for THAT issuer *)
Record tcall := mkTCall {
  tc_issuer : string; tc_keys : option (list jwk); tc_tok : token; tc_mid : middle;
  tc_now0 : Z; tc_now1 : Z
}.

(* one call in a sequence on ONE provider: which of its verifiers is asked for
   (Provider.AccessTokenVerifier / IDTokenHintVerifier / JWTProfileVerifier) *)
Inductive pkind := PAccess | PHint | PAssertion.
Record pstep := mkPStep { ps_kind : pkind; ps_tok : token; ps_mid : middle; ps_now0 : Z; ps_now1 : Z }.

Inductive input :=
| IFind (kid use alg : string) (keys : list jwk)
    (* oidc.FindMatchingKey(kid, use, alg, keys...) *)
| ICheckSig (allowed : list string) (ks : keyset) (t : token) (parsed : string)
    (* oidc.CheckSignature(token, parsed, claims, allowed, ks) on a library key set *)
| IVerify (k : vkind) (v : verifier) (ks : keyset) (t : token) (m : middle) (now0 now1 : Z)
    (* one of the five public verifiers; [now0,now1] brackets the call *)
| IRemoteSeq (allowed : list string) (skip : bool) (steps : list rstep)
    (* oidc.CheckSignature several times on ONE rp remote key set instance (cache
       empty at first); before each call the endpoint may serve another list *)
| IVerifySeq (k : vkind) (v : verifier) (ks : keyset) (steps : list vstep)
| IProvider (p : provider) (hint : bool) (t : token) (m : middle) (now0 now1 : Z)
| IProfileSig (ks : keyset) (t : token) (parsed : string)
    (* oidc.CheckSignature(token, parsed, claims, nil, ks) on the per-client storage
       key set (op.jwtProfileKeySet{storage, client} = KSProfile client store).  The
       type is not exported: it is reached through op.VerifyJWTAssertion with claims
       of issuer [client] that pass every earlier check and a SubjectCheck admitting
       anything; the claims type records no algorithm (Ok "") *)
| IProviderSeq (p : provider) (store : list (string * string * jwk)) (steps : list pstep)
    (* ONE op.NewProvider(options...) over one storage (signing keys p_storage_keys,
       client keys [store]); for every step the verifier the provider hands out for
       that step's kind, on that step's token - in this order, on this one instance *)
| ITenants (hint : bool) (allowed : list string) (overlap : bool) (calls : list tcall).
    (* ONE op.NewProvider with a per-request issuer and its DEFAULT key set over a
       storage whose KeySet depends on the issuer in the context; the verifier the
       provider hands out for each call's issuer, on that call's token.  overlap:
       the first call is held inside Storage.KeySet while the others run (their
       answers may not depend on it: the model has no such input) *)
    (* op.NewProvider(options...) then Provider.IDTokenHintVerifier (hint) or
       Provider.AccessTokenVerifier on one token *)
    (* ONE verifier object (and its storage) reused for several tokens, of
       different issuers / clients *)

Inductive observed :=
| OFind (r : find_result)
| OFindDirty (r : find_result)   (* answered r, but the CALLER's key list was modified *)
| OSig (r : result string)      (* Ok alg: the algorithm set on the claims *)
| OVerify (o : outcome)
| ORemoteSeq (l : list (result string * bool))   (* per call: answer, "a download succeeded" *)
| OVerifySeq (l : list outcome)
| OPanic.

Definition tenant_verifier (allowed : list string) (c : tcall) : verifier :=
  mkVerifier (tc_issuer c) "" 0 0 0 None None allowed.

(* Provider.JWTProfileVerifier: NewJWTProfileVerifier(storage, issuer, 1h, 1s), SubjectIsIssuer *)
Definition assertion_verifier (p : provider) : verifier :=
  mkVerifier (p_issuer p) "" 1000000000 3600000000000 0 None None [].

(* a provider keeps nothing between calls: each step is the single call *)
Definition run_provider_step (verify : jwk -> sigentry -> string -> bool) (p : provider)
           (store : list (string * string * jwk)) (s : pstep) : outcome :=
  match ps_kind s with
  | PAccess => run_provider_verifier verify p false (ps_tok s) (ps_mid s) (ps_now0 s)
  | PHint => run_provider_verifier verify p true (ps_tok s) (ps_mid s) (ps_now0 s)
  | PAssertion => run_verifier verify (VJWTAssertion false) (assertion_verifier p) (KSProfile "" store)
                               (ps_tok s) (ps_mid s) (ps_now0 s)
  end.

Definition model (i : input) : observed :=
  match i with
  | IFind kid use alg keys => OFind (find_matching_key kid use alg keys)
  | ICheckSig allowed ks t parsed => OSig (check_signature sym_verify allowed ks t parsed)
  | IVerify k v ks t m now0 _ => OVerify (run_verifier sym_verify k v ks t m now0)
  | IRemoteSeq allowed skip steps => ORemoteSeq (remote_run sym_verify allowed skip [] steps)
  | IVerifySeq k v ks steps =>
      (* a verifier keeps no state between calls *)
      OVerifySeq (map (fun s => run_verifier sym_verify k v ks (vs_tok s) (vs_mid s) (vs_now0 s)) steps)
  | IProvider p hint t m now0 _ => OVerify (run_provider_verifier sym_verify p hint t m now0)
  | IProviderSeq p store steps => OVerifySeq (map (run_provider_step sym_verify p store) steps)
  | IProfileSig ks t parsed =>
      OSig (match check_signature sym_verify [] ks t parsed with Ok _ => Ok "" | Err e => Err e end)
  | ITenants hint allowed _ calls =>
      OVerifySeq (map (fun c => run_verifier sym_verify (if hint then VIDTokenHint else VAccessToken)
                                  (tenant_verifier allowed c) (KSOpenID (tc_keys c))
                                  (tc_tok c) (tc_mid c) (tc_now0 c)) calls)
  end.

(* alg reported with the claims: the header's for token claims, none for
   assertions and request objects (SetSignatureAlgorithm is a no-op there) *)
Definition alg_reported (k : vkind) (t : token) (alg : string) : bool :=
  match k with
  | VJWTAssertion _ | VRequestObject _ => alg =s ""
  | _ => alg =s sig_alg t
  end.

(* GROUND TRUTH: the key set verifier k is configured with FOR THIS CALL.
   A request object comes attached to an authorization request of client
   [a_client a]: the configured key set is the keys registered for THAT client -
   whichever client the (not yet verified) object names as its issuer.  An
   assertion speaks for the client it names as issuer (that is the identity the
   caller goes on with); the other verifiers have one key set. *)
Definition trusted_keyset (k : vkind) (ks : keyset) (c : claims) : keyset :=
  match k with
  | VRequestObject a => bind_profile ks (a_client a)
  | VJWTAssertion _ => bind_profile ks (c_iss c)
  | VRpIDToken | VAccessToken | VIDTokenHint => ks
  end.

(* claims c' handed back by verifier k: they are the decoding of the middle
   segment, whose bytes are the payload a trusted signature covers - made by the
   key the key set designates, not by one of several possible keys (sig_believable) *)
Definition accept_ok (k : vkind) (v : verifier) (ks : keyset) (t : token) (m : middle)
           (c' : claims) (alg : string) : bool :=
  match m with
  | MidOk bytes c =>
      claims_eqb c' (returned_claims k c)
      && sig_believable (verifier_algs k v) (trusted_keyset k ks c) t bytes
      && alg_reported k t alg
  | _ => false
  end.

(* answer o of verifier k to one token *)
Definition verify_step_ok (k : vkind) (v : verifier) (ks : keyset) (t : token) (m : middle) (o : outcome) : bool :=
  match o with
  | Accept c' alg => accept_ok k v ks t m c' alg
  | AcceptExpired c' alg _ =>
      match k with VIDTokenHint => accept_ok k v ks t m c' alg | _ => false end
  | Reject _ => true
  end.

(* Sequence on one remote key set.  [held] is ground truth: the list the
   endpoint served at the last successful download (the harness served it and
   counted the downloads).  A token is believed only under a key of the set as
   currently held - a key the provider has withdrawn and the key set has
   replaced by a newer download is no longer a key of the configured key set. *)
Fixpoint remote_seq_spec (allowed : list string) (skip : bool) (held : list jwk)
         (steps : list rstep) (obs : list (result string * bool)) : bool :=
  match steps, obs with
  | [], [] => true
  | s :: r, (res, f) :: ro =>
      let held' := if f then match rs_served s with Some l => l | None => held end else held in
      (negb f || match rs_served s with Some _ => true | None => false end)
      && match res with
         | Ok alg =>
             sig_believable allowed (KSOpenID (Some held')) (rs_tok s) (rs_parsed s)
             && (alg =s sig_alg (rs_tok s))
         | Err _ => negb (sig_complete allowed (KSRemote held (rs_served s) skip) (rs_tok s) (rs_parsed s))
         end
      && remote_seq_spec allowed skip held' r ro
  | _, _ => false
  end.

Fixpoint verify_seq_spec (k : vkind) (v : verifier) (ks : keyset) (steps : list vstep) (obs : list outcome) : bool :=
  match steps, obs with
  | [], [] => true
  | s :: r, o :: ro => verify_step_ok k v ks (vs_tok s) (vs_mid s) o && verify_seq_spec k v ks r ro
  | _, _ => false
  end.

(* multi-tenant provider: every answer is judged against the key set of the
   issuer of ITS call - whatever other calls are in flight *)
Fixpoint tenants_spec (hint : bool) (allowed : list string) (calls : list tcall) (obs : list outcome) : bool :=
  match calls, obs with
  | [], [] => true
  | c :: r, o :: ro =>
      verify_step_ok (if hint then VIDTokenHint else VAccessToken) (tenant_verifier allowed c)
                     (KSOpenID (tc_keys c)) (tc_tok c) (tc_mid c) o
      && tenants_spec hint allowed r ro
  | _, _ => false
  end.

(* ground truth for provider options: each verifier has ITS OWN configured key
   set and allow-list - the option given for it, else the provider's storage keys *)
Definition configured_keyset (p : provider) (hint : bool) : keyset :=
  if hint
  then match p_hint_keyset p with Some k => k | None => KSOpenID (p_storage_keys p) end
  else match p_at_keyset p with Some k => k | None => KSOpenID (p_storage_keys p) end.
Definition configured_verifier (p : provider) (hint : bool) : verifier :=
  mkVerifier (p_issuer p) "" 0 0 0 None None (if hint then p_hint_algs p else p_at_algs p).

(* One provider, several calls: every answer is judged against the key set and
   allow-list configured for the verifier kind of ITS step (an assertion: the
   client keys registered for the issuer it names, under the header's kid) -
   whichever verifier was handed out, whatever was looked up, before. *)
Definition provider_step_ok (p : provider) (store : list (string * string * jwk)) (s : pstep) (o : outcome) : bool :=
  match ps_kind s with
  | PAccess => verify_step_ok VAccessToken (configured_verifier p false) (configured_keyset p false) (ps_tok s) (ps_mid s) o
  | PHint => verify_step_ok VIDTokenHint (configured_verifier p true) (configured_keyset p true) (ps_tok s) (ps_mid s) o
  | PAssertion => verify_step_ok (VJWTAssertion false) (assertion_verifier p) (KSProfile "" store) (ps_tok s) (ps_mid s) o
  end.

Fixpoint provider_seq_spec (p : provider) (store : list (string * string * jwk)) (steps : list pstep) (obs : list outcome) : bool :=
  match steps, obs with
  | [], [] => true
  | s :: r, o :: ro => provider_step_ok p store s o && provider_seq_spec p store r ro
  | _, _ => false
  end.

Definition spec (i : input) (o : observed) : bool :=
  match i, o with
  | IFind kid use alg keys, OFind r => find_spec kid use alg keys r
  | ICheckSig allowed ks t parsed, OSig (Ok alg) =>
      sig_believable allowed ks t parsed && (alg =s sig_alg t)
  | ICheckSig allowed ks t parsed, OSig (Err _) => negb (sig_complete allowed ks t parsed)
  | IVerify k v ks t m _ _, OVerify o => verify_step_ok k v ks t m o
  | IRemoteSeq allowed skip steps, ORemoteSeq l => remote_seq_spec allowed skip [] steps l
  | IVerifySeq k v ks steps, OVerifySeq l => verify_seq_spec k v ks steps l
  | IProvider p hint t m _ _, OVerify o =>
      verify_step_ok (if hint then VIDTokenHint else VAccessToken)
                     (configured_verifier p hint) (configured_keyset p hint) t m o
  | IProviderSeq p store steps, OVerifySeq l => provider_seq_spec p store steps l
  | IProfileSig ks t parsed, OSig (Ok alg) => sig_believable [] ks t parsed && (alg =s "")
  | IProfileSig ks t parsed, OSig (Err _) => negb (sig_complete [] ks t parsed)
  | ITenants hint allowed _ calls, OVerifySeq l => tenants_spec hint allowed calls l
  | _, _ => false
  end.

(* Guard of the central theorem.  No client has the empty client id: a storage
   asked for the key of client "" has none.  (A request object naming neither
   iss nor client_id passes ParseRequestObject's consistency checks and is then
   looked up under client ""; with a storage that answers such a lookup it would
   be believed for ANY authorization request.) *)
Definition store_named (ks : keyset) : bool :=
  match ks with
  | KSProfile _ store => forallb (fun x => negb (fst (fst x) =s "")) store
  | _ => true
  end.

Definition step_wf (k : vkind) (ks : keyset) : bool :=
  match k with VRequestObject _ => store_named ks | _ => true end.

Definition wf (i : input) : bool :=
  match i with
  | IVerify k _ ks _ _ _ _ => step_wf k ks
  | IVerifySeq k _ ks _ => step_wf k ks
  | _ => true
  end.

Definition obs_eqb (a b : observed) : bool :=
  match a, b with
  | OFind x, OFind y => find_result_eqb x y
  | OSig (Ok x), OSig (Ok y) => x =s y
  | OSig (Err x), OSig (Err y) => err_eqb x y
  | OVerify x, OVerify y => outcome_eqb x y
  | ORemoteSeq x, ORemoteSeq y =>
      list_eqb (fun a b => match fst a, fst b with
                           | Ok u, Ok w => u =s w
                           | Err u, Err w => err_eqb u w
                           | _, _ => false
                           end && Bool.eqb (snd a) (snd b)) x y
  | OVerifySeq x, OVerifySeq y => list_eqb outcome_eqb x y
  | OPanic, OPanic => true
  | _, _ => false
  end.

Definition kind_base (k : vkind) : nat :=
  match k with
  | VRpIDToken => 100 | VAccessToken => 200 | VIDTokenHint => 300
  | VJWTAssertion _ => 400 | VRequestObject _ => 500
  end.

Definition path (i : input) (o : observed) : nat :=
  match i, o with
  | IFind kid _ _ keys, OFind (FOk k) => if exact_kid kid k then 1 else 2
  | IFind _ _ _ [], OFind _ => 0
  | IFind _ _ _ _, OFind FMultiple => 3
  | IFind _ _ _ _, OFind FNone => 4
  | ICheckSig _ _ _ _, OSig (Ok _) => 50
  | ICheckSig _ _ _ _, OSig (Err e) => 51 + err_code e
  | IVerify k _ _ _ _ _ _, OVerify (Reject EParse) => 0
  | IVerify k _ _ _ _ _ _, OVerify o => kind_base k + outcome_code o
  | IProviderSeq _ _ steps, OVerifySeq l =>   (* assertion steps / answers with claims, capped *)
      977 + 10 * Nat.min 3 (List.length (filter (fun s => match ps_kind s with PAssertion => true | _ => false end) steps))
      + Nat.min 9 (List.length (filter (fun o => match o with Reject _ => false | _ => true end) l))
  | IProfileSig _ _ _, OSig (Ok _) => 950
  | IProfileSig _ _ _, OSig (Err e) => 951 + err_code e
  | IProvider p hint _ _ _ _, OVerify (Reject EParse) => 0
  | IProvider p hint _ _ _ _, OVerify o =>
      800 + (if hint then 50 else 0) + outcome_code o
  | IRemoteSeq _ _ _, ORemoteSeq l =>   (* accepted / downloads, capped *)
      600 + 10 * Nat.min 9 (List.length (filter (fun x => match fst x with Ok _ => true | _ => false end) l))
      + Nat.min 9 (List.length (filter (fun x => snd x) l))
  | ITenants hint _ overlap _, OVerifySeq l =>
      900 + (if hint then 20 else 0) + (if overlap then 10 else 0)
      + Nat.min 9 (List.length (filter (fun o => match o with Reject _ => false | _ => true end) l))
  | IVerifySeq k _ _ _, OVerifySeq l =>
      700 + kind_base k / 10
      + Nat.min 9 (List.length (filter (fun o => match o with Reject _ => false | _ => true end) l))
  | _, _ => 0
  end.

Definition case_mismatches := run_mismatches model obs_eqb.
Definition case_violations := run_violations spec.
Definition case_paths := run_paths model path.
