(* C02: case vocabulary, model runner and property predicate.
   "Every token verifier accepts a token only if it carries exactly one
   signature, made with an allowed algorithm, that verifies under a key of the
   configured key set whose type fits, whose use permits signatures and whose
   key id is consistent with the header; the claims handed back are the payload
   that signature covers; kid-less ambiguity is reported, not guessed." *)
From OIDC Require Export Lib C02_Jws C01_Verifier C02_Verifiers C02_Ground.

Inductive input :=
| IFind (kid use alg : string) (keys : list jwk)
    (* oidc.FindMatchingKey(kid, use, alg, keys...) *)
| ICheckSig (allowed : list string) (ks : keyset) (t : token) (parsed : string)
    (* oidc.CheckSignature(token, parsed, claims, allowed, ks) on a library key set *)
| IVerify (k : vkind) (v : verifier) (ks : keyset) (t : token) (m : middle) (now0 now1 : Z).
    (* one of the five public verifiers; [now0,now1] brackets the call *)

Inductive observed :=
| OFind (r : find_result)
| OSig (r : result string)      (* Ok alg: the algorithm set on the claims *)
| OVerify (o : outcome)
| OPanic.

Definition model (i : input) : observed :=
  match i with
  | IFind kid use alg keys => OFind (find_matching_key kid use alg keys)
  | ICheckSig allowed ks t parsed => OSig (check_signature sym_verify allowed ks t parsed)
  | IVerify k v ks t m now0 _ => OVerify (run_verifier sym_verify k v ks t m now0)
  end.

(* alg reported with the claims: the header's for token claims, none for
   assertions and request objects (SetSignatureAlgorithm is a no-op there) *)
Definition alg_reported (k : vkind) (t : token) (alg : string) : bool :=
  match k with
  | VJWTAssertion | VRequestObject _ => alg =s ""
  | _ => alg =s sig_alg t
  end.

(* claims c' handed back by verifier k: they are the decoding of the middle
   segment, whose bytes are the payload a trusted signature covers *)
Definition accept_ok (k : vkind) (v : verifier) (ks : keyset) (t : token) (m : middle)
           (c' : claims) (alg : string) : bool :=
  match m with
  | MidOk bytes c =>
      claims_eqb c' (returned_claims k c)
      && sig_genuine (verifier_algs k v) (verifier_keyset k ks c) t bytes
      && alg_reported k t alg
  | _ => false
  end.

Definition spec (i : input) (o : observed) : bool :=
  match i, o with
  | IFind kid use alg keys, OFind r => find_spec kid use alg keys r
  | ICheckSig allowed ks t parsed, OSig (Ok alg) =>
      sig_genuine allowed ks t parsed && (alg =s sig_alg t)
  | ICheckSig allowed ks t parsed, OSig (Err _) => negb (sig_complete allowed ks t parsed)
  | IVerify k v ks t m _ _, OVerify (Accept c' alg) => accept_ok k v ks t m c' alg
  | IVerify k v ks t m _ _, OVerify (AcceptExpired c' alg _) =>
      match k with VIDTokenHint => accept_ok k v ks t m c' alg | _ => false end
  | IVerify _ _ _ _ _ _ _, OVerify (Reject _) => true
  | _, _ => false
  end.

Definition obs_eqb (a b : observed) : bool :=
  match a, b with
  | OFind x, OFind y => find_result_eqb x y
  | OSig (Ok x), OSig (Ok y) => x =s y
  | OSig (Err x), OSig (Err y) => err_eqb x y
  | OVerify x, OVerify y => outcome_eqb x y
  | OPanic, OPanic => true
  | _, _ => false
  end.

Definition kind_base (k : vkind) : nat :=
  match k with
  | VRpIDToken => 100 | VAccessToken => 200 | VIDTokenHint => 300
  | VJWTAssertion => 400 | VRequestObject _ => 500
  end.

Definition path (i : input) (o : observed) : nat :=
  match i, o with
  | IFind kid _ _ keys, OFind (FOk k) => if exact_kid kid k then 1 else 2
  | IFind _ _ _ [], OFind _ => 0
  | IFind _ _ _ _, OFind FMultiple => 3
  | IFind _ _ _ _, OFind FNone => 4
  | ICheckSig _ _ _ _, OSig (Ok _) => 50
  | ICheckSig _ _ _ _, OSig (Err e) => 51 + err_code e
  | IVerify k _ _ _ _ _ _, OVerify (Reject EParse) => 0
  | IVerify k _ _ _ _ _ _, OVerify o => kind_base k + outcome_code o
  | _, _ => 0
  end.

Definition case_mismatches := run_mismatches model obs_eqb.
Definition case_violations := run_violations spec.
Definition case_paths := run_paths model path.
