(* C09: opening an opaque access token (pkg/crypto/crypto.go DecryptAES behind op.Crypto.Decrypt: userinfo,
   introspection, revocation, token exchange on both routers), at the level of lengths.
   A token string is described by what encoding/base64 (RawURLEncoding, non-strict) makes of it:
   the number of alphabet characters, the number of CR / LF characters (silently skipped by the
   decoder) and whether any other character occurs (decode error; '=' padding included). *)
From OIDC Require Import Lib C09_Json.

Record otoken := { ot_chars : N; ot_crlf : N; ot_other : bool }.

Definition decoded_len (n : N) : N := (n * 6 / 8)%N.       (* RawURLEncoding.DecodedLen *)

(* [on_decoded]: the "at least one AES block (IV)" test looks at the decoded bytes
   (false = at DecodedLen of the raw string length, the slicing then being unguarded) *)
Definition decrypt_aes (on_decoded : bool) (t : otoken) : result unit :=
  if on_decoded then
    if ot_other t then Err
    else if (ot_chars t mod 4 =? 1)%N then Err                         (* CorruptInputError *)
    else if (decoded_len (ot_chars t) <? 16)%N then Err                (* ErrCipherTextBlockSize *)
    else Ok tt
  else
    if (decoded_len (ot_chars t + ot_crlf t) <? 16)%N then Err
    else if ot_other t then Err
    else if (ot_chars t mod 4 =? 1)%N then Err
    else if (decoded_len (ot_chars t) <? 16)%N then Panic              (* cipherText[:16] out of range *)
    else Ok tt.
