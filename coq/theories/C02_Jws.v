(* C02 (shared with C01): keys, presented tokens, key selection and signature check.

   Go functions modelled here                      Gallina
   ------------------------------------------------------------------------
   oidc.algToKeyType      (pkg/oidc/keyset.go)      alg_fits
   oidc.FindMatchingKey   (pkg/oidc/keyset.go)      find_matching_key
   oidc.toJoseSignatureAlgorithms (verifier.go)     effective_algs
   jose.ParseSigned (allow-list part; go-jose)      jose_parse
   op.OpenIDKeySet.VerifySignature (pkg/op/op.go)   openid_verify
   rp.remoteKeySet.VerifySignature, sequential view
        (pkg/client/rp/jwks.go)                     remote_verify
   op.jwtProfileKeySet.VerifySignature
        (pkg/op/verifier_jwt_profile.go)            profile_verify
   oidc.CheckSignature    (pkg/oidc/verifier.go)    check_signature

   The cryptographic check (go-jose's jws.Verify on one key) is the oracle
   [verify]; it is a Section variable, so every theorem holds for any such
   function.  [sym_verify] is the symbolic instance used to run the model on
   the harness's description of who signed what. *)
From OIDC Require Import Lib.

Infix "=s" := String.eqb (at level 70, no associativity).

(* ---- errors and results (coarse classes, DESIGN 4.7) ---- *)
Inductive err :=
| EParse            (* oidc.ParseToken: segment count / base64 / payload not a JSON object *)
| EJson             (* oidc.ParseToken: json.Unmarshal of the payload failed *)
| ESubject | EIssuer | EAudience | EAzpMissing | EAzpInvalid
| ESigParse         (* CheckSignature: go-jose could not parse *)
| ESigAlg           (* algorithm not in the allow-list *)
| ESigMissing | ESigMultiple
| ESigInvalid       (* key set did not verify the signature *)
| ESigPayload       (* verified payload differs from the parsed one *)
| EExpired | EIatMissing | EIatFuture | EIatOld
| ENonce | EAcr | EAuthTimeMissing | EAuthTimeOld
| EAtHash | EAtHashAlg
| ESubjectIssuer    (* JWT profile: SubjectIsIssuer *)
| EReq              (* request object: client_id / response_type / iss / aud *)
| EOther.           (* an error carrying no sentinel; the model never returns it *)

Definition err_eqb (a b : err) : bool :=
  match a, b with
  | EParse, EParse | EJson, EJson | ESubject, ESubject | EIssuer, EIssuer
  | EAudience, EAudience | EAzpMissing, EAzpMissing | EAzpInvalid, EAzpInvalid
  | ESigParse, ESigParse | ESigAlg, ESigAlg | ESigMissing, ESigMissing
  | ESigMultiple, ESigMultiple | ESigInvalid, ESigInvalid | ESigPayload, ESigPayload
  | EExpired, EExpired | EIatMissing, EIatMissing | EIatFuture, EIatFuture
  | EIatOld, EIatOld | ENonce, ENonce | EAcr, EAcr
  | EAuthTimeMissing, EAuthTimeMissing | EAuthTimeOld, EAuthTimeOld
  | EAtHash, EAtHash | EAtHashAlg, EAtHashAlg | ESubjectIssuer, ESubjectIssuer
  | EReq, EReq | EOther, EOther => true
  | _, _ => false
  end.

Inductive result (A : Type) := Ok (a : A) | Err (e : err).
Arguments Ok {A} a.
Arguments Err {A} e.

(* ---- keys ---- *)
(* dynamic Go type of jose.JSONWebKey.Key: *rsa.PublicKey, *ecdsa.PublicKey,
   ed25519.PublicKey, []byte, anything else (private key, nil, ...) *)
Inductive kty := KRsa | KEc | KOkp | KOct | KOther.

Definition kty_eqb (a b : kty) : bool :=
  match a, b with
  | KRsa, KRsa | KEc, KEc | KOkp, KOkp | KOct, KOct | KOther, KOther => true
  | _, _ => false
  end.

(* k_mat identifies the key material (index in the driver's key pool) *)
Record jwk := mkJwk { k_id : string; k_use : string; k_ty : kty; k_mat : N }.

Definition jwk_eqb (a b : jwk) : bool :=
  String.eqb (k_id a) (k_id b) && String.eqb (k_use a) (k_use b)
  && kty_eqb (k_ty a) (k_ty b) && N.eqb (k_mat a) (k_mat b).

(* ---- presented tokens ---- *)
(* A signature value, symbolically: made with key material [mat] under
   algorithm [alg] over (protected header bytes, payload bytes); or junk. *)
Inductive sigval :=
| SigBy (mat : N) (alg prot payload : string)
| SigJunk.

(* one signature of a JWS: merged-header alg and kid, the raw protected header *)
Record sigentry := mkSig { se_alg : string; se_kid : string; se_prot : string; se_sig : sigval }.

Inductive token :=
| TCompact (e : sigentry) (payload : string)        (* h.p.s, every segment decodable *)
| TJson (sigs : list sigentry) (payload : string)   (* JSON serialisation; flattened = one entry *)
| TMalformed.                                       (* go-jose cannot parse it at all *)

Definition tok_sigs (t : token) : list sigentry :=
  match t with TCompact e _ => [e] | TJson l _ => l | TMalformed => [] end.
Definition tok_payload (t : token) : option string :=
  match t with TCompact _ p => Some p | TJson _ p => Some p | TMalformed => None end.

(* ---- FindMatchingKey ---- *)
Definition alg_fits (t : kty) (alg : string) : bool :=
  if prefix "RS" alg || prefix "PS" alg then match t with KRsa => true | _ => false end
  else if prefix "ES" alg then match t with KEc => true | _ => false end
  else if alg =s "EdDSA" then match t with KOkp => true | _ => false end
  else false.

Definition use_ok (use : string) (k : jwk) : bool := (k_use k =s use) || (k_use k =s "").
Definition candidate (use alg : string) (k : jwk) : bool := use_ok use k && alg_fits (k_ty k) alg.
Definition exact_kid (kid : string) (k : jwk) : bool := (k_id k =s kid) && negb (kid =s "").
Definition loose_kid (kid : string) (k : jwk) : bool := (k_id k =s "") || (kid =s "").

Inductive find_result := FOk (k : jwk) | FMultiple | FNone.

Definition find_finish (valid : list jwk) : find_result :=
  match valid with
  | [k] => FOk k
  | [] => FNone
  | _ => FMultiple
  end.

(* the loop of FindMatchingKey; [valid] is validKeys so far *)
Fixpoint find_scan (kid use alg : string) (keys valid : list jwk) : find_result :=
  match keys with
  | [] => find_finish valid
  | k :: r =>
      if candidate use alg k then
        if exact_kid kid k then FOk k
        else if loose_kid kid k then find_scan kid use alg r (valid ++ [k])
        else find_scan kid use alg r valid
      else find_scan kid use alg r valid
  end.

Definition find_matching_key (kid use alg : string) (keys : list jwk) : find_result :=
  find_scan kid use alg keys [].

(* ---- allow-list and go-jose's parse ---- *)
Definition effective_algs (l : list string) : list string :=
  match l with [] => ["RS256"; "ES256"; "PS256"] | _ => l end.

Inductive parsed_jws := JErrAlg | JErrParse | JOk (sigs : list sigentry) (payload : string).

Fixpoint all_algs_allowed (allowed : list string) (sigs : list sigentry) : bool :=
  match sigs with
  | [] => true
  | e :: r => string_in (se_alg e) allowed && all_algs_allowed allowed r
  end.

Definition jose_parse (allowed : list string) (t : token) : parsed_jws :=
  match t with
  | TMalformed => JErrParse
  | TCompact e p => if string_in (se_alg e) allowed then JOk [e] p else JErrAlg
  | TJson sigs p => if all_algs_allowed allowed sigs then JOk sigs p else JErrAlg
  end.

(* ---- key sets ---- *)
Inductive keyset :=
| KSOpenID (keys : option (list jwk))
    (* op.OpenIDKeySet; None = Storage.KeySet returned an error *)
| KSRemote (cached : list jwk) (served : option (list jwk)) (skip : bool)
    (* rp.remoteKeySet: cache content, what the JWKS endpoint serves now
       (None = fetch fails), SkipRemoteCheck option *)
| KSProfile (client : string) (store : list (string * string * jwk))
| KSStatic (k : jwk).
    (* a caller-supplied oidc.KeySet that verifies under one fixed key whatever the
       header says (e.g. the shared secret of an HS* configuration) *)

(* key sets that select among PUBLISHED keys (use / type / kid rules apply) *)
Definition published (ks : keyset) : bool :=
  match ks with KSOpenID _ | KSRemote _ _ _ => true | _ => false end.
    (* op.jwtProfileKeySet: storage of (client id, key id) -> key *)

Definition ks_keys (ks : keyset) : list jwk :=
  match ks with
  | KSOpenID None => []
  | KSOpenID (Some l) => l
  | KSRemote c None _ => c
  | KSRemote c (Some s) _ => c ++ s
  | KSProfile _ store => map snd store
  | KSStatic k => [k]
  end.

Fixpoint profile_lookup (store : list (string * string * jwk)) (client kid : string) : option jwk :=
  match store with
  | [] => None
  | (c, i, k) :: r => if (c =s client) && (i =s kid) then Some k else profile_lookup r client kid
  end.

(* remoteKeySet.exactMatch *)
Definition remote_exact (skip : bool) (jwk_id jws_id : string) : bool :=
  if (jwk_id =s "") && (jws_id =s "") then skip else jwk_id =s jws_id.

Section Verify.
  (* go-jose: jws.Verify(key) succeeded for this signature entry and payload *)
  Variable verify : jwk -> sigentry -> string -> bool.

  (* the key under which the signature verified, if any *)
  Definition verify_found (r : find_result) (e : sigentry) (p : string) : option jwk :=
    match r with
    | FOk k => if verify k e p then Some k else None
    | _ => None
    end.

  Definition openid_verify (keys : option (list jwk)) (e : sigentry) (p : string) : option jwk :=
    match keys with
    | None => None
    | Some l => verify_found (find_matching_key (se_kid e) "sig" (se_alg e) l) e p
    end.

  Definition remote_fetch_verify (served : option (list jwk)) (e : sigentry) (p : string) : option jwk :=
    match served with
    | None => None
    | Some l => verify_found (find_matching_key (se_kid e) "sig" (se_alg e) l) e p
    end.

  Definition remote_verify (cached : list jwk) (served : option (list jwk)) (skip : bool)
             (e : sigentry) (p : string) : option jwk :=
    match cached with
    | [] => remote_fetch_verify served e p
    | _ =>
        match find_matching_key (se_kid e) "sig" (se_alg e) cached with
        | FOk k =>
            if verify k e p then Some k
            else if remote_exact skip (k_id k) (se_kid e) then None
            else remote_fetch_verify served e p
        | _ => remote_fetch_verify served e p
        end
    end.

  (* does VerifySignature go to the JWKS endpoint?  (empty cache, no usable
     cached key, or a kid-less / inexact cached key that failed) *)
  Definition remote_needs_fetch (cached : list jwk) (skip : bool) (e : sigentry) (p : string) : bool :=
    match cached with
    | [] => true
    | _ =>
        match find_matching_key (se_kid e) "sig" (se_alg e) cached with
        | FOk k => if verify k e p then false else negb (remote_exact skip (k_id k) (se_kid e))
        | _ => true
        end
    end.

  Definition profile_verify (client : string) (store : list (string * string * jwk))
             (e : sigentry) (p : string) : option jwk :=
    match profile_lookup store client (se_kid e) with
    | None => None
    | Some k => if verify k e p then Some k else None
    end.

  Definition keyset_verify (ks : keyset) (e : sigentry) (p : string) : option jwk :=
    match ks with
    | KSOpenID keys => openid_verify keys e p
    | KSRemote c s skip => remote_verify c s skip e p
    | KSProfile client store => profile_verify client store e p
    | KSStatic k => if verify k e p then Some k else None
    end.

  (* oidc.CheckSignature(token, payload:=parsed, supportedSigAlgs:=allowed, set:=ks);
     Ok carries the algorithm handed to SetSignatureAlgorithm *)
  Definition check_signature (allowed : list string) (ks : keyset) (t : token) (parsed : string)
    : result string :=
    match jose_parse (effective_algs allowed) t with
    | JErrAlg => Err ESigAlg
    | JErrParse => Err ESigParse
    | JOk sigs signed =>
        match sigs with
        | [] => Err ESigMissing
        | _ :: _ :: _ => Err ESigMultiple
        | [e] =>
            match keyset_verify ks e signed with
            | None => Err ESigInvalid
            | Some _ => if signed =s parsed then Ok (se_alg e) else Err ESigPayload
            end
        end
    end.
  (* One CheckSignature call on a remote key set whose cache is [cached] while
     the endpoint serves [served]: the new cache (updateKeys REPLACES it by a
     successful download) and whether a download succeeded. *)
  Definition remote_after (allowed : list string) (skip : bool) (cached : list jwk)
             (served : option (list jwk)) (t : token) : list jwk * bool :=
    match jose_parse (effective_algs allowed) t with
    | JOk [e] p =>
        if remote_needs_fetch cached skip e p
        then match served with Some l => (l, true) | None => (cached, false) end
        else (cached, false)
    | _ => (cached, false)
    end.

  (* a sequence of CheckSignature calls on ONE remote key set instance; before
     each call the endpoint may have changed what it serves (rotation, withdrawal) *)
  Record rstep := mkRStep { rs_served : option (list jwk); rs_tok : token; rs_parsed : string }.

  Fixpoint remote_run (allowed : list string) (skip : bool) (cached : list jwk) (steps : list rstep)
    : list (result string * bool) :=
    match steps with
    | [] => []
    | s :: r =>
        let st := remote_after allowed skip cached (rs_served s) (rs_tok s) in
        (check_signature allowed (KSRemote cached (rs_served s) skip) (rs_tok s) (rs_parsed s), snd st)
          :: remote_run allowed skip (fst st) r
    end.
End Verify.

(* ---- symbolic instance of the oracle, used to run the model on cases ---- *)
Definition sym_verify (k : jwk) (e : sigentry) (p : string) : bool :=
  match se_sig e with
  | SigBy m a pr pl => N.eqb m (k_mat k) && (a =s se_alg e) && (pr =s se_prot e) && (pl =s p)
  | SigJunk => false
  end.
