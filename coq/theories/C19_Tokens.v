(* C19: every flow that hands out a token, and the issuer inside the JWTs it hands out.
   Model only; proofs are in C19_proofs.v.

   Go side (pkg/op)                                         Gallina
   ---------------------------------------------------------------------------
   CodeExchange / LegacyServer.CodeExchange
     -> CreateTokenResponse                                 FCode
   RefreshTokenExchange / LegacyServer.RefreshToken
     -> CreateTokenResponse                                 FRefresh
   ClientCredentialsExchange / LegacyServer.ClientCredentialsExchange
     -> CreateClientCredentialsTokenResponse                FCC
   JWTProfile / LegacyServer.JWTProfile
     -> CreateJWTTokenResponse                              FBearer
   TokenExchange / LegacyServer.TokenExchange
     -> CreateTokenExchangeResponse (requested access /
        refresh / ID token)                                 FTEAccess FTERefresh FTEId
   DeviceAuthorization + DeviceAccessToken /
     LegacyServer.DeviceToken -> CreateDeviceTokenResponse  FDevice
   AuthorizeCallback -> AuthResponseToken
     -> CreateTokenResponse (response_type id_token /
        id_token token)                                     FImplicitId FImplicitTok
   CreateIDToken(ctx, IssuerFromContext(ctx), ..),
     CreateJWT(ctx, IssuerFromContext(ctx), ..)             token_issuer (C19_Discovery)
   client authentication in front of each of them
     (AuthorizeCodeClient, AuthorizeRefreshClient,
      AuthorizeClientCredentialsClient,
      AuthorizeTokenExchangeClient, ClientIDFromRequest +
      deviceClientAuthenticated; LegacyServer.VerifyClient
      + the webServer handlers)                             flow_client_ok

   A flow is run by a client of kind k that is registered for every grant and response type and
   sends its credentials the way it is registered (Basic header / form / assertion / client_id
   only); jwt = the client's access tokens (and those of the jwt-bearer grant) are JWTs. *)
From OIDC Require Import Lib C19_Discovery.

Inductive flow :=
| FCode | FRefresh | FCC | FBearer | FTEAccess | FTERefresh | FTEId | FDevice | FImplicitId | FImplicitTok.

Definition all_flows := [FCode; FRefresh; FCC; FBearer; FTEAccess; FTERefresh; FTEId; FDevice; FImplicitId; FImplicitTok].

(* the grant type a flow goes through (implicit: the authorization endpoint) *)
Definition grant_of (fl : flow) : grant :=
  match fl with
  | FCode => GCode
  | FRefresh => GRefresh
  | FCC => GCC
  | FBearer => GBearer
  | FTEAccess | FTERefresh | FTEId => GTE
  | FDevice => GDevice
  | FImplicitId | FImplicitTok => GImplicit
  end.

Definition ep_present (c : config) (n : epname) : bool :=
  match ep_of (c_eps c) n with EpNil => false | _ => true end.

(* the endpoints a flow walks through *)
Definition flow_endpoints (fl : flow) : list epname :=
  match fl with
  | FCode => [NAuth; NToken]
  | FRefresh => [NAuth; NToken]                     (* the refresh token comes from a code flow *)
  | FCC | FBearer => [NToken]
  | FTEAccess | FTERefresh | FTEId => [NAuth; NToken]   (* the subject token comes from a code flow *)
  | FDevice => [NDevice; NToken]
  | FImplicitId | FImplicitTok => [NAuth]
  end.

(* the client kind gets through the client authentication in front of the flow *)
Definition flow_client_ok (r : router) (c : config) (k : client_kind) (fl : flow) : bool :=
  match fl with
  | FCode | FRefresh => client_ok c k
  | FCC =>
      (* ClientCredentialsStorage.ClientCredentials wants the secret: secret-less kinds never pass *)
      match k with CBasic => true | CPost => f_post c | CPKJWT | CPublic => false end
  | FBearer => true                                  (* the assertion is the credential *)
  | FTEAccess | FTERefresh | FTEId =>
      match r with
      | RProvider =>
          (* ParseTokenExchangeRequest reads credentials from the Basic header only *)
          match k with CBasic => true | _ => false end
      | RLegacy =>
          (* VerifyClient, then tokenExchangeHandler refuses AuthMethodNone *)
          match k with CPublic => false | _ => client_ok c k end
      end
  | FDevice =>
      match r with
      | RProvider =>
          (* ClientIDFromRequest authenticates by assertion or Basic header only; a secret in the form
             leaves a post client unauthenticated, which deviceClientAuthenticated refuses *)
          match k with CBasic => true | CPost => false | CPKJWT => f_pkjwt c | CPublic => true end
      | RLegacy => client_ok c k
      end
  | FImplicitId | FImplicitTok => true               (* the authorization endpoint authenticates nobody *)
  end.

(* the configuration offers the flow *)
Definition flow_enabled (c : config) (fl : flow) : bool :=
  match fl with
  | FCode | FBearer | FImplicitId | FImplicitTok => true
  | FRefresh => f_refresh c
  | FCC => c_cc c
  | FTEAccess | FTERefresh | FTEId => c_te c
  | FDevice => c_dev c
  end.

Definition flow_ok (r : router) (c : config) (k : client_kind) (fl : flow) : bool :=
  forallb (ep_present c) (flow_endpoints fl) && flow_enabled c fl && flow_client_ok r c k fl.

(* the flow hands out an ID token (scope openid is always asked for) *)
Definition has_id_token (fl : flow) : bool :=
  match fl with
  | FCode | FRefresh | FDevice | FImplicitId | FImplicitTok | FTEId => true
  | FCC | FBearer | FTEAccess | FTERefresh => false
  end.

(* the flow hands out an access token *)
Definition has_access_token (fl : flow) : bool :=
  match fl with
  | FImplicitId | FTEId => false
  | _ => true
  end.

(* what a flow handed out: the iss claim of the ID token and of the access token if that is a JWT *)
Inductive flow_result :=
| FRNone                                            (* no token response *)
| FRIssued (id_iss at_iss : option string)
| FRPanic.

Definition flow_model (r : router) (c : config) (q : request) (k : client_kind) (jwt : bool) (fl : flow) : flow_result :=
  if flow_ok r c k fl then
    FRIssued (if has_id_token fl then Some (token_issuer r c q) else None)
             (if has_access_token fl && jwt then Some (token_issuer r c q) else None)
  else FRNone.

Definition flow_result_eqb (a b : flow_result) : bool :=
  match a, b with
  | FRNone, FRNone | FRPanic, FRPanic => true
  | FRIssued i1 a1, FRIssued i2 a2 => option_eqb String.eqb i1 i2 && option_eqb String.eqb a1 a2
  | _, _ => false
  end.
