(* C12: proofs about the claims-codec model (C12_Json, C12_Codec). *)
From OIDC Require Import Lib C12_Json C12_Codec.

(* ---------- strings ---------- *)
Lemma seqb_refl s : String.eqb s s = true.
Proof. apply String.eqb_refl. Qed.

Lemma seqb_eq a b : String.eqb a b = true <-> a = b.
Proof. apply String.eqb_eq. Qed.

Lemma seqb_neq a b : String.eqb a b = false <-> a <> b.
Proof. apply String.eqb_neq. Qed.

Lemma seqb_sym a b : String.eqb a b = String.eqb b a.
Proof. apply String.eqb_sym. Qed.

(* ---------- induction over json ---------- *)
Section JsonInd.
  Variable P : json -> Prop.
  Hypothesis Hnull : P JNull.
  Hypothesis Hbool : forall b, P (JBool b).
  Hypothesis Hnum : forall z f, P (JNum z f).
  Hypothesis Hstr : forall s, P (JStr s).
  Hypothesis Harr : forall l, Forall P l -> P (JArr l).
  Hypothesis Hobj : forall o, Forall (fun kv => P (snd kv)) o -> P (JObj o).

  Fixpoint json_ind' (j : json) : P j :=
    match j with
    | JNull => Hnull
    | JBool b => Hbool b
    | JNum z f => Hnum z f
    | JStr s => Hstr s
    | JArr l => Harr l ((fix go (l : list json) : Forall P l :=
                           match l with
                           | [] => Forall_nil _
                           | x :: r => Forall_cons _ (json_ind' x) (go r)
                           end) l)
    | JObj o => Hobj o ((fix go (o : list (string * json)) : Forall (fun kv => P (snd kv)) o :=
                           match o with
                           | [] => Forall_nil _
                           | (k, x) :: r => Forall_cons (k, x) (json_ind' x) (go r)
                           end) o)
    end.
End JsonInd.

Lemma json_eqb_refl : forall j, json_eqb j j = true.
Proof.
  induction j as [| b | z f | s | l IH | o IH] using json_ind'; cbn; try reflexivity.
  - destruct b; reflexivity.
  - rewrite Z.eqb_refl, seqb_refl. reflexivity.
  - apply seqb_refl.
  - induction IH as [| x r Hx _ IHr]; [reflexivity |]. rewrite Hx. exact IHr.
  - induction IH as [| [k x] r Hx _ IHr]; [reflexivity |]. cbn in Hx.
    rewrite seqb_refl, Hx. exact IHr.
Qed.

Lemma obj_eqb_refl o : obj_eqb o o = true.
Proof. apply (json_eqb_refl (JObj o)). Qed.

(* ---------- objects ---------- *)
Lemma lookup_oremove_same k o : lookup k (oremove k o) = None.
Proof.
  induction o as [| [k' v] r IH]; cbn; [reflexivity |].
  destruct (String.eqb k k') eqn:E; [exact IH |]. cbn. rewrite E. exact IH.
Qed.

Lemma lookup_oremove_other k k' o : k <> k' -> lookup k' (oremove k o) = lookup k' o.
Proof.
  intros Hne. induction o as [| [k0 v] r IH]; cbn; [reflexivity |].
  destruct (String.eqb k k0) eqn:E.
  - apply seqb_eq in E. subst k0.
    destruct (String.eqb k' k) eqn:E2; [apply seqb_eq in E2; congruence | exact IH].
  - cbn. rewrite IH. reflexivity.
Qed.

Lemma lookup_oinsert_same k v o : lookup k o = None -> lookup k (oinsert k v o) = Some v.
Proof.
  induction o as [| [k0 v0] r IH]; cbn; intros H.
  - rewrite seqb_refl. reflexivity.
  - destruct (String.eqb k k0) eqn:E; [discriminate |].
    destruct (String.ltb k k0); cbn.
    + rewrite seqb_refl. reflexivity.
    + rewrite E. apply IH, H.
Qed.

Lemma lookup_oinsert_other k k' v o : k <> k' -> lookup k' (oinsert k v o) = lookup k' o.
Proof.
  intros Hne. induction o as [| [k0 v0] r IH]; cbn.
  - destruct (String.eqb k' k) eqn:E; [apply seqb_eq in E; congruence | reflexivity].
  - destruct (String.ltb k k0); cbn.
    + destruct (String.eqb k' k) eqn:E; [apply seqb_eq in E; congruence | reflexivity].
    + rewrite IH. reflexivity.
Qed.

Lemma lookup_oset_same k v o : lookup k (oset k v o) = Some v.
Proof. unfold oset. apply lookup_oinsert_same, lookup_oremove_same. Qed.

Lemma lookup_oset_other k k' v o : k <> k' -> lookup k' (oset k v o) = lookup k' o.
Proof.
  intros H. unfold oset. rewrite lookup_oinsert_other by exact H.
  apply lookup_oremove_other, H.
Qed.

Lemma lookup_not_in k o : ~ In k (keys o) -> lookup k o = None.
Proof.
  induction o as [| [k0 v] r IH]; cbn; intros H; [reflexivity |].
  destruct (String.eqb k k0) eqn:E.
  - apply seqb_eq in E. subst. exfalso. apply H. now left.
  - apply IH. intro. apply H. now right.
Qed.

Lemma lookup_overlay k reg : forall cust,
  NoDup (keys reg) ->
  lookup k (overlay reg cust) =
  match lookup k reg with Some v => Some v | None => lookup k cust end.
Proof.
  unfold overlay. induction reg as [| [k0 v0] r IH]; intros cust Hnd; cbn; [reflexivity |].
  cbn in Hnd. inversion Hnd as [| x l Hnotin Hnd']; subst.
  rewrite IH by exact Hnd'.
  destruct (String.eqb k k0) eqn:E.
  - apply seqb_eq in E. subst k0. rewrite (lookup_not_in k r Hnotin).
    apply lookup_oset_same.
  - apply seqb_neq in E. destruct (lookup k r); [reflexivity |].
    apply lookup_oset_other. congruence.
Qed.

Lemma lookup_filter (P : string -> bool) k o :
  lookup k (filter (fun kv => P (fst kv)) o) = if P k then lookup k o else None.
Proof.
  induction o as [| [k0 v] r IH]; cbn [filter fst]; [now destruct (P k) |].
  destruct (P k0) eqn:E0; cbn [lookup]; destruct (String.eqb k k0) eqn:E.
  - apply seqb_eq in E. subst k0. now rewrite E0.
  - exact IH.
  - apply seqb_eq in E. subst k0. rewrite E0 in *. exact IH.
  - exact IH.
Qed.

Lemma lookup_merge k reg cust :
  NoDup (keys reg) ->
  lookup k (merge reg cust) =
  match lookup k reg with
  | Some v => Some v
  | None => if fold_variant (keys reg) k then None else lookup k cust
  end.
Proof.
  intros Hnd. unfold merge. rewrite lookup_overlay by exact Hnd.
  rewrite (lookup_filter (fun x => negb (fold_variant (keys reg) x))).
  destruct (fold_variant (keys reg) k); reflexivity.
Qed.

Lemma lookup_none_not_in k o : lookup k o = None -> ~ In k (keys o).
Proof.
  induction o as [| [k0 v] r IH]; cbn; [tauto |].
  destruct (String.eqb k k0) eqn:E; [discriminate |]. apply seqb_neq in E.
  intros H [Heq | Hin]; [congruence | now apply IH].
Qed.

Definition fold_distinctb (l : list string) : bool :=
  forallb (fun a => forallb (fun b => negb (fold_eq a b) || String.eqb a b) l) l.

Lemma fold_distinct_sound l a b :
  fold_distinctb l = true -> In a l -> In b l -> fold_eq a b = true -> a = b.
Proof.
  unfold fold_distinctb. intros H Ha Hb He.
  rewrite forallb_forall in H. specialize (H a Ha). rewrite forallb_forall in H.
  specialize (H b Hb). rewrite He in H. cbn in H. now apply seqb_eq.
Qed.

Lemma fold_variant_absent names ks k :
  fold_distinctb names = true -> (forall x, In x ks -> In x names) -> In k names ->
  ~ In k ks -> fold_variant ks k = false.
Proof.
  intros Hd Hsub Hk Hn. unfold fold_variant.
  destruct (existsb (fold_eq k) ks) eqn:E; [| reflexivity].
  apply existsb_exists in E as [r [Hr He]]. exfalso. apply Hn.
  rewrite (fold_distinct_sound names k r Hd Hk (Hsub r Hr) He). exact Hr.
Qed.

Lemma fold_variant_subset a b k :
  (forall x, In x a -> In x b) -> fold_variant b k = false -> fold_variant a k = false.
Proof.
  unfold fold_variant. intros Hsub Hb. destruct (existsb (fold_eq k) a) eqn:E; [| reflexivity].
  apply existsb_exists in E as [r [Hr He]].
  assert (existsb (fold_eq k) b = true) by (apply existsb_exists; exists r; auto). congruence.
Qed.

(* ---------- split / join ---------- *)
Lemma split_sp_nonempty s : split_sp s <> [].
Proof.
  induction s as [| c r IH]; cbn; [discriminate |].
  destruct (is_space c); [discriminate |]. destruct (split_sp r); discriminate.
Qed.

Lemma split_sp_space_free s : space_free s = true -> split_sp s = [s].
Proof.
  induction s as [| c r IH]; cbn; intros H; [reflexivity |].
  apply andb_true_iff in H as [H1 H2]. destruct (is_space c); [discriminate |].
  rewrite (IH H2). reflexivity.
Qed.

Lemma split_sp_app x r :
  space_free x = true ->
  split_sp (String.append x (String " "%char r)) = x :: split_sp r.
Proof.
  induction x as [| c x IH]; cbn; intros H; [reflexivity |].
  apply andb_true_iff in H as [H1 H2]. destruct (is_space c); [discriminate |].
  rewrite (IH H2). reflexivity.
Qed.

Lemma split_join l :
  l <> [] -> forallb space_free l = true -> split_sp (join_sp l) = l.
Proof.
  induction l as [| x r IH]; intros Hne H; [congruence |].
  cbn in H. apply andb_true_iff in H as [Hx Hr].
  destruct r as [| y r'].
  - cbn. apply split_sp_space_free, Hx.
  - change (join_sp (x :: y :: r')) with (String.append x (String " "%char (join_sp (y :: r')))).
    rewrite split_sp_app by exact Hx. rewrite IH; [reflexivity | discriminate | exact Hr].
Qed.

(* ---------- the result monad ---------- *)
Lemma mapM_combine_ext {A B C} (F : A -> res C) (G : A * B -> res C) :
  forall (l : list A) (m : list B),
  List.length l = List.length m ->
  (forall a b, In (a, b) (combine l m) -> F a = G (a, b)) ->
  mapM F l = mapM G (combine l m).
Proof.
  induction l as [| a l IH]; intros [| b m] Hlen H; cbn in *; try discriminate; [reflexivity |].
  rewrite (H a b) by now left.
  rewrite (IH m); [reflexivity | congruence |]. intros. apply H. now right.
Qed.

Lemma all_strs_map l : all_strs (map JStr l) = Some l.
Proof. induction l as [| x r IH]; cbn; [reflexivity | rewrite IH; reflexivity]. Qed.

(* ---------- registered pairs ---------- *)
Lemma reg_pairs_keys sch : forall vals k,
  In k (keys (reg_pairs sch vals)) -> In k (map fname sch).
Proof.
  induction sch as [| f s IH]; intros [| v r] k; cbn; try tauto.
  destruct (marshal_field f v); cbn.
  - intros [H | H]; [now left | right; eapply IH; eauto].
  - intros H. right. eapply IH; eauto.
Qed.

Lemma reg_pairs_nodup sch : forall vals,
  NoDup (map fname sch) -> NoDup (keys (reg_pairs sch vals)).
Proof.
  induction sch as [| f s IH]; intros [| v r] H; cbn; try constructor.
  cbn in H. inversion H as [| x l Hn Hd]; subst.
  destruct (marshal_field f v); cbn; [| now apply IH].
  constructor; [| now apply IH]. intro Hin. apply Hn. eapply reg_pairs_keys; eauto.
Qed.

Lemma lookup_reg_pairs sch : forall vals f v,
  NoDup (map fname sch) -> In (f, v) (combine sch vals) ->
  lookup (fname f) (reg_pairs sch vals) = marshal_field f v.
Proof.
  induction sch as [| f0 s IH]; intros [| v0 r] f v Hnd Hin; cbn in *; try tauto.
  inversion Hnd as [| x l Hn Hd]; subst.
  destruct Hin as [Heq | Hin].
  - inversion Heq; subst. destruct (marshal_field f v) eqn:E; cbn.
    + rewrite seqb_refl. reflexivity.
    + apply lookup_not_in. intro Hk. apply Hn. eapply reg_pairs_keys; eauto.
  - assert (Hne : fname f <> fname f0).
    { intro Heq. apply Hn. rewrite <- Heq. apply in_map_iff. exists f. split; [reflexivity |].
      eapply in_combine_l; eauto. }
    destruct (marshal_field f0 v0); cbn.
    + apply seqb_neq in Hne. rewrite Hne. now apply IH.
    + now apply IH.
Qed.

Lemma lookup_reg_pairs_none sch vals k :
  ~ In k (map fname sch) -> lookup k (reg_pairs sch vals) = None.
Proof.
  intros H. apply lookup_not_in. intro Hk. apply H. eapply reg_pairs_keys; eauto.
Qed.

(* what the encoded object holds under a registered name *)
Lemma lookup_encode_reg sch vals claims f v :
  NoDup (map fname sch) -> fold_distinctb (map fname sch) = true ->
  In (f, v) (combine sch vals) ->
  lookup (fname f) (encode sch vals claims) =
  match marshal_field f v with Some j => Some j | None => lookup (fname f) claims end.
Proof.
  intros Hnd Hfd Hin. unfold encode.
  rewrite lookup_merge by (apply reg_pairs_nodup, Hnd).
  rewrite (lookup_reg_pairs sch vals f v Hnd Hin).
  destruct (marshal_field f v) eqn:Hm; [reflexivity |].
  rewrite (fold_variant_absent (map fname sch)); [reflexivity | exact Hfd | | |].
  - intros x. apply reg_pairs_keys.
  - apply in_map_iff. exists f. split; [reflexivity | eapply in_combine_l; eauto].
  - apply lookup_none_not_in. rewrite (lookup_reg_pairs sch vals f v Hnd Hin). exact Hm.
Qed.

(* ... and under a name that is no case variant of a registered name *)
Lemma lookup_encode_custom sch vals claims k :
  NoDup (map fname sch) -> fold_variant (map fname sch) k = false ->
  lookup k (encode sch vals claims) = lookup k claims.
Proof.
  intros Hnd Hk. unfold encode.
  rewrite lookup_merge by (apply reg_pairs_nodup, Hnd).
  assert (Hv : fold_variant (keys (reg_pairs sch vals)) k = false)
    by (eapply fold_variant_subset; [apply reg_pairs_keys | exact Hk]).
  rewrite Hv.
  destruct (lookup k (reg_pairs sch vals)) as [j |] eqn:E; [| reflexivity].
  exfalso. unfold fold_variant in Hv.
  assert (In k (keys (reg_pairs sch vals))) as Hin.
  { clear -E. induction (reg_pairs sch vals) as [| [k0 v0] r IH]; cbn in *; [discriminate |].
    destruct (String.eqb k k0) eqn:Ek; [apply seqb_eq in Ek; now left | right; now apply IH]. }
  assert (existsb (fold_eq k) (keys (reg_pairs sch vals)) = true)
    by (apply existsb_exists; exists k; split; [exact Hin | apply seqb_refl]).
  congruence.
Qed.

(* C12_registered_wins *)
Theorem registered_wins sch vals claims f v j :
  NoDup (map fname sch) -> In (f, v) (combine sch vals) ->
  marshal_field f v = Some j ->
  lookup (fname f) (encode sch vals claims) = Some j.
Proof.
  intros Hnd Hin Hm. unfold encode.
  rewrite lookup_merge by (apply reg_pairs_nodup, Hnd).
  rewrite (lookup_reg_pairs sch vals f v Hnd Hin), Hm. reflexivity.
Qed.

Lemma nodupb_sound l : nodupb l = true -> NoDup l.
Proof.
  induction l as [| x r IH]; cbn; intros H; constructor.
  - apply andb_true_iff in H as [H _]. intro Hin. apply negb_true_iff in H.
    unfold string_in in H. assert (existsb (String.eqb x) r = true) as C.
    { apply existsb_exists. exists x. split; [exact Hin | apply seqb_refl]. }
    congruence.
  - apply andb_true_iff in H as [_ H]. now apply IH.
Qed.

Lemma schema_nodup t : NoDup (map fname (schema_of t)).
Proof. apply nodupb_sound. destruct t; vm_compute; reflexivity. Qed.

Lemma schema_fold_distinct t : fold_distinctb (map fname (schema_of t)) = true.
Proof. destruct t; vm_compute; reflexivity. Qed.

(* ---------- actors ---------- *)
Section ActorInd.
  Variable P : actor -> Prop.
  Definition opt_P (o : option actor) : Prop := match o with Some x => P x | None => True end.
  Hypothesis H : forall act iss sub cl, opt_P act -> P (Actor act iss sub cl).
  Fixpoint actor_ind' (a : actor) : P a :=
    match a with
    | Actor act iss sub cl =>
        H act iss sub cl (match act as o return opt_P o with
                          | Some a' => actor_ind' a'
                          | None => I
                          end)
    end.
End ActorInd.

Lemma dec_actor_obj o :
  dec_actor (JObj o) =
  bind (dec_opt dec_actor_member None (lookup "act" o)) (fun a =>
  bind (dec_opt dec_str "" (lookup "iss" o)) (fun i =>
  bind (dec_opt dec_str "" (lookup "sub" o)) (fun s => Ok (Actor a i s o)))).
Proof.
  cbn [dec_actor]. f_equal.
  induction o as [| [k v] r IH]; [reflexivity |]. cbn [lookup].
  destruct (String.eqb "act" k); [destruct v; reflexivity | exact IH].
Qed.

Definition actor_pairs (act : option actor) (iss sub : string) : obj :=
  (match act with Some a' => [("act", enc_actor a')] | None => [] end)
  ++ str_pair "iss" iss ++ str_pair "sub" sub.

Lemma enc_actor_eq act iss sub cl :
  enc_actor (Actor act iss sub cl) = JObj (merge (actor_pairs act iss sub) cl).
Proof. reflexivity. Qed.

Lemma actor_pairs_nodup act iss sub : NoDup (keys (actor_pairs act iss sub)).
Proof.
  unfold actor_pairs, str_pair.
  destruct act; destruct (String.eqb iss ""); destruct (String.eqb sub ""); cbn;
    repeat (constructor; cbn; try (intuition discriminate)).
Qed.

Lemma actor_pairs_act act iss sub :
  lookup "act" (actor_pairs act iss sub) =
  match act with Some a' => Some (enc_actor a') | None => None end.
Proof.
  unfold actor_pairs, str_pair.
  destruct act; destruct (String.eqb iss ""); destruct (String.eqb sub ""); reflexivity.
Qed.

Lemma actor_pairs_iss act iss sub :
  lookup "iss" (actor_pairs act iss sub) = if String.eqb iss "" then None else Some (JStr iss).
Proof.
  unfold actor_pairs, str_pair.
  destruct act; destruct (String.eqb iss ""); destruct (String.eqb sub ""); reflexivity.
Qed.

Lemma actor_pairs_sub act iss sub :
  lookup "sub" (actor_pairs act iss sub) = if String.eqb sub "" then None else Some (JStr sub).
Proof.
  unfold actor_pairs, str_pair.
  destruct act; destruct (String.eqb iss ""); destruct (String.eqb sub ""); reflexivity.
Qed.

Lemma enc_actor_is_obj a : exists o, enc_actor a = JObj o.
Proof. destruct a. eexists. apply enc_actor_eq. Qed.

Lemma actor_pairs_keys act iss sub k : In k (keys (actor_pairs act iss sub)) -> In k actor_names.
Proof.
  unfold actor_pairs, str_pair, actor_names.
  destruct act; destruct (String.eqb iss ""); destruct (String.eqb sub ""); cbn; intuition.
Qed.

Lemma lookup_merge_actor k act iss sub cl :
  In k actor_names ->
  lookup k (merge (actor_pairs act iss sub) cl) =
  match lookup k (actor_pairs act iss sub) with Some v => Some v | None => lookup k cl end.
Proof.
  intros Hk. rewrite lookup_merge by apply actor_pairs_nodup.
  destruct (lookup k (actor_pairs act iss sub)) eqn:E; [reflexivity |].
  rewrite (fold_variant_absent actor_names); [reflexivity | vm_compute; reflexivity | | exact Hk |].
  - intros x. apply actor_pairs_keys.
  - apply lookup_none_not_in, E.
Qed.

Lemma keep_or_read_lookup s k R cl :
  lookup k R = (if String.eqb s "" then None else Some (JStr s)) ->
  dec_opt dec_str "" (match lookup k R with Some v => Some v | None => lookup k cl end)
  = keep_or_read s (lookup k cl).
Proof.
  intros ->. unfold keep_or_read. destruct (String.eqb s ""); reflexivity.
Qed.

(* ActorClaims: Unmarshal (Marshal a) *)
Theorem actor_roundtrip : forall a, dec_actor (enc_actor a) = norm_actor a.
Proof.
  induction a as [act iss sub cl IH] using actor_ind'.
  cbn [norm_actor]. rewrite enc_actor_eq, dec_actor_obj.
  rewrite !lookup_merge_actor by (unfold actor_names; cbn; tauto).
  rewrite (keep_or_read_lookup iss "iss") by apply actor_pairs_iss.
  rewrite (keep_or_read_lookup sub "sub") by apply actor_pairs_sub.
  rewrite actor_pairs_act.
  destruct act as [a' |]; [| reflexivity].
  destruct (enc_actor_is_obj a') as [o' Ho']. cbn [dec_opt].
  unfold dec_actor_member at 1. rewrite Ho'. rewrite <- Ho', IH. reflexivity.
Qed.

(* ---------- one member ---------- *)
Lemma mapM_strs l :
  mapM (fun e => match e with JStr s => Ok s | JNull => Ok "" | _ => Err end) (map JStr l) = Ok l.
Proof. induction l as [| x r IH]; cbn; [reflexivity | rewrite IH; reflexivity]. Qed.

Lemma lookup_app k a b :
  lookup k (a ++ b) = match lookup k a with Some v => Some v | None => lookup k b end.
Proof.
  induction a as [| [k0 v] r IH]; cbn; [reflexivity |]. destruct (String.eqb k k0); [reflexivity | exact IH].
Qed.

Lemma dec_str_pair k k' s :
  lookup k (str_pair k' s) = if String.eqb k k' then (if String.eqb s "" then None else Some (JStr s)) else None.
Proof. unfold str_pair. destruct (String.eqb s ""); cbn; destruct (String.eqb k k'); reflexivity. Qed.

Lemma dec_addr_obj a : dec_addr (addr_obj a) = Ok a.
Proof.
  destruct a as [f s l r p c]. unfold dec_addr, addr_obj. cbn [a_formatted a_street a_locality a_region a_postal a_country].
  rewrite !lookup_app, !dec_str_pair. cbn.
  destruct (String.eqb f "") eqn:Ef; destruct (String.eqb s "") eqn:Es;
  destruct (String.eqb l "") eqn:El; destruct (String.eqb r "") eqn:Er;
  destruct (String.eqb p "") eqn:Ep; destruct (String.eqb c "") eqn:Ec; cbn;
  repeat match goal with H : String.eqb _ "" = true |- _ => apply seqb_eq in H; subst end;
  reflexivity.
Qed.

Section Fields.
  Variable rfc : string -> option Z.
  Variable lt : string -> lres.
  Variable lp : string -> lres.

  Lemma dec_marshal f v j :
    wf_field lt f v = true -> marshal_field f v = Some j ->
    dec_field rfc lt lp (fkind f) j = norm_val v.
  Proof.
    destruct f as [n k om]. unfold wf_field, marshal_field. cbn [fkind fomit].
    intros Hwf Hm.
    destruct (om && is_empty v) eqn:Hom; [discriminate |]. inversion Hm; subst j; clear Hm.
    destruct k, v; try discriminate Hwf; cbn.
    - reflexivity.
    - reflexivity.
    - destruct o as [l |]; cbn; [rewrite all_strs_map |]; reflexivity.
    - destruct o as [l |]; cbn; [rewrite mapM_strs |]; reflexivity.
    - apply andb_true_iff in Hwf as [Ho Hsf]. subst om. cbn in Hom.
      destruct o as [[| x r] |]; try discriminate Hom.
      rewrite split_join; [reflexivity | discriminate | exact Hsf].
    - reflexivity.
    - destruct b; reflexivity.
    - destruct o as [c |]; [| reflexivity].
      destruct (String.eqb c "und") eqn:Eu; [reflexivity |]. cbn in Hwf.
      apply andb_true_iff in Hwf as [Hne Hlt]. apply negb_true_iff in Hne. cbn. rewrite Hne.
      destruct (lt c) as [c' | |]; try discriminate. apply seqb_eq in Hlt. subst c'. reflexivity.
    - destruct o as [a |]; [| reflexivity].
      destruct (enc_actor_is_obj a) as [o' Ho']. rewrite Ho', <- Ho', actor_roundtrip. reflexivity.
    - destruct o as [a |]; [| reflexivity]. cbn. rewrite dec_addr_obj. reflexivity.
    - reflexivity.
  Qed.

  Lemma vals_wf_length sch : forall vals, vals_wf lt sch vals = true -> List.length sch = List.length vals.
  Proof.
    induction sch as [| f s IH]; intros [| v r] H; cbn in *; try discriminate; [reflexivity |].
    apply andb_true_iff in H as [_ H]. f_equal. now apply IH.
  Qed.

  Lemma vals_wf_in sch : forall vals f v,
    vals_wf lt sch vals = true -> In (f, v) (combine sch vals) -> wf_field lt f v = true.
  Proof.
    induction sch as [| f0 s IH]; intros [| v0 r] f v H Hin; cbn in *; try tauto.
    apply andb_true_iff in H as [H1 H2]. destruct Hin as [Heq | Hin].
    - inversion Heq; subst. exact H1.
    - eapply IH; eauto.
  Qed.

  (* C12_roundtrip, for every schema without a repeated name *)
  Theorem roundtrip sch vals claims :
    NoDup (map fname sch) -> fold_distinctb (map fname sch) = true -> vals_wf lt sch vals = true ->
    decode rfc lt lp sch (JObj (encode sch vals claims)) = norm rfc lt lp sch vals claims.
  Proof.
    intros Hnd Hfd Hwf. unfold decode, norm.
    rewrite (mapM_combine_ext (dec_reg rfc lt lp (encode sch vals claims)) (norm_field rfc lt lp claims) sch vals);
      [reflexivity | now apply vals_wf_length |].
    intros f v Hin. unfold dec_reg, norm_field.
    rewrite (lookup_encode_reg sch vals claims f v Hnd Hfd Hin).
    destruct (marshal_field f v) as [j |] eqn:Hm.
    - apply dec_marshal; [eapply vals_wf_in; eauto | exact Hm].
    - destruct (lookup (fname f) claims); reflexivity.
  Qed.
End Fields.

(* ---------- never Panic (model of the code with fix F01) ---------- *)
Lemma mapM_no_panic {A B} (f : A -> res B) l :
  (forall x, f x <> Panic) -> mapM f l <> Panic.
Proof.
  intros Hf. induction l as [| x r IH]; cbn; [discriminate |].
  specialize (Hf x). destruct (f x); cbn; try congruence. destruct (mapM f r); cbn; congruence.
Qed.

Lemma dec_str_no_panic o : dec_opt dec_str "" o <> Panic.
Proof. destruct o as [[] |]; cbn; discriminate. Qed.

Lemma bind_no_panic {A B} (r : res A) (f : A -> res B) :
  r <> Panic -> (forall a, f a <> Panic) -> bind r f <> Panic.
Proof. intros Hr Hf. destruct r; cbn; [apply Hf | discriminate | congruence]. Qed.

Lemma dec_actor_no_panic : forall j, dec_actor j <> Panic.
Proof.
  induction j as [| b | z f | s | l IH | ob IH] using json_ind'; try discriminate.
  rewrite dec_actor_obj. apply bind_no_panic.
  - destruct (lookup "act" ob) as [j' |] eqn:E; cbn; [| discriminate].
    assert (Hj : dec_actor j' <> Panic).
    { clear -IH E. induction IH as [| [k0 v0] r Hx _ IHr]; cbn [lookup] in E; [discriminate |].
      destruct (String.eqb "act" k0); [inversion E; subst; exact Hx | now apply IHr]. }
    unfold dec_actor_member. destruct j'; try discriminate.
    apply bind_no_panic; [exact Hj | discriminate].
  - intros a. apply bind_no_panic; [apply dec_str_no_panic |]. intros i.
    apply bind_no_panic; [apply dec_str_no_panic | discriminate].
Qed.

Lemma dec_addr_no_panic o : dec_addr o <> Panic.
Proof.
  unfold dec_addr.
  repeat (apply bind_no_panic; [apply dec_str_no_panic | intros ?]). discriminate.
Qed.

Section NoPanic.
  Variable rfc : string -> option Z.
  Variable lt : string -> lres.
  Variable lp : string -> lres.

  Theorem dec_field_no_panic k j : dec_field rfc lt lp k j <> Panic.
  Proof.
    destruct k; cbn [dec_field].
    - destruct j; cbn; discriminate.
    - destruct j; try discriminate. destruct (rfc s); discriminate.
    - destruct j; try discriminate. destruct (all_strs l); discriminate.
    - destruct j; try discriminate. apply bind_no_panic; [| discriminate].
      apply mapM_no_panic. intros []; discriminate.
    - destruct j; discriminate.
    - destruct j; discriminate.
    - destruct j; try discriminate. destruct b; discriminate.
    - destruct j; try discriminate. destruct (String.eqb s ""); [discriminate |].
      destruct (lt s); discriminate.
    - destruct j; try discriminate. destruct (all_strs l); discriminate.
    - destruct j; try discriminate. apply bind_no_panic; [apply dec_actor_no_panic | discriminate].
    - destruct j; try discriminate. apply bind_no_panic; [apply dec_addr_no_panic | discriminate].
    - destruct j; discriminate.
  Qed.

  Theorem decode_no_panic sch j : decode rfc lt lp sch j <> Panic.
  Proof.
    destruct j as [| | | | | ob]; cbn; try discriminate. apply bind_no_panic; [| discriminate].
    apply mapM_no_panic. intros fd. unfold dec_reg.
    destruct (lookup (fname fd) ob); [apply dec_field_no_panic | discriminate].
  Qed.

  (* ---------- the documented tolerant forms ---------- *)
  Lemma tol_aud_string s : dec_field rfc lt lp KAud (JStr s) = Ok (VStrs (Some [s])).
  Proof. reflexivity. Qed.

  Lemma tol_aud_array l : dec_field rfc lt lp KAud (JArr (map JStr l)) = Ok (VStrs (Some l)).
  Proof. cbn. now rewrite all_strs_map. Qed.

  Lemma tol_time_number z : dec_field rfc lt lp KTime (JNum z "") = Ok (VTime z).
  Proof. reflexivity. Qed.

  Lemma tol_time_rfc3339 s z : rfc s = Some z -> dec_field rfc lt lp KTime (JStr s) = Ok (VTime z).
  Proof. intros H. cbn. now rewrite H. Qed.

  Lemma tol_bool_string : dec_field rfc lt lp KBoolS (JStr "true") = Ok (VBool true)
                          /\ dec_field rfc lt lp KBoolS (JBool true) = Ok (VBool true).
  Proof. split; reflexivity. Qed.

  Lemma tol_locales l :
    l <> [] -> forallb space_free l = true ->
    dec_field rfc lt lp KLocales (JStr (join_sp l)) = dec_field rfc lt lp KLocales (JArr (map JStr l))
    /\ dec_field rfc lt lp KLocales (JArr (map JStr l)) = Ok (VStrs (Some (parse_locales lp l))).
  Proof.
    intros Hne Hsf. cbn. rewrite all_strs_map, split_join by assumption. split; reflexivity.
  Qed.

  Lemma tol_scope l :
    l <> [] -> forallb space_free l = true ->
    dec_field rfc lt lp KSDA (JStr (join_sp l)) = Ok (VStrs (Some l)).
  Proof. intros Hne Hsf. cbn. now rewrite split_join. Qed.
End NoPanic.

(* the unfixed Audience decoder (unchecked type assertion) does panic: F01 *)
Lemma unfixed_audience_panics : dec_aud_unfixed (JArr [JStr "a"; JNum 1 ""]) = Panic.
Proof. reflexivity. Qed.
