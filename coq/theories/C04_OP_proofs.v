(* C04 / C07: lemmas about the machine of C04_OP: list helpers, what one step can
   do to the state (the [trans] case split that makes the router disappear),
   reachability and the history invariants used by C04_proofs / C07_proofs. *)
From OIDC Require Import Lib C04_OP C04_Ledger.

(* ---------------------------------------------------------------- lists *)
Lemma find_filter_keep {A} (f p : A -> bool) l :
  (forall x, f x = true -> p x = true) -> find f (filter p l) = find f l.
Proof.
  intros Hfp. induction l as [|a l IH]; cbn; [reflexivity|].
  destruct (p a) eqn:Hp; cbn.
  - destruct (f a); [reflexivity | exact IH].
  - destruct (f a) eqn:Hf; [rewrite (Hfp a Hf) in Hp; discriminate | exact IH].
Qed.

Lemma find_filter_drop {A} (f p : A -> bool) l :
  (forall x, f x = true -> p x = false) -> find f (filter p l) = None.
Proof.
  intros Hfp. induction l as [|a l IH]; cbn; [reflexivity|].
  destruct (p a) eqn:Hp; cbn; [|exact IH].
  destruct (f a) eqn:Hf; [rewrite (Hfp a Hf) in Hp; discriminate | exact IH].
Qed.

Lemma find_map_same {A} (f : A -> bool) (g : A -> A) l :
  (forall x, f (g x) = f x) -> find f (map g l) = option_map g (find f l).
Proof.
  intros Hg. induction l as [|a l IH]; cbn; [reflexivity|].
  rewrite Hg. destruct (f a); [reflexivity | exact IH].
Qed.

Lemma lookup_in c l n : lookup c l = Some n -> In (c, n) l.
Proof.
  induction l as [|[k v] l IH]; cbn; [discriminate|].
  destruct (Nat.eqb k c) eqn:E.
  - intros [= <-]. apply Nat.eqb_eq in E. subst. now left.
  - intro Hl. right. now apply IH.
Qed.

Lemma in_lookup c l n :
  In (c, n) l -> (forall a b b', In (a, b) l -> In (a, b') l -> b = b') -> lookup c l = Some n.
Proof.
  intros Hin Hf. induction l as [|[k v] l IH]; [contradiction|]. cbn.
  destruct (Nat.eqb k c) eqn:E.
  - apply Nat.eqb_eq in E. subst k. f_equal. apply (Hf c); [now left | exact Hin].
  - destruct Hin as [[= -> ->]|Hin]; [rewrite Nat.eqb_refl in E; discriminate|].
    apply IH; [exact Hin|]. intros a b b' H1 H2. apply (Hf a); now right.
Qed.

Lemma string_in_In x l : string_in x l = true <-> In x l.
Proof.
  unfold string_in. rewrite existsb_exists. split.
  - intros [y [Hy E]]. apply String.eqb_eq in E. now subst.
  - intro Hin. exists x. split; [exact Hin | apply String.eqb_refl].
Qed.

Lemma subset_spec a b : subset a b = true <-> (forall x, In x a -> In x b).
Proof.
  unfold subset. rewrite forallb_forall. split; intros Hs x Hx.
  - apply string_in_In. now apply Hs.
  - apply string_in_In. now apply Hs.
Qed.

Lemma subset_refl a : subset a a = true.
Proof. apply subset_spec. auto. Qed.

Lemma subset_trans a b c : subset a b = true -> subset b c = true -> subset a c = true.
Proof. rewrite !subset_spec. auto. Qed.

Lemma narrowed_subset req g sc : narrowed req g = Some sc -> subset sc g = true /\ subset req g = true.
Proof.
  unfold narrowed. destruct req as [|x req]; cbn [is_nil].
  - intros [= <-]. split; [apply subset_refl | reflexivity].
  - destruct (subset (x :: req) g) eqn:E; [|discriminate]. intros [= <-]. now split.
Qed.

Lemma nat_in_In n l : nat_in n l = true <-> In n l.
Proof.
  unfold nat_in. rewrite existsb_exists. split.
  - intros [y [Hy E]]. apply Nat.eqb_eq in E. now subst.
  - intro Hin. exists n. split; [exact Hin | apply Nat.eqb_refl].
Qed.

Lemma app_snoc_split {A} (h' : list A) e' h1 e h2 :
  h' ++ [e'] = h1 ++ e :: h2 ->
  (h2 = [] /\ h1 = h' /\ e = e') \/ (exists h2', h2 = h2' ++ [e'] /\ h' = h1 ++ e :: h2').
Proof.
  revert h'. induction h1 as [|a h1 IH]; intros h' Heq.
  - destruct h' as [|b h']; cbn in Heq.
    + inversion Heq; subst. left. auto.
    + inversion Heq; subst. right. exists h'. auto.
  - destruct h' as [|b h']; cbn in Heq.
    + inversion Heq as [[E1 E2]]. destruct h1; discriminate.
    + inversion Heq as [[E1 E2]]. subst b. destruct (IH _ E2) as [[-> [-> ->]] | [h2' [-> ->]]].
      * left. auto.
      * right. exists h2'. auto.
Qed.

(* ---------------------------------------------------------------- one step *)
Section P.
Variable H : string -> string.
Variable cf : cfg.

Lemma find_client_id id c : find_client cf id = Some c -> c_id c = id /\ find_client cf (c_id c) = Some c.
Proof.
  intro Hf. pose proof Hf as Hf'. unfold find_client in Hf. apply find_some in Hf as [_ E].
  apply String.eqb_eq in E. subst. auto.
Qed.

Lemma secret_ok_eq c sec : secret_ok cf c sec = None -> String.eqb sec (c_secret c) = true.
Proof.
  unfold secret_ok. destruct (match c_auth c with AM_Post => negb (f_post cf) | _ => false end); [discriminate|].
  destruct (String.eqb sec ""); [discriminate|].
  destruct (String.eqb sec (c_secret c)); [reflexivity | discriminate].
Qed.

Lemma assertion_client_inl v c :
  assertion_client cf v = inl c -> exists iss, v = Some iss /\ find_client cf iss = Some c /\ c_auth c = AM_PKJWT.
Proof.
  unfold assertion_client. destruct v as [iss|]; [|discriminate].
  destruct (find_client cf iss) as [c'|] eqn:Hf; [|discriminate].
  destruct (c_auth c') eqn:Ha; try discriminate. intros [= <-]. eauto.
Qed.

Lemma assertion_proves cr v c :
  cr_assert cr = Some v ->
  assertion_client cf v = inl c -> find_client cf (c_id c) = Some c /\ cred_proves cf cr (c_id c) = true /\ is_public c = false.
Proof.
  intros Hcr Ha. apply assertion_client_inl in Ha as [iss [-> [Hf Hauth]]].
  apply find_client_id in Hf as [Hid Hf]. split; [exact Hf|].
  unfold cred_proves, is_public. rewrite Hf, Hauth, Hcr. subst iss. split; [apply String.eqb_refl | reflexivity].
Qed.

(* without an assertion, the parsed (id, secret) resolved to client c (+ secret unless public) *)
Lemma presented_proves cr id sec c :
  cr_assert cr = None -> cred_id_sec cr = (id, sec) ->
  find_client cf id = Some c ->
  (c_auth c = AM_None \/ ((c_auth c = AM_Basic \/ c_auth c = AM_Post \/ c_auth c = AM_Other) /\ String.eqb sec (c_secret c) = true)) ->
  cred_proves cf cr (c_id c) = true.
Proof.
  intros Hna Hcs Hf Hk. apply find_client_id in Hf as [Hid Hf]. unfold cred_proves. rewrite Hf.
  assert (Hp : presented cr = Some (id, sec)).
  { unfold presented. rewrite Hna. unfold cred_id_sec in Hcs. now rewrite Hcs. }
  rewrite Hp, Hid, String.eqb_refl.
  destruct Hk as [-> | [[-> | [-> | ->]] ->]]; reflexivity.
Qed.

(* a client registered with an auth method the library does not name is authenticated by its
   secret and by nothing else *)
Lemma cred_proves_other cr id c :
  find_client cf id = Some c -> c_auth c = AM_Other -> cred_proves cf cr id = true ->
  cr_assert cr = None /\ cred_id_sec cr = (id, c_secret c).
Proof.
  intros Hf Ha. unfold cred_proves, presented, cred_id_sec. rewrite Hf, Ha.
  destruct (cr_assert cr); [discriminate|]. intro Hp. split; [reflexivity|].
  destruct (cr_basic cr) as [[i s]|]; apply andb_true_iff in Hp as [E1 E2];
    apply String.eqb_eq in E1, E2; cbn in *; congruence.
Qed.

Lemma prov_code_client_inl q cr c :
  prov_code_client cf q cr = inl c ->
  find_client cf (c_id c) = Some c /\ cred_proves cf cr (c_id c) = true /\ (is_public c = true -> q_chal q <> None).
Proof.
  unfold prov_code_client.
  destruct (cr_assert cr) as [v|] eqn:Hcr.
  { destruct (f_pkjwt cf); [|discriminate]. intro Ha. apply (assertion_proves cr) in Ha as [Hf [Hp Hpub]]; auto.
    repeat split; auto. rewrite Hpub. discriminate. }
  destruct (cred_id_sec cr) as [id sec] eqn:Hcs.
  destruct (find_client cf id) as [c'|] eqn:Hf; [|discriminate].
  pose proof (proj2 (find_client_id _ _ Hf)) as Hf2.
  destruct (c_auth c') eqn:Hauth; try discriminate.
  1,2,3: destruct (secret_ok cf c' sec) eqn:Hs; [discriminate|]; intros [= <-]; apply secret_ok_eq in Hs;
       split; [exact Hf2|]; split;
       [eapply presented_proves; [exact Hcr | exact Hcs | exact Hf | right; split; [tauto | exact Hs]]
       | unfold is_public; rewrite Hauth; discriminate].
  destruct (q_chal q) eqn:Hq; [|discriminate]. intros [= <-]. split; [exact Hf2|]. split;
    [eapply presented_proves; [exact Hcr | exact Hcs | exact Hf | now left] | discriminate].
Qed.

Lemma legacy_client_inl cr c :
  legacy_client cf cr = inl c -> find_client cf (c_id c) = Some c /\ cred_proves cf cr (c_id c) = true.
Proof.
  unfold legacy_client.
  destruct (cr_assert cr) as [v|] eqn:Hcr.
  { destruct (f_pkjwt cf); [|discriminate]. intro Ha. apply (assertion_proves cr) in Ha as [Hf [Hp _]]; auto. }
  destruct (cred_id_sec cr) as [id sec] eqn:Hcs.
  destruct (String.eqb id ""); [discriminate|].
  destruct (find_client cf id) as [c'|] eqn:Hf; [|discriminate].
  pose proof (proj2 (find_client_id _ _ Hf)) as Hf2.
  destruct (c_auth c') eqn:Hauth; try discriminate.
  1,2,3: destruct (secret_ok cf c' sec) eqn:Hs; [discriminate|]; intros [= <-]; apply secret_ok_eq in Hs;
       split; [exact Hf2|];
       eapply presented_proves; [exact Hcr | exact Hcs | exact Hf | right; split; [tauto | exact Hs]].
  intros [= <-]. split; [exact Hf2|].
  eapply presented_proves; [exact Hcr | exact Hcs | exact Hf | now left].
Qed.

Lemma prov_refresh_client_inl s cr c :
  prov_refresh_client cf s cr = inl c ->
  find_client cf (c_id c) = Some c /\ cred_proves cf cr (c_id c) = true /\ has_refresh s c = true.
Proof.
  unfold prov_refresh_client.
  destruct (cr_assert cr) as [v|] eqn:Hcr.
  { destruct (f_pkjwt cf); [|discriminate]. destruct (assertion_client cf v) as [c'|] eqn:Ha; [|discriminate].
    destruct (has_refresh s c') eqn:Hr; [|discriminate]. intros [= <-].
    apply (assertion_proves cr) in Ha as [Hf [Hp _]]; auto. }
  destruct (cred_id_sec cr) as [id sec] eqn:Hcs.
  destruct (find_client cf id) as [c'|] eqn:Hf; [|discriminate].
  pose proof (proj2 (find_client_id _ _ Hf)) as Hf2.
  destruct (has_refresh s c') eqn:Hr; cbn [negb]; [|discriminate].
  destruct (c_auth c') eqn:Hauth; try discriminate.
  1,2,3: destruct (secret_ok cf c' sec) eqn:Hs; [discriminate|]; intros [= <-]; apply secret_ok_eq in Hs;
       split; [exact Hf2|]; split; [|exact Hr];
       eapply presented_proves; [exact Hcr | exact Hcs | exact Hf | right; split; [tauto | exact Hs]].
  intros [= <-]. split; [exact Hf2|]. split; [|exact Hr].
  eapply presented_proves; [exact Hcr | exact Hcs | exact Hf | now left].
Qed.

Lemma pkce_pass ch ver : pkce H ch ver = None -> exists c, ch = Some c /\ chal_ok H c ver = true.
Proof.
  unfold pkce, chal_ok, verify_chal. destruct (String.eqb ver ""); [discriminate|].
  destruct ch as [c|]; [|discriminate]. destruct (String.eqb _ (snd c)) eqn:E; [|discriminate].
  intros _. exists c. now rewrite E.
Qed.

Lemma err_not_tokens r e : is_tokens (err r e) = false.
Proof. destruct r; reflexivity. Qed.

(* What one step can do. *)
(* an invalid_scope refusal of a refresh is never "just an error": see T_scope *)
Definition not_scope_refusal (o : op) (x : out) : Prop :=
  match o, x with
  | TokenRefresh _ _ _ _, OErr _ e => String.eqb e E_scope = false
  | _, _ => True
  end.

Inductive trans (s : st) : op -> st -> out -> Prop :=
| T_same o x : (match x with OAuthz None | OLogin false | OCbErr | OCbFail | OErr _ _ => True | _ => False end) ->
    not_scope_refusal o x -> trans s o s x
| T_scope pl cr n scopes t :
    find_rt s n = Some t -> narrowed scopes (r_scopes t) = None ->
    trans s (TokenRefresh pl cr (Some n) scopes) s (OErr 4 E_scope)
| T_authorize cl uri scopes nonce chal ax :
    trans s (Authorize cl uri scopes nonce chal ax)
      {| reqs := {| q_id := S (next s); q_client := cl; q_uri := eff_uri uri ax; q_scopes := eff_scopes scopes ax;
                    q_nonce := eff_nonce nonce ax; q_chal := eff_chal chal ax;
                    q_done := false; q_sub := hinted_sub ax; q_auth := 0; q_extra := ax |} :: reqs s;
         codes := codes s; rtoks := rtoks s; next := S (next s); ncode := ncode s; norefresh := norefresh s |}
      (OAuthz (Some (S (next s))))
| T_login n sub stamp q :
    find_req s n = Some q ->
    trans s (Login n sub stamp)
      {| reqs := map (set_login n sub stamp) (reqs s); codes := codes s; rtoks := rtoks s;
         next := next s; ncode := ncode s; norefresh := norefresh s |}
      (OLogin true)
| T_callback n q :
    find_req s n = Some q -> q_done q = true ->
    trans s (Callback n)
      {| reqs := reqs s; codes := (S (ncode s), n) :: codes s; rtoks := rtoks s; next := next s; ncode := S (ncode s);
         norefresh := norefresh s |}
      (OCode (S (ncode s)))
| T_code pl f cr cd uri ver q c :
    code_req s cd = Some q -> find_client cf (q_client q) = Some c ->
    cred_proves cf cr (q_client q) = true -> uri = q_uri q ->
    (forall ch, q_chal q = Some ch -> chal_ok H ch ver = true) ->
    (is_public c = true -> q_chal q <> None) ->
    trans s (TokenCode pl f cr (Some cd) uri ver) (fst (issue_code cf s q c)) (snd (issue_code cf s q c))
| T_refresh pl cr n scopes t c sc :
    find_rt s n = Some t -> find_client cf (r_client t) = Some c -> has_refresh s c = true -> f_refresh cf = true ->
    cred_proves cf cr (r_client t) = true -> narrowed scopes (r_scopes t) = Some sc ->
    trans s (TokenRefresh pl cr (Some n) scopes) (fst (issue_refresh cf s t c sc)) (snd (issue_refresh cf s t c sc))
| T_drop cl :
    trans s (DropRefresh cl)
      {| reqs := reqs s; codes := codes s; rtoks := rtoks s; next := next s; ncode := ncode s;
         norefresh := cl :: norefresh s |} ODone
| T_dropall cl :
    trans s (DropGrants cl)
      {| reqs := reqs s; codes := codes s; rtoks := rtoks s; next := next s; ncode := ncode s;
         norefresh := cl :: ("*" ++ cl)%string :: norefresh s |} ODone
| T_revoke n :
    trans s (RevokeRT n)
      {| reqs := reqs s; codes := codes s; rtoks := filter (fun x => negb (Nat.eqb (r_id x) n)) (rtoks s);
         next := next s; ncode := ncode s; norefresh := norefresh s |} ODone.

Lemma T_err s o r e : not_scope_refusal o (err r e) -> trans s o s (err r e).
Proof. intro Hn. apply T_same; [destruct r; exact I | exact Hn]. Qed.
Lemma nsr_err pl cr rt sc r e : String.eqb e E_scope = false -> not_scope_refusal (TokenRefresh pl cr rt sc) (err r e).
Proof. intro He. destruct r; exact He. Qed.
Ltac nsr := first [exact I | (apply nsr_err; first [reflexivity | eassumption]) | (cbn; first [exact I | reflexivity | eassumption])].
Ltac terr := first [apply T_err; nsr | (apply T_same; [exact I | nsr])].

(* the errors of client resolution are never invalid_scope *)
Lemma assertion_client_err v e : assertion_client cf v = inr e -> String.eqb e E_scope = false.
Proof.
  unfold assertion_client. destruct v as [iss|]; [|intros [= <-]; reflexivity].
  destruct (find_client cf iss) as [c|]; [|intros [= <-]; reflexivity].
  destruct (c_auth c); intros [= <-]; reflexivity.
Qed.
Lemma secret_ok_err c sec e : secret_ok cf c sec = Some e -> String.eqb e E_scope = false.
Proof.
  unfold secret_ok. destruct (match c_auth c with AM_Post => negb (f_post cf) | _ => false end); [intros [= <-]; reflexivity|].
  destruct (String.eqb sec ""); [intros [= <-]; reflexivity|].
  destruct (String.eqb sec (c_secret c)); [discriminate | intros [= <-]; reflexivity].
Qed.
Lemma legacy_client_err cr e : legacy_client cf cr = inr e -> String.eqb e E_scope = false.
Proof.
  unfold legacy_client. destruct (cr_assert cr) as [v|].
  { destruct (f_pkjwt cf); [apply assertion_client_err | intros [= <-]; reflexivity]. }
  destruct (cred_id_sec cr) as [id sec]. destruct (String.eqb id ""); [intros [= <-]; reflexivity|].
  destruct (find_client cf id) as [c|]; [|intros [= <-]; reflexivity].
  destruct (c_auth c); try (intros [= <-]; reflexivity); try discriminate.
  all: destruct (secret_ok cf c sec) eqn:Hs; [intros [= <-]; eapply secret_ok_err; eauto | discriminate].
Qed.
Lemma prov_refresh_client_err s cr e : prov_refresh_client cf s cr = inr e -> String.eqb e E_scope = false.
Proof.
  unfold prov_refresh_client. destruct (cr_assert cr) as [v|].
  { destruct (f_pkjwt cf); [|intros [= <-]; reflexivity].
    destruct (assertion_client cf v) as [c|e0] eqn:Ha; [|intros [= <-]; eapply assertion_client_err; eauto].
    destruct (has_refresh s c); [discriminate | intros [= <-]; reflexivity]. }
  destruct (cred_id_sec cr) as [id sec].
  destruct (find_client cf id) as [c|]; [|intros [= <-]; reflexivity].
  destruct (has_refresh s c); cbn [negb]; [|intros [= <-]; reflexivity].
  destruct (c_auth c); try (intros [= <-]; reflexivity); try discriminate.
  all: destruct (secret_ok cf c sec) eqn:Hs; [intros [= <-]; eapply secret_ok_err; eauto | discriminate].
Qed.

Lemma finish_refresh_trans pl r s cr n scopes t c :
  find_rt s n = Some t -> find_client cf (c_id c) = Some c -> has_refresh s c = true -> f_refresh cf = true ->
  cred_proves cf cr (c_id c) = true ->
  trans s (TokenRefresh pl cr (Some n) scopes) (fst (finish_refresh cf r s t c scopes)) (snd (finish_refresh cf r s t c scopes)).
Proof.
  intros Hrt Hf Hr Hfl Hp. unfold finish_refresh.
  destruct (String.eqb (c_id c) (r_client t)) eqn:E; cbn [negb]; [|terr].
  apply String.eqb_eq in E.
  destruct (narrowed scopes (r_scopes t)) as [sc|] eqn:Hn; [|destruct r; eapply T_scope; eauto].
  rewrite E in Hf, Hp. now apply T_refresh.
Qed.

Lemma read_grant_ok pl g : read_grant pl g = Some g.
Proof. destruct pl, g; reflexivity. Qed.
Lemma read_field_ok pl v d : read_field pl v d = v.
Proof. destruct v; [destruct pl|]; reflexivity. Qed.

Lemma code_step_trans pl f r s cr code uri ver s' x :
  code_step H cf r s cr code uri ver = (s', x) -> trans s (TokenCode pl f cr code uri ver) s' x.
Proof.
  unfold code_step.
    destruct r.
    + unfold prov_code. destruct code as [cd|]; [|intros [= <- <-]; terr].
      destruct (code_req s cd) as [q|] eqn:Hq; [|intros [= <- <-]; terr].
      destruct (match q_chal q with Some _ => pkce H (q_chal q) ver | None => None end) eqn:Hpk;
        [intros [= <- <-]; terr|].
      destruct (prov_code_client cf q cr) as [c|e] eqn:Hc; [|intros [= <- <-]; terr].
      apply prov_code_client_inl in Hc as [Hf [Hp Hpub]].
      destruct (String.eqb (c_id c) (q_client q)) eqn:E; cbn [negb]; [|intros [= <- <-]; terr].
      apply String.eqb_eq in E. rewrite E in Hf, Hp.
      destruct (has_code s c); cbn [negb]; [|intros [= <- <-]; terr].
      destruct (String.eqb uri (q_uri q)) eqn:Eu; cbn [negb]; [|intros [= <- <-]; terr].
      apply String.eqb_eq in Eu. intro Hi.
      replace s' with (fst (issue_code cf s q c)) by now rewrite Hi.
      replace x with (snd (issue_code cf s q c)) by now rewrite Hi.
      apply T_code; auto.
      intros ch Hch. rewrite Hch in Hpk. apply pkce_pass in Hpk as [c0 [[= <-] Hok]]. exact Hok.
    + unfold legacy_code. destruct (legacy_client cf cr) as [c|e] eqn:Hc; [|intros [= <- <-]; terr].
      apply legacy_client_inl in Hc as [Hf Hp].
      destruct (has_code s c); cbn [negb]; [|intros [= <- <-]; terr].
      destruct code as [cd|]; [|intros [= <- <-]; terr].
      destruct (String.eqb uri ""); [intros [= <- <-]; terr|].
      destruct (code_req s cd) as [q|] eqn:Hq; [|intros [= <- <-]; terr].
      destruct (if is_public c || negb (String.eqb ver "") || match q_chal q with Some _ => true | None => false end
                then pkce H (q_chal q) ver else None) eqn:Hpk; [intros [= <- <-]; terr|].
      destruct (String.eqb (c_id c) (q_client q)) eqn:E; cbn [negb]; [|intros [= <- <-]; terr].
      apply String.eqb_eq in E. rewrite E in Hf, Hp.
      destruct (String.eqb uri (q_uri q)) eqn:Eu; cbn [negb]; [|intros [= <- <-]; terr].
      apply String.eqb_eq in Eu. intro Hi.
      replace s' with (fst (issue_code cf s q c)) by now rewrite Hi.
      replace x with (snd (issue_code cf s q c)) by now rewrite Hi.
      apply T_code; auto.
      * intros ch Hch. rewrite Hch in Hpk. rewrite !orb_true_r in Hpk.
        apply pkce_pass in Hpk as [c0 [[= <-] Hok]]. exact Hok.
      * intros Hpub Hnone. rewrite Hpub in Hpk. cbn [orb] in Hpk. rewrite Hnone in Hpk.
        apply pkce_pass in Hpk as [c0 [Hx _]]. discriminate.
Qed.

Lemma refresh_step_trans pl r s cr rt scopes s' x :
  (match r with Provider => prov_refresh cf s cr rt scopes | Legacy => legacy_refresh cf s cr rt scopes end) = (s', x) ->
  trans s (TokenRefresh pl cr rt scopes) s' x.
Proof.
    destruct r.
    + unfold prov_refresh. destruct (f_refresh cf) eqn:Hfl; cbn [negb]; [|intros [= <- <-]; terr].
      destruct rt as [n|]; [|intros [= <- <-]; terr].
      destruct (prov_refresh_client cf s cr) as [c|e] eqn:Hc;
        [|intros [= <- <-]; apply prov_refresh_client_err in Hc; terr].
      apply prov_refresh_client_inl in Hc as [Hf [Hp Hr]].
      destruct (find_rt s n) as [t|] eqn:Hrt; [|intros [= <- <-]; terr].
      intro Hi.
      replace s' with (fst (finish_refresh cf Provider s t c scopes)) by now rewrite Hi.
      replace x with (snd (finish_refresh cf Provider s t c scopes)) by now rewrite Hi.
      now apply finish_refresh_trans.
    + unfold legacy_refresh. destruct (legacy_client cf cr) as [c|e] eqn:Hc;
        [|intros [= <- <-]; apply legacy_client_err in Hc; terr].
      apply legacy_client_inl in Hc as [Hf Hp].
      destruct (has_refresh s c) eqn:Hr; cbn [negb]; [|intros [= <- <-]; terr].
      destruct rt as [n|]; [|intros [= <- <-]; terr].
      destruct (f_refresh cf) eqn:Hfl; cbn [negb]; [|intros [= <- <-]; terr].
      destruct (find_rt s n) as [t|] eqn:Hrt; [|intros [= <- <-]; terr].
      intro Hi.
      replace s' with (fst (finish_refresh cf Legacy s t c scopes)) by now rewrite Hi.
      replace x with (snd (finish_refresh cf Legacy s t c scopes)) by now rewrite Hi.
      now apply finish_refresh_trans.
Qed.

(* a code exchange either changes nothing and answers an error, or passed every guard *)
Lemma trans_code_cases s pl f cr code uri ver s' x :
  trans s (TokenCode pl f cr code uri ver) s' x ->
  (s' = s /\ match x with OAuthz None | OLogin false | OCbErr | OCbFail | OErr _ _ => True | _ => False end)
  \/ (exists cd q c, code = Some cd /\ code_req s cd = Some q /\ find_client cf (q_client q) = Some c
                     /\ is_tokens x = true).
Proof.
  intro Ht. inversion Ht; subst.
  - left. split; [reflexivity | assumption].
  - right. eauto 8.
Qed.

Lemma trans_code_inv s pl f cr code uri ver s' t :
  trans s (TokenCode pl f cr code uri ver) s' (OTokens t) ->
  exists cd q c, code = Some cd /\ code_req s cd = Some q /\ find_client cf (q_client q) = Some c
    /\ cred_proves cf cr (q_client q) = true /\ uri = q_uri q
    /\ (forall ch, q_chal q = Some ch -> chal_ok H ch ver = true)
    /\ (is_public c = true -> q_chal q <> None)
    /\ issue_code cf s q c = (s', OTokens t).
Proof.
  intro Ht. inversion Ht; subst; [contradiction|].
  match goal with Hc : code_req s ?cd = Some ?q, Hf : find_client cf (q_client ?q) = Some ?c |- _ =>
    exists cd, q, c; repeat (split; [solve [auto]|]); reflexivity end.
Qed.

Lemma trans_refresh_inv s pl cr rt scopes s' t0 :
  trans s (TokenRefresh pl cr rt scopes) s' (OTokens t0) ->
  exists n t c sc, rt = Some n /\ find_rt s n = Some t /\ find_client cf (r_client t) = Some c
    /\ has_refresh s c = true /\ f_refresh cf = true /\ cred_proves cf cr (r_client t) = true
    /\ narrowed scopes (r_scopes t) = Some sc
    /\ issue_refresh cf s t c sc = (s', OTokens t0).
Proof.
  intro Ht. inversion Ht; subst; [contradiction|].
  match goal with Hf : find_rt s ?n = Some ?t, Hc : find_client cf (r_client ?t) = Some ?c,
                  Hn : narrowed scopes (r_scopes ?t) = Some ?sc |- _ =>
    exists n, t, c, sc; repeat (split; [solve [auto]|]); reflexivity end.
Qed.

Lemma trans_callback_inv s n s' c :
  trans s (Callback n) s' (OCode c) -> exists q, find_req s n = Some q /\ q_done q = true.
Proof. intro Ht. inversion Ht; subst; [contradiction | eauto]. Qed.

Lemma trans_refresh_refused s pl cr rt sc s' x :
  trans s (TokenRefresh pl cr rt sc) s' x -> is_tokens x = false -> s' = s.
Proof. intros Ht Hk. inversion Ht; subst; try reflexivity; discriminate. Qed.

Lemma trans_code_refused s pl f cr code uri ver s' x :
  trans s (TokenCode pl f cr code uri ver) s' x -> is_tokens x = false -> s' = s.
Proof. intros Ht Hk. inversion Ht; subst; try reflexivity; discriminate. Qed.

End P.

(* ---------------------------------------------------------------- the full step *)
Section P2.
Variable H : string -> string.
Variable cf : cfg.

Lemma err_inert (r : router) e :
  match err r e with OAuthz None | OLogin false | OCbErr | OCbFail | OErr _ _ => True | _ => False end.
Proof. destruct r; exact I. Qed.

Lemma code_fault_trans pl m r s cr code uri ver s' x :
  code_fault H cf m r s cr code uri ver = (s', x) ->
  trans H cf s (TokenCode pl (Some m) cr code uri ver) s' x.
Proof.
  unfold code_fault.
  assert (Hgen : forall s0 x0, code_step H cf r s cr code uri ver = (s0, x0) ->
     (match x0 with
      | OTokens t => if fault_reached m t then (s, err r E_server) else (s0, OTokens t)
      | _ => (s0, x0) end) = (s', x) -> trans H cf s (TokenCode pl (Some m) cr code uri ver) s' x).
  { intros s0 x0 E Hx. pose proof (code_step_trans H cf pl (Some m) _ _ _ _ _ _ _ _ E) as Ht.
    destruct x0; try (injection Hx as <- <-; exact Ht).
    destruct (fault_reached m t); injection Hx as <- <-; [apply T_same; [apply err_inert | exact I] | exact Ht]. }
  destruct m.
  - (* the code does not resolve *)
    destruct (code_step H cf r (no_codes s) cr code uri ver) as [s0 x0] eqn:E. cbn [snd]. intros [= <- <-].
    apply (code_step_trans H cf pl (Some SM_AuthRequestByCode)) in E.
    apply trans_code_cases in E as [[_ Hx] | [cd [q [c [_ [Hq _]]]]]].
    + apply T_same; [exact Hx | exact I].
    + unfold code_req in Hq. cbn in Hq. discriminate.
  - (* no client resolves *)
    destruct (code_step H (no_clients cf) r s cr code uri ver) as [s0 x0] eqn:E. cbn [snd]. intros [= <- <-].
    apply (code_step_trans H (no_clients cf) pl (Some SM_GetClientByClientID)) in E.
    apply trans_code_cases in E as [[_ Hx] | [cd [q [c [_ [_ [Hc _]]]]]]].
    + apply T_same; [exact Hx | exact I].
    + unfold find_client in Hc. cbn in Hc. discriminate.
  - destruct (code_step H cf r s cr code uri ver) as [s0 x0] eqn:E. intro Hx. eapply Hgen; eauto. destruct x0; exact Hx.
  - destruct (code_step H cf r s cr code uri ver) as [s0 x0] eqn:E. intro Hx. eapply Hgen; eauto. destruct x0; exact Hx.
  - destruct (code_step H cf r s cr code uri ver) as [s0 x0] eqn:E. intro Hx. eapply Hgen; eauto. destruct x0; exact Hx.
  - destruct (code_step H cf r s cr code uri ver) as [s0 x0] eqn:E. intro Hx. eapply Hgen; eauto. destruct x0; exact Hx.
  - destruct (code_step H cf r s cr code uri ver) as [s0 x0] eqn:E. intro Hx. eapply Hgen; eauto. destruct x0; exact Hx.
Qed.

Lemma step_trans r s o s' x : step H cf r s o = (s', x) -> trans H cf s o s' x.
Proof.
  destruct o as [cl uri scopes nonce chal ax | n sub stamp | n | pl f cr code uri ver | pl cr rt scopes | pl cr rt scopes | cl | cl | n]; cbn [step].
  - (* authorize *)
    unfold do_authorize. destruct (find_client cf cl); [|intros [= <- <-]; (apply T_same; exact I)].
    destruct (ro_accepted cf ax && string_in (eff_uri uri ax) (c_redirects c) && negb (is_nil (eff_scopes scopes ax)) && extra_ok ax); intros [= <- <-];
      [apply T_authorize | (apply T_same; exact I)].
  - unfold do_login. destruct (find_req s n) eqn:Hq; intros [= <- <-]; [eapply T_login; eauto | (apply T_same; exact I)].
  - unfold do_callback. destruct (find_req s n) as [q|] eqn:Hq; [|intros [= <- <-]; (apply T_same; exact I)].
    destruct (q_done q) eqn:Hd; intros [= <- <-]; [eapply T_callback; eauto | (apply T_same; exact I)].
  - rewrite read_grant_ok, read_field_ok. destruct f as [m|].
    + apply code_fault_trans.
    + apply code_step_trans.
  - rewrite read_grant_ok, read_field_ok. apply refresh_step_trans.
  - (* the storage refuses the rotation: an error, nothing changes *)
    rewrite read_grant_ok, read_field_ok.
    destruct (match r with Provider => prov_refresh cf s cr rt scopes | Legacy => legacy_refresh cf s cr rt scopes end)
      as [s0 x0] eqn:E. cbn [snd]. intros [= <- <-].
    apply (refresh_step_trans H cf pl) in E.
    inversion E; subst.
    + destruct x0; try contradiction; apply T_same; solve [assumption | exact I].
    + apply T_same; exact I.
    + unfold issue_refresh. cbn [snd]. apply T_same; [apply err_inert | exact I].
  - intros [= <- <-]. apply T_drop.
  - intros [= <- <-]. apply T_dropall.
  - intros [= <- <-]. apply T_revoke.
Qed.

End P2.
