(* C09 layer (c3): the redirect_uri stage of the authorization endpoint for NATIVE clients, with the client's
   REGISTRATION as part of the input. pkg/op/auth_request.go ValidateAuthReqRedirectURI /
   validateAuthReqRedirectURINative / HTTPLoopbackOrLocalhost / equalURI (both routers use them).
   HTTPLoopbackOrLocalhost returns (nil, false) for a registered URI that is not http(s) or does not parse:
   the loop over the registered URIs must test `ok` before it hands the *url.URL to equalURI. *)
From OIDC Require Import Lib C09_Handler C09_Verifier.

Inductive regkind :=
| RgNil                               (* private-use scheme (com.example.app:/cb), unparsable entry: (nil, false) *)
| RgHttp (loopback same : bool).      (* http(s) URL; host is localhost / a loopback address; path and query equal the requested URI's *)

Record nshape := {
  n_entry : entry;
  n_listed : bool;        (* the requested URI is registered literally *)
  n_dev : bool;           (* client in dev mode *)
  n_loopback : bool;      (* requested URI: http(s) on localhost / loopback address *)
  n_https : bool;         (* requested URI starts with https:// *)
  n_custom : bool;        (* requested URI starts with neither http:// nor https:// *)
  n_regs : list regkind } (* the registered URIs, in order *).

(* [guard]: `ok && equalURI(..)`; false = equalURI evaluated first *)
Fixpoint loop_match (guard : bool) (regs : list regkind) : hres :=
  match regs with
  | [] => HRefused
  | RgNil :: r => if guard then loop_match guard r else HPanic
  | RgHttp l s :: r => if l && s then HAccepted else loop_match guard r
  end.

Definition native_redirect (guard : bool) (n : nshape) : hres :=
  if n_listed n then
    if n_dev n || (negb (n_loopback n) && n_https n) || n_loopback n || n_custom n then HAccepted else HRefused
  else if negb (n_loopback n) then HRefused
  else loop_match guard (n_regs n).

Definition reg_matches (k : regkind) : bool :=
  match k with RgHttp l s => l && s | RgNil => false end.
