(* C14: a small abstract signature layer (independent of the C01/C02 files).
   A presented JWT is described by WHO signed it, not by bytes: the harness
   knows this because it built the token.

   Go correspondence:
     oidc.ParseToken            -> the [token] constructors (shape / JSON / decoded claims)
     oidc.CheckSignature        -> [check_signature]  (supportedSigAlgs = nil: RS256, ES256, PS256)
     op.jwtProfileKeySet        -> [lookup_key] on the (client, kid) table, then [verify]
     storage.GetKeyByIDAndClientID -> [lookup_key] (contract of DESIGN 4.5: exactly that (client, kid))
     jose.JSONWebSignature.Verify  -> [verify], a Section variable in the theorems,
                                      [sym_verify] in the instance the case files run. *)
From OIDC Require Import Lib.

Definition keyid := nat.          (* identity of a key pair (key material) *)

Record sigdesc := mkSig {
  sd_wf : bool;        (* go-jose can parse the compact serialisation (header is JSON) *)
  sd_alg : string;     (* protected header "alg" *)
  sd_kid : string;     (* protected header "kid" ("" = absent) *)
  sd_signer : keyid;   (* the private key that produced the signature bytes *)
  sd_intact : bool     (* header.payload are exactly the bytes that were signed *)
}.

Inductive token (C : Type) :=
| TEmpty                      (* the empty string *)
| TBadShape                   (* ParseToken -> ErrParse: not three segments, middle segment not
                                 base64url, or payload not a JSON object (first non-blank byte
                                 is not an opening brace: null, array, scalar, empty) *)
| TBadJson                    (* payload starts like an object but json.Unmarshal fails: raw error *)
| TJws (d : sigdesc) (c : C). (* compact JWS whose payload decodes to c *)
Arguments TEmpty {C}.
Arguments TBadShape {C}.
Arguments TBadJson {C}.
Arguments TJws {C} d c.

(* storage: (client, kid) -> key *)
Definition keytable := list (string * string * keyid).

Fixpoint lookup_key (t : keytable) (client kid : string) : option keyid :=
  match t with
  | [] => None
  | (c, k, key) :: r =>
      if String.eqb c client && String.eqb k kid then Some key else lookup_key r client kid
  end.

Definition accepted_algs : list string := ["RS256"; "ES256"; "PS256"].

(* error classes (what errors.Is can tell apart; texts are never compared) *)
Inductive err :=
| EOther           (* plain error: JSON decode error, subject check *)
| EParse           (* oidc.ErrParse *)
| EAud             (* oidc.ErrAudience *)
| EExpired         (* oidc.ErrExpired *)
| EIatMissing | EIatFuture | EIatOld
| EAlg             (* oidc.ErrSignatureUnsupportedAlg *)
| ESig             (* oidc.ErrSignatureInvalid (key not found / signature does not verify) *)
| ENoClient        (* storage.GetClientByClientID failed *)
| EMethod          (* invalid_client: client is not registered for private_key_jwt *)
| ENoCred          (* op.ErrNoClientCredentials *)
| EInvalidRequest  (* invalid_request without a parent error *)
| EPanicked.       (* the call did not return: nil func call (JWTProfileVerifier.CheckSubject == nil) *)

Inductive res (A : Type) := Ok (a : A) | Err (e : err).
Arguments Ok {A} a.
Arguments Err {A} e.

Section Sig.
  Variable verify : keyid -> sigdesc -> bool.

  (* oidc.CheckSignature with a jwtProfileKeySet for [client]; None = success *)
  Definition check_signature (t : keytable) (client : string) (d : sigdesc) : option err :=
    if negb (sd_wf d) then Some EParse
    else if negb (string_in (sd_alg d) accepted_algs) then Some EAlg
    else match lookup_key t client (sd_kid d) with
         | None => Some ESig
         | Some k => if verify k d then None else Some ESig
         end.
End Sig.

(* the symbolic instance: a signature verifies under exactly the signer's key *)
Definition sym_verify (k : keyid) (d : sigdesc) : bool :=
  Nat.eqb k (sd_signer d) && sd_intact d.
