(* C17: case vocabulary, model runner and the property predicate. *)
From OIDC Require Import Lib.
From OIDC Require Export C17_RP C17_Construct C17_Cookie C17_Tail.

(* S256 as a per-case oracle table filled by the harness with oidc.NewSHACodeChallenge *)
Definition hfun (tab : list (string * string)) (v : string) : string :=
  match plookup v tab with Some c => c | None => "" end.

(* A case = how the application built its RP (constructor, options in order, what the
   OP's discovery document announces), the S256 table, the initial jar, the history. *)
Inductive input :=
| Inp (s : setup) (htab : list (string * string)) (j0 : jar) (ops : list op)
(* round 11: the RP's CookieHandler is built with options [co]; the browser honours the
   cookies' attributes (C17_Cookie.v); keeps = the client replays cookies beyond their Max-Age *)
| InpCk (s : setup) (co : list ch_opt) (keeps : bool) (htab : list (string * string)) (ops : list kop)
(* round 11: one callback request and what the provider answers to it: the RP was built
   WithVerifierOpts(vo); wrap = the application's callback is wrapped in rp.UserinfoCallback *)
| InpTail (s : setup) (vo : list vopt) (wrap : bool) (tr : tokresp) (ui : uiresp) (j0 : jar) (q : params).

Inductive observed :=
| Obs (evs : list event)
| ONoRP        (* the constructor returned an error: no RP, nothing happens (never in the model) *)
| OPanic
| ObsCk (evs : list kevent)
| ObsTail (t : tail_out).

Definition is_app (ev : event) : bool := match ev with EvCb (HApp _) _ _ => true | _ => false end.

Definition model (i : input) : observed :=
  match i with
  | Inp s tab j0 ops => Obs (run (hfun tab) (construct s) j0 ops)
  | InpCk s co keeps tab ops =>
      ObsCk (krun (hfun tab) (construct s) (new_cookie_handler co) keeps [] ops)
  | InpTail s vo wrap tr ui j0 q =>
      (* UserinfoCallback reads tokens.IDTokenClaims.GetSubject(): an OAuth2-only RP has no ID
         token claims (nil pointer) - outside [wf] *)
      if wrap && oauth_only s && is_app (callback (construct s) j0 q (exchange_ok s vo tr)) then OPanic
      else ObsTail (tail_model s vo wrap tr ui j0 q)
  end.

(* inputs the central theorem speaks about: everything except UserinfoCallback on an RP
   built by NewRelyingPartyOAuth (no ID token, no userinfo endpoint) *)
Definition wf (i : input) : bool :=
  match i with
  | InpTail s _ wrap _ _ _ _ => negb (wrap && oauth_only s)
  | _ => true
  end.

(* ---------- the property, on what the implementation answered ---------- *)
Section Spec.
  Variable H : string -> string.
  Variable cfg : config.

  Definition cmd_eqb (a b : cookie_cmd) : bool :=
    String.eqb (fst a) (fst b) &&
    match snd a, snd b with
    | None, None => true
    | Some (Mac k n v), Some (Mac k' n' v') => Nat.eqb k k' && String.eqb n n' && String.eqb v v'
    | Some (Junk l), Some (Junk l') => String.eqb l l'
    | _, _ => false
    end.

  Definition has_cmd (c : cookie_cmd) (l : list cookie_cmd) : bool := existsb (cmd_eqb c) l.

  Definition opt_is (o : option string) (v : string) : bool :=
    match o with Some x => String.eqb x v | None => false end.

  (* the pkce verifier a login response stored: the value of a pkce cookie minted under the RP's key *)
  Fixpoint stored_verifier (cs : list cookie_cmd) : option string :=
    match cs with
    | [] => None
    | (n, Some c) :: r =>
        if String.eqb n pkce_name then decode (c_key cfg) pkce_name c else stored_verifier r
    | _ :: r => stored_verifier r
    end.

  (* every protected parameter occurs at most once in the URL: the value checked below is THE value *)
  Definition count_key (k : string) (ps : params) : nat :=
    List.length (filter (fun kv => String.eqb (fst kv) k) ps).
  Definition protected_keys : list string :=
    ["response_type"; "client_id"; "redirect_uri"; "scope"; "state"; "code_challenge"; "code_challenge_method"].
  Definition single_valued (ps : params) : bool :=
    forallb (fun k => count_key k ps <=? 1) protected_keys.

  (* C17_auth_url: the redirect goes to the configured endpoint with the configured
     client, redirect URI, scopes and the state that was put into the state cookie
     (these four only when no URLParamOpt overrides a reserved key), and with the
     S256 challenge of the verifier that was put into the pkce cookie. *)
  Definition auth_ok (s : string) (cs : list cookie_cmd) (base : string) (ps : params) : bool :=
    has_cmd (state_cookie cfg s) cs
    && String.eqb base (c_auth cfg)
    && single_valued ps
    && (negb (extra_ok cfg)
        || (opt_is (plookup "response_type" ps) "code"
            && opt_is (plookup "client_id" ps) (c_client cfg)
            && (is_empty (c_redirect cfg) || opt_is (plookup "redirect_uri" ps) (c_redirect cfg))
            && (match c_scopes cfg with [] => true
                | _ => opt_is (plookup "scope" ps) (String.concat " " (c_scopes cfg)) end)
            && String.eqb (form ps "state") s))
    && (negb (c_pkce cfg)
        || match stored_verifier cs with
           | Some v => opt_is (plookup "code_challenge" ps) (H v)
                       && opt_is (plookup "code_challenge_method" ps) "S256"
           | None => false
           end).

  (* "the authorization URL always carries the configured client, redirect URI, scopes and
     that state": a URL asked from rp.AuthURL(s, rp) without further options, at any time *)
  Definition url_core_ok (s base : string) (ps : params) : bool :=
    String.eqb base (c_auth cfg)
    && opt_is (plookup "response_type" ps) "code"
    && opt_is (plookup "client_id" ps) (c_client cfg)
    && (is_empty (c_redirect cfg) || opt_is (plookup "redirect_uri" ps) (c_redirect cfg))
    && (match c_scopes cfg with [] => true
        | _ => opt_is (plookup "scope" ps) (String.concat " " (c_scopes cfg)) end)
    && String.eqb (form ps "state") s.

  (* the login whose state cookie is in the jar: the most recent redirect that set exactly that cookie *)
  Definition redeemed_login (j : jar) (lg : logins) : option (list cookie_cmd * params) :=
    match jar_get state_name j with
    | None => None
    | Some c => find (fun l => has_cmd (state_name, Some c) (fst l)) lg
    end.

  Definition pkce_strong (j : jar) (lg : logins) (v : string) : bool :=
    match redeemed_login j lg with
    | Some l => opt_is (plookup "code_challenge" (snd l)) (H v)
    | None => false
    end.

  Definition is_unauth (h : handler) : bool := match h with HUnauth _ => true | _ => false end.

  Definition cb_ok (hon : bool) (j : jar) (lg : logins) (q : params)
             (h : handler) (reqs : list tokreq) : bool :=
    let good := match check_cookie (c_key cfg) state_name j with
                | Some s => String.eqb s (form q "state") | None => false end in
    (* no acceptable state cookie equal to the query's state => unauthorized, nothing sent *)
    (good || (is_unauth h && match reqs with [] => true | _ => false end))
    (* the application callback gets that state *)
    && match h with HApp st => good && String.eqb st (form q "state") | HOther => false | _ => true end
    (* PKCE: the verifier sent is the one in the pkce cookie, and (honest histories) its
       hash is the challenge of the login whose state cookie is being redeemed *)
    && forallb (fun r =>
         negb (c_pkce cfg)
         || match t_verifier r, check_cookie (c_key cfg) pkce_name j with
            | Some v, Some v' => String.eqb v v' && (negb hon || pkce_strong j lg v)
            | _, _ => false
            end) reqs.

  Definition spec_step (hon : bool) (j : jar) (lg : logins) (o : op) (ev : event) : bool :=
    match o, ev with
    | OStart s _, EvAuth cs base ps => auth_ok s cs base ps
    (* whatever the login request carried: the same demands *)
    | OStartQ s _ _, EvAuth cs base ps => auth_ok s cs base ps
    (* a state the cookie cannot hold: no redirect is fine; a redirect must still bind that state *)
    | OStartFail s, EvAuth cs base ps => auth_ok s cs base ps
    | OStartFail _, EvOther => true
    | OCallback q _ _, EvCb h reqs _ => cb_ok hon j lg q h reqs
    | OSet _ _, EvNone => true
    | ODel _, EvNone => true
    | OApi _, EvProbe base ps => url_core_ok probe_state base ps
    | _, _ => false
    end.

  Fixpoint spec_run (hon : bool) (j : jar) (lg : logins) (ops : list op) (evs : list event) : bool :=
    match ops, evs with
    | [], [] => true
    | o :: ops', ev :: evs' =>
        spec_step hon j lg o ev
        && spec_run hon (jar_after j o ev) (push_login ev lg) ops' evs'
    | _, _ => false
    end.
End Spec.

(* ---------- what the application configured, read off its constructor call ----------
   (from the property text and the documentation of the options, not from the
   constructors' code: "WithPKCE sets the RP to use PKCE ... it also sets a
   CookieHandler"; "WithCookieHandler set a CookieHandler"; "WithJWTProfile creates a
   signer used for the JWT Profile Client Authentication on the token endpoint".
   No option and no constructor documents any dependence of PKCE, client, redirect
   URI or scopes on what the OP's discovery document announces: "PKCE enabled" is
   "a WithPKCE option was passed", for both constructors and every document.) *)
Definition sets_handler (o : rp_option) : option nat :=
  match o with WithCookieHandler k | WithPKCE k => Some k | _ => None end.

(* the cookie handler in force: the last option that sets one *)
Fixpoint configured_handler (opts : list rp_option) : option nat :=
  match opts with
  | [] => None
  | o :: r => match configured_handler r with Some k => Some k | None => sets_handler o end
  end.

Definition is_with_pkce (o : rp_option) : bool := match o with WithPKCE _ => true | _ => false end.
Definition is_with_jwt (o : rp_option) : bool := match o with WithJWTProfile => true | _ => false end.
Definition pkce_enabled (opts : list rp_option) : bool := existsb is_with_pkce opts.
Definition jwt_enabled (opts : list rp_option) : bool := existsb is_with_jwt opts.

(* None: no cookie handler configured - the property does not speak about that RP *)
Definition intended (s : setup) : option config :=
  match configured_handler (s_opts s) with
  | None => None
  | Some k => Some (Cfg k (pkce_enabled (s_opts s)) (jwt_enabled (s_opts s))
                        (s_client s) (s_redirect s) (s_scopes s) (endpoint (s_ctor s)) (s_extra s))
  end.

(* ---------- round 11: cookie attributes.  The browser (which cookies a request carries)
   is ground truth; the jar is kept from the OBSERVED Set-Cookie headers with their observed
   attributes.  The property does not speak about attributes or ages: a callback is judged
   by clauses (a)-(c) against every validly minted cookie the request carries, whatever
   its age ([view 0]: nothing counts as expired). ---------- *)
Section SpecCk.
  Variable H : string -> string.
  Variable cfg : config.
  Variable keeps : bool.

  Definition kspec_step (j : bjar) (o : kop) (ev : kevent) : bool :=
    match o, ev with
    | KLogin s _ _, KEvAuth cs base ps => auth_ok H cfg s (map fst cs) base ps
    | KCallback q _ r, KEvCb hd reqs _ => cb_ok H cfg false (view 0%Z (sent keeps r j)) [] q hd reqs
    | KWait _, KEvNone => true
    | KPut _ _, KEvNone => true
    | _, _ => false
    end.

  Fixpoint kspec_run (j : bjar) (ops : list kop) (evs : list kevent) : bool :=
    match ops, evs with
    | [], [] => true
    | o :: ops', ev :: evs' => kspec_step j o ev && kspec_run (kjar_after j o ev) ops' evs'
    | _, _ => false
    end.
End SpecCk.

(* ---------- round 11: the callback's tail.  Ground truth = what the provider answered
   (tr, ui) and the options the application passed.  From their documentation:
   WithIssuedAtMaxAge "define[s] the maximum duration between iat and now",
   WithAuthTimeMaxAge "the maximum duration between auth_time and now" (the last one
   passed counts; 0 = none); UserinfoCallback: OIDC Core 5.3.2 "the sub Claim in the
   UserInfo Response MUST be verified to exactly match the sub Claim in the ID Token;
   if they do not match, the UserInfo Response values MUST NOT be used". ---------- *)
Fixpoint configured_iat_maxage (vo : list vopt) : option Z :=
  match vo with
  | [] => None
  | o :: r => match configured_iat_maxage r with
              | Some d => Some d
              | None => match o with WithIssuedAtMaxAge d => Some d | _ => None end
              end
  end.
Fixpoint configured_auth_maxage (vo : list vopt) : option Z :=
  match vo with
  | [] => None
  | o :: r => match configured_auth_maxage r with
              | Some d => Some d
              | None => match o with WithAuthTimeMaxAge d => Some d | _ => None end
              end
  end.

Definition within (limit : option Z) (age : option Z) : bool :=
  match limit with
  | None => true
  | Some d => (d =? 0)%Z || match age with Some a => (a <=? d)%Z | None => false end
  end.

Definition doc_time_ok (vo : list vopt) (t : idtok) : bool :=
  within (configured_iat_maxage vo) (it_iat_age t) && within (configured_auth_maxage vo) (it_auth_age t).

Definition tail_spec (H : string -> string) (cfg : config) (s : setup) (vo : list vopt) (wrap : bool)
           (tr : tokresp) (ui : uiresp) (j : jar) (q : params) (t : tail_out) : bool :=
  match t with
  | TailOut (EvCb h reqs _) uireqs info =>
      (* the property's clauses (a)-(c) *)
      cb_ok H cfg false j [] q h reqs
      && match h with
         | HApp _ =>
             (* an OIDC RP hands over only an ID token the provider delivered and that is within the configured ages *)
             (oauth_only s
              || (tr_ok tr && match tr_id tr with Some it => doc_time_ok vo it | None => false end))
             (* UserinfoCallback: userinfo of the ID token's subject, or no application callback *)
             && (negb wrap
                 || (ui_ok ui && String.eqb (ui_sub ui) (id_sub tr) && opt_is info (ui_sub ui)))
         | _ => true
         end
      (* nothing is asked of the provider on behalf of a callback that exchanged no code *)
      && match reqs, uireqs with [], _ :: _ => false | _, _ => true end
  | _ => false
  end.

Definition spec (i : input) (o : observed) : bool :=
  match i, o with
  | Inp s tab j0 ops, Obs evs =>
      match intended s with
      | Some cfg => spec_run (hfun tab) cfg (honest cfg j0 ops) j0 [] ops evs
      | None => true
      end
  | InpCk s co keeps tab ops, ObsCk evs =>
      match intended s with
      | Some cfg => kspec_run (hfun tab) cfg keeps [] ops evs
      | None => true
      end
  | InpTail s vo wrap tr ui j0 q, ObsTail t =>
      match intended s with
      | Some cfg => tail_spec (hfun []) cfg s vo wrap tr ui j0 q t
      | None => true
      end
  | _, ONoRP => true
  | _, _ => false
  end.

(* ---------- comparison of observables ---------- *)
Definition cval_eqb (a b : cval) : bool :=
  match a, b with
  | Mac k n v, Mac k' n' v' => Nat.eqb k k' && String.eqb n n' && String.eqb v v'
  | Junk l, Junk l' => String.eqb l l'
  | _, _ => false
  end.
Definition ccmd_eqb (a b : cookie_cmd) : bool :=
  String.eqb (fst a) (fst b) && option_eqb cval_eqb (snd a) (snd b).
Definition pair_eqb (a b : string * string) : bool :=
  String.eqb (fst a) (fst b) && String.eqb (snd a) (snd b).
(* url parameters are compared as sets (the harness lists them in url.Values order) *)
Definition params_eqb (a b : params) : bool :=
  Nat.eqb (List.length a) (List.length b)
  && forallb (fun x => existsb (pair_eqb x) b) a && forallb (fun x => existsb (pair_eqb x) a) b.
Definition handler_eqb (a b : handler) : bool :=
  match a, b with
  | HUnauth s, HUnauth s' => String.eqb s s'
  | HError e d s, HError e' d' s' => String.eqb e e' && String.eqb d d' && String.eqb s s'
  | HApp s, HApp s' => String.eqb s s'
  | HOther, HOther => true
  | _, _ => false
  end.
Definition tokreq_eqb (a b : tokreq) : bool :=
  String.eqb (t_code a) (t_code b) && String.eqb (t_redirect a) (t_redirect b)
  && String.eqb (t_client a) (t_client b) && option_eqb String.eqb (t_verifier a) (t_verifier b)
  && Bool.eqb (t_assert a) (t_assert b).
Definition event_eqb (a b : event) : bool :=
  match a, b with
  | EvAuth c u p, EvAuth c' u' p' => list_eqb ccmd_eqb c c' && String.eqb u u' && params_eqb p p'
  | EvCb h r c, EvCb h' r' c' => handler_eqb h h' && list_eqb tokreq_eqb r r' && list_eqb ccmd_eqb c c'
  | EvProbe u p, EvProbe u' p' => String.eqb u u' && params_eqb p p'
  | EvNone, EvNone => true
  | EvOther, EvOther => true
  | _, _ => false
  end.
Definition samesite_eqb (a b : samesite) : bool :=
  match a, b with
  | SSUnset, SSUnset | SSDefault, SSDefault | SSLax, SSLax | SSStrict, SSStrict | SSNone, SSNone => true
  | _, _ => false
  end.
Definition attrs_eqb (a b : attrs) : bool :=
  String.eqb (a_domain a) (a_domain b) && String.eqb (a_path a) (a_path b)
  && (a_maxage a =? a_maxage b)%Z && Bool.eqb (a_httponly a) (a_httponly b)
  && Bool.eqb (a_secure a) (a_secure b) && samesite_eqb (a_samesite a) (a_samesite b).
Definition setck_eqb (a b : setck) : bool := ccmd_eqb (fst a) (fst b) && attrs_eqb (snd a) (snd b).
Definition kevent_eqb (a b : kevent) : bool :=
  match a, b with
  | KEvAuth c u p, KEvAuth c' u' p' => list_eqb setck_eqb c c' && String.eqb u u' && params_eqb p p'
  | KEvCb h r c, KEvCb h' r' c' => handler_eqb h h' && list_eqb tokreq_eqb r r' && list_eqb setck_eqb c c'
  | KEvNone, KEvNone => true
  | KEvOther, KEvOther => true
  | _, _ => false
  end.
Definition tail_eqb (a b : tail_out) : bool :=
  match a, b with
  | TailOut e u i, TailOut e' u' i' =>
      event_eqb e e' && list_eqb String.eqb u u' && option_eqb String.eqb i i'
  end.
Definition obs_eqb (a b : observed) : bool :=
  match a, b with
  | Obs x, Obs y => list_eqb event_eqb x y
  | ONoRP, ONoRP => true
  | OPanic, OPanic => true
  | ObsCk x, ObsCk y => list_eqb kevent_eqb x y
  | ObsTail x, ObsTail y => tail_eqb x y
  | _, _ => false
  end.

(* ---------- decision-path class of a model run (0 = trivial) ---------- *)
(* per callback: 0 no state cookie, 1 junk, 2 other key, 3 other name, 4 value differs,
   5 error handler, 6 pkce cookie missing/unacceptable, 7 token endpoint refuses,
   8 success without pkce, 9 success with pkce *)
Definition cb_class (cfg : config) (j : jar) (q : params) (ev : event) : nat :=
  match jar_get state_name j with
  | None => 0
  | Some (Junk _) => 1
  | Some (Mac k n s) =>
      if negb (Nat.eqb k (c_key cfg)) then 2
      else if negb (String.eqb n state_name) then 3
      else if negb (String.eqb s (form q "state")) then 4
      else match ev with
           | EvCb (HError _ _ _) _ _ => 5
           | EvCb (HUnauth _) [] _ => 6
           | EvCb (HUnauth _) _ _ => 7
           | EvCb (HApp _) (r :: _) _ => match t_verifier r with Some _ => 9 | None => 8 end
           | _ => 0
           end
  end.

Definition path (i : input) (o : observed) : nat :=
  match i with
  | Inp s tab j0 ops =>
      let cfg := construct s in
      let tr := trace (hfun tab) cfg j0 [] ops in
      let classes := map (fun t => match t with
                                   | (j, _, OCallback q _ _, ev) => cb_class cfg j q ev
                                   | (_, _, OStart _ _, _) => 10
                                   | (_, _, OStartQ _ _ _, _) => 10
                                   | (_, _, OStartFail _, _) => 10
                                   | _ => 0 end) tr in
      let mx := fold_left Nat.max classes 0 in
      let passed := List.length (filter (fun c => andb (5 <=? c) (c <=? 9)) classes) in
      mx + 11 * Nat.min 5 passed
  (* cookie attributes: 100 + 16 * (callbacks past the state check, at most 3) + 4 * (callbacks
     refused at the state cookie, at most 3) + (Set-Cookies ignored or deleting, at most 3) *)
  | InpCk s co keeps tab ops =>
      let evs := krun (hfun tab) (construct s) (new_cookie_handler co) keeps [] ops in
      let past := List.length (filter (fun e => match e with KEvCb (HUnauth "") [] [] => false | KEvCb _ _ _ => true | _ => false end) evs) in
      let refused := List.length (filter (fun e => match e with KEvCb (HUnauth "") [] [] => true | _ => false end) evs) in
      let dels := List.length (filter (fun sc => (a_maxage (snd sc) <? 0)%Z) (flat_map kev_cookies evs)) in
      100 + 16 * Nat.min 3 past + 4 * Nat.min 3 refused + Nat.min 3 dels
  (* the tail: 200 + class of the callback + 10 * (1 application callback without userinfo,
     2 userinfo accepted, 3 userinfo refused, 0 otherwise) *)
  | InpTail s vo wrap tr ui j0 q =>
      let ev := callback (construct s) j0 q (exchange_ok s vo tr) in
      200 + cb_class (construct s) j0 q ev
      + 10 * match tail_model s vo wrap tr ui j0 q with
             | TailOut (EvCb (HApp _) _ _) [] _ => 1
             | TailOut (EvCb (HApp _) _ _) _ _ => 2
             | TailOut _ (_ :: _) _ => 3
             | _ => 0
             end
  end.

Definition case_mismatches := run_mismatches model obs_eqb.
Definition case_violations := run_violations spec.
Definition case_paths := run_paths model path.
