(* C13: case vocabulary (macro-schedules), model runner and property predicate.
   A case is a script run against the real rp.NewRemoteKeySet behind a gated
   RoundTripper; the driver waits for quiescence after every macro step and
   takes a snapshot.  The model runs the small-step machine of
   C13_RemoteKeys.v on the event list the macro step stands for. *)
From OIDC Require Import Lib.
From OIDC Require Export C13_RemoteKeys.

(* symbolic signatures (DESIGN 4.4): key material k verifies exactly what k signed *)
Definition sym_verify (k : jwk) (t : token) : bool := Nat.eqb (k_mat k) (t_signer t).

Inductive mstep :=
| MArrive (tok : token)   (* start VerifySignature in a new goroutine; tid = arrival order *)
| MCancel (t : nat)       (* cancel caller t's context (possibly before it arrives) *)
| MExpire (t : nat)       (* caller t's context has a deadline and the script lets it pass;
                             for the machine this is Cancel t: the caller's own context is dead *)
| MRelease (r : resp)     (* let the gated download (if any) return r *)
| MRotate (ks : list jwk)  (* ground truth only: from now on the endpoint publishes ks (what a good
                              answer would carry); nothing happens at the key set *)
| MNeighbour (ks : list jwk).
                           (* ANOTHER key set instance - obtained the same way (rp.NewRemoteKeySet, or the
                              IDTokenVerifier of another relying party), for the same jwks_uri STRING but
                              with its own http client that reaches a different JWKS document (split
                              horizon, per-tenant gateway) - downloads ks and verifies a token of ks.
                              Nothing happens at THIS key set: it verifies exactly what ITS endpoint serves. *)

Inductive input :=
| Script (skip : bool) (steps : list mstep)
| RaceSoak.   (* thorough tier: the scripts and free-running stress rounds under the Go race detector *)

Inductive ekind := ECtx | EFetch | ENoKey | EMultiple | ESig.
Inductive status := SPending | SOk | SOkBad (* wrong payload returned *) | SErr (k : ekind).

Record snap := mkSnap {
  s_req : nat;              (* requests the endpoint has seen so far *)
  s_delivered : bool;       (* this step was a release and a request was waiting for it *)
  s_stat : list status;     (* per caller, arrival order *)
  s_cache : list jwk;       (* cachedKeys as the verif hook reads them: kid, key type, use and key
                               material of every entry, in order *)
  s_quiet : bool }.         (* the driver saw a stable state within its time-out: every unfinished
                               call parked in keysFromRemote's select, and the in-flight slot
                               occupied exactly when a download is waiting at the endpoint *)

Inductive observed := OScript (snaps : list snap) | OPanic | ORace (clean : bool).

(* ---------------- model runner ---------------- *)

Definition events_of (w : world) (m : mstep) : list event :=
  match m with
  | MArrive tok => let t := List.length (w_callers w) in [Arrive tok; Run t; Run t; RunCtx t]
  | MCancel t | MExpire t => [Cancel t; RunCtx t]
  | MRelease r =>
      match w_inflight w with
      | Some g => FetchReturns g r :: Commit g :: map Run (seq 0 (List.length (w_callers w)))
      | None => []
      end
  | MRotate _ | MNeighbour _ => []
  end.

Definition delivered_of (w : world) (m : mstep) : bool :=
  match m, w_inflight w with MRelease _, Some _ => true | _, _ => false end.

Definition status_of (c : caller) : status :=
  match c_pc c with
  | PDone (ROk _) => SOk
  | PDone RCtx => SErr ECtx
  | PDone RFetch => SErr EFetch
  | PDone RNoKey => SErr ENoKey
  | PDone RMultiple => SErr EMultiple
  | PDone RSig => SErr ESig
  | _ => SPending
  end.

Definition snap_of (w : world) (d : bool) : snap :=
  mkSnap (w_fetches w) d (map status_of (w_callers w)) (w_cache w) true.

Fixpoint run_script (w : world) (ms : list mstep) : list snap :=
  match ms with
  | [] => []
  | m :: r =>
      let w' := exec sym_verify w (events_of w m) in
      snap_of w' (delivered_of w m) :: run_script w' r
  end.

Definition model (i : input) : observed :=
  match i with
  | Script skip ms => OScript (run_script (init skip) ms)
  | RaceSoak => ORace true
  end.

(* ---------------- the property on what the implementation did ---------------- *)

Definition ekind_eqb (a b : ekind) : bool :=
  match a, b with
  | ECtx, ECtx | EFetch, EFetch | ENoKey, ENoKey | EMultiple, EMultiple | ESig, ESig => true
  | _, _ => false
  end.
Definition status_eqb (a b : status) : bool :=
  match a, b with
  | SPending, SPending | SOk, SOk | SOkBad, SOkBad => true
  | SErr x, SErr y => ekind_eqb x y
  | _, _ => false
  end.
Definition is_pending (s : status) : bool := match s with SPending => true | _ => false end.
Definition is_ok (s : status) : bool := match s with SOk => true | _ => false end.
Definition is_bad (s : status) : bool := match s with SOkBad => true | _ => false end.
Definition stat_at (s : snap) (t : nat) : status := nth t (s_stat s) SPending.
Definition mem (t : nat) (l : list nat) : bool := existsb (Nat.eqb t) l.

(* ground truth: the token's signer is among the keys of a served body *)
Definition signer_in (ks : list jwk) (tok : token) : bool :=
  existsb (fun k => Nat.eqb (k_mat k) (t_signer tok)) ks.
(* ground truth for "signed by a key the endpoint serves at that time" => must verify.
   Among the published keys that can verify this token at all (usable for signatures, of the
   key type of the token's algorithm) the signer is identifiable:
   - the token has no kid: there is exactly one such key, the signer;
   - the token has a kid: exactly one such key is published under that kid, the signer; or
     none is, and exactly one such key is published WITHOUT kid, the signer (a key set may
     leave the kid out while tokens carry one).
   Keys of another key type or use under the same kid (RFC 7517 4.5: equivalent alternatives,
   e.g. an RSA->EC migration) do not make the served signer ambiguous; two usable keys of the
   right type under the token's kid (or two kid-less ones, or two for a kid-less token) do, and
   nothing is demanded then. *)
Definition fits (tok : token) (k : jwk) : bool := use_ok k && alg_fits (k_kty k) (t_alg tok).
Definition unique_match (ks : list jwk) (tok : token) : bool :=
  let f := filter (fits tok) ks in
  let pick :=
    if String.eqb (t_kid tok) "" then f
    else match filter (fun k => String.eqb (k_kid k) (t_kid tok)) f with
         | [] => filter (fun k => String.eqb (k_kid k) "") f
         | ex => ex
         end in
  match pick with
  | [k] => Nat.eqb (k_mat k) (t_signer tok)
  | _ => false
  end.
(* ground truth for "an unknown key ID is rejected": the token's kid (compared byte for byte:
   no case folding, no trimming, no prefix) is one the served set publishes on a key that can
   verify this token at all - or the token names no kid, or the set publishes such a key
   without kid (the only key a kid the set does not know may fall back to) *)
Definition kid_known (ks : list jwk) (tok : token) : bool :=
  String.eqb (t_kid tok) ""
  || existsb (fun k => fits tok k && (String.eqb (k_kid k) (t_kid tok) || String.eqb (k_kid k) "")) ks.
(* interpretive guard of the arrival clause: the cached ground truth does not bind the token's
   kid to ANOTHER usable key of the right type (kid reuse across a rotation: the cached exact
   match fails for good, no refresh), and a kid-less token is not used with SkipRemoteCheck
   (documented: no refresh when the cached kid-less key fails) *)
Definition no_kid_conflict (skip : bool) (good : list jwk) (tok : token) : bool :=
  if String.eqb (t_kid tok) "" then negb skip
  else forallb (fun k => negb (fits tok k && String.eqb (k_kid k) (t_kid tok))
                         || Nat.eqb (k_mat k) (t_signer tok)) good.

Record truth := mkGt {
  gt_toks : list token;     (* tokens of the callers that arrived, by tid *)
  gt_cancelled : list nat;  (* contexts cancelled so far *)
  gt_good : list jwk;       (* body of the last download the endpoint answered well *)
  gt_deliv : nat;           (* downloads answered so far *)
  gt_pub : list jwk }.      (* what the endpoint publishes now (last MRotate) *)

Definition tok_at (g : truth) (t : nat) : token := nth t (gt_toks g) (mkTok "" "" 0).

Definition check_step (skip : bool) (g : truth) (p s : snap) (m : mstep) : bool * truth :=
  let toks' := match m with MArrive tok => gt_toks g ++ [tok] | _ => gt_toks g end in
  let canc' := match m with MCancel t | MExpire t => t :: gt_cancelled g | _ => gt_cancelled g end in
  let deliv' := if s_delivered s then S (gt_deliv g) else gt_deliv g in
  let good' := match m with
               | MRelease r => if s_delivered s then match parse r with Some ks => ks | None => gt_good g end
                               else gt_good g
               | _ => gt_good g end in
  let n := List.length toks' in
  let pub' := match m with MRotate ks => ks | _ => gt_pub g end in
  let g' := mkGt toks' canc' good' deliv' pub' in
  let tids := seq 0 n in
  let newly t := is_pending (stat_at p t) && negb (is_pending (stat_at s t)) in
  let own_arrival t := match m with MArrive _ => Nat.eqb t (List.length (gt_toks g)) | _ => false end in
  let is_release := match m with MRelease _ => true | _ => false end in
  let common :=
    Nat.eqb (List.length (s_stat s)) n
    && s_quiet s   (* nothing hangs: no call stuck outside its wait, no in-flight slot left
                      occupied without a download (which would block every later refresh) *)
    && forallb (fun t => is_pending (stat_at p t) || status_eqb (stat_at s t) (stat_at p t)) tids
         (* a finished call stays finished with the same answer *)
    && negb (existsb is_bad (s_stat s))
    && (s_req p <=? s_req s)
    && (s_req s <=? S deliv')           (* single flight: at most one download not yet answered *)
    && (s_req s <=? n)                  (* at most one refresh per call *)
    && (negb (s_delivered s) || is_release)
    && list_eqb jwk_eqb (s_cache s) good'
         (* the cached keys are the list the last good download served - every entry with its
            kid, key type, use and material, in order: no verification, cancel or failed
            download alters them *)
    && forallb (fun t => negb (newly t) || mem t canc' || own_arrival t || s_delivered s) tids
         (* cancel isolation: a call whose context is live finishes only by itself
            (on arrival, from the cache) or because the endpoint answered *)
    && forallb (fun t => negb (newly t) || negb (mem t canc') || own_arrival t || negb (is_ok (stat_at s t))) tids
         (* a call whose context was cancelled while it waited does not succeed *)
  in
  let specific :=
    match m with
    | MArrive tok =>
        let t := List.length (gt_toks g) in
        (negb (unique_match (gt_good g) tok) || (is_ok (stat_at s t) && Nat.eqb (s_req s) (s_req p)))
          (* a key of the last good download still verifies, without a new download *)
        && (negb (is_ok (stat_at s t)) || (signer_in (gt_good g) tok && kid_known (gt_good g) tok))
        && (negb (unique_match (gt_pub g) tok) || mem t canc' || negb (no_kid_conflict skip (gt_good g) tok)
            || is_pending (stat_at s t) || is_ok (stat_at s t))
          (* a token signed by a key the endpoint publishes NOW (e.g. newly rotated) is not turned
             away on arrival: it verifies from the cache or triggers a refresh *)
        && match stat_at s t with
           | SPending | SOk | SErr ESig => true    (* waits for a download, or answered by the cache *)
           | SErr ECtx => mem t canc'
           | _ => false   (* "unable to fetch" / "no key" before any download was answered for this
                             call: the answer of a download that ended before the call began; only
                             verifications WAITING for a failed download fail with it *)
           end
    | MCancel _ | MExpire _ | MRotate _ | MNeighbour _ => true
        (* the common clauses do the work for MNeighbour: the cached keys are still the last good
           body of THIS endpoint, no request, nobody finishes *)
    | MRelease r =>
        if s_delivered s then
          forallb (fun t => negb (is_pending (stat_at p t)) || negb (is_pending (stat_at s t))) tids
            (* everybody who waited for this download has an answer: at most one refresh *)
          && match parse r with
             | Some ks =>
                 forallb (fun t => negb (is_pending (stat_at p t)) ||
                    ((negb (is_ok (stat_at s t)) || (signer_in ks (tok_at g' t) && kid_known ks (tok_at g' t)))
                     && (negb (unique_match ks (tok_at g' t)) || mem t canc' || is_ok (stat_at s t)))) tids
             | None =>
                 forallb (fun t => negb (is_pending (stat_at p t)) || negb (is_ok (stat_at s t))) tids
                 && list_eqb jwk_eqb (s_cache s) (s_cache p)   (* cached keys not discarded *)
             end
        else true
    end in
  (common && specific, g').

Fixpoint check_steps (skip : bool) (g : truth) (p : snap) (ms : list mstep) (ss : list snap) : bool :=
  match ms, ss with
  | [], [] => true
  | m :: mr, s :: sr => let '(ok, g') := check_step skip g p s m in ok && check_steps skip g' s mr sr
  | _, _ => false
  end.

Definition spec (i : input) (o : observed) : bool :=
  match i, o with
  | Script skip ms, OScript ss => check_steps skip (mkGt [] [] [] 0 []) (mkSnap 0 false [] [] true) ms ss
  | RaceSoak, ORace clean => clean   (* no data race reported, no schedule-independent fact violated *)
  | _, _ => false
  end.

Definition snap_eqb (a b : snap) : bool :=
  Nat.eqb (s_req a) (s_req b) && Bool.eqb (s_delivered a) (s_delivered b)
  && list_eqb status_eqb (s_stat a) (s_stat b) && list_eqb jwk_eqb (s_cache a) (s_cache b)
  && Bool.eqb (s_quiet a) (s_quiet b).

Definition obs_eqb (a b : observed) : bool :=
  match a, b with
  | OScript x, OScript y => list_eqb snap_eqb x y
  | OPanic, OPanic => true
  | ORace x, ORace y => Bool.eqb x y
  | _, _ => false
  end.

(* decision-path class of the model run: 0 = nobody called *)
Definition b2n (b : bool) : nat := if b then 1 else 0.
Definition path (i : input) (o : observed) : nat :=
  match i, o with
  | Script skip _, OScript ss =>
      match rev ss with
      | [] => 0
      | l :: _ =>
          match s_stat l with
          | [] => 0
          | st =>
              1 + Nat.min 3 (s_req l)
              + 4 * b2n (existsb is_ok st)
              + 8 * b2n (existsb (status_eqb (SErr ECtx)) st)
              + 16 * b2n (existsb (status_eqb (SErr EFetch)) st)
              + 32 * b2n (existsb (fun s => status_eqb (SErr ENoKey) s || status_eqb (SErr EMultiple) s || status_eqb (SErr ESig) s) st)
              + 64 * b2n (existsb is_pending st)
              + 128 * b2n skip
          end
      end
  | RaceSoak, _ => 255
  | _, _ => 0
  end.

Definition case_mismatches := run_mismatches model obs_eqb.
Definition case_violations := run_violations spec.
Definition case_paths := run_paths model path.
