(* C01: how a relying party's ID-token verifier gets its configuration, and
   what the accessors of the returned claims report.

   Go (pkg/client/rp/verifier.go)                    Gallina
   ------------------------------------------------------------------------
   rp.VerifierOption values:
     WithIssuedAtOffset(d)                           WithIssuedAtOffset d
     WithIssuedAtMaxAge(d)                           WithIssuedAtMaxAge d
     WithNonce(nil) / WithNonce(func -> s)           WithNonce None / (Some s)
     WithACRVerifier(nil) /
       WithACRVerifier(oidc.DefaultACRVerifier(l))   WithACRVerifier None / (Some l)
     WithAuthTimeMaxAge(d)                           WithAuthTimeMaxAge d
     WithSupportedSigningAlgorithms(l...)            WithSupportedSigningAlgorithms l
   the closure each constructor returns              apply_opt
   rp.NewIDTokenVerifier(issuer, client, ks, opts...)
     (defaults Offset = 1 s, Nonce = func -> "", then
      `for _, o := range options { o(v) }`)          default_verifier, new_id_token_verifier

   Go (pkg/oidc/token.go, types.go)                  Gallina
   ------------------------------------------------------------------------
   oidc.Time.AsTime (0 -> time.Time{})               as_time (IsZero, Unix seconds)
   TokenClaims GetIssuer / GetSubject / GetAudience / GetExpiration /
     GetIssuedAt / GetAuthTime / GetNonce / GetAuthorizedParty /
     GetAuthenticationContextClassReference /
     GetSignatureAlgorithm, IDTokenClaims GetAccessTokenHash
                                                     g_iss ... g_at_hash of [getters]
   IDTokenClaims GetUserInfo (Subject, profile / email / phone members,
     Address pointer, copy of the Claims map)        ui_* of [getters]

   The standard profile members of the payload are not part of the [claims]
   record the Check* functions read; like [MidOk bytes c] they are what
   encoding/json decodes from the signed bytes and are given by the harness as
   a [profile] (ground truth: the payload was built from it). *)
From OIDC Require Import Lib C02_Jws C01_Verifier.

(* ---------------- option list -> configuration ---------------- *)
Inductive vopt :=
| WithIssuedAtOffset (d : Z)
| WithIssuedAtMaxAge (d : Z)
| WithNonce (n : option string)
| WithACRVerifier (l : option (list string))
| WithAuthTimeMaxAge (d : Z)
| WithSupportedSigningAlgorithms (l : list string).

(* the struct literal of NewIDTokenVerifier *)
Definition default_verifier (issuer client : string) : verifier :=
  mkVerifier issuer client ns 0 0 (Some "") None [].

(* the closure returned by each constructor, applied to the verifier *)
Definition apply_opt (v : verifier) (o : vopt) : verifier :=
  match o with
  | WithIssuedAtOffset d =>
      mkVerifier (v_issuer v) (v_client v) d (v_max_iat v) (v_max_age v) (v_nonce v) (v_acr v) (v_algs v)
  | WithIssuedAtMaxAge d =>
      mkVerifier (v_issuer v) (v_client v) (v_offset v) d (v_max_age v) (v_nonce v) (v_acr v) (v_algs v)
  | WithNonce n =>
      mkVerifier (v_issuer v) (v_client v) (v_offset v) (v_max_iat v) (v_max_age v) n (v_acr v) (v_algs v)
  | WithACRVerifier l =>
      mkVerifier (v_issuer v) (v_client v) (v_offset v) (v_max_iat v) (v_max_age v) (v_nonce v) l (v_algs v)
  | WithAuthTimeMaxAge d =>
      mkVerifier (v_issuer v) (v_client v) (v_offset v) (v_max_iat v) d (v_nonce v) (v_acr v) (v_algs v)
  | WithSupportedSigningAlgorithms l =>
      mkVerifier (v_issuer v) (v_client v) (v_offset v) (v_max_iat v) (v_max_age v) (v_nonce v) (v_acr v) l
  end.

(* for _, opts := range options { opts(v) } *)
Definition new_id_token_verifier (issuer client : string) (opts : list vopt) : verifier :=
  fold_left apply_opt opts (default_verifier issuer client).

(* which field an option is about *)
Inductive okind := KOffset | KMaxIat | KNonce | KAcr | KMaxAge | KAlgs.
Definition opt_kind (o : vopt) : okind :=
  match o with
  | WithIssuedAtOffset _ => KOffset | WithIssuedAtMaxAge _ => KMaxIat | WithNonce _ => KNonce
  | WithACRVerifier _ => KAcr | WithAuthTimeMaxAge _ => KMaxAge | WithSupportedSigningAlgorithms _ => KAlgs
  end.
Definition okind_eqb (a b : okind) : bool :=
  match a, b with
  | KOffset, KOffset | KMaxIat, KMaxIat | KNonce, KNonce | KAcr, KAcr | KMaxAge, KMaxAge | KAlgs, KAlgs => true
  | _, _ => false
  end.

(* what can be read off a constructed verifier from outside: the plain fields,
   the value the Nonce function returns (None: nil function), the answers of
   the ACR function to a list of probe strings (None: nil function) *)
Record cfgobs := mkCfgObs {
  co_issuer : string; co_client : string;
  co_offset : Z; co_max_iat : Z; co_max_age : Z;
  co_nonce : option string;
  co_acr : option (list bool);
  co_algs : list string
}.

Definition observe_cfg (v : verifier) (probes : list string) : cfgobs :=
  mkCfgObs (v_issuer v) (v_client v) (v_offset v) (v_max_iat v) (v_max_age v) (v_nonce v)
           (match v_acr v with None => None | Some l => Some (map (fun p => string_in p l) probes) end)
           (v_algs v).

(* ---------------- accessors of the returned claims ---------------- *)
(* a time.Time as the relying party sees it: IsZero() and Unix() *)
Record gtime := mkGT { gt_zero : bool; gt_unix : Z }.

(* oidc.Time(s).AsTime() *)
Definition as_time (s : Z) : gtime := mkGT (is_zero_time s) (instant s / ns)%Z.

(* standard claims of the payload beyond those the verifier checks *)
Record profile := mkProfile {
  p_name : string; p_given : string; p_family : string; p_username : string;
  p_email : string; p_email_verified : bool;
  p_phone : string; p_phone_verified : bool;
  p_address : option string;        (* address member absent / its locality *)
  p_updated_at : Z;
  p_members : N                     (* number of distinct members of the payload object *)
}.

Record gview := mkGView {
  g_iss : string; g_sub : string; g_aud : list string;
  g_exp : gtime; g_iat : gtime; g_auth_time : gtime;
  g_nonce : string; g_acr : string; g_azp : string;
  g_alg : string; g_at_hash : string;
  (* GetUserInfo() *)
  ui_sub : string; ui_name : string; ui_given : string; ui_family : string; ui_username : string;
  ui_email : string; ui_email_verified : bool; ui_phone : string; ui_phone_verified : bool;
  ui_address : option string; ui_updated_at : Z;
  ui_ext : string;                  (* Claims["ext"] of the copied map *)
  ui_members : N                    (* len(Claims) of the copied map *)
}.

(* the getters applied to claims c carrying SignatureAlg alg *)
Definition getters (c : claims) (alg : string) (p : profile) : gview :=
  mkGView (c_iss c) (c_sub c) (c_aud c)
          (as_time (c_exp c)) (as_time (c_iat c)) (as_time (c_auth_time c))
          (c_nonce c) (c_acr c) (c_azp c) alg (c_at_hash c)
          (c_sub c) (p_name p) (p_given p) (p_family p) (p_username p)
          (p_email p) (p_email_verified p) (p_phone p) (p_phone_verified p)
          (p_address p) (p_updated_at p) (c_extra c) (p_members p).

Definition gtime_eqb (a b : gtime) : bool :=
  Bool.eqb (gt_zero a) (gt_zero b) && Z.eqb (gt_unix a) (gt_unix b).

Definition gview_eqb (a b : gview) : bool :=
  (g_iss a =s g_iss b) && (g_sub a =s g_sub b) && list_eqb String.eqb (g_aud a) (g_aud b)
  && gtime_eqb (g_exp a) (g_exp b) && gtime_eqb (g_iat a) (g_iat b) && gtime_eqb (g_auth_time a) (g_auth_time b)
  && (g_nonce a =s g_nonce b) && (g_acr a =s g_acr b) && (g_azp a =s g_azp b)
  && (g_alg a =s g_alg b) && (g_at_hash a =s g_at_hash b)
  && (ui_sub a =s ui_sub b) && (ui_name a =s ui_name b) && (ui_given a =s ui_given b)
  && (ui_family a =s ui_family b) && (ui_username a =s ui_username b)
  && (ui_email a =s ui_email b) && Bool.eqb (ui_email_verified a) (ui_email_verified b)
  && (ui_phone a =s ui_phone b) && Bool.eqb (ui_phone_verified a) (ui_phone_verified b)
  && option_eqb String.eqb (ui_address a) (ui_address b)
  && Z.eqb (ui_updated_at a) (ui_updated_at b)
  && (ui_ext a =s ui_ext b) && N.eqb (ui_members a) (ui_members b).

Definition cfgobs_eqb (a b : cfgobs) : bool :=
  (co_issuer a =s co_issuer b) && (co_client a =s co_client b)
  && Z.eqb (co_offset a) (co_offset b) && Z.eqb (co_max_iat a) (co_max_iat b) && Z.eqb (co_max_age a) (co_max_age b)
  && option_eqb String.eqb (co_nonce a) (co_nonce b)
  && option_eqb (list_eqb Bool.eqb) (co_acr a) (co_acr b)
  && list_eqb String.eqb (co_algs a) (co_algs b).
