(* C17 proofs. *)
From OIDC Require Import Lib C17_RP C17_spec.

(* ---------- cookies and jars ---------- *)
Lemma decode_inv k n c v : decode k n c = Some v -> c = Mac k n v.
Proof.
  destruct c as [k' n' v'|l]; cbn; [|discriminate].
  destruct (Nat.eqb k k') eqn:E1; destruct (String.eqb n' n) eqn:E2; cbn; try discriminate.
  intros [= ->]. apply Nat.eqb_eq in E1. apply String.eqb_eq in E2. now subst.
Qed.

Lemma decode_mac k n v : decode k n (Mac k n v) = Some v.
Proof. cbn. now rewrite Nat.eqb_refl, String.eqb_refl. Qed.

Lemma jar_get_app n a b :
  jar_get n (a ++ b) = match jar_get n a with Some c => Some c | None => jar_get n b end.
Proof.
  induction a as [|[m c] a IH]; cbn; [reflexivity|]. destruct (String.eqb m n); auto.
Qed.

Lemma jar_get_del n m j : jar_get n (jar_del m j) = if String.eqb m n then None else jar_get n j.
Proof.
  unfold jar_del. induction j as [|[k c] j IH]; cbn [filter jar_get fst negb].
  - destruct (String.eqb m n); reflexivity.
  - destruct (String.eqb k m) eqn:E; cbn [negb jar_get].
    + rewrite IH. apply String.eqb_eq in E; subst k. destruct (String.eqb m n); reflexivity.
    + rewrite IH. destruct (String.eqb k n) eqn:E2; [|reflexivity].
      apply String.eqb_eq in E2; subst k. rewrite String.eqb_sym, E. reflexivity.
Qed.

Lemma jar_get_set n m c j :
  jar_get n (jar_set m c j) = if String.eqb m n then Some c else jar_get n j.
Proof.
  unfold jar_set. rewrite jar_get_app, jar_get_del. cbn [jar_get].
  destruct (String.eqb m n); [reflexivity|]. destruct (jar_get n j); reflexivity.
Qed.

Lemma check_del k n m j :
  check_cookie k n (jar_del m j) = if String.eqb m n then None else check_cookie k n j.
Proof. unfold check_cookie. rewrite jar_get_del. destruct (String.eqb m n); reflexivity. Qed.

Lemma check_set k n m c j :
  check_cookie k n (jar_set m c j) = if String.eqb m n then decode k n c else check_cookie k n j.
Proof. unfold check_cookie. rewrite jar_get_set. destruct (String.eqb m n); reflexivity. Qed.

Lemma check_inv k n j v : check_cookie k n j = Some v -> jar_get n j = Some (Mac k n v).
Proof.
  unfold check_cookie. destruct (jar_get n j) as [c|]; [|discriminate].
  intro E. apply decode_inv in E. now subst.
Qed.

Definition only_dels (cs : list cookie_cmd) : Prop := forall e, In e cs -> snd e = None.

Lemma check_apply_dels k n cs : only_dels cs ->
  forall j x, check_cookie k n (jar_apply j cs) = Some x -> check_cookie k n j = Some x.
Proof.
  induction cs as [|a cs IH]; intros Hd j x; cbn; [auto|]. intro Hc.
  apply IH in Hc; [|intros e He; apply Hd; now right].
  unfold jar_apply1 in Hc. rewrite (Hd a (or_introl eq_refl)) in Hc. rewrite check_del in Hc.
  destruct (String.eqb (fst a) n); [discriminate|assumption].
Qed.

(* ---------- parameter lists ---------- *)
Lemma plookup_pset_same k v l : plookup k (pset k v l) = Some v.
Proof.
  induction l as [|[k' v'] l IH]; cbn; [now rewrite String.eqb_refl|].
  destruct (String.eqb k' k) eqn:E; cbn; [now rewrite String.eqb_refl | now rewrite E].
Qed.

Lemma plookup_pset_other k k' v l : String.eqb k' k = false -> plookup k (pset k' v l) = plookup k l.
Proof.
  intro Hn. induction l as [|[k0 v0] l IH]; cbn; [now rewrite Hn|].
  destruct (String.eqb k0 k') eqn:E1; cbn.
  - apply String.eqb_eq in E1; subst k0. now rewrite Hn.
  - destruct (String.eqb k0 k); auto.
Qed.

Definition key_free (k : string) (ex : params) : bool :=
  forallb (fun kv => negb (String.eqb (fst kv) k)) ex.

Lemma plookup_extras k ex : key_free k ex = true ->
  forall p, plookup k (fold_left (fun p kv => pset (fst kv) (snd kv) p) ex p) = plookup k p.
Proof.
  induction ex as [|kv ex IH]; cbn; intros Hf p; [reflexivity|].
  apply andb_true_iff in Hf as [H1 H2]. rewrite (IH H2).
  apply plookup_pset_other. now destruct (String.eqb (fst kv) k).
Qed.

Lemma extra_ok_free cfg k : extra_ok cfg = true -> string_in k reserved = true ->
  key_free k (c_extra cfg) = true.
Proof.
  unfold extra_ok, key_free. intros He Hk. induction (c_extra cfg) as [|kv ex IH]; cbn in *; [reflexivity|].
  apply andb_true_iff in He as [H1 H2]. rewrite (IH H2), andb_true_r.
  destruct (String.eqb (fst kv) k) eqn:E; [|reflexivity].
  apply String.eqb_eq in E. rewrite E in H1. unfold string_in in Hk. cbn in H1, Hk. rewrite Hk in H1. discriminate.
Qed.

(* the parameters AuthCodeURL sets before any option is applied *)
Definition base_params (cfg : config) (s : string) : params :=
  let p := [("response_type", "code"); ("client_id", c_client cfg)] in
  let p := if is_empty (c_redirect cfg) then p else pset "redirect_uri" (c_redirect cfg) p in
  let p := match c_scopes cfg with [] => p | _ => pset "scope" (String.concat " " (c_scopes cfg)) p end in
  if is_empty s then p else pset "state" s p.

Lemma auth_params_reserved cfg s ch k :
  extra_ok cfg = true -> string_in k reserved = true ->
  plookup k (auth_params cfg s ch) = plookup k (base_params cfg s).
Proof.
  intros He Hk. unfold auth_params. fold (base_params cfg s).
  assert (Hc1 : String.eqb "code_challenge" k = false /\ String.eqb "code_challenge_method" k = false).
  { unfold string_in, reserved in Hk. cbn [existsb] in Hk.
    repeat (apply orb_true_iff in Hk as [Hk|Hk]; [apply String.eqb_eq in Hk; subst k; split; reflexivity|]).
    discriminate. }
  destruct Hc1 as [Hc1 Hc2].
  destruct ch as [c|]; [rewrite !plookup_pset_other by assumption|];
    apply plookup_extras; now apply extra_ok_free.
Qed.

Lemma is_empty_eq s : is_empty s = true -> s = "".
Proof. apply String.eqb_eq. Qed.

Ltac lk := repeat first
  [ rewrite plookup_pset_same
  | rewrite plookup_pset_other by reflexivity ].

Lemma base_response_type cfg s : plookup "response_type" (base_params cfg s) = Some "code".
Proof.
  unfold base_params. destruct (is_empty s), (is_empty (c_redirect cfg)), (c_scopes cfg); lk; reflexivity.
Qed.
Lemma base_client cfg s : plookup "client_id" (base_params cfg s) = Some (c_client cfg).
Proof.
  unfold base_params. destruct (is_empty s), (is_empty (c_redirect cfg)), (c_scopes cfg); lk; reflexivity.
Qed.
Lemma base_redirect cfg s : is_empty (c_redirect cfg) = false ->
  plookup "redirect_uri" (base_params cfg s) = Some (c_redirect cfg).
Proof.
  intro E. unfold base_params. rewrite E. destruct (is_empty s), (c_scopes cfg); lk; reflexivity.
Qed.
Lemma base_scope cfg s : c_scopes cfg <> [] ->
  plookup "scope" (base_params cfg s) = Some (String.concat " " (c_scopes cfg)).
Proof.
  intro E. unfold base_params. destruct (c_scopes cfg) as [|a l]; [congruence|].
  destruct (is_empty s); lk; reflexivity.
Qed.
Lemma base_state cfg s : form (base_params cfg s) "state" = s.
Proof.
  unfold form, base_params. destruct (is_empty s) eqn:E.
  - apply is_empty_eq in E. subst s. destruct (is_empty (c_redirect cfg)), (c_scopes cfg); lk; reflexivity.
  - lk. reflexivity.
Qed.

Lemma challenge_param cfg s c : plookup "code_challenge" (auth_params cfg s (Some c)) = Some c.
Proof. unfold auth_params. lk. reflexivity. Qed.
Lemma challenge_method cfg s c : plookup "code_challenge_method" (auth_params cfg s (Some c)) = Some "S256".
Proof. unfold auth_params. lk. reflexivity. Qed.

Lemma opt_is_some v : opt_is (Some v) v = true.
Proof. cbn. apply String.eqb_refl. Qed.

Lemma scope_check cfg s :
  match c_scopes cfg with
  | [] => true
  | _ :: _ => opt_is (plookup "scope" (base_params cfg s)) (String.concat " " (c_scopes cfg))
  end = true.
Proof.
  pose proof (base_scope cfg s) as Hb. destruct (c_scopes cfg) as [|a l] eqn:Es; [reflexivity|].
  rewrite Hb by discriminate. apply opt_is_some.
Qed.

Lemma redirect_check cfg s :
  is_empty (c_redirect cfg) || opt_is (plookup "redirect_uri" (base_params cfg s)) (c_redirect cfg) = true.
Proof.
  destruct (is_empty (c_redirect cfg)) eqn:Er; [reflexivity|].
  rewrite (base_redirect cfg s Er). apply opt_is_some.
Qed.

(* ---------- url.Values.Set keeps every key single-valued ---------- *)
Lemma count_pset k k' v l :
  count_key k (pset k' v l)
  = if String.eqb k' k then (if count_key k l =? 0 then 1 else count_key k l) else count_key k l.
Proof.
  unfold count_key. induction l as [|[a b] r IH].
  - cbn. destruct (String.eqb k' k); reflexivity.
  - cbn [pset]. destruct (String.eqb a k') eqn:Ea.
    + apply String.eqb_eq in Ea. subst a. cbn [filter fst]. destruct (String.eqb k' k); reflexivity.
    + cbn [filter fst]. destruct (String.eqb a k) eqn:Eak.
      * cbn [List.length]. rewrite IH. destruct (String.eqb k' k) eqn:Ek; [|reflexivity].
        apply String.eqb_eq in Ek, Eak. subst. rewrite String.eqb_refl in Ea. discriminate.
      * exact IH.
Qed.

Definition uniq (l : params) : Prop := forall k, count_key k l <= 1.

Lemma uniq_pset k' v l : uniq l -> uniq (pset k' v l).
Proof.
  intros Hu k. rewrite count_pset. specialize (Hu k).
  destruct (String.eqb k' k); [destruct (count_key k l =? 0)|]; lia.
Qed.

Lemma uniq_fold ex : forall l, uniq l -> uniq (fold_left (fun p kv => pset (fst kv) (snd kv) p) ex l).
Proof. induction ex as [|e ex IH]; intros l Hu; [exact Hu|]. cbn [fold_left]. apply IH. now apply uniq_pset. Qed.

Lemma uniq_auth_params cfg s ch : uniq (auth_params cfg s ch).
Proof.
  unfold auth_params.
  assert (H0 : uniq [("response_type", "code"); ("client_id", c_client cfg)]).
  { intro k. unfold count_key. cbn [filter fst].
    destruct (String.eqb "response_type" k) eqn:E1, (String.eqb "client_id" k) eqn:E2; cbn; try lia.
    apply String.eqb_eq in E1, E2. subst k. discriminate. }
  assert (H1 : uniq (if is_empty (c_redirect cfg) then [("response_type", "code"); ("client_id", c_client cfg)]
                     else pset "redirect_uri" (c_redirect cfg) [("response_type", "code"); ("client_id", c_client cfg)])).
  { destruct (is_empty (c_redirect cfg)); [exact H0|now apply uniq_pset]. }
  match goal with |- uniq (match ch with Some _ => _ | None => ?X end) => assert (H2 : uniq X) end.
  { apply uniq_fold. destruct (is_empty s); [|apply uniq_pset]; destruct (c_scopes cfg); try apply uniq_pset; exact H1. }
  destruct ch; [now do 2 apply uniq_pset|exact H2].
Qed.

Lemma single_valued_auth_params cfg s ch : single_valued (auth_params cfg s ch) = true.
Proof.
  unfold single_valued. apply forallb_forall. intros k _. apply Nat.leb_le. apply uniq_auth_params.
Qed.

(* ---------- rp.AuthURL without options, at any time ---------- *)
Lemma probe_is_base cfg : probe_params cfg = base_params (plain_cfg cfg) probe_state.
Proof. reflexivity. Qed.

Lemma probe_ok cfg : url_core_ok cfg probe_state (c_auth cfg) (probe_params cfg) = true.
Proof.
  rewrite probe_is_base. unfold url_core_ok.
  change (c_client cfg) with (c_client (plain_cfg cfg)).
  change (c_redirect cfg) with (c_redirect (plain_cfg cfg)).
  change (c_scopes cfg) with (c_scopes (plain_cfg cfg)).
  rewrite base_response_type, base_client, base_state, !opt_is_some, !String.eqb_refl.
  rewrite redirect_check, scope_check. reflexivity.
Qed.

(* ---------- the login redirect ---------- *)
Section Proofs.
  Variable H : string -> string.
  Variable cfg : config.
  Let k := c_key cfg.

  Lemma cmd_eqb_refl_mac n kk m v : cmd_eqb (n, Some (Mac kk m v)) (n, Some (Mac kk m v)) = true.
  Proof. unfold cmd_eqb. cbn. now rewrite !String.eqb_refl, Nat.eqb_refl. Qed.

  Lemma auth_ok_model s v :
    auth_ok H cfg s (login_cookies cfg s v) (c_auth cfg)
            (auth_params cfg s (if c_pkce cfg then Some (H v) else None)) = true.
  Proof.
    unfold auth_ok. rewrite single_valued_auth_params, andb_true_r. repeat (apply andb_true_iff; split).
    - unfold login_cookies, has_cmd, state_cookie. cbn [existsb]. now rewrite cmd_eqb_refl_mac.
    - apply String.eqb_refl.
    - destruct (extra_ok cfg) eqn:He; [|reflexivity]. cbn [negb orb].
      rewrite !(auth_params_reserved cfg s _ _ He) by reflexivity.
      unfold form. rewrite (auth_params_reserved cfg s _ _ He) by reflexivity. fold (form (base_params cfg s) "state").
      rewrite base_response_type, base_client, base_state, !opt_is_some, String.eqb_refl.
      rewrite redirect_check, scope_check. reflexivity.
    - destruct (c_pkce cfg) eqn:Ep; [|reflexivity]. cbn [negb orb].
      unfold login_cookies. rewrite Ep. cbn [stored_verifier state_cookie pkce_cookie].
      change (String.eqb state_name pkce_name) with false. cbn iota.
      rewrite String.eqb_refl, decode_mac, challenge_param, challenge_method, !opt_is_some. reflexivity.
  Qed.

  (* ---------- the callback ---------- *)
  Lemma callback_shape j q ok :
    exists h r cs, callback cfg j q ok = EvCb h r cs /\ only_dels cs.
  Proof.
    unfold callback.
    destruct (check_cookie (c_key cfg) state_name j) as [s|]; [|do 3 eexists; split; [reflexivity|intros e []]].
    destruct (negb (String.eqb s (form q "state"))); [do 3 eexists; split; [reflexivity|intros e []]|].
    destruct (negb (is_empty (form q "error"))).
    { do 3 eexists; split; [reflexivity|]. intros e [<-|[]]; reflexivity. }
    destruct (c_pkce cfg).
    - destruct (check_cookie (c_key cfg) pkce_name j).
      + do 3 eexists; split; [reflexivity|]. intros e [<-|[<-|[]]]; reflexivity.
      + do 3 eexists; split; [reflexivity|]. intros e [<-|[]]; reflexivity.
    - do 3 eexists; split; [reflexivity|]. intros e [<-|[]]; reflexivity.
  Qed.

  (* all jars, all queries: what a callback does is decided by the state cookie *)
  Lemma callback_reject j q ok :
    jar_get state_name j <> Some (Mac k state_name (form q "state")) ->
    callback cfg j q ok = EvCb (HUnauth "") [] [].
  Proof.
    intro Hn. unfold callback.
    destruct (check_cookie (c_key cfg) state_name j) as [s|] eqn:Es; [|reflexivity].
    destruct (String.eqb s (form q "state")) eqn:E; [|reflexivity].
    apply String.eqb_eq in E; subst s. apply check_inv in Es. contradiction.
  Qed.

  Lemma callback_accept j q ok :
    jar_get state_name j = Some (Mac k state_name (form q "state")) ->
    exists h reqs cs, callback cfg j q ok = EvCb h reqs cs
      /\ h <> HOther /\ (forall st, h = HApp st -> st = form q "state")
      /\ (forall st, h = HApp st -> reqs <> [])
      /\ (forall r, In r reqs ->
            t_code r = form q "code" /\ t_redirect r = c_redirect cfg /\ t_client r = c_client cfg
            /\ t_assert r = c_jwt cfg
            /\ (if c_pkce cfg
                then exists v, t_verifier r = Some v /\ jar_get pkce_name j = Some (Mac k pkce_name v)
                else t_verifier r = None)).
  Proof.
    intro Hj. unfold callback, check_cookie at 1. rewrite Hj. unfold k. rewrite decode_mac, String.eqb_refl. cbn [negb].
    destruct (negb (is_empty (form q "error"))).
    { do 3 eexists; split; [reflexivity|]. split; [discriminate|]. split; [discriminate|]. split; [discriminate|]. intros r []. }
    destruct (c_pkce cfg) eqn:Ep.
    - destruct (check_cookie (c_key cfg) pkce_name j) as [v|] eqn:Ev.
      + apply check_inv in Ev. do 3 eexists; split; [reflexivity|].
        split; [destruct ok; discriminate|]. split; [destruct ok; [now intros st [= <-]|discriminate]|].
        split; [discriminate|]. intros r [<-|[]]. cbn. repeat split. now exists v.
      + do 3 eexists; split; [reflexivity|]. split; [discriminate|]. split; [discriminate|]. split; [discriminate|]. intros r [].
    - do 3 eexists; split; [reflexivity|].
      split; [destruct ok; discriminate|]. split; [destruct ok; [now intros st [= <-]|discriminate]|].
      split; [discriminate|]. intros r [<-|[]]. cbn. repeat split.
  Qed.

  (* ---------- histories ---------- *)
  Definition full_login (s v : string) : list cookie_cmd * params :=
    ([state_cookie cfg s; pkce_cookie cfg v], auth_params cfg s (Some (H v))).

  (* whenever the jar holds an acceptable state cookie and an acceptable pkce
     cookie, both stem from the most recent login redirect *)
  Definition Inv (j : jar) (lg : logins) : Prop :=
    forall s v, check_cookie k state_name j = Some s -> check_cookie k pkce_name j = Some v ->
                exists rest, lg = full_login s v :: rest.

  Lemma inv_step j lg o :
    c_pkce cfg = true -> op_honest cfg o = true -> Inv j lg ->
    Inv (jar_after j o (respond H cfg j o)) (push_login (respond H cfg j o) lg).
  Proof.
    intros Hp Hh HI. destruct o as [s0 v0|s0|q ok ap|n c|n|s0 v0 lq|l].
    2:{ exact HI. }
    6:{ exact HI. }
    1,5: (cbn [respond]; unfold start_login, login_cookies; rewrite Hp;
      cbn [jar_after ev_cookies push_login jar_apply fold_left jar_apply1 fst snd state_cookie pkce_cookie];
      intros s v Hs Hv; rewrite !check_set in Hs, Hv;
      change (String.eqb pkce_name state_name) with false in Hs;
      rewrite String.eqb_refl in Hs, Hv; unfold k in Hs, Hv; rewrite decode_mac in Hs, Hv;
      injection Hs as <-; injection Hv as <-; eexists; reflexivity).
    - cbn [respond]. destruct (callback_shape j q ok) as (h & r & cs & E & Hd). rewrite E.
      cbn [push_login jar_after ev_cookies]. destruct ap; [|assumption].
      intros s v Hs Hv. apply check_apply_dels in Hs, Hv; auto.
    - cbn [respond jar_after push_login]. cbn in Hh.
      intros s v Hs Hv. rewrite check_set in Hs, Hv.
      destruct (String.eqb n state_name) eqn:E1.
      { apply String.eqb_eq in E1; subst n. unfold k in Hs. destruct (decode (c_key cfg) state_name c); discriminate. }
      destruct (String.eqb n pkce_name) eqn:E2.
      { apply String.eqb_eq in E2; subst n. unfold k in Hv. destruct (decode (c_key cfg) pkce_name c); discriminate. }
      now apply HI.
    - cbn [respond jar_after push_login].
      intros s v Hs Hv. rewrite check_del in Hs, Hv.
      destruct (String.eqb n state_name); [discriminate|]. destruct (String.eqb n pkce_name); [discriminate|].
      now apply HI.
  Qed.

  Definition t_jar (t : jar * logins * op * event) : jar := fst (fst (fst t)).
  Definition t_logins (t : jar * logins * op * event) : logins := snd (fst (fst t)).

  Lemma trace_inv ops : forall j lg,
    c_pkce cfg = true -> forallb (op_honest cfg) ops = true -> Inv j lg ->
    Forall (fun t => Inv (t_jar t) (t_logins t)) (trace H cfg j lg ops).
  Proof.
    induction ops as [|o ops IH]; intros j lg Hp Hh HI; cbn [trace]; constructor.
    - exact HI.
    - cbn in Hh. apply andb_true_iff in Hh as [H1 H2]. apply IH; auto. now apply inv_step.
  Qed.

  Lemma trace_respond ops : forall j lg j' lg' o ev,
    In (j', lg', o, ev) (trace H cfg j lg ops) -> ev = respond H cfg j' o.
  Proof.
    induction ops as [|o0 ops IH]; intros j lg j' lg' o ev; cbn [trace]; [intros []|].
    intros [E|Hin]; [now inversion E | eauto].
  Qed.

  (* every entry of the login list is an authorization redirect the RP issued *)
  Definition is_redirect (l : list cookie_cmd * params) : Prop :=
    exists s v, start_login H cfg s v = EvAuth (fst l) (c_auth cfg) (snd l).

  Lemma trace_logins ops : forall j lg,
    Forall is_redirect lg -> Forall (fun t => Forall is_redirect (t_logins t)) (trace H cfg j lg ops).
  Proof.
    induction ops as [|o ops IH]; intros j lg Hl; cbn [trace]; constructor; [exact Hl|].
    apply IH. destruct o as [s v|s|q ok ap|n c|n|s v lq|l]; cbn [respond push_login]; auto.
    - unfold start_login. cbn [push_login]. constructor; [|exact Hl]. exists s, v. reflexivity.
    - destruct (callback_shape j q ok) as (h & r & cs & E & _). now rewrite E.
    - unfold start_login. cbn [push_login]. constructor; [|exact Hl]. exists s, v. reflexivity.
  Qed.

  Lemma jar_honest_inv j : jar_honest cfg j = true -> Inv j [].
  Proof.
    unfold jar_honest, Inv, k. intros Hj s v Hs. rewrite Hs in Hj. discriminate.
  Qed.

  (* ---------- spec (model) = true ---------- *)
  Lemma redeemed_full j s v rest :
    check_cookie k state_name j = Some s ->
    redeemed_login j (full_login s v :: rest) = Some (full_login s v).
  Proof.
    intro Hs. apply check_inv in Hs. unfold redeemed_login. rewrite Hs. cbn [find full_login fst].
    unfold has_cmd, state_cookie. cbn [existsb]. unfold k. now rewrite cmd_eqb_refl_mac.
  Qed.

  Lemma cb_ok_model hon j lg q ok :
    (hon = true -> c_pkce cfg = true -> Inv j lg) ->
    match callback cfg j q ok with
    | EvCb h reqs _ => cb_ok H cfg hon j lg q h reqs = true
    | _ => False
    end.
  Proof.
    intro HI. unfold callback, cb_ok.
    destruct (check_cookie (c_key cfg) state_name j) as [s|] eqn:Es; [|reflexivity].
    destruct (String.eqb s (form q "state")) eqn:E; [|reflexivity]. cbn [negb orb].
    destruct (negb (is_empty (form q "error"))); [reflexivity|].
    destruct (c_pkce cfg) eqn:Ep.
    - destruct (check_cookie (c_key cfg) pkce_name j) as [v|] eqn:Ev; [|reflexivity].
      assert (Hst : negb hon || pkce_strong H j lg v = true).
      { destruct hon; [|reflexivity]. cbn [negb orb].
        destruct (HI eq_refl eq_refl s v Es Ev) as [rest ->].
        unfold pkce_strong. rewrite (redeemed_full j s v rest Es). cbn [full_login snd].
        now rewrite challenge_param, opt_is_some. }
      cbn [forallb t_verifier negb orb]. rewrite String.eqb_refl, Hst.
      destruct ok; cbn; now rewrite ?E.
    - cbn [forallb negb orb]. destruct ok; cbn; now rewrite ?E.
  Qed.

  Lemma spec_run_model hon ops : forall j lg,
    (hon = true -> c_pkce cfg = true -> Inv j lg) ->
    (hon = true -> forallb (op_honest cfg) ops = true) ->
    spec_run H cfg hon j lg ops (map (fun t => snd t) (trace H cfg j lg ops)) = true.
  Proof.
    induction ops as [|o ops IH]; intros j lg HI Hh; [reflexivity|].
    cbn [trace map snd spec_run]. apply andb_true_iff; split.
    - destruct o as [s v|s|q ok ap|n c|n|s v lq|l]; cbn [respond spec_step]; try reflexivity.
      + apply auth_ok_model.
      + pose proof (cb_ok_model hon j lg q ok HI) as Hc.
        destruct (callback cfg j q ok); try contradiction. exact Hc.
      + apply auth_ok_model.
      + apply probe_ok.
    - apply IH.
      + intros Hn Hp. specialize (Hh Hn). cbn in Hh. apply andb_true_iff in Hh as [H1 _].
        apply inv_step; auto.
      + intro Hn. specialize (Hh Hn). cbn in Hh. now apply andb_true_iff in Hh as [_ H2].
  Qed.
End Proofs.

(* ---------- the constructors ---------- *)
Lemma fold_options opts : forall r,
  fold_left apply_option opts r
  = RPF (f_pkce r || pkce_enabled opts)
        (match configured_handler opts with Some k => Some k | None => f_handler r end)
        (f_signer r || jwt_enabled opts).
Proof.
  induction opts as [|o opts IH]; intros [p h sg].
  - cbn. now rewrite !orb_false_r.
  - cbn [fold_left]. rewrite IH. unfold pkce_enabled, jwt_enabled. cbn [existsb configured_handler].
    fold (pkce_enabled opts). fold (jwt_enabled opts).
    destruct o as [k|k| |l]; cbn [apply_option f_pkce f_handler f_signer is_with_pkce is_with_jwt sets_handler orb];
      destruct (configured_handler opts); rewrite ?orb_true_r, ?orb_false_r; reflexivity.
Qed.

Lemma construct_intended : forall s cfg, intended s = Some cfg -> construct s = cfg.
Proof.
  intros s cfg. unfold intended, construct. rewrite fold_options. cbn [rp_init f_pkce f_handler f_signer orb].
  destruct (configured_handler (s_opts s)); [|discriminate]. now intros [= <-].
Qed.

Lemma constructor_pkce : forall s, c_pkce (construct s) = pkce_enabled (s_opts s).
Proof. intro s. unfold construct. rewrite fold_options. reflexivity. Qed.

Lemma constructor_handler : forall s k,
  configured_handler (s_opts s) = Some k -> c_key (construct s) = k.
Proof. intros s k Hk. unfold construct. rewrite fold_options. cbn. now rewrite Hk. Qed.

Lemma discovery_irrelevant : forall opts cl rd sc ex d d',
  d_auth d = d_auth d' ->
  construct (Setup (NewOIDC d) opts cl rd sc ex) = construct (Setup (NewOIDC d') opts cl rd sc ex)
  /\ construct (Setup (NewOIDC d) opts cl rd sc ex) = construct (Setup (NewOAuth (d_auth d)) opts cl rd sc ex).
Proof. intros opts cl rd sc ex d d' Hd. unfold construct. cbn [s_ctor s_opts endpoint]. now rewrite Hd. Qed.

(* the histories of rounds 1-10 (constructor Inp); the other constructors: C17_ext_proofs.v *)
Lemma spec_model_true_inp : forall s tab j0 ops, spec (Inp s tab j0 ops) (model (Inp s tab j0 ops)) = true.
Proof.
  intros s tab j0 ops. cbn [model spec]. destruct (intended s) as [cfg|] eqn:Ei; [|reflexivity].
  rewrite (construct_intended s cfg Ei). unfold run. apply spec_run_model.
  - intros Hh _. apply jar_honest_inv. unfold honest in Hh. now apply andb_true_iff in Hh as [H1 _].
  - intro Hh. unfold honest in Hh. now apply andb_true_iff in Hh as [_ H2].
Qed.

(* ---------- readable statements ---------- *)
Lemma state_bound : forall cfg j q ok,
  (exists s h reqs cs,
      jar_get "state" j = Some (Mac (c_key cfg) "state" s) /\ s = form q "state"
      /\ callback cfg j q ok = EvCb h reqs cs /\ h <> HOther
      /\ (forall st, h = HApp st -> st = s /\ reqs <> []))
  \/ (jar_get "state" j <> Some (Mac (c_key cfg) "state" (form q "state"))
      /\ callback cfg j q ok = EvCb (HUnauth "") [] []).
Proof.
  intros cfg j q ok.
  destruct (jar_get "state" j) as [c|] eqn:Ej.
  2:{ right. split; [discriminate|]. apply callback_reject. change state_name with "state". rewrite Ej. discriminate. }
  destruct (cval_eqb c (Mac (c_key cfg) "state" (form q "state"))) eqn:E.
  - destruct c as [k' n' v'|l]; [|discriminate]. cbn in E.
    apply andb_true_iff in E as [E E3]. apply andb_true_iff in E as [E1 E2].
    apply Nat.eqb_eq in E1. apply String.eqb_eq in E2, E3. subst.
    left. destruct (callback_accept cfg j q ok Ej) as (h & reqs & cs & Hc & Hn & Hs & Hr & _).
    exists (form q "state"), h, reqs, cs. repeat split; auto. eapply Hr; eauto.
  - right. assert (Hne : Some c <> Some (Mac (c_key cfg) "state" (form q "state"))).
    { intros [= ->]. cbn in E. now rewrite Nat.eqb_refl, !String.eqb_refl in E. }
    split; [exact Hne|]. apply callback_reject. change state_name with "state". now rewrite Ej.
Qed.

Lemma token_request_bound : forall cfg j q ok h reqs cs r,
  callback cfg j q ok = EvCb h reqs cs -> In r reqs ->
  jar_get "state" j = Some (Mac (c_key cfg) "state" (form q "state"))
  /\ t_code r = form q "code" /\ t_redirect r = c_redirect cfg /\ t_client r = c_client cfg
  /\ (c_pkce cfg = true ->
      exists v, t_verifier r = Some v /\ jar_get "pkce" j = Some (Mac (c_key cfg) "pkce" v)).
Proof.
  intros cfg j q ok h reqs cs r Hc Hr.
  destruct (state_bound cfg j q ok) as [(s & h' & reqs' & cs' & Hj & -> & Hc' & _)|[_ Hc']].
  - destruct (callback_accept cfg j q ok Hj) as (h2 & reqs2 & cs2 & Hc2 & _ & _ & _ & Hall).
    rewrite Hc in Hc2. injection Hc2 as <- <- <-.
    destruct (Hall r Hr) as (A & B & C & _ & D). repeat split; auto.
    intro Hp. rewrite Hp in D. exact D.
  - rewrite Hc in Hc'. injection Hc' as -> -> ->. destruct Hr.
Qed.

Lemma pkce_bound : forall H cfg j0 ops j lg q ok ap h reqs cs r,
  c_pkce cfg = true -> honest cfg j0 ops = true ->
  In (j, lg, OCallback q ok ap, EvCb h reqs cs) (trace H cfg j0 [] ops) -> In r reqs ->
  exists s v rest,
    s = form q "state" /\ t_verifier r = Some v
    /\ jar_get "state" j = Some (Mac (c_key cfg) "state" s)
    /\ jar_get "pkce" j = Some (Mac (c_key cfg) "pkce" v)
    /\ lg = (login_cookies cfg s v, auth_params cfg s (Some (H v))) :: rest
    /\ start_login H cfg s v = EvAuth (login_cookies cfg s v) (c_auth cfg) (auth_params cfg s (Some (H v)))
    /\ plookup "code_challenge" (auth_params cfg s (Some (H v))) = Some (H v)
    /\ plookup "code_challenge_method" (auth_params cfg s (Some (H v))) = Some "S256".
Proof.
  intros H cfg j0 ops j lg q ok ap h reqs cs r Hp Hh Hin Hr.
  unfold honest in Hh. apply andb_true_iff in Hh as [Hj Ho].
  pose proof (trace_inv H cfg ops j0 [] Hp Ho (jar_honest_inv H cfg j0 Hj)) as HF.
  rewrite Forall_forall in HF. specialize (HF _ Hin). cbn in HF.
  pose proof (trace_respond H cfg ops _ _ _ _ _ _ Hin) as Hev. cbn [respond] in Hev. symmetry in Hev.
  destruct (token_request_bound cfg j q ok h reqs cs r Hev Hr) as (Hs & _ & _ & _ & Hv).
  destruct (Hv Hp) as (v & Hver & Hpj).
  assert (Cs : check_cookie (c_key cfg) state_name j = Some (form q "state")).
  { unfold check_cookie. change state_name with "state". rewrite Hs. apply decode_mac. }
  assert (Cv : check_cookie (c_key cfg) pkce_name j = Some v).
  { unfold check_cookie. change pkce_name with "pkce". rewrite Hpj. apply decode_mac. }
  destruct (HF _ _ Cs Cv) as [rest ->].
  exists (form q "state"), v, rest. unfold start_login, login_cookies. rewrite Hp.
  repeat split; auto using challenge_param, challenge_method.
Qed.

Lemma auth_url : forall H cfg s v,
  exists cs ps, start_login H cfg s v = EvAuth cs (c_auth cfg) ps
  /\ In (state_cookie cfg s) cs
  /\ (extra_ok cfg = true ->
        plookup "response_type" ps = Some "code"
        /\ plookup "client_id" ps = Some (c_client cfg)
        /\ (c_redirect cfg <> "" -> plookup "redirect_uri" ps = Some (c_redirect cfg))
        /\ (c_scopes cfg <> [] -> plookup "scope" ps = Some (String.concat " " (c_scopes cfg)))
        /\ form ps "state" = s)
  /\ (c_pkce cfg = true ->
        In (pkce_cookie cfg v) cs
        /\ plookup "code_challenge" ps = Some (H v)
        /\ plookup "code_challenge_method" ps = Some "S256").
Proof.
  intros H cfg s v. do 2 eexists. split; [reflexivity|]. split; [now left|]. split.
  - intro He. unfold form. rewrite !(auth_params_reserved cfg s _ _ He) by reflexivity.
    fold (form (base_params cfg s) "state").
    repeat split; auto using base_response_type, base_client, base_state.
    + intro Hr. apply base_redirect. destruct (is_empty (c_redirect cfg)) eqn:E; [|reflexivity].
      apply is_empty_eq in E. contradiction.
    + apply base_scope.
  - intro Hp. unfold login_cookies. rewrite Hp. repeat split; auto using challenge_param, challenge_method.
    right; now left.
Qed.

(* Without the honesty guard the strong PKCE clause fails: a party that can
   write cookies into the browser replays the (validly minted) state cookie of
   login "a" next to the pkce cookie of login "b". *)
Definition replay_cfg : config := Cfg 0 true false "cid" "https://rp/cb" ["openid"] "https://op/auth" [].
Definition replay_tab : list (string * string) := [("va", "ha"); ("vb", "hb")].
Definition replay_ops : list op :=
  [OStart "a" "va"; OStart "b" "vb"; OSet "state" (Mac 0 "state" "a");
   OCallback [("state", "a"); ("code", "c")] true true].

Definition replay_setup : setup :=
  Setup (NewOAuth "https://op/auth") [WithPKCE 0] "cid" "https://rp/cb" ["openid"] [].

Lemma replay_limit :
  construct replay_setup = replay_cfg
  /\ honest replay_cfg [] replay_ops = false
  /\ spec_run (hfun replay_tab) replay_cfg true [] [] replay_ops (run (hfun replay_tab) replay_cfg [] replay_ops) = false
  /\ spec (Inp replay_setup replay_tab [] replay_ops) (model (Inp replay_setup replay_tab [] replay_ops)) = true.
Proof. vm_compute. repeat split. Qed.

(* non-vacuity of pkce_bound's hypotheses: two logins, the second one redeemed *)
Definition nv_ops : list op :=
  [OStart "a" "va"; OStart "b" "vb"; OCallback [("state", "b"); ("code", "c")] true true].

Lemma pkce_bound_nonvacuous :
  c_pkce replay_cfg = true /\ honest replay_cfg [] nv_ops = true
  /\ exists j lg h r cs,
       nth_error (trace (hfun replay_tab) replay_cfg [] [] nv_ops) 2
       = Some (j, lg, OCallback [("state", "b"); ("code", "c")] true true, EvCb h [r] cs)
       /\ t_verifier r = Some "vb".
Proof. split; [reflexivity|]. split; [reflexivity|]. do 5 eexists. vm_compute. split; reflexivity. Qed.

(* ---------- PKCE for every constructor and every discovery document ---------- *)
Lemma pkce_any_constructor : forall H s,
  pkce_enabled (s_opts s) = true ->
  (forall st v, exists cs ps,
      start_login H (construct s) st v = EvAuth cs (endpoint (s_ctor s)) ps
      /\ In (pkce_cookie (construct s) v) cs
      /\ plookup "code_challenge" ps = Some (H v)
      /\ plookup "code_challenge_method" ps = Some "S256")
  /\ (forall j q ok h reqs cs r,
      callback (construct s) j q ok = EvCb h reqs cs -> In r reqs ->
      exists v, t_verifier r = Some v
                /\ jar_get "pkce" j = Some (Mac (c_key (construct s)) "pkce" v)).
Proof.
  intros H s Hp. rewrite <- constructor_pkce in Hp. split.
  - intros st v. destruct (auth_url H (construct s) st v) as (cs & ps & He & _ & _ & Hc).
    exists cs, ps. split; [exact He|]. exact (Hc Hp).
  - intros j q ok h reqs cs r Hc Hr.
    destruct (token_request_bound (construct s) j q ok h reqs cs r Hc Hr) as (_ & _ & _ & _ & Hv).
    exact (Hv Hp).
Qed.

(* The property predicate itself rejects a "negotiated" fall-back: an RP built
   WithPKCE by the discovery constructor against an OP announcing only "plain"
   that answers the login with the plain code flow (state cookie only, no
   challenge) - and a callback that sends no code_verifier. *)
Definition fallback_doc : discovery :=
  Disc "https://op/auth" (Some ["plain"]) None None None None.
Definition fallback_setup : setup :=
  Setup (NewOIDC fallback_doc) [WithPKCE 0] "cid" "https://rp/cb" ["openid"] [].
Definition fallback_login : event :=
  EvAuth [("state", Some (Mac 0 "state" "a"))] "https://op/auth"
         [("response_type", "code"); ("client_id", "cid"); ("redirect_uri", "https://rp/cb");
          ("scope", "openid"); ("state", "a")].
Definition fallback_callback : event :=
  EvCb (HApp "a") [TokReq "c" "https://rp/cb" "cid" None false] [("state", None)].

Lemma spec_rejects_fallback :
  spec (Inp fallback_setup [("va", "ha")] [] [OStart "a" ""]) (Obs [fallback_login]) = false
  /\ spec (Inp fallback_setup [("va", "ha")] [("state", Mac 0 "state" "a"); ("pkce", Mac 0 "pkce" "va")]
               [OCallback [("code", "c"); ("state", "a")] true true]) (Obs [fallback_callback]) = false
  /\ spec (Inp fallback_setup [("va", "ha")] [] [OStart "a" "va"])
          (model (Inp fallback_setup [("va", "ha")] [] [OStart "a" "va"])) = true.
Proof. vm_compute. repeat split. Qed.

(* ---------- other API calls on the same RP value ---------- *)
Definition is_api (o : op) : bool := match o with OApi _ => true | _ => false end.
Definition is_probe (e : event) : bool := match e with EvProbe _ _ => true | _ => false end.

Lemma api_inert_trace : forall H cfg ops j lg,
  map (fun t => snd t) (trace H cfg j lg (filter (fun o => negb (is_api o)) ops))
  = filter (fun e => negb (is_probe e)) (map (fun t => snd t) (trace H cfg j lg ops)).
Proof.
  intros H cfg ops. induction ops as [|o ops IH]; intros j lg; [reflexivity|].
  destruct o as [s v|s|q ok ap|n c|n|s v lq|l]; cbn [filter is_api negb trace map snd respond].
  6:{ unfold start_login. cbn [is_probe negb filter]. f_equal. apply IH. }
  - unfold start_login. cbn [is_probe negb filter]. f_equal. apply IH.
  - cbn [is_probe negb filter]. f_equal. apply IH.
  - destruct (callback_shape cfg j q ok) as (h & r & cs & E & _). rewrite E.
    cbn [is_probe negb filter]. f_equal. apply IH.
  - cbn [is_probe negb filter]. f_equal. apply IH.
  - cbn [is_probe negb filter]. f_equal. apply IH.
  - cbn [is_probe negb filter jar_after push_login]. apply IH.
Qed.

Lemma api_inert : forall H cfg j ops,
  run H cfg j (filter (fun o => negb (is_api o)) ops)
  = filter (fun e => negb (is_probe e)) (run H cfg j ops).
Proof. intros. unfold run. apply api_inert_trace. Qed.

Lemma probe_url : forall H cfg j l,
  exists ps, respond H cfg j (OApi l) = EvProbe (c_auth cfg) ps
  /\ plookup "response_type" ps = Some "code"
  /\ plookup "client_id" ps = Some (c_client cfg)
  /\ (c_redirect cfg <> "" -> plookup "redirect_uri" ps = Some (c_redirect cfg))
  /\ (c_scopes cfg <> [] -> plookup "scope" ps = Some (String.concat " " (c_scopes cfg)))
  /\ form ps "state" = probe_state.
Proof.
  intros H cfg j l. exists (probe_params cfg). split; [reflexivity|]. rewrite probe_is_base.
  repeat split.
  - apply base_response_type.
  - apply (base_client (plain_cfg cfg)).
  - intro Hr. apply (base_redirect (plain_cfg cfg)). cbn [plain_cfg c_redirect].
    destruct (is_empty (c_redirect cfg)) eqn:E; [|reflexivity]. apply is_empty_eq in E. contradiction.
  - apply (base_scope (plain_cfg cfg)).
  - apply base_state.
Qed.

(* ---------- the login request's own parameters ---------- *)
Lemma login_query_irrelevant : forall H cfg j s v lq,
  respond H cfg j (OStartQ s v lq) = respond H cfg j (OStart s v)
  /\ jar_after j (OStartQ s v lq) (respond H cfg j (OStartQ s v lq))
     = jar_after j (OStart s v) (respond H cfg j (OStart s v)).
Proof. intros. split; reflexivity. Qed.

Lemma auth_url_single_valued : forall H cfg s v k,
  exists cs ps, start_login H cfg s v = EvAuth cs (c_auth cfg) ps /\ count_key k ps <= 1.
Proof. intros. do 2 eexists. split; [reflexivity|]. apply uniq_auth_params. Qed.
