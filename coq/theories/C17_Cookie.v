(* C17 (round 11): the CookieHandler's options and the attributes of the cookies it
   writes, and a browser that honours them.

   Go (pkg/http/cookie.go)                          Gallina
   CookieHandlerOpt: WithUnsecure, WithSameSite,     ch_opt, apply_ch_opt
     WithMaxAge, WithDomain, WithPath
   NewCookieHandler(hashKey, blockKey, opts...)      new_cookie_handler (fold over the options from
                                                     secureOnly=true, SameSite=Lax, path="/")
   the fields of CookieHandler                       chandler (h_macage = the MaxAge of its securecookie,
                                                     30 days unless WithMaxAge)
   SetCookie: http.SetCookie(&http.Cookie{Domain, Path, MaxAge, HttpOnly:true, Secure, SameSite})
                                                     set_attrs, decorate (.., Some c)
   DeleteCookie: same Domain / Path / Secure / SameSite, Value "", MaxAge -1
                                                     del_attrs, decorate (.., None)
   net/http Cookie.String + readSetCookies           wire_maxage (0 absent, n>0, <0 -> "Max-Age=0" -> -1),
     (what a user agent reads off the wire)          wire_ss (SameSiteDefaultMode = no attribute), strip_dot
   securecookie.Decode step 4 (timestamp)            mac_expired: maxAge <> 0 and minted more than maxAge s ago
   CheckCookie on what the request carries           view (first cookie of the name; expired => undecodable)

   Environment (RFC 6265 storage model, simplified; the driver's browser is the same code in Go):
   bjar / bj_store / sent: cookies are keyed by (name, host-only?, domain, path); Max-Age < 0
   removes the entry with that key; a request carries the entries whose domain and path
   match, Secure ones only over https, and (unless the client keeps cookies beyond their
   Max-Age - a replaying client) only those not older than their Max-Age.

   No proofs in this file. *)
From OIDC Require Import Lib.
From OIDC Require Export C17_RP.
Local Open Scope Z_scope.

(* http.SameSite as parsed from a Set-Cookie header: SSUnset = no SameSite attribute *)
Inductive samesite := SSUnset | SSDefault | SSLax | SSStrict | SSNone.

Inductive ch_opt :=
| WithUnsecure
| WithSameSite (m : samesite)
| WithMaxAge (a : Z)
| WithDomain (d : string)
| WithPath (p : string).

Record chandler := CH {
  h_secure : bool;
  h_samesite : samesite;
  h_maxage : Z;        (* CookieHandler.maxAge: the Max-Age attribute *)
  h_macage : Z;        (* securecookie's maxAge: how old a value may be when it is decoded *)
  h_domain : string;
  h_path : string
}.

(* securecookie.New: maxAge = 86400 * 30 *)
Definition default_macage : Z := 2592000.
Definition ch_init : chandler := CH true SSLax 0 default_macage "" "/".

Definition apply_ch_opt (h : chandler) (o : ch_opt) : chandler :=
  match o with
  | WithUnsecure => CH false (h_samesite h) (h_maxage h) (h_macage h) (h_domain h) (h_path h)
  | WithSameSite m => CH (h_secure h) m (h_maxage h) (h_macage h) (h_domain h) (h_path h)
  | WithMaxAge a => CH (h_secure h) (h_samesite h) a a (h_domain h) (h_path h)
  | WithDomain d => CH (h_secure h) (h_samesite h) (h_maxage h) (h_macage h) d (h_path h)
  | WithPath p => CH (h_secure h) (h_samesite h) (h_maxage h) (h_macage h) (h_domain h) p
  end.

Definition new_cookie_handler (opts : list ch_opt) : chandler := fold_left apply_ch_opt opts ch_init.

(* ---- what goes over the wire ---- *)
Record attrs := Attrs {
  a_domain : string; a_path : string;
  a_maxage : Z;          (* 0 = no Max-Age attribute, n > 0 = Max-Age=n, -1 = Max-Age=0 (delete now) *)
  a_httponly : bool; a_secure : bool; a_samesite : samesite
}.

Definition wire_maxage (a : Z) : Z := if a <? 0 then -1 else a.
Definition wire_ss (m : samesite) : samesite := match m with SSDefault => SSUnset | x => x end.
Definition strip_dot (d : string) : string :=
  match d with String c r => if Ascii.eqb c "." then r else d | _ => d end.

Definition set_attrs (h : chandler) : attrs :=
  Attrs (strip_dot (h_domain h)) (h_path h) (wire_maxage (h_maxage h)) true (h_secure h) (wire_ss (h_samesite h)).
Definition del_attrs (h : chandler) : attrs :=
  Attrs (strip_dot (h_domain h)) (h_path h) (-1) true (h_secure h) (wire_ss (h_samesite h)).

(* one Set-Cookie header: name, value (None = the empty value), attributes *)
Definition setck := (cookie_cmd * attrs)%type.

(* SetCookie (Some c) / DeleteCookie (None) of the handler h *)
Definition decorate (h : chandler) (c : cookie_cmd) : setck :=
  (c, match snd c with Some _ => set_attrs h | None => del_attrs h end).

(* securecookie.Decode: "if s.maxAge != 0 && t1 < t2 - s.maxAge" with age = t2 - t1 >= 0 *)
Definition mac_expired (macage age : Z) : bool := negb (macage =? 0) && (macage <? age).

(* ---- the user agent ---- *)
Record req := Req { r_https : bool; r_host : string; r_path : string }.

Record bentry := BE {
  be_name : string; be_val : cval;
  be_hostonly : bool; be_dom : string;    (* host-only: be_dom = the host that set it *)
  be_path : string; be_secure : bool;
  be_maxage : Z;                          (* 0 = session cookie *)
  be_age : Z                              (* seconds since it was stored (= since it was minted) *)
}.
Definition bjar := list bentry.

Fixpoint ends_with (suf s : string) : bool :=
  String.eqb s suf || match s with EmptyString => false | String _ r => ends_with suf r end.

(* RFC 6265 5.1.3 *)
Definition domain_match (host d : string) : bool :=
  String.eqb host d || ends_with (String "." d) host.

(* RFC 6265 5.1.4: cookie path cp, request path rp *)
Fixpoint path_match_aux (last_slash : bool) (cp rp : string) : bool :=
  match cp, rp with
  | EmptyString, EmptyString => true
  | EmptyString, String c _ => last_slash || Ascii.eqb c "/"
  | String a cp', String b rp' => Ascii.eqb a b && path_match_aux (Ascii.eqb a "/") cp' rp'
  | String _ _, EmptyString => false
  end.
Definition path_match (cp rp : string) : bool := path_match_aux false cp rp.

(* the part of s before its last "/" (None: no "/") *)
Fixpoint cut_last_slash (s : string) : option string :=
  match s with
  | EmptyString => None
  | String c r => match cut_last_slash r with
                  | Some p => Some (String c p)
                  | None => if Ascii.eqb c "/" then Some EmptyString else None
                  end
  end.
Definition starts_slash (p : string) : bool :=
  match p with String c _ => Ascii.eqb c "/" | EmptyString => false end.
Definition default_path (rp : string) : string :=
  if starts_slash rp
  then match cut_last_slash rp with
       | Some EmptyString | None => "/"
       | Some p => p
       end
  else "/".

(* a Path attribute that does not start with "/" is ignored: default path of the request *)
Definition eff_path (a : attrs) (r : req) : string :=
  if starts_slash (a_path a) then a_path a else default_path (r_path r).

Definition same_key (n : string) (ho : bool) (d p : string) (e : bentry) : bool :=
  String.eqb (be_name e) n && Bool.eqb (be_hostonly e) ho && String.eqb (be_dom e) d && String.eqb (be_path e) p.
Definition bj_remove (n : string) (ho : bool) (d p : string) (j : bjar) : bjar :=
  filter (fun e => negb (same_key n ho d p e)) j.

Definition no_value : cval := Junk "".

(* the user agent processes one Set-Cookie of the response to request r *)
Definition bj_store (r : req) (j : bjar) (sc : setck) : bjar :=
  let n := fst (fst sc) in
  let a := snd sc in
  let ho := is_empty (a_domain a) in
  let d := if ho then r_host r else a_domain a in
  if negb ho && negb (domain_match (r_host r) (a_domain a)) then j   (* a Domain the host is not part of: ignored *)
  else
    let p := eff_path a r in
    if a_maxage a <? 0 then bj_remove n ho d p j
    else bj_remove n ho d p j
         ++ [BE n (match snd (fst sc) with Some c => c | None => no_value end) ho d p (a_secure a) (a_maxage a) 0].

Definition be_live (keeps : bool) (e : bentry) : bool :=
  keeps || (be_maxage e =? 0) || (be_age e <? be_maxage e).
Definition be_matches (r : req) (e : bentry) : bool :=
  (if be_hostonly e then String.eqb (r_host r) (be_dom e) else domain_match (r_host r) (be_dom e))
  && path_match (be_path e) (r_path r)
  && (negb (be_secure e) || r_https r).

(* the Cookie header of a request to r; keeps = the client ignores Max-Age (replays old cookies) *)
Definition sent (keeps : bool) (r : req) (j : bjar) : bjar :=
  filter (fun e => be_live keeps e && be_matches r e) j.

(* what a CookieHandler whose securecookie has maxAge [macage] makes of the cookies a
   request carries: a validly minted value that is too old does not decode *)
Definition view1 (macage : Z) (e : bentry) : string * cval :=
  (be_name e,
   match be_val e with
   | Mac k n v => if mac_expired macage (be_age e) then Junk "expired" else Mac k n v
   | c => c
   end).
Definition view (macage : Z) (es : bjar) : jar := map (view1 macage) es.

Definition be_older (dt : Z) (e : bentry) : bentry :=
  BE (be_name e) (be_val e) (be_hostonly e) (be_dom e) (be_path e) (be_secure e) (be_maxage e) (be_age e + dt).

(* ---- histories: one browser, one RP whose CookieHandler was built with options ---- *)
Inductive kop :=
| KLogin (s v : string) (r : req)                  (* GET r -> AuthURLHandler; s = stateFn(), v = the fresh verifier *)
| KCallback (q : params) (tok_ok : bool) (r : req) (* request r -> CodeExchangeHandler *)
| KWait (dt : Z)                                   (* dt seconds pass *)
| KPut (r : req) (sc : setck).                     (* somebody else answers a request r of this browser with a Set-Cookie
                                                      (a sibling application, another CookieHandler, an attacker) *)

Inductive kevent :=
| KEvAuth (cookies : list setck) (base : string) (ps : params)
| KEvCb (h : handler) (reqs : list tokreq) (cookies : list setck)
| KEvNone
| KEvOther.

Section CK.
  Variable H : string -> string.
  Variable cfg : config.
  Variable h : chandler.       (* the RP's CookieHandler *)
  Variable keeps : bool.

  Definition krespond (j : bjar) (o : kop) : kevent :=
    match o with
    | KLogin s v _ =>
        match start_login H cfg s v with
        | EvAuth cs base ps => KEvAuth (map (decorate h) cs) base ps
        | _ => KEvOther
        end
    | KCallback q ok r =>
        match callback cfg (view (h_macage h) (sent keeps r j)) q ok with
        | EvCb hd reqs cs => KEvCb hd reqs (map (decorate h) cs)
        | _ => KEvOther
        end
    | KWait _ | KPut _ _ => KEvNone
    end.

  Definition kev_cookies (ev : kevent) : list setck :=
    match ev with KEvAuth cs _ _ => cs | KEvCb _ _ cs => cs | _ => [] end.

  Definition kjar_after (j : bjar) (o : kop) (ev : kevent) : bjar :=
    match o with
    | KLogin _ _ r => fold_left (bj_store r) (kev_cookies ev) j
    | KCallback _ _ r => fold_left (bj_store r) (kev_cookies ev) j
    | KWait dt => map (be_older dt) j
    | KPut r sc => bj_store r j sc
    end.

  Fixpoint ktrace (j : bjar) (ops : list kop) : list (bjar * kop * kevent) :=
    match ops with
    | [] => []
    | o :: r => let ev := krespond j o in (j, o, ev) :: ktrace (kjar_after j o ev) r
    end.

  Definition krun (j : bjar) (ops : list kop) : list kevent := map (fun t => snd t) (ktrace j ops).
End CK.
