(* C03 proofs. *)
From OIDC Require Import Lib C03_Redirect C03_Handlers C03_spec.

Lemma http_https_excl u : is_http u = true -> is_https u = true -> False.
Proof.
  unfold is_http, is_https.
  destruct u as [|a0 [|a1 [|a2 [|a3 [|a4 u]]]]]; cbn [prefix]; try discriminate;
    repeat match goal with
           | |- context [ascii_dec ?x ?y] => destruct (ascii_dec x y); [subst|try discriminate]
           end; try discriminate.
Qed.

(* the predicate depends on the loopback classifier only through its values *)
Lemma forallb_pointwise {A} (f g : A -> bool) l : (forall x, f x = g x) -> forallb f l = forallb g l.
Proof. intro H. induction l as [|a l IH]; cbn; [reflexivity|]. rewrite H, IH. reflexivity. Qed.
Lemma existsb_pointwise {A} (f g : A -> bool) l : (forall x, f x = g x) -> existsb f l = existsb g l.
Proof. intro H. induction l as [|a l IH]; cbn; [reflexivity|]. rewrite H, IH. reflexivity. Qed.

Lemma matches_ext glob l1 l2 c u : (forall v, l1 v = l2 v) -> matches glob l1 c u = matches glob l2 c u.
Proof.
  intro H. unfold matches, loopback_variant, loop_match. rewrite H.
  destruct (l2 u) as [pq|]; [|reflexivity].
  do 2 f_equal. apply existsb_pointwise. intro r. rewrite H. reflexivity.
Qed.

Lemma registeredb_ext glob l1 l2 c u rt :
  (forall v, l1 v = l2 v) -> registeredb glob l1 c u rt = registeredb glob l2 c u rt.
Proof.
  intro H. unfold registeredb, scheme_ok, is_loop. rewrite (matches_ext glob l1 l2 c u H), H. reflexivity.
Qed.

Section Pred.
  Variable glob : string -> string -> gres.
  Variable loop : string -> option (string * string).
  Notation Matches := (Matches glob loop).
  Notation SchemeTable := (SchemeTable glob loop).
  Notation Registered := (Registered glob loop).

  Lemma check_globs_ok gs u :
    check_globs glob gs u = CkOk ->
    existsb (fun g => match glob g u with GMatch => true | _ => false end) gs = true.
  Proof.
    induction gs as [|g r IH]; cbn; intro H; [discriminate|].
    destruct (glob g u); cbn; try discriminate; auto.
  Qed.

  Lemma check_uri_ok c u :
    check_uri glob c u = CkOk ->
    string_in u (c_redirects c) || glob_match glob c u = true.
  Proof.
    unfold check_uri, glob_match. destruct (string_in u (c_redirects c)); cbn; [reflexivity|].
    destruct (c_globs c); [apply check_globs_ok | discriminate].
  Qed.

  Lemma is_custom_not_http u : is_custom u = true -> is_http u = false /\ is_https u = false.
  Proof.
    unfold is_custom. destruct (is_http u), (is_https u); cbn; intro; try discriminate; auto.
  Qed.

  Lemma validate_ok_registered c u rt :
    validate_redirect glob loop c u rt = VOk -> registeredb glob loop c u rt = true.
  Proof.
    unfold validate_redirect, registeredb.
    destruct (String.eqb u "") eqn:Eu; [discriminate|]. cbn [negb andb].
    destruct (c_app c) eqn:Ea.
    - (* Web *)
      unfold matches, scheme_ok, loopback_variant. rewrite Ea. cbn [appt_eqb andb orb].
      destruct (is_https u) eqn:Es.
      + destruct (check_uri glob c u) eqn:Ec; cbn; try discriminate. intros _.
        apply check_uri_ok in Ec. rewrite Ec. cbn.
        destruct (is_http u) eqn:Eh; [|reflexivity].
        exfalso; eapply http_https_excl; eauto.
      + destruct (check_uri glob c u) eqn:Ec; cbn; try discriminate.
        apply check_uri_ok in Ec. rewrite Ec. cbn.
        destruct (is_http u); [|discriminate].
        destruct (c_dev c); [reflexivity|]. cbn.
        destruct (String.eqb rt "code"); cbn; [reflexivity|discriminate].
    - (* UserAgent *)
      unfold matches, scheme_ok, loopback_variant. rewrite Ea. cbn [appt_eqb andb orb].
      destruct (is_https u) eqn:Es.
      + destruct (check_uri glob c u) eqn:Ec; cbn; try discriminate. intros _.
        apply check_uri_ok in Ec. rewrite Ec. cbn.
        destruct (is_http u) eqn:Eh; [|reflexivity].
        exfalso; eapply http_https_excl; eauto.
      + destruct (check_uri glob c u) eqn:Ec; cbn; try discriminate.
        apply check_uri_ok in Ec. rewrite Ec. cbn.
        destruct (is_http u); [|discriminate].
        destruct (c_dev c); [reflexivity|]. cbn.
        rewrite andb_false_r. discriminate.
    - (* Native *)
      unfold validate_native, matches, scheme_ok, loopback_variant, is_loop. rewrite Ea.
      cbn [appt_eqb andb orb].
      destruct (check_uri glob c u) eqn:Ec.
      + apply check_uri_ok in Ec. rewrite Ec. cbn [orb andb].
        destruct (c_dev c); cbn [orb].
        { intros _. destruct (is_http u); [reflexivity|]. destruct (is_https u); reflexivity. }
        destruct (loop u) eqn:El; cbn [negb andb orb].
        { intros _. destruct (is_http u); [reflexivity|]. destruct (is_https u); reflexivity. }
        destruct (is_https u) eqn:Es; cbn.
        { intros _. destruct (is_http u) eqn:Eh; [|reflexivity].
          exfalso; eapply http_https_excl; eauto. }
        destruct (is_custom u) eqn:Ek; [|discriminate]. intros _.
        apply is_custom_not_http in Ek as [-> _]. reflexivity.
      + destruct (loop u) eqn:El; [|discriminate].
        destruct (loop_match loop c p) eqn:Em; [|discriminate]. intros _.
        rewrite !orb_true_r. cbn.
        destruct (is_http u); [destruct (c_dev c); reflexivity|]. destruct (is_https u); reflexivity.
      + destruct (loop u) eqn:El; [|discriminate].
        destruct (loop_match loop c p) eqn:Em; [|discriminate]. intros _.
        rewrite !orb_true_r. cbn.
        destruct (is_http u); [destruct (c_dev c); reflexivity|]. destruct (is_https u); reflexivity.
  Qed.

  Lemma string_in_In x l : string_in x l = true <-> In x l.
  Proof.
    unfold string_in. rewrite existsb_exists. split.
    - intros [y [Hy He]]. apply String.eqb_eq in He. now subst.
    - intro H. exists x. split; [assumption|apply String.eqb_refl].
  Qed.

  Lemma appt_eqb_eq a b : appt_eqb a b = true -> a = b.
  Proof. destruct a, b; cbn; congruence. Qed.

  Lemma matches_Matches c u : matches glob loop c u = true -> Matches c u.
  Proof.
    unfold matches, Matches. intro H.
    apply orb_true_iff in H as [H|H]; [apply orb_true_iff in H as [H|H]|].
    - left. now apply string_in_In.
    - right; left. unfold glob_match in H. destruct (c_globs c) as [gs|]; [|discriminate].
      apply existsb_exists in H as [g [Hg Hm]]. exists gs, g. repeat split; auto.
      destruct (glob g u); congruence.
    - right; right. unfold loopback_variant in H. apply andb_true_iff in H as [Ha H].
      apply appt_eqb_eq in Ha. split; [assumption|].
      destruct (loop u) as [[p q]|] eqn:El; [|discriminate].
      unfold loop_match in H. apply existsb_exists in H as [r [Hr Hm]].
      destruct (loop r) as [[p' q']|] eqn:Er; [|discriminate].
      unfold pq_eqb in Hm. cbn in Hm. apply andb_true_iff in Hm as [H1 H2].
      apply String.eqb_eq in H1, H2. subst. exists p', q', r. auto.
  Qed.

  Lemma registeredb_Registered c u rt : registeredb glob loop c u rt = true -> Registered c u rt.
  Proof.
    unfold registeredb, Registered. intro H.
    apply andb_true_iff in H as [H Hs]. apply andb_true_iff in H as [Hu Hm].
    split; [|split].
    - intro E. subst. discriminate.
    - now apply matches_Matches.
    - unfold scheme_ok in Hs. split.
      + intro Hh. rewrite Hh in Hs.
        apply orb_true_iff in Hs as [Hs|Hs]; [apply orb_true_iff in Hs as [Hs|Hs]|].
        * now left.
        * right; left. apply andb_true_iff in Hs as [Ha Hl]. apply appt_eqb_eq in Ha.
          split; [assumption|]. unfold is_loop in Hl. destruct (loop u) as [pq|]; [now exists pq|discriminate].
        * right; right. apply andb_true_iff in Hs as [Ha Hr]. apply appt_eqb_eq in Ha.
          apply String.eqb_eq in Hr. auto.
      + intro Hk. apply is_custom_not_http in Hk as [Hh Hs']. rewrite Hh, Hs' in Hs.
        now apply appt_eqb_eq.
  Qed.

  Theorem predicate_sound c u rt :
    validate_redirect glob loop c u rt = VOk -> Registered c u rt.
  Proof. intro H. apply registeredb_Registered, validate_ok_registered, H. Qed.
End Pred.

(* ------------------------------------------------------------------ handlers *)
Section Hist.
  Variable glob : string -> string -> gres.
  Variable info : string -> uinfo.
  Variable ro : bool.
  Variable nf : errkind.
  Variable cs : list client.

  Notation validate := (C03_Handlers.validate glob info).
  Notation loopf := (fun u => u_loop (info u)).
  Notation authorize := (authorize glob info ro nf cs).
  Notation callback := (callback info nf cs).
  Notation step := (step glob info ro nf cs).
  Notation run := (run glob info ro nf cs).
  Notation registered := (registered glob info).
  Notation safe_out := (safe_out glob info cs).

  (* what an error answer built from a request's own (uri, rt, mode) can be *)
  Definition from_uri (u : string) (x : out) : Prop :=
    is_page x = true \/
    exists fr code cq cf, u_canon (info u) = Some (cq, cf) /\ x = ORedirect fr code (if fr then cf else cq).

  Lemma response_url_from u rt m code o :
    response_url info u rt m code = Some o -> from_uri u o.
  Proof.
    unfold response_url. destruct (u_canon (info u)) as [[cq cf]|] eqn:E; [|discriminate].
    intro H. inversion H. right. exists (use_fragment rt m), code, cq, cf. auto.
  Qed.

  Lemma are_from u rt m code : from_uri u (auth_request_error info u rt m code).
  Proof.
    unfold auth_request_error. destruct (String.eqb u ""); [left; reflexivity|].
    destruct (response_url info u rt m code) eqn:E; [eapply response_url_from; eauto | left; reflexivity].
  Qed.

  Lemma ter_from u rt m code : from_uri u (try_error_redirect info u rt m code).
  Proof.
    unfold try_error_redirect. destruct (String.eqb u ""); [left; reflexivity|].
    destruct (response_url info u rt m code) eqn:E; [eapply response_url_from; eauto | left; reflexivity].
  Qed.

  Lemma arek_from u rt m k : from_uri u (auth_request_error_k info u rt m k).
  Proof. unfold auth_request_error_k. destruct (err_code k); [apply are_from | left; reflexivity]. Qed.

  Lemma terk_from u rt m k : from_uri u (try_error_redirect_k info u rt m k).
  Proof. unfold try_error_redirect_k. destruct (err_code k); [apply ter_from | left; reflexivity]. Qed.

  Lemma legacy_page_is_page k : is_page (legacy_page k) = true.
  Proof. destruct k; reflexivity. Qed.

  Lemma lookup_find f id c :
    lookup_client nf cs f id = inr c ->
    find_client cs id = Some c /\ match f with AF_GetClient _ => false | _ => true end = true.
  Proof. destruct f; cbn; try discriminate; destruct (find_client cs id); intro H; inversion H; auto. Qed.

  (* every answer of the authorization endpoint once the request object is dealt with *)
  Definition core_ok (st : list sreq) (q : areq) (r : list sreq * out) : Prop :=
    exists c, find_client cs (q_client q) = Some c /\
      match q_fault q with AF_GetClient _ => false | _ => true end = true /\
      validate c (q_uri q) (q_rt q) = VOk /\
      ((fst r = st /\ from_uri (q_uri q) (snd r) /\ is_login (snd r) = false) \/
       (fst r = st ++ [new_req q] /\ snd r = OLogin (c_login c))).
  Definition core_shape (st : list sreq) (q : areq) (r : list sreq * out) : Prop :=
    (fst r = st /\ is_page (snd r) = true) \/ core_ok st q r.

  (* q' is what q becomes after its request object (if any) was verified and merged *)
  Definition effective (q q' : areq) : Prop :=
    q_client q' = q_client q /\ q_rt q' = q_rt q /\ q_fault q' = q_fault q /\
    In (q_uri q') (candidates q).

  Definition authorize_shape (st : list sreq) (q : areq) (r : list sreq * out) : Prop :=
    (fst r = st /\ is_page (snd r) = true) \/ exists q', effective q q' /\ core_ok st q' r.

  Lemma effective_refl q : effective q q.
  Proof. unfold effective, candidates. repeat split. apply in_or_app. right. cbn. auto. Qed.

  Lemma parse_ro_effective q q' : parse_ro q = inr q' -> effective q q'.
  Proof.
    unfold parse_ro. destruct (q_reqobj q) as [| |o] eqn:E.
    - intro H. inversion H. apply effective_refl.
    - discriminate.
    - repeat match goal with |- context [if ?b then _ else _] => destruct b end; try discriminate.
      intro H. inversion H. unfold effective, candidates, merge_ro. cbn. rewrite E.
      repeat split. apply in_or_app. right. destruct (String.eqb (ro_uri o) ""); cbn; auto.
  Qed.

  Ltac split_ifs :=
    repeat match goal with
           | |- context [if ?b then _ else _] => destruct b eqn:?
           end.

  Lemma from_uri_not_login u x : from_uri u x -> is_login x = false.
  Proof. intros [H|[fr [code [cq [cf [_ ->]]]]]]; [destruct x; cbn in *; congruence | reflexivity]. Qed.

  Lemma provider_core_shape st q :
    core_shape st q (provider_core glob info nf cs st q).
  Proof.
    unfold provider_core, core_shape, core_ok.
    destruct (String.eqb (q_client q) ""); [left; auto|].
    destruct (String.eqb (q_uri q) ""); [left; auto|].
    destruct (lookup_client nf cs (q_fault q) (q_client q)) as [k|c] eqn:El; [left; auto|].
    apply lookup_find in El as [El Hf].
    destruct (validate c (q_uri q) (q_rt q)) eqn:Ev; [|left; auto|left; auto].
    right. exists c. split; [assumption|]. split; [assumption|]. split; [assumption|].
    repeat match goal with
           | |- context [if ?b then _ else _] => destruct b eqn:?
           | |- context [match fault_create ?f with _ => _ end] => destruct (fault_create f) eqn:?
           end; cbn [fst snd];
      try (left; split; [reflexivity|]; split;
           [first [apply are_from | apply arek_from]
           | eapply from_uri_not_login; first [apply are_from | apply arek_from]]).
    right. auto.
  Qed.

  Lemma legacy_core_shape st q :
    core_shape st q (legacy_core glob info nf cs st q).
  Proof.
    unfold legacy_core, core_shape, core_ok.
    destruct (String.eqb (q_client q) ""); [left; auto|].
    destruct (lookup_client nf cs (q_fault q) (q_client q)) as [k|c] eqn:El;
      [left; split; [reflexivity | apply legacy_page_is_page]|].
    apply lookup_find in El as [El Hf].
    destruct (String.eqb (q_uri q) ""); [left; auto|].
    destruct (prompt_bad (q_prompt q)); [left; auto|].
    destruct (q_noscope q); [left; auto|].
    destruct (validate c (q_uri q) (q_rt q)) eqn:Ev; [|left; auto|left; auto].
    destruct (String.eqb (q_rt q) ""); [left; auto|].
    destruct (negb (string_in (q_rt q) (c_rtypes c))); [left; auto|].
    destruct (q_hint_bad q); [left; auto|].
    right. exists c. split; [assumption|]. split; [assumption|]. split; [assumption|].
    repeat match goal with
           | |- context [if ?b then _ else _] => destruct b eqn:?
           | |- context [match fault_create ?f with _ => _ end] => destruct (fault_create f) eqn:?
           end; cbn [fst snd];
      try (left; split; [reflexivity|]; split;
           [first [apply ter_from | apply terk_from]
           | eapply from_uri_not_login; first [apply ter_from | apply terk_from]]).
    right. auto.
  Qed.

  Lemma lift_core st q q' r : effective q q' -> core_shape st q' r -> authorize_shape st q r.
  Proof. intros He [H|H]; [left; exact H | right; exists q'; auto]. Qed.

  Lemma authorize_provider_shape st q :
    authorize_shape st q (authorize_provider glob info ro nf cs st q).
  Proof.
    unfold authorize_provider.
    destruct (q_malformed q); [left; auto|].
    destruct (has_ro q && ro).
    - destruct (parse_ro q) as [g|q'] eqn:Ep; [left; auto|].
      eapply lift_core; [apply parse_ro_effective, Ep | apply provider_core_shape].
    - eapply lift_core; [apply effective_refl | apply provider_core_shape].
  Qed.

  Lemma authorize_legacy_shape st q :
    authorize_shape st q (authorize_legacy glob info ro nf cs st q).
  Proof.
    unfold authorize_legacy.
    destruct (q_malformed q); [left; auto|].
    destruct (has_ro q).
    - destruct (negb ro); [left; auto|].
      destruct (parse_ro q) as [[|]|q'] eqn:Ep; [left; auto|left; auto|].
      eapply lift_core; [apply parse_ro_effective, Ep | apply legacy_core_shape].
    - eapply lift_core; [apply effective_refl | apply legacy_core_shape].
  Qed.

  Lemma authorize_has_shape r st q : authorize_shape st q (authorize r st q).
  Proof. destruct r; [apply authorize_provider_shape | apply authorize_legacy_shape]. Qed.

  (* ---- invariant: every stored request's redirect URI passed validation for its client ---- *)
  Definition valid_req (s : sreq) : Prop :=
    exists c, find_client cs (s_client s) = Some c /\ validate c (s_uri s) (s_rt s) = VOk.
  Definition valid_st (st : list sreq) : Prop := Forall valid_req st.

  (* a stored request and the predicate's record of it: same client and response type, and the
     stored URI is one of the URIs the request mentioned *)
  Definition R (s : sreq) (e : string * list string * string) : Prop :=
    fst (fst e) = s_client s /\ snd e = s_rt s /\ In (s_uri s) (snd (fst e)).

  Lemma update_nth_valid k f st :
    (forall s, valid_req s -> valid_req (f s)) -> valid_st st -> valid_st (update_nth k f st).
  Proof.
    intros Hf. revert k. induction st as [|s r IH]; intros k H; destruct k; cbn; try constructor;
      inversion H; subst; auto.
    apply IH; assumption.
  Qed.

  Lemma update_nth_R k f st cr :
    (forall s e, R s e -> R (f s) e) -> Forall2 R st cr -> Forall2 R (update_nth k f st) cr.
  Proof.
    intros Hf H. revert k. induction H as [|s e st cr Hs H IH]; intros k; destruct k; cbn;
      constructor; auto.
  Qed.

  Lemma Forall2_nth st cr n :
    Forall2 R st cr ->
    match nth_error st n, nth_error cr n with
    | Some s, Some e => R s e
    | None, None => True
    | _, _ => False
    end.
  Proof.
    intro H. revert n. induction H as [|s e st cr Hs H IH]; intros [|n]; cbn; auto. apply IH.
  Qed.

  Lemma mark_done_valid s : valid_req s -> valid_req (mark_done s).
  Proof. intros [c H]. exists c. exact H. Qed.
  Lemma mark_dead_valid s : valid_req s -> valid_req (mark_dead s).
  Proof. intros [c H]. exists c. exact H. Qed.

  (* every answer of the callback *)
  Definition success_from (s : sreq) (x : out) : Prop :=
    from_uri (s_uri s) x \/ x = OFormBlocked \/ x = OUndelivered \/ exists t, u_form (info (s_uri s)) = Some t /\ x = OForm t.

  Lemma success_is s : success_from s (success info s).
  Proof.
    unfold success, success_from. destruct (String.eqb (s_mode s) "form_post").
    - destruct (u_form (info (s_uri s))) as [t|] eqn:E; [right; right; right; eauto | right; left; reflexivity].
    - left. destruct (response_url info (s_uri s) (s_rt s) (s_mode s) "") eqn:E;
        [eapply response_url_from; eauto | left; reflexivity].
  Qed.

  Definition callback_shape (st : list sreq) (k : option nat) (r : list sreq * out) : Prop :=
    (fst r = st \/ exists n, fst r = update_nth n mark_dead st) /\
    (is_page (snd r) = true \/
     exists n s, k = Some n /\ nth_error st n = Some s /\ success_from s (snd r)).

  Lemma callback_has_shape st k f : callback_shape st k (callback st k f).
  Proof.
    unfold callback, callback_shape.
    destruct k as [n|]; [|split; [left|left]; reflexivity].
    destruct (nth_error st n) as [s|] eqn:En.
    2:{ destruct f; split; try (left; reflexivity). }
    assert (Her : forall code, success_from s (auth_request_error info (s_uri s) (s_rt s) (s_mode s) code))
      by (intro; left; apply are_from).
    assert (Herk : forall k, success_from s (auth_request_error_k info (s_uri s) (s_rt s) (s_mode s) k))
      by (intro; left; apply arek_from).
    destruct f; cbn [fst snd];
      try (split; [left|left]; reflexivity);
      destruct (negb (s_alive s)); cbn [fst snd]; try (split; [left|left]; reflexivity);
      destruct (negb (s_done s)); cbn [fst snd];
      try (split; [left; reflexivity | right; exists n, s; auto]);
      destruct (find_client cs (s_client s)); cbn [fst snd];
      try (split; [left; reflexivity | right; exists n, s; auto]);
      destruct (String.eqb (s_rt s) "code"); cbn [fst snd];
      try (split; [left; reflexivity | right; exists n, s; repeat split; auto using success_is]);
      try (split; [right; exists n; reflexivity | right; exists n, s; repeat split; auto using success_is]).
  Qed.

  (* ---- a write fault changes neither the store nor where an answer points ---- *)
  Lemma deliver_page w x : is_page x = true -> is_page (deliver w x) = true.
  Proof. destruct w, x; cbn; congruence. Qed.

  Lemma deliver_from_uri w u x : from_uri u x -> from_uri u (deliver w x).
  Proof.
    intros [Hp|[fr [code [cq [cf [Hk ->]]]]]].
    - left. apply deliver_page, Hp.
    - right. exists fr, code, cq, cf. split; [assumption|]. destruct w; reflexivity.
  Qed.

  Lemma deliver_login w p : deliver w (OLogin p) = OLogin p.
  Proof. destruct w; reflexivity. Qed.

  Lemma deliver_success w s x : success_from s x -> success_from s (deliver w x).
  Proof.
    intros [H|[->|[->|[t [Ht ->]]]]].
    - left. apply deliver_from_uri, H.
    - destruct w; cbn; [right; left | right; right; left | right; left]; reflexivity.
    - destruct w; cbn; right; right; left; reflexivity.
    - destruct w; cbn; [right; right; right; eauto | right; right; left; reflexivity | right; right; right; eauto].
  Qed.

  Lemma step_authorize r st q w :
    step st (Authorize r q w) = (fst (authorize r st q), deliver w (snd (authorize r st q))).
  Proof. cbn [step]. destruct (authorize r st q); reflexivity. Qed.

  Lemma step_callback r st ids f w :
    step st (Callback r ids f w) =
    (fst (callback st (cb_id ids) f), deliver w (snd (callback st (cb_id ids) f))).
  Proof. cbn [step]. destruct (callback st (cb_id ids) f); reflexivity. Qed.

  Lemma step_authorize_shape r st q w : authorize_shape st q (step st (Authorize r q w)).
  Proof.
    rewrite step_authorize. pose proof (authorize_has_shape r st q) as S.
    unfold authorize_shape, core_ok in *. cbn [fst snd].
    destruct S as [[E Hp]|[q' [He [c [Hc [Hnf [Hv [[E [Hf Hl]]|[E El]]]]]]]]].
    - left. split; [assumption | apply deliver_page, Hp].
    - right. exists q'. split; [assumption|]. exists c. repeat (split; [assumption|]).
      left. split; [assumption|]. split; [apply deliver_from_uri, Hf|].
      eapply from_uri_not_login, deliver_from_uri, Hf.
    - right. exists q'. split; [assumption|]. exists c. repeat (split; [assumption|]).
      right. split; [assumption|]. rewrite El. apply deliver_login.
  Qed.

  Lemma step_callback_shape r st ids f w : callback_shape st (cb_id ids) (step st (Callback r ids f w)).
  Proof.
    rewrite step_callback. pose proof (callback_has_shape st (cb_id ids) f) as [Hs Hx].
    unfold callback_shape. cbn [fst snd]. split; [assumption|].
    destruct Hx as [Hp|[n [s [Hk [Hn Hsf]]]]].
    - left. apply deliver_page, Hp.
    - right. exists n, s. repeat (split; [assumption|]). apply deliver_success, Hsf.
  Qed.

  (* ---- which request a callback answers for, wherever its id parameter travels ---- *)
  Lemma success_points_to s x : success_from s x -> points_to info s x = true.
  Proof.
    intros [[Hp|[fr [code [cq [cf [Hk ->]]]]]]|[->|[->|[t [Ht ->]]]]].
    - destruct x; cbn in Hp; try discriminate. reflexivity.
    - cbn. rewrite Hk. apply String.eqb_refl.
    - reflexivity.
    - reflexivity.
    - cbn. rewrite Ht. apply String.eqb_refl.
  Qed.

  (* a callback sends the user agent somewhere only for the request that the FIRST value of its id
     parameter (form body values, then URL query values) names, and then to that request's stored URI *)
  Theorem callback_addressed st r ids f w :
    let x := snd (step st (Callback r ids f w)) in
    no_redirect x = true \/
    exists n s, hd_error (cb_body ids ++ cb_query ids) = Some (Some n) /\ nth_error st n = Some s /\
                points_to info s x = true.
  Proof.
    cbn zeta. pose proof (step_callback_shape r st ids f w) as [_ [Hp|[n [s [Hk [Hn Hsf]]]]]].
    - left. destruct (snd (step st (Callback r ids f w))); cbn in Hp; try discriminate. reflexivity.
    - right. exists n, s. repeat split; [|assumption|apply success_points_to, Hsf].
      unfold cb_id, cb_all in Hk. destruct (cb_body ids ++ cb_query ids) as [|y l]; [discriminate|].
      cbn. rewrite Hk. reflexivity.
  Qed.

  (* where the id travels (body, query, both, repeated; which router) does not matter beyond that *)
  Theorem callback_placement st r r' a b f w :
    cb_id a = cb_id b -> step st (Callback r a f w) = step st (Callback r' b f w).
  Proof. intro H. rewrite !step_callback, H. reflexivity. Qed.

  (* no id, or an empty first value: an error page, the store unchanged *)
  Theorem callback_no_id st r ids f w :
    cb_id ids = None -> exists status, step st (Callback r ids f w) = (st, OPage status "").
  Proof.
    intro H. rewrite step_callback, H. cbn [callback fst snd]. exists 400%N. destruct w; reflexivity.
  Qed.

  Lemma step_valid st o : valid_st st -> valid_st (fst (step st o)).
  Proof.
    intro H. destruct o as [r q w|k|r k f w].
    - pose proof (step_authorize_shape r st q w) as S. unfold authorize_shape, core_ok in S.
      destruct S as [[-> _]|[q' [He [c [Hc [Hnf [Hv [[-> _]|[-> _]]]]]]]]]; try assumption.
      apply Forall_app. split; [assumption|]. constructor; [|constructor].
      exists c. cbn. auto.
    - cbn. apply update_nth_valid; auto using mark_done_valid.
    - pose proof (step_callback_shape r st k f w) as [[->|[n ->]] _]; [assumption|].
      apply update_nth_valid; auto using mark_dead_valid.
  Qed.

  (* ---- the answers are safe ---- *)
  (* the library's loopback classification is the ground truth (guard `wf` of the case) *)
  Hypothesis Hag : forall u, u_truth (info u) = u_loop (info u).

  Lemma registered_agree c u rt : registered c u rt = registeredb glob loopf c u rt.
  Proof. unfold C03_spec.registered. apply registeredb_ext, Hag. Qed.

  Lemma must_page_agree q : must_page glob info cs q = must_page_with glob cs loopf q.
  Proof.
    unfold must_page, must_page_with. f_equal. destruct (find_client cs (q_client q)); [|reflexivity].
    apply forallb_pointwise. intro u. rewrite (matches_ext glob _ loopf c u Hag). reflexivity.
  Qed.

  Lemma target_ok_from cid c cands u rt x :
    find_client cs cid = Some c -> validate c u rt = VOk -> In u cands -> from_uri u x ->
    target_ok glob info cs cid cands rt x = true.
  Proof.
    intros Hc Hv Hi [Hp|[fr [code [cq [cf [Hk ->]]]]]].
    - destruct x; cbn in Hp; try discriminate. reflexivity.
    - cbn. rewrite Hc. apply existsb_exists. exists u. split; [assumption|].
      rewrite Hk, registered_agree.
      rewrite (validate_ok_registered glob loopf c u rt Hv). cbn. apply String.eqb_refl.
  Qed.

  Lemma target_ok_success cid c cands s x :
    find_client cs cid = Some c -> validate c (s_uri s) (s_rt s) = VOk -> In (s_uri s) cands ->
    success_from s x ->
    target_ok glob info cs cid cands (s_rt s) x = true.
  Proof.
    intros Hc Hv Hi [H|[->|[->|[t [Ht ->]]]]].
    - eapply target_ok_from; eauto.
    - reflexivity.
    - reflexivity.
    - cbn. rewrite Hc. apply existsb_exists. exists (s_uri s). split; [assumption|].
      rewrite Ht, registered_agree.
      rewrite (validate_ok_registered glob loopf c _ _ Hv). cbn. apply String.eqb_refl.
  Qed.

  Lemma success_not_login s x : success_from s x -> is_login x = false.
  Proof.
    intros [H|[->|[->|[t [_ ->]]]]]; [eapply from_uri_not_login; eauto | reflexivity | reflexivity | reflexivity].
  Qed.

  Lemma must_page_no_validate q q' c :
    must_page_with glob cs loopf q = true -> effective q q' ->
    find_client cs (q_client q') = Some c ->
    match q_fault q' with AF_GetClient _ => false | _ => true end = true ->
    validate c (q_uri q') (q_rt q') = VOk -> False.
  Proof.
    unfold must_page_with. intros Hm [Hcl [Hrt [Hfa Hin]]] Hc Hnf Hv.
    rewrite Hcl in Hc. rewrite Hfa in Hnf. rewrite Hc in Hm.
    replace (match q_fault q with AF_GetClient _ => true | _ => false end) with false in Hm
      by (destruct (q_fault q); cbn in *; congruence).
    cbn [orb] in Hm. rewrite forallb_forall in Hm. specialize (Hm _ Hin).
    pose proof (validate_ok_registered glob loopf c _ _ Hv) as Hr.
    unfold registeredb in Hr. apply andb_true_iff in Hr as [Hr _]. apply andb_true_iff in Hr as [Hu Hmm].
    rewrite Hmm in Hm. cbn in Hm. rewrite orb_false_r in Hm.
    rewrite Hm in Hu. discriminate.
  Qed.

  Lemma page_target_ok cid u rt x : is_page x = true -> target_ok glob info cs cid u rt x = true.
  Proof. destruct x; cbn; congruence. Qed.
  Lemma page_login_ok q x : is_page x = true -> login_ok cs q x = true.
  Proof. destruct x; cbn; congruence. Qed.
  Lemma page_not_login x : is_page x = true -> is_login x = false.
  Proof. destruct x; cbn; congruence. Qed.
  Lemma page_no_redirect x : is_page x = true -> no_redirect x = true.
  Proof. destruct x; cbn; congruence. Qed.

  (* the id the handler reads is one of the ids the callback mentions *)
  Lemma cb_id_mentioned ids n : cb_id ids = Some n -> In n (cb_mentioned ids).
  Proof.
    unfold cb_id, cb_mentioned. destruct (cb_all ids) as [|x l]; [discriminate|].
    intros ->. cbn. left. reflexivity.
  Qed.

  Lemma resolve_In (created : list (string * list string * string)) ks n e :
    In n ks -> nth_error created n = Some e -> In e (resolve created ks).
  Proof.
    intros Hi Hn. unfold resolve. apply in_flat_map. exists n. split; [assumption|].
    rewrite Hn. left. reflexivity.
  Qed.

  Theorem spec_hist_run ops : forall st created,
    valid_st st -> Forall2 R st created ->
    spec_hist glob info cs created ops (run st ops) = true.
  Proof.
    induction ops as [|o ops IH]; intros st created Hst HR; [reflexivity|].
    cbn [run]. destruct (step st o) as [st' x] eqn:Es.
    pose proof (step_valid st o Hst) as Hst'. rewrite Es in Hst'. cbn [fst] in Hst'.
    destruct o as [r q w|k|r k f w]; cbn [spec_hist].
    - rewrite must_page_agree.
      pose proof (step_authorize_shape r st q w) as S. rewrite Es in S. unfold authorize_shape, core_ok in S. cbn [fst snd] in S.
      destruct S as [[-> Hp]|[q' [He [c [Hc [Hnf [Hv [[-> [Hf Hl]]|[-> ->]]]]]]]]].
      + rewrite Hp, (page_target_ok _ _ _ _ Hp), (page_login_ok _ _ Hp), (page_not_login _ Hp).
        destruct (must_page_with glob cs loopf q); cbn; apply IH; assumption.
      + destruct (must_page_with glob cs loopf q) eqn:Em; [exfalso; eapply must_page_no_validate; eauto|].
        destruct He as [Hcl [Hrt [Hfa Hin]]]. rewrite Hcl in Hc. rewrite Hrt in Hv.
        rewrite (target_ok_from _ c _ _ _ _ Hc Hv Hin Hf), Hl. cbn.
        replace (login_ok cs q x) with true by (destruct x; cbn in *; congruence).
        cbn. apply IH; assumption.
      + destruct (must_page_with glob cs loopf q) eqn:Em; [exfalso; eapply must_page_no_validate; eauto|].
        destruct He as [Hcl [Hrt [Hfa Hin]]]. rewrite Hcl in Hc.
        cbn. rewrite Hc, String.eqb_refl. cbn.
        apply IH; [assumption|]. apply Forall2_app; [assumption|].
        constructor; [|constructor]. unfold R. cbn. auto.
    - cbn [step] in Es. inversion Es; subst. apply IH; [assumption|].
      apply update_nth_R; [|assumption]. intros s e H. exact H.
    - rename k into ids.
      pose proof (step_callback_shape r st ids f w) as [Hs Hx]. rewrite Es in Hs, Hx. cbn [fst snd] in Hs, Hx.
      assert (HR' : Forall2 R st' created).
      { destruct Hs as [->|[n ->]]; [assumption | apply update_nth_R; [|assumption]].
        intros s e H. exact H. }
      rewrite (IH st' created Hst' HR'), andb_true_r.
      destruct Hx as [Hp|[n [s [Hk [Hn Hsf]]]]].
      + destruct (resolve created (cb_mentioned ids)) as [|[[cid u] rt] rs].
        * apply page_no_redirect, Hp.
        * rewrite (page_not_login _ Hp), andb_true_r. cbn [existsb].
          rewrite (page_target_ok _ _ _ _ Hp). reflexivity.
      + pose proof (Forall2_nth st created n HR) as Hnth. rewrite Hn in Hnth.
        destruct (nth_error created n) as [[[cid cands] rt]|] eqn:Ec; [|contradiction].
        destruct Hnth as [H1 [H2 H3]]. cbn in H1, H2, H3. subst cid rt.
        unfold valid_st in Hst. rewrite Forall_forall in Hst.
        destruct (Hst s (nth_error_In _ _ Hn)) as [c [Hc Hv]].
        pose proof (resolve_In created (cb_mentioned ids) n _ (cb_id_mentioned ids n Hk) Ec) as Hin.
        assert (Hex : existsb (fun e => let '(cid, u, rt) := e in target_ok glob info cs cid u rt x)
                              (resolve created (cb_mentioned ids)) = true).
        { apply existsb_exists. exists (s_client s, cands, s_rt s). split; [exact Hin|].
          exact (target_ok_success _ c cands s x Hc Hv H3 Hsf). }
        destruct (resolve created (cb_mentioned ids)) as [|e rs]; [contradiction|].
        rewrite Hex, (success_not_login s x Hsf). reflexivity.
  Qed.

  Lemma find_client_In id c : find_client cs id = Some c -> In c cs.
  Proof. intro H. apply find_some in H. tauto. Qed.

  Lemma from_uri_safe c u rt x :
    In c cs -> validate c u rt = VOk -> from_uri u x -> safe_out x.
  Proof.
    intros Hi Hv [Hp|[fr [code [cq [cf [Hk ->]]]]]].
    - destruct x; cbn in Hp; try discriminate. exact I.
    - cbn. exists c, u, rt, cq, cf. repeat split; auto.
      all: apply (predicate_sound glob loopf c u rt Hv).
  Qed.

  Lemma step_safe st o : valid_st st -> safe_out (snd (step st o)).
  Proof.
    intro Hst. destruct o as [r q w|k|r k f w].
    - pose proof (step_authorize_shape r st q w) as S. unfold authorize_shape, core_ok in S.
      destruct S as [[_ Hp]|[q' [He [c [Hc [Hnf [Hv [[_ [Hf _]]|[_ ->]]]]]]]]].
      + destruct (snd (step st (Authorize r q w))); cbn in Hp; try discriminate. exact I.
      + eapply from_uri_safe; eauto using find_client_In.
      + exact I.
    - exact I.
    - pose proof (step_callback_shape r st k f w) as [_ [Hp|[n [s [_ [Hn Hsf]]]]]].
      + destruct (snd (step st (Callback r k f w))); cbn in Hp; try discriminate. exact I.
      + unfold valid_st in Hst. rewrite Forall_forall in Hst.
        destruct (Hst s (nth_error_In _ _ Hn)) as [c [Hc Hv]].
        destruct Hsf as [H|[->|[->|[t [Ht ->]]]]].
        * eapply from_uri_safe; eauto using find_client_In.
        * exact I.
        * exact I.
        * cbn. exists c, (s_uri s), (s_rt s). repeat split; eauto using find_client_In.
          all: apply (predicate_sound glob loopf c _ _ Hv).
  Qed.

  Theorem run_safe ops : forall st, valid_st st -> Forall safe_out (run st ops).
  Proof.
    induction ops as [|o ops IH]; intros st Hst; cbn [run]; [constructor|].
    pose proof (step_safe st o Hst) as Hs. pose proof (step_valid st o Hst) as Hv.
    destruct (step st o) as [st' x]. constructor; [exact Hs | apply IH; exact Hv].
  Qed.

  (* a write fault is local: the answers of a history with write faults are, position by position,
     what `deliver` leaves of the answers of the same history without them. In particular an
     answer written without a fault is the answer of the fault-free history, whatever was cut
     before it (nothing of an undelivered answer can turn up in a later one). *)
  Lemma step_clear st o :
    step st o = (fst (step st (op_clear o)), deliver (op_cut o) (snd (step st (op_clear o)))).
  Proof.
    destruct o as [r q w|k|r k f w]; cbn [op_clear op_cut].
    - rewrite !step_authorize. reflexivity.
    - reflexivity.
    - rewrite !step_callback. reflexivity.
  Qed.

  Theorem write_fault_local ops : forall st,
    run st ops = map (fun p => deliver (fst p) (snd p)) (combine (map op_cut ops) (run st (map op_clear ops))).
  Proof.
    induction ops as [|o ops IH]; intro st; [reflexivity|].
    cbn [run map]. rewrite (step_clear st o).
    destruct (step st (op_clear o)) as [st' x]. cbn [fst snd combine map]. rewrite IH. reflexivity.
  Qed.

  Theorem direct_error r st q :
    (exists k, q_fault q = AF_GetClient k) \/ find_client cs (q_client q) = None \/
    (exists c, find_client cs (q_client q) = Some c /\
               forall u, In u (candidates q) -> u = "" \/ matches glob loopf c u = false) ->
    exists status code, authorize r st q = (st, OPage status code).
  Proof.
    intro H.
    assert (Hm : must_page_with glob cs loopf q = true).
    { unfold must_page_with. destruct H as [[k Hk]|[Hn|[c [Hf Hc]]]].
      - rewrite Hk. reflexivity.
      - rewrite Hn. apply orb_true_r.
      - rewrite Hf. apply orb_true_iff. right. apply forallb_forall. intros u Hu.
        destruct (Hc u Hu) as [->|Hn]; [reflexivity|].
        rewrite Hn. apply orb_true_r. }
    pose proof (authorize_has_shape r st q) as S. unfold authorize_shape, core_ok in S.
    destruct (authorize r st q) as [st' x]. cbn [fst snd] in S.
    destruct S as [[-> Hp]|[q' [He [c [Hc [Hnf [Hv _]]]]]]].
    - destruct x; cbn in Hp; try discriminate. eauto.
    - exfalso. eapply must_page_no_validate; eauto.
  Qed.
End Hist.

Theorem run_safe_from_empty glob info ro nf cs ops :
  Forall (safe_out glob info cs) (run glob info ro nf cs [] ops).
Proof. apply run_safe. constructor. Qed.

Lemma opq_eqb_eq a b : opq_eqb a b = true -> a = b.
Proof.
  destruct a as [[p q]|], b as [[p' q']|]; cbn; try discriminate; auto.
  unfold pq_eqb. cbn. intro H. apply andb_true_iff in H as [H1 H2].
  apply String.eqb_eq in H1, H2. subst. reflexivity.
Qed.

Lemma loop_agree_info t : loop_agree t = true -> forall u, u_truth (info_of t u) = u_loop (info_of t u).
Proof.
  intros H u. induction t as [|[u' i] t IH]; cbn; [reflexivity|].
  cbn in H. apply andb_true_iff in H as [Hi Ht].
  destruct (String.eqb u u'); [apply opq_eqb_eq, Hi | apply IH, Ht].
Qed.

Theorem spec_model : forall i, wf i = true -> spec i (model i) = true.
Proof.
  intros [c u rt t|ro nf cs t ops] Hwf; cbn [model spec]; cbn [wf] in Hwf;
    pose proof (loop_agree_info _ Hwf) as Hag.
  - destruct (validate_redirect _ _ c u rt) eqn:E; auto.
    unfold registered. rewrite (registeredb_ext _ _ (fun u => u_loop (info_of (t_uri t) u)) c u rt Hag).
    apply validate_ok_registered, E.
  - apply (spec_hist_run (glob_of (t_glob t)) (info_of (t_uri t)) ro nf cs Hag ops [] []); constructor.
Qed.

(* the guard is needed and the predicate sees through a wrong classifier: a library that takes the host
   evil-localhost for a loopback address lets http://evil-localhost/cb through for a native client that
   registered http://localhost/cb - the model follows the library (VOk), the predicate says no *)
Definition ex_native : client :=
  {| c_id := "nat"; c_app := Native; c_dev := false; c_rtypes := ["code"];
     c_redirects := ["http://localhost/cb"]; c_globs := None; c_login := "/login?id=" |}.
Definition ex_wrong_tables : tables :=
  {| t_glob := [];
     t_uri := [("http://localhost/cb", {| u_loop := Some ("/cb", ""); u_canon := Some ("http://localhost/cb", "http://localhost/cb");
                                           u_form := Some "http://localhost/cb"; u_truth := Some ("/cb", "") |});
               ("http://evil-localhost/cb", {| u_loop := Some ("/cb", ""); u_canon := Some ("http://evil-localhost/cb", "http://evil-localhost/cb");
                                                u_form := Some "http://evil-localhost/cb"; u_truth := None |})] |}.
Example C03_wrong_loopback_flagged :
  let i := IValidate ex_native "http://evil-localhost/cb" "code" ex_wrong_tables in
  wf i = false /\ model i = OValidate VOk /\ spec i (model i) = false.
Proof. vm_compute. auto. Qed.

(* ---- non-vacuity: a concrete flow that ends in a success redirect, and one that is refused ---- *)
Definition ex_client : client :=
  {| c_id := "web"; c_app := Web; c_dev := false; c_rtypes := ["code"];
     c_redirects := ["https://app.example.com/cb"]; c_globs := Some ["https://*.example.com/cb"];
     c_login := "/login?id=" |}.
Definition ex_glob (g u : string) : gres :=
  if String.eqb u "https://sub.example.com/cb" then GMatch else GNoMatch.
Definition ex_info (u : string) : uinfo :=
  {| u_loop := None; u_canon := Some (u, u); u_form := Some u; u_truth := None |}.
Definition ex_req (u : string) : areq :=
  {| q_client := "web"; q_uri := u; q_rt := "code"; q_mode := ""; q_malformed := false; q_reqobj := RP_None;
     q_prompt := P_Ok; q_noscope := false; q_hint_bad := false; q_fault := AF_None; q_dups := [] |}.

(* callback id parameter: in the query only (what AuthCallbackURL builds), absent *)
Definition cb_get (k : nat) : cbids := {| cb_body := []; cb_query := [Some k] |}.
Definition cb_none : cbids := {| cb_body := []; cb_query := [] |}.

Example C03_nonvacuous :
  run ex_glob ex_info true EK_Plain [ex_client] []
      [Authorize Provider (ex_req "https://sub.example.com/cb") W_None; Login 0; Callback Legacy (cb_get 0) CF_None W_None;
       Authorize Legacy (ex_req "https://evil.example/cb") W_None; Authorize Provider (ex_req "https://evil.example/cb") W_None]
  = [OLogin "/login?id="; ONone; ORedirect false "" "https://sub.example.com/cb"; OPage 400 "invalid_request"; OPage 400 ""].
Proof. vm_compute. reflexivity. Qed.

(* a correctly signed request object whose redirect_uri replaces a registered plain parameter:
   refused when that URI is not registered (both routers), followed when it is *)
Definition ex_ro (u : string) : reqparam :=
  RP_Signed {| ro_iss := "web"; ro_client := "web"; ro_aud_ok := true; ro_sig_ok := true;
               ro_rt := "code"; ro_uri := u; ro_mode := ""; ro_prompt := None |}.
Definition ex_req_ro (u : string) : areq :=
  {| q_client := "web"; q_uri := "https://app.example.com/cb"; q_rt := "code"; q_mode := ""; q_malformed := false;
     q_reqobj := ex_ro u; q_prompt := P_Ok; q_noscope := false; q_hint_bad := false; q_fault := AF_None; q_dups := [] |}.

Example C03_nonvacuous_request_object :
  run ex_glob ex_info true EK_Plain [ex_client] []
      [Authorize Provider (ex_req_ro "https://evil.example/cb") W_None; Authorize Legacy (ex_req_ro "https://evil.example/cb") W_None;
       Authorize Provider (ex_req_ro "https://sub.example.com/cb") W_None; Login 0; Callback Provider (cb_get 0) CF_None W_None]
  = [OPage 400 ""; OPage 400 "invalid_request"; OLogin "/login?id="; ONone;
     ORedirect false "" "https://sub.example.com/cb"].
Proof. vm_compute. reflexivity. Qed.

(* two clients answering in form_post mode on one provider: the page for the first is cut while it is
   written, the page for the second (and a replay of the first) still posts to the right client *)
Definition ex_client_b : client :=
  {| c_id := "b"; c_app := Web; c_dev := false; c_rtypes := ["code"];
     c_redirects := ["https://b.example.org/cb"]; c_globs := None; c_login := "/login?id=" |}.
Definition ex_req_fp (cid u : string) : areq :=
  {| q_client := cid; q_uri := u; q_rt := "code"; q_mode := "form_post"; q_malformed := false; q_reqobj := RP_None;
     q_prompt := P_Ok; q_noscope := false; q_hint_bad := false; q_fault := AF_None; q_dups := [] |}.

Example C03_nonvacuous_write_fault :
  run ex_glob ex_info true EK_Plain [ex_client; ex_client_b] []
      [Authorize Provider (ex_req_fp "web" "https://app.example.com/cb") W_None;
       Authorize Legacy (ex_req_fp "b" "https://b.example.org/cb") W_Early;
       Login 0; Login 1;
       Callback Provider (cb_get 0) CF_None W_Early; Callback Legacy (cb_get 1) CF_None W_None;
       Callback Legacy (cb_get 0) CF_None W_Late; Callback Provider cb_none CF_None W_Early]
  = [OLogin "/login?id="; OLogin "/login?id="; ONone; ONone;
     OUndelivered; OForm "https://b.example.org/cb"; OForm "https://app.example.com/cb"; OPage 400 ""].
Proof. vm_compute. reflexivity. Qed.

(* redirect_uri sent twice: the LAST value is the one that is validated, stored and used for every
   answer - the error after validation (prompt=none: login_required from the storage) goes to the
   registered last value, never to the first one; with the values swapped the request is refused *)
Definition ex_req_dup (first last : string) : areq :=
  {| q_client := "web"; q_uri := last; q_rt := "code"; q_mode := ""; q_malformed := false; q_reqobj := RP_None;
     q_prompt := P_None; q_noscope := false; q_hint_bad := false; q_fault := AF_None; q_dups := [first] |}.

Example C03_nonvacuous_repeated_parameter :
  run ex_glob ex_info true EK_Plain [ex_client] []
      [Authorize Legacy (ex_req_dup "https://evil.example/cb" "https://sub.example.com/cb") W_None;
       Authorize Provider (ex_req_dup "https://evil.example/cb" "https://sub.example.com/cb") W_None;
       Authorize Legacy (ex_req_dup "https://sub.example.com/cb" "https://evil.example/cb") W_None;
       Authorize Provider (ex_req_dup "https://sub.example.com/cb" "https://evil.example/cb") W_None]
  = [ORedirect false "login_required" "https://sub.example.com/cb"; ORedirect false "login_required" "https://sub.example.com/cb";
     OPage 400 "invalid_request"; OPage 400 ""].
Proof. vm_compute. reflexivity. Qed.


(* the id of a callback in the form body, in the query, in both (the body value decides), repeated,
   with an empty first value, absent: two finished requests of two clients, each answer goes to the
   URI of the request that the first value names, or is an error page *)
Example C03_nonvacuous_callback_placement :
  run ex_glob ex_info true EK_Plain [ex_client; ex_client_b] []
      [Authorize Provider (ex_req "https://app.example.com/cb") W_None;
       Authorize Legacy (ex_req_fp "b" "https://b.example.org/cb") W_None;
       Login 0; Login 1;
       Callback Provider {| cb_body := [Some 0]; cb_query := [] |} CF_None W_None;
       Callback Legacy {| cb_body := []; cb_query := [Some 0] |} CF_None W_None;
       Callback Provider {| cb_body := [Some 1]; cb_query := [Some 0] |} CF_None W_None;
       Callback Legacy {| cb_body := []; cb_query := [Some 0; Some 1] |} CF_None W_None;
       Callback Legacy {| cb_body := [None]; cb_query := [Some 0] |} CF_None W_None;
       Callback Provider {| cb_body := [Some 7; Some 0]; cb_query := [Some 1] |} CF_None W_None;
       Callback Provider cb_none CF_None W_None]
  = [OLogin "/login?id="; OLogin "/login?id="; ONone; ONone;
     ORedirect false "" "https://app.example.com/cb"; ORedirect false "" "https://app.example.com/cb";
     OForm "https://b.example.org/cb"; ORedirect false "" "https://app.example.com/cb";
     OPage 400 ""; OPage 400 ""; OPage 400 ""].
Proof. vm_compute. reflexivity. Qed.
