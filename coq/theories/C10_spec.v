(* C10: case vocabulary, model runner and property predicate.
   One case = one request under test sent to one router with one fault plan
   (the state was prepared fault-free through the fixture). *)
From OIDC Require Import Lib.
From OIDC Require Export C10_Prog C10_Handlers.

(* warm = the same request was served once, fault-free, by the same provider instance before
   the run under test (fresh code / tokens prepared again).  The model ignores it: a handler
   has no state besides the storage, so nothing may make a failed storage call invisible. *)
Inductive input := Req (r : router) (sv : storage) (f : flow) (warm : bool) (p : plan).

Inductive observed :=
| Obs (hit : bool)               (* the injected failure was reached (refstore.FaultHit) *)
      (single : bool)            (* exactly one response: one WriteHeader, at most one document in the body *)
      (cls : rclass) (err : string) (creds : list cred)
      (j : list method)          (* the storage journal of the request *)
| OPanic
| OHang.                         (* the handler did not return within the driver's time-out *)

Definition in_flow (i : input) : flow := match i with Req _ _ f _ _ => f end.
Definition in_plan (i : input) : plan := match i with Req _ _ _ _ p => p end.
Definition in_prog (i : input) : prog := match i with Req r sv f _ _ => handler r sv f end.

Definition model (i : input) : observed :=
  let g := in_prog i in let p := in_plan i in
  let a := answer p g in
  Obs (hit p g) true (r_cls a) (r_err a) (r_creds a) (journal p g).

(* ---- the property, from the property text ---- *)

Definition is_introspection (f : flow) : bool := match f with FIntrospect _ => true | _ => false end.

(* "answers that request with an error (an OAuth error document, an error redirect to the
   already validated redirect URI, or a 4xx/5xx status)"; the one other answer the text
   grants: introspection "does not report active:true", i.e. 200 {active:false} *)
Definition error_answer (f : flow) (c : rclass) : bool :=
  match c with
  | K302Err | K4xx | K5xx => true
  | KInactive => is_introspection f
  | KOk | K302 | K302ErrElsewhere | KOther => false
  end.

(* "no authorization code, access, refresh or ID token and no user claims,
   introspection does not report active:true" *)
Definition forbidden (c : cred) : bool :=
  match c with CCode | CAccess | CRefresh | CIDToken | CClaims | CActive => true | CDevice => false end.

Definition closed_answer (f : flow) (a : resp) : bool :=
  error_answer f (r_cls a) && negb (existsb forbidden (r_creds a)).

(* "a call into the storage fails": every injected error value counts, with one exception the
   storage interface itself makes - GetRefreshTokenInfo "must return ErrInvalidRefreshToken when
   presented with a token that is not a refresh token" (pkg/op/storage.go): that value from that
   method is an answer, not a failure.  (ErrDuplicateUserCode from StoreDeviceAuthorization only
   asks for another attempt: a request that ends without a successful attempt has failed.) *)
Definition documented_answer (m : method) (kd : kind) : bool :=
  match m, k_base kd with MGetRefreshTokenInfo, BInvalidRefresh => true | _, _ => false end.

(* the method and value of the plan's failure, read off the observed journal *)
Definition plan_failure (p : plan) (j : list method) : option (method * kind) :=
  match p with
  | PNone => None
  | PAt k kd => match nth_error j (k - 1) with Some m => Some (m, kd) | None => None end
  | PMethod m kd => Some (m, kd)
  end.
Definition is_failure (p : plan) (j : list method) : bool :=
  match plan_failure p j with Some (m, kd) => negb (documented_answer m kd) | None => true end.

Definition spec (i : input) (o : observed) : bool :=
  match o with
  | OPanic | OHang => false
  | Obs hit single cls err creds j =>
      (* "answers that request with an error": one answer, and it is an error without credentials *)
      if hit && is_failure (in_plan i) j then single && closed_answer (in_flow i) (R cls err creds) else true
  end.

(* guards of the theorems: the flow variant is one the fixture can drive; no reached failure
   hits a (flow, method) pair listed as an open finding (C10_Handlers.open_pair) *)
Definition wf_input (i : input) : bool := wf_flow (in_flow i).
Definition open_finding (i : input) : bool :=
  existsb (fun mk => open_pair (in_flow i) (fst mk)) (faults (in_plan i) (in_prog i)).
Definition excused (f : flow) (m : method) (kd : kind) : bool := open_pair f m || documented_answer m kd.

Definition obs_eqb (a b : observed) : bool :=
  match a, b with
  | Obs h1 s1 c1 e1 k1 j1, Obs h2 s2 c2 e2 k2 j2 =>
      Bool.eqb h1 h2 && Bool.eqb s1 s2 && rclass_beq c1 c2 && String.eqb e1 e2 && list_eqb cred_beq k1 k2 && list_eqb method_beq j1 j2
  | OPanic, OPanic => true
  | OHang, OHang => true
  | _, _ => false
  end.

Definition cls_index (c : rclass) : nat :=
  match c with KOk => 1 | K302 => 2 | K302Err => 3 | K302ErrElsewhere => 4 | K4xx => 5 | K5xx => 6 | KInactive => 7 | KOther => 8 end.

(* decision-path class: 0 = no fault plan (the fault-free run); otherwise the class of the
   model's answer, kept apart by whether the handler went on after the failure *)
Definition path (i : input) (o : observed) : nat :=
  match in_plan i with
  | PNone => 0
  | _ => match o with
         | Obs _ _ c _ _ j => cls_index c + 10 * (List.length j - List.length (upto_fault (trace (in_plan i) (in_prog i))))
         | OPanic | OHang => 9
         end
  end.

Definition case_mismatches := run_mismatches model obs_eqb.
Definition case_violations := run_violations spec.
Definition case_paths := run_paths model path.
