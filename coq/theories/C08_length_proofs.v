(* C08, round 11: the LENGTH of a presented string (long subjects, long opaque tokens) plays no
   role, and the reading endpoints agree about a string.  Statements about the MODEL - for every
   state, router and string, hence for every length; the correspondence run (worlds with end users
   whose subjects have up to 700 characters) ties them to the code. *)
From OIDC Require Import Lib C08_OP C08_spec C08_proofs.

(* a sealed text "id:sub" is read as (id, sub), whatever sub is *)
Lemma sealed_read id sub : read_at (Opq id sub) = Some (id, sub).
Proof. reflexivity. Qed.

(* userinfo, introspection and revocation look up the id of a sealed text; the subject part -
   and with it the length of the string - does not enter the answer *)
Lemma sealed_subject_irrelevant cl r g c id sub1 sub2 h :
  userinfo r g (Opq id sub1) = userinfo r g (Opq id sub2) /\
  introspect cl r g c (Opq id sub1) = introspect cl r g c (Opq id sub2) /\
  revoke cl r g c (Opq id sub1) h = revoke cl r g c (Opq id sub2) h.
Proof. repeat split. Qed.

Lemma live_in_live_tok g n tr : live_in g n tr -> live_tok g (AT n) = Some tr.
Proof. intros [F X]. unfold live_tok. now rewrite F, X. Qed.

(* the model SERVES a sealed text naming a live token: userinfo answers that token's claims,
   introspection active:true to every caller its router authenticates and that is in the token's
   audience - for every subject text of every length *)
Lemma live_sealed_token_served cl r g n tr sub : live_in g n tr ->
  userinfo r g (Opq (AT n) sub) = OInfo (if string_in "openid" (tr_scopes tr) then tr_sub tr else "") /\
  forall c caller,
    (match r with Prov => auth_intro_prov cl c | Leg => auth_intro_leg cl c end) = Some caller ->
    string_in caller (tr_aud tr) = true ->
    introspect cl r g c (Opq (AT n) sub) = OIntro true (tr_sub tr) (tr_client tr) (tr_scopes tr) true.
Proof.
  intro L. apply live_in_live_tok in L. split.
  - unfold userinfo. cbn [read_at]. now rewrite L.
  - intros c caller A I. unfold introspect. rewrite A. cbn [read_at]. now rewrite L, I.
Qed.

(* token exchange reads a string declared access_token with the reader of userinfo /
   introspection / revocation (third-party tokens aside, which only a verifier storage knows) *)
Lemma readers_agree g actor t : (forall c s, t <> Ext c s) -> read_x g actor TAccess t = read_at t.
Proof.
  intro NE. unfold read_x. cbn [read_native supported]. destruct (read_at t) as [x|] eqn:R; [reflexivity|].
  destruct t; try (now destruct (p_verifier (policy g))). exfalso. now apply (NE cls sub).
Qed.

(* the endpoints AGREE about every presented string: userinfo answers claims exactly for the
   strings token exchange reads as an access token and finds live in the storage *)
Lemma endpoints_agree r g t :
  (exists sub, userinfo r g t = OInfo sub) <->
  (exists id s, read_x g false TAccess t = Some (id, s) /\ x_live g TAccess id = true).
Proof.
  split.
  - intros [sub U]. unfold userinfo in U. destruct (read_at t) as [[id s]|] eqn:R; [|discriminate].
    destruct (live_tok g id) as [tr|] eqn:L; [|discriminate].
    exists id, s. split.
    + unfold read_x. cbn [read_native]. now rewrite R.
    + cbn [x_live]. now rewrite L.
  - intros (id & s & RX & XL). unfold read_x in RX. cbn [read_native supported] in RX.
    cbn [x_live] in XL. destruct (live_tok g id) as [tr|] eqn:L; [|discriminate].
    destruct (read_at t) as [[id' s']|] eqn:R.
    + injection RX as -> ->. unfold userinfo. rewrite R, L. eauto.
    + exfalso. destruct (p_verifier (policy g)); cbn [andb] in RX; [|discriminate].
      destruct t; try discriminate. destruct (ext_accepts cls false); [|discriminate].
      injection RX as <- _. discriminate.
Qed.

(* ---------------------------------------------------------------- non-vacuity: a subject of 255 characters *)

Fixpoint rep (n : nat) (s : string) : string :=
  match n with 0 => "" | S k => String.append s (rep k s) end.
Definition long_sub : string := rep 51 "did:u".     (* 255 characters, with colons *)
Definition long_history : input :=
  Hist refuting_clients refstore_policy
    [ (0, true, Issue Prov "web" long_sub ["openid"]);
      (0, true, UserInfo Leg (POpq (AT 2) long_sub));
      (0, true, Introspect Prov (Basic "web" "web-secret") (POpq (AT 2) long_sub));
      (0, true, Exchange Leg (Basic "web" "web-secret") (POpq (AT 2) long_sub) TAccess None TAccess ["openid"] ["web"]) ].

Example long_subject_nonvacuous :
  String.length long_sub = 255 /\
  firstn 3 (model long_history) = [OIssued (AT 2) NoId; OInfo long_sub; OIntro true long_sub "web" ["openid"] true] /\
  spec long_history (model long_history) = true /\ unconfused long_history = true.
Proof. vm_compute. repeat split. Qed.
