(* C10: request handlers as programs over the storage interface, with fault
   injection.  A handler is a deep-embedded program: a sequence of storage
   calls, each with what the handler does when that call fails (usually: write
   an error answer and return; in two places: carry on), ended by the answer
   of the fault-free path.  [run] executes a program under a fault plan and
   returns the answer and the trace of storage calls (the journal). *)
From OIDC Require Import Lib.

(* the methods of op.Storage (and its optional capability interfaces) that the
   framework calls; names as in pkg/op/storage.go and the refstore journal *)
Inductive method :=
| MCreateAuthRequest | MAuthRequestByID | MAuthRequestByCode | MSaveAuthCode | MDeleteAuthRequest
| MCreateAccessToken | MCreateAccessAndRefreshTokens | MTokenRequestByRefreshToken
| MTerminateSession | MGetRefreshTokenInfo | MRevokeToken
| MSigningKey | MSignatureAlgorithms | MKeySet
| MGetClientByClientID | MAuthorizeClientIDSecret
| MSetUserinfoFromScopes | MSetUserinfoFromToken | MSetIntrospectionFromToken
| MGetPrivateClaimsFromScopes | MGetKeyByIDAndClientID | MValidateJWTProfileScopes | MHealth
| MSetUserinfoFromRequest
| MClientCredentials | MClientCredentialsTokenRequest
| MValidateTokenExchangeRequest | MCreateTokenExchangeRequest
| MGetPrivateClaimsFromTokenExchangeRequest | MSetUserinfoFromTokenExchangeRequest
| MStoreDeviceAuthorization | MGetDeviceAuthorizatonState
(* optional interfaces the framework type-asserts: CanTerminateSessionFromRequest,
   CanGetPrivateClaimsFromRequest, TokenExchangeTokensVerifierStorage, JWTProfileTokenStorage
   (CanSetUserinfoFromRequest, ClientCredentials-, TokenExchange-, DeviceAuthorizationStorage are above) *)
| MTerminateSessionFromRequest | MGetPrivateClaimsFromRequest
| MVerifyExchangeSubjectToken | MVerifyExchangeActorToken | MJWTProfileTokenType
| MUnknown.   (* a journal entry the model does not know: always a mismatch *)

(* the VALUE of an injected failure, as far as Go code can tell values apart with
   errors.Is / errors.As / type switches: *)
(* the ErrorType of an *oidc.Error: every exported constructor of pkg/oidc/error.go, a type the
   library does not define (a storage can build &oidc.Error{ErrorType: "..."}), and the empty type *)
Inductive ecode :=
| EServerError | EInvalidRequest | EInvalidClient | EAccessDenied
| EInvalidScope | EInvalidGrant | EUnauthorizedClient | EUnsupportedGrantType
| EInteractionRequired | ELoginRequired | ERequestNotSupported
| EAuthorizationPending | ESlowDown | EExpiredToken | EInvalidTarget
| ECustom | EEmpty.
Inductive ebase :=
| BPlain                                   (* errors.New(...) *)
| BDeadline                                (* context.DeadlineExceeded *)
| BCanceled                                (* context.Canceled *)
| BOidc (c : ecode) (redirect_disabled : bool)   (* *oidc.Error of that code [WithRedirectDisabled] *)
| BDupUserCode                             (* op.ErrDuplicateUserCode *)
| BInvalidRefresh.                         (* op.ErrInvalidRefreshToken *)
(* wrapped = fmt.Errorf("...: %w", base): visible to errors.Is/As, not to ==, type
   assertions or json.Marshal *)
Record kind := K { k_base : ebase; k_wrapped : bool }.

Definition all_codes :=
  [EServerError; EInvalidRequest; EInvalidClient; EAccessDenied;
   EInvalidScope; EInvalidGrant; EUnauthorizedClient; EUnsupportedGrantType;
   EInteractionRequired; ELoginRequired; ERequestNotSupported;
   EAuthorizationPending; ESlowDown; EExpiredToken; EInvalidTarget; ECustom; EEmpty].
Definition all_bases : list ebase :=
  [BPlain; BDeadline; BCanceled; BDupUserCode; BInvalidRefresh]
  ++ flat_map (fun c => [BOidc c false; BOidc c true]) all_codes.
Definition all_kinds : list kind := flat_map (fun b => [K b false; K b true]) all_bases.

(* errors.As(err, **oidc.Error) *)
Definition as_oidc (kd : kind) : option (ecode * bool) :=
  match k_base kd with BOidc c rd => Some (c, rd) | _ => None end.
(* errors.Is(err, context.DeadlineExceeded) / (err, op.ErrInvalidRefreshToken) *)
Definition is_deadline (kd : kind) : bool := match k_base kd with BDeadline => true | _ => false end.
Definition is_invalid_refresh (kd : kind) : bool := match k_base kd with BInvalidRefresh => true | _ => false end.

(* projected class of an HTTP answer (DESIGN 4.7) *)
Inductive rclass :=
| KOk               (* 2xx that is not the introspection "inactive" document *)
| K302              (* redirect without an error parameter (login UI, success, logout) *)
| K302Err           (* redirect carrying error=..., to the validated redirect URI *)
| K302ErrElsewhere  (* redirect carrying error=..., to any other target *)
| K4xx | K5xx
| KInactive         (* introspection only: 200 {"active":false} and nothing else *)
| KOther.

(* credential material an answer can carry (anywhere: status line, headers,
   Location, body) *)
Inductive cred :=
| CCode | CAccess | CRefresh | CIDToken | CClaims
| CActive           (* introspection "active":true *)
| CDevice.          (* device_code / user_code of the device authorization answer *)

Scheme Equality for method.
Scheme Equality for rclass.
Scheme Equality for cred.

Record resp := R { r_cls : rclass; r_err : string; r_creds : list cred }.

Inductive prog :=
| Ret (r : resp)
| Call (m : method) (on_err : kind -> prog) (k : prog).

(* fault plans: none; the k-th storage call of the request fails (1-based);
   every call of method m fails *)
Inductive plan :=
| PNone
| PAt (k : nat) (kd : kind)
| PMethod (m : method) (kd : kind).

(* does the next call (of method m) fail, and the plan for the calls after it *)
Definition step (p : plan) (m : method) : option kind * plan :=
  match p with
  | PNone => (None, PNone)
  | PAt 0 _ => (None, PNone)
  | PAt 1 kd => (Some kd, PNone)
  | PAt (S k) kd => (None, PAt k kd)
  | PMethod m' kd => (if method_beq m m' then Some kd else None, p)
  end.

(* one journal entry: the method, and the failure injected into it if any *)
Definition entry := (method * option kind)%type.

Fixpoint run (p : plan) (g : prog) : resp * list entry :=
  match g with
  | Ret r => (r, [])
  | Call m h k =>
      match step p m with
      | (Some kd, p') => let (r, t) := run p' (h kd) in (r, (m, Some kd) :: t)
      | (None, p') => let (r, t) := run p' k in (r, (m, None) :: t)
      end
  end.

Definition answer (p : plan) (g : prog) : resp := fst (run p g).
Definition trace (p : plan) (g : prog) : list entry := snd (run p g).
Definition journal (p : plan) (g : prog) : list method := map fst (trace p g).

Definition faulted (e : entry) : bool := match snd e with Some _ => true | None => false end.
(* the injected failures that were reached, in order *)
Definition faults (p : plan) (g : prog) : list (method * kind) :=
  flat_map (fun e => match snd e with Some kd => [(fst e, kd)] | None => [] end) (trace p g).
Definition hit (p : plan) (g : prog) : bool := existsb faulted (trace p g).

(* the trace up to and including the first failing call *)
Fixpoint upto_fault (t : list entry) : list entry :=
  match t with
  | [] => []
  | e :: r => if faulted e then [e] else e :: upto_fault r
  end.

(* ---- static checks on programs, used by the theorems ---- *)

(* every answer a program can end in satisfies P *)
Fixpoint all_leaves (P : resp -> bool) (g : prog) : bool :=
  match g with
  | Ret r => P r
  | Call _ h k => forallb (fun kd => all_leaves P (h kd)) all_kinds && all_leaves P k
  end.

(* whatever happens after a failing call ends in an answer satisfying P, unless that
   (method, failure value) pair is excused *)
Fixpoint fail_closed_prog (P : resp -> bool) (excused : method -> kind -> bool) (g : prog) : bool :=
  match g with
  | Ret _ => true
  | Call m h k =>
      forallb (fun kd => excused m kd || all_leaves P (h kd)) all_kinds
      && fail_closed_prog P excused k
  end.

(* every failure handler on the fault-free path answers at once (no further storage call) *)
Definition is_ret (g : prog) : bool := match g with Ret _ => true | Call _ _ _ => false end.
Fixpoint strict (g : prog) : bool :=
  match g with
  | Ret _ => true
  | Call _ h k => forallb (fun kd => is_ret (h kd)) all_kinds && strict k
  end.

(* on the fault-free path every call of method m answers a failure with [Ret (a kd)] *)
Fixpoint answers_with (m : method) (a : kind -> resp) (g : prog) : Prop :=
  match g with
  | Ret _ => True
  | Call m' h k => (m' = m -> forall kd, h kd = Ret (a kd)) /\ answers_with m a k
  end.

(* two programs make the same storage calls and react alike to every failure; only the
   answer of the fault-free path may differ *)
Fixpoint same_handlers (g1 g2 : prog) : Prop :=
  match g1, g2 with
  | Ret _, Ret _ => True
  | Call m1 h1 k1, Call m2 h2 k2 => m1 = m2 /\ (forall kd, h1 kd = h2 kd) /\ same_handlers k1 k2
  | _, _ => False
  end.
