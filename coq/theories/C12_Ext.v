(* C12, round 11: the codec-bearing library code outside the eight JSON claim
   types that no correspondence run executed before.
   Go                                              Gallina
   oidc.NewLogoutTokenClaims (token.go)            new_logout
   IDTokenClaims.GetUserInfo (token.go)            get_userinfo
   UserInfo.GetAddress, IntrospectionResponse    
     .GetAddress (userinfo.go, introspection.go)   get_address
   SpaceDelimitedArray.Value / .Scan (types.go)    sda_value / sda_scan
   Time.AsTime, FromTime, NowTime (types.go)       as_time / from_time / now_time
   RequestObject.GetIssuer / SetSignatureAlgorithm,
     JWTTokenRequest getters (token_request.go)    getters
   op.ApplicationType / op.AccessTokenType: String,
     <T>String, IsA<T>, Marshal*/Unmarshal* for
     text / JSON / YAML / GQL, Value / Scan
     (applicationtype_enumer.go)                   enum_string / enum_parse / enum_unmarshal
   httphelper.ConcatenateJSON (pkg/http/marshal.go) concat_json (bytes) and members_obj (what a
                                                   last-wins JSON decoder reads from the result) *)
From OIDC Require Import Lib C12_Json C12_Codec.

(* ---------- values of dynamic type handed to sql.Scanner / gqlgen ---------- *)
Inductive dyn :=
| DNil                       (* untyped nil (SQL NULL) *)
| DStr (s : string)          (* string *)
| DBytes (s : string)        (* []byte *)
| DStringer (s : string)     (* some fmt.Stringer whose String() is s *)
| DInt (z : Z)               (* int64 *)
| DBool (b : bool)
| DOther.                    (* anything else (the driver hands a float64) *)

(* ---------- oidc.Time <-> time.Time ---------- *)
(* a time.Time is projected to (Unix(), Nanosecond()); Go's zero Time is
   0001-01-01T00:00:00Z = (-62135596800, 0) *)
Definition zero_sec : Z := (-62135596800)%Z.
Definition giga : Z := 1000000000%Z.

Definition from_time (sec nsec : Z) : Z :=
  if (sec =? zero_sec)%Z && (nsec =? 0)%Z then 0%Z else sec.

Definition as_time (ts : Z) : Z * Z :=
  if (ts =? 0)%Z then (zero_sec, 0%Z) else (ts, 0%Z).

(* the instant `ns` nanoseconds after the Unix epoch *)
Definition at_ns (ns : Z) : Z * Z := ((ns / giga)%Z, (ns mod giga)%Z).

Definition now_time (now : Z) : Z := from_time (fst (at_ns now)) (snd (at_ns now)).

(* ---------- NewLogoutTokenClaims ---------- *)
Definition bcl_event : string := "http://schemas.openid.net/event/backchannel-logout".

(* members in the order of schema_of TLogout: iss sub aud iat exp jti events sid *)
Definition new_logout (iss sub : string) (aud : option (list string)) (exp_s exp_n : Z)
                      (jti sid : string) (skew now : Z) : list fval :=
  [VStr iss; VStr sub; VStrs aud;
   VTime (from_time (fst (at_ns (now - skew))) (snd (at_ns (now - skew))));
   VTime (from_time exp_s exp_n);
   VStr jti; VMap [(bcl_event, JObj [])]; VStr sid].

(* ---------- member access by name ---------- *)
Fixpoint get_val (n : string) (sch : list field) (vals : list fval) (d : fval) : fval :=
  match sch, vals with
  | f :: s, v :: r => if String.eqb (fname f) n then v else get_val n s r d
  | _, _ => d
  end.

(* GetUserInfo: every UserInfo member is the ID-token member of its name; the
   custom map is copied *)
Definition get_userinfo (vals : list fval) (claims : obj) : list fval * obj :=
  (map (fun f => get_val (fname f) (schema_of TID) vals (zero_of (fkind f))) (schema_of TUserInfo),
   claims).

Definition zero_addr : addr := Addr "" "" "" "" "" "".

Definition get_address (a : option addr) : addr :=
  match a with Some x => x | None => zero_addr end.

(* ---------- SpaceDelimitedArray as a database value ---------- *)
Definition sda_value (o : option (list string)) : string :=
  join_sp (match o with Some l => l | None => [] end).

(* Scan into a destination that holds `init`: (error?, destination afterwards) *)
Definition sda_scan (init : option (list string)) (d : dyn) : bool * option (list string) :=
  match d with
  | DNil => (true, None)
  | DStr s | DBytes s => (true, Some (if String.eqb s "" then [] else split_sp s))
  | _ => (false, init)
  end.

(* ---------- the generated enum codecs ---------- *)
Inductive enum := EApp | ETok.

Definition enum_names (e : enum) : list string :=
  match e with
  | EApp => ["web"; "user_agent"; "native"]
  | ETok => ["bearer"; "JWT"]
  end.

Definition enum_type (e : enum) : string :=
  match e with EApp => "ApplicationType" | ETok => "AccessTokenType" end.

Fixpoint dec_digits (fuel : nat) (n : N) (acc : string) : string :=
  match fuel with
  | O => acc
  | S f =>
      let acc' := String (ascii_of_N (48 + n mod 10)) acc in
      if (n / 10 =? 0)%N then acc' else dec_digits f (n / 10)%N acc'
  end.

(* %d of an int (|z| < 10^25) *)
Definition z_dec (z : Z) : string :=
  match z with
  | Z0 => "0"
  | Zpos p => dec_digits 25 (Npos p) ""
  | Zneg p => String "-"%char (dec_digits 25 (Npos p) "")
  end.

Definition enum_count (e : enum) : Z := Z.of_nat (List.length (enum_names e)).

Definition enum_in_range (e : enum) (n : Z) : bool := (0 <=? n)%Z && (n <? enum_count e)%Z.

(* String() *)
Definition enum_string (e : enum) (n : Z) : string :=
  if enum_in_range e n then nth (Z.to_nat n) (enum_names e) ""
  else String.append (enum_type e) (String.append "(" (String.append (z_dec n) ")")).

(* strings.ToLower as far as a comparison with an ASCII name can tell: ASCII
   upper case, U+212A KELVIN SIGN (E2 84 AA) -> k, U+0130 (C4 B0) -> i are the
   only characters whose lower case is ASCII; every other non-ASCII character
   (and every invalid byte: U+FFFD) stays outside ASCII *)
Fixpoint lower_norm (s : string) : string :=
  match s with
  | EmptyString => EmptyString
  | String c r =>
      let n := nat_of_ascii c in
      if (65 <=? n) && (n <=? 90) then String (ascii_of_nat (n + 32)) (lower_norm r)
      else if n =? 196 then
        match r with
        | String d r' => if nat_of_ascii d =? 176 then String "i"%char (lower_norm r')
                         else String c (lower_norm r)
        | EmptyString => String c EmptyString
        end
      else if n =? 226 then
        match r with
        | String d (String e r') =>
            if (nat_of_ascii d =? 132) && (nat_of_ascii e =? 170) then String "k"%char (lower_norm r')
            else String c (lower_norm r)
        | _ => String c (lower_norm r)
        end
      else String c (lower_norm r)
  end.

Fixpoint find_name (s : string) (names : list string) (i : Z) : option Z :=
  match names with
  | [] => None
  | nm :: r => if String.eqb s (lower_norm nm) then Some i else find_name s r (i + 1)%Z
  end.

(* <Type>String: the name map holds every name and its lower-case form; the
   second lookup is by strings.ToLower(s) *)
Definition enum_parse (e : enum) (s : string) : option Z :=
  find_name (lower_norm s) (enum_names e) 0%Z.

Inductive esrc :=
| SName (s : string)              (* <Type>String(s) *)
| SText (s : string)              (* UnmarshalText *)
| SYaml (ok : bool) (s : string)  (* UnmarshalYAML; ok = the callback could decode a string *)
| SGql (d : dyn)                  (* UnmarshalGQL *)
| SScan (d : dyn)                 (* Scan *)
| SJson (j : json).               (* json.Unmarshal -> UnmarshalJSON *)

(* `*i, err = <Type>String(s)`: the destination is overwritten also on failure *)
Definition assign_parse (e : enum) (s : string) : bool * Z :=
  match enum_parse e s with Some v => (true, v) | None => (false, 0%Z) end.

(* (no error?, destination afterwards) for a destination that held init *)
Definition enum_unmarshal (e : enum) (init : Z) (src : esrc) : bool * Z :=
  match src with
  | SName s | SText s | SYaml true s => assign_parse e s
  | SYaml false _ => (false, init)
  | SGql (DStr s) => assign_parse e s
  | SGql _ => (false, init)
  | SScan DNil => (true, init)
  | SScan (DStr s) | SScan (DBytes s) | SScan (DStringer s) =>
      match enum_parse e s with Some v => (true, v) | None => (false, init) end
  | SScan _ => (false, init)
  | SJson (JStr s) => assign_parse e s
  | SJson JNull => assign_parse e ""
  | SJson _ => (false, init)
  end.

(* strconv.Quote of a String() result, as far as the driver uses it: the names
   and "<Type>(<n>)" are printable ASCII without quote or backslash *)
Definition quote (s : string) : string := String """"%char (String.append s """").

(* ---------- ConcatenateJSON ---------- *)
Fixpoint ends_with (c : ascii) (s : string) : bool :=
  match s with
  | EmptyString => false
  | String x EmptyString => Ascii.eqb x c
  | String _ r => ends_with c r
  end.

Definition starts_with (c : ascii) (s : string) : bool :=
  match s with String x _ => Ascii.eqb x c | EmptyString => false end.

Fixpoint set_last (c : ascii) (s : string) : string :=
  match s with
  | EmptyString => EmptyString
  | String x EmptyString => String c EmptyString
  | String x r => String x (set_last c r)
  end.

Definition tail (s : string) : string :=
  match s with String _ r => r | EmptyString => EmptyString end.

(* (result or error, what the caller's `first` slice holds afterwards) *)
Definition concat_json (a b : string) : option string * string :=
  if negb (ends_with "}"%char a) then (None, a)
  else if negb (starts_with "{"%char b) then (None, a)
  else if String.length a =? 2 then (Some b, a)
  else if String.length b =? 2 then (Some a, a)
  else (Some (String.append (set_last ","%char a) (tail b)), set_last ","%char a).

(* compact rendering of an object from the texts of its members *)
Fixpoint join_comma (l : list string) : string :=
  match l with
  | [] => EmptyString
  | x :: r => match r with
              | [] => x
              | _ => String.append x (String ","%char (join_comma r))
              end
  end.

Definition render (ms : list string) : string :=
  String "{"%char (String.append (join_comma ms) "}").

Definition nonempty (s : string) : bool := negb (String.eqb s "").

(* what a decoder that keeps the last of several equal keys (encoding/json into
   a map) reads from an object text with these members, in this order *)
Definition members_obj (ms : obj) : obj := overlay ms [].

(* ---------- getters ---------- *)
(* RequestObject{Issuer: iss}.SetSignatureAlgorithm(..).GetIssuer(),
   JWTTokenRequest{Issuer: iss, private: claims}: GetIssuer, GetCustomClaim(key)
   (nil for an absent key and for a null), the constant getters *)
Definition custom_claim (claims : obj) (key : string) : option json :=
  match lookup key claims with Some JNull => None | x => x end.

(* ---------- case vocabulary of the extension ---------- *)
Inductive xin :=
| XNewLogout (iss sub : string) (aud : option (list string)) (exp_s exp_n : Z)
             (jti sid : string) (skew now : Z)
| XUserInfo (vals : list fval) (claims : obj)
| XGetAddr (intro : bool) (a : option addr)
| XSdaScan (init : option (list string)) (d : dyn)
| XSdaValue (l : option (list string))      (* Value, then Scan of it as string and as []byte *)
| XFromTime (sec nsec : Z)
| XAsTime (ts : Z)
| XNowTime (now : Z)
| XGetters (iss : string) (claims : obj) (key : string)
| XEnumStr (e : enum) (n : Z)
| XEnumParse (e : enum) (init : Z) (src : esrc)
| XEnumList (e : enum)                      (* <Type>Values(), <Type>Strings() *)
| XConcat (a b : string) (ma mb : option obj).
    (* ma / mb: the members when the driver rendered a / b compactly from an object *)

Inductive xout :=
| YNewLogout (vals : list fval) (doc : option json) (back : option (list fval * obj))
| YUserInfo (ui : list fval) (cl : obj) (a : addr) (indep : bool)
| YAddr (a : addr)
| YScan (ok : bool) (after : option (list string))
| YValue (v : option dyn) (back_s back_b : option (option (list string)))
| YTime (z : Z)
| YGoTime (sec nsec : Z)
| YGetters (ro_iss jtr_iss : string) (custom : option json) (consts : bool)
| YEnumStr (s : string) (isa : bool) (json_ : option json) (text : option string) (value : option dyn)
           (yaml : option string) (gql : string) (back : option Z)
| YEnumParse (ok : bool) (after : Z)
| YEnumList (vals : list Z) (names : list string)
| YConcat (out : option string) (first_after : string) (parsed : option json)
| YPanic.

Definition no_rfc : string -> option Z := fun _ => None.
Definition no_tag : string -> lres := fun _ => LSyn.

Definition xmodel (x : xin) : xout :=
  match x with
  | XNewLogout iss sub aud es en jti sid skew now =>
      let v := new_logout iss sub aud es en jti sid skew now in
      let d := JObj (encode_T TLogout v []) in
      YNewLogout v (Some d)
        (match decode no_rfc no_tag no_tag (schema_of TLogout) d with Ok r => Some r | _ => None end)
  | XUserInfo vals claims =>
      let ui := get_userinfo vals claims in
      YUserInfo (fst ui) (snd ui)
        (get_address (match get_val "address" (schema_of TUserInfo) (fst ui) (VAddr None) with
                      | VAddr a => a | _ => None end))
        true
  | XGetAddr _ a => YAddr (get_address a)
  | XSdaScan init d => let r := sda_scan init d in YScan (fst r) (snd r)
  | XSdaValue l =>
      let s := sda_value l in
      let back d := let r := sda_scan (Some ["#"]) d in if fst r then Some (snd r) else None in
      YValue (Some (DStr s)) (back (DStr s)) (back (DBytes s))
  | XFromTime s n => YTime (from_time s n)
  | XAsTime ts => YGoTime (fst (as_time ts)) (snd (as_time ts))
  | XNowTime now => YTime (now_time now)
  | XGetters iss claims key => YGetters iss iss (custom_claim claims key) true
  | XEnumStr e n =>
      let s := enum_string e n in
      YEnumStr s (enum_in_range e n) (Some (JStr s)) (Some s) (Some (DStr s)) (Some s) (quote s)
               (enum_parse e s)
  | XEnumParse e init src => let r := enum_unmarshal e init src in YEnumParse (fst r) (snd r)
  | XEnumList e => YEnumList (map Z.of_nat (seq 0 (List.length (enum_names e)))) (enum_names e)
  | XConcat a b ma mb =>
      let r := concat_json a b in
      YConcat (fst r) (snd r)
        (match fst r, ma, mb with
         | Some _, Some x, Some y => Some (JObj (members_obj (x ++ y)))
         | _, _, _ => None
         end)
  end.
