(* C02/C01: ground-truth predicates shared by the property predicates of C01
   and C02 (what a genuine / acceptable signature is, judged from the harness's
   description of who signed what), and equality tests on outcomes.
   Nothing here calls find_matching_key, check_signature or a verifier. *)
From OIDC Require Import Lib C02_Jws C01_Verifier.

(* keys of the list that could serve (kid, use, alg): right use, right type and
   either the same non-empty kid ("exact") or a kid missing on one side ("loose") *)
Definition exact_keys (kid use alg : string) (keys : list jwk) : list jwk :=
  filter (fun k => candidate use alg k && exact_kid kid k) keys.
Definition loose_keys (kid use alg : string) (keys : list jwk) : list jwk :=
  filter (fun k => candidate use alg k && loose_kid kid k) keys.

Definition kid_consistent (kid : string) (k : jwk) : bool :=
  (k_id k =s kid) || (k_id k =s "") || (kid =s "").

(* FindMatchingKey's answer is right for (kid, use, alg, keys) *)
Definition find_spec (kid use alg : string) (keys : list jwk) (r : find_result) : bool :=
  match exact_keys kid use alg keys, loose_keys kid use alg keys, r with
  | (_ :: _) as ex, _, FOk k => existsb (jwk_eqb k) ex          (* an exact match is returned *)
  | [], [k'], FOk k => jwk_eqb k k'                          (* the unique possible key *)
  | [], _ :: _ :: _, FMultiple => true                       (* ambiguity is reported *)
  | [], [], FNone => true
  | _, _, _ => false
  end.

(* key k of the key set may be used for signature entry e *)
Definition trusted_key (ks : keyset) (e : sigentry) (k : jwk) : bool :=
  match ks with
  | KSProfile client store =>
      existsb (fun x => (fst (fst x) =s client) && (snd (fst x) =s se_kid e) && jwk_eqb (snd x) k) store
  | KSStatic k0 => jwk_eqb k0 k
  | _ => use_ok "sig" k && alg_fits (k_ty k) (se_alg e) && kid_consistent (se_kid e) k
  end.

(* the token carries exactly one signature, its algorithm is allowed, it was
   really made by the holder of a trusted key of the key set over exactly the
   payload bytes [parsed] *)
Definition sig_genuine (allowed : list string) (ks : keyset) (t : token) (parsed : string) : bool :=
  match tok_sigs t, tok_payload t with
  | [e], Some p =>
      string_in (se_alg e) (effective_algs allowed)
      && existsb (fun k => sym_verify k e p && trusted_key ks e k) (ks_keys ks)
      && (p =s parsed)
  | _, _ => false
  end.

(* "kid-less ambiguity is reported, not guessed": k is the key a published list
   DESIGNATES for (kid, alg) - a key whose non-empty kid equals the header's, or,
   when there is no such key, the ONLY key that could match at all *)
Definition designated (kid alg : string) (keys : list jwk) (k : jwk) : bool :=
  match exact_keys kid "sig" alg keys, loose_keys kid "sig" alg keys with
  | (_ :: _) as ex, _ => existsb (jwk_eqb k) ex
  | [], [k'] => jwk_eqb k' k
  | _, _ => false
  end.

Definition unambiguous_in (e : sigentry) (p : string) (keys : list jwk) : bool :=
  existsb (fun k => designated (se_kid e) (se_alg e) keys k && sym_verify k e p) keys.

(* the signature was made by the key that one of the key set's published lists
   (the provider's list; the cached or the served list of a remote key set)
   designates for the header - not by one of several equally possible keys *)
Definition sig_unambiguous (ks : keyset) (t : token) : bool :=
  match tok_sigs t, tok_payload t with
  | [e], Some p =>
      match ks with
      | KSOpenID (Some keys) => unambiguous_in e p keys
      | KSOpenID None => false
      | KSRemote cached served _ =>
          unambiguous_in e p cached
          || match served with Some l => unambiguous_in e p l | None => false end
      | _ => true
      end
  | _, _ => false
  end.

(* what C02 demands of an acceptance *)
Definition sig_believable (allowed : list string) (ks : keyset) (t : token) (parsed : string) : bool :=
  sig_genuine allowed ks t parsed && sig_unambiguous ks t.

Definition sig_alg (t : token) : string :=
  match tok_sigs t with [e] => se_alg e | _ => "" end.

(* k is the key the verifier must select from a published list: the only exact
   match, or (no exact match) the only loose one *)
Definition selectable (kid alg : string) (keys : list jwk) (k : jwk) : bool :=
  match exact_keys kid "sig" alg keys, loose_keys kid "sig" alg keys with
  | [k'], _ => jwk_eqb k' k
  | [], [k'] => jwk_eqb k' k
  | _, _ => false
  end.

Definition no_compatible (kid alg : string) (keys : list jwk) : bool :=
  match exact_keys kid "sig" alg keys, loose_keys kid "sig" alg keys with
  | [], [] => true
  | _, _ => false
  end.

Definition registered_once (store : list (string * string * jwk)) (client kid : string) : option jwk :=
  match filter (fun x => (fst (fst x) =s client) && (snd (fst x) =s kid)) store with
  | [x] => Some (snd x)
  | _ => None
  end.

(* a token every correct CheckSignature must accept: one allowed signature by
   the holder of the one key the key set designates, over the parsed payload *)
Definition sig_complete (allowed : list string) (ks : keyset) (t : token) (parsed : string) : bool :=
  match tok_sigs t, tok_payload t with
  | [e], Some p =>
      string_in (se_alg e) (effective_algs allowed) && (p =s parsed) &&
      match ks with
      | KSOpenID (Some keys) =>
          existsb (fun k => selectable (se_kid e) (se_alg e) keys k && sym_verify k e p) keys
      | KSRemote cached (Some served) _ =>
          existsb (fun k => selectable (se_kid e) (se_alg e) served k && sym_verify k e p
                            && (no_compatible (se_kid e) (se_alg e) cached
                                || selectable (se_kid e) (se_alg e) cached k)) served
      | KSStatic k => sym_verify k e p
      | KSProfile client store =>
          match registered_once store client (se_kid e) with
          | Some k => sym_verify k e p
          | None => false
          end
      | _ => false
      end
  | _, _ => false
  end.

Definition z_eqb := Z.eqb.
Definition claims_eqb (a b : claims) : bool :=
  (c_iss a =s c_iss b) && (c_sub a =s c_sub b) && list_eqb String.eqb (c_aud a) (c_aud b)
  && (c_azp a =s c_azp b) && Z.eqb (c_exp a) (c_exp b) && Z.eqb (c_iat a) (c_iat b)
  && Z.eqb (c_auth_time a) (c_auth_time b) && (c_nonce a =s c_nonce b) && (c_acr a =s c_acr b)
  && (c_at_hash a =s c_at_hash b) && (c_client_id a =s c_client_id b)
  && (c_rtype a =s c_rtype b) && (c_extra a =s c_extra b).

Definition find_result_eqb (a b : find_result) : bool :=
  match a, b with
  | FOk x, FOk y => jwk_eqb x y
  | FMultiple, FMultiple | FNone, FNone => true
  | _, _ => false
  end.

Definition outcome_eqb (a b : outcome) : bool :=
  match a, b with
  | Accept c1 a1, Accept c2 a2 => claims_eqb c1 c2 && (a1 =s a2)
  | AcceptExpired c1 a1 e1, AcceptExpired c2 a2 e2 => claims_eqb c1 c2 && (a1 =s a2) && err_eqb e1 e2
  | Reject e1, Reject e2 => err_eqb e1 e2
  | _, _ => false
  end.

Definition err_code (e : err) : nat :=
  match e with
  | EParse => 0 | EJson => 1 | ESubject => 2 | EIssuer => 3 | EAudience => 4
  | EAzpMissing => 5 | EAzpInvalid => 6 | ESigParse => 7 | ESigAlg => 8
  | ESigMissing => 9 | ESigMultiple => 10 | ESigInvalid => 11 | ESigPayload => 12
  | EExpired => 13 | EIatMissing => 14 | EIatFuture => 15 | EIatOld => 16
  | ENonce => 17 | EAcr => 18 | EAuthTimeMissing => 19 | EAuthTimeOld => 20
  | EAtHash => 21 | EAtHashAlg => 22 | ESubjectIssuer => 23 | EReq => 24 | EOther => 25
  end.

Definition outcome_code (o : outcome) : nat :=
  match o with
  | Reject e => err_code e          (* 0 = rejected by ParseToken: the trivial class *)
  | Accept _ _ => 30
  | AcceptExpired _ _ e => 31 + err_code e
  end.

