(* C09 layer (b): verifier entry points over the result of oidc.ParseToken.
   pkg/oidc/verifier.go ParseToken / DecryptToken (identity), pkg/client/rp/verifier.go VerifyIDToken,
   pkg/op/verifier_access_token.go, verifier_id_token_hint.go, verifier_jwt_profile.go,
   pkg/op/auth_request.go ParseRequestObject.
   Only the part up to the first use of the decoded claims is modelled; what the
   claim / signature checks answer afterwards is the business of C01, C02, C14. *)
From OIDC Require Import Lib C09_Json C09_Codec.

Inductive vkind :=
| VRpIDToken          (* rp.VerifyIDToken[*oidc.IDTokenClaims] *)
| VOpAccessToken      (* op.VerifyAccessToken[*oidc.AccessTokenClaims] *)
| VOpIDTokenHint      (* op.VerifyIDTokenHint[*oidc.IDTokenClaims] *)
| VOpIDTokenHintTC    (* op.VerifyIDTokenHint[*oidc.TokenClaims] (authorize) *)
| VJWTAssertion       (* op.VerifyJWTAssertion: destination is a plain pointer *)
| VRequestObject.     (* op.ParseRequestObject: destination is a plain pointer *)

Inductive payload := PInvalid | PJson (j : json).   (* PInvalid: not a JSON document *)

Record token := { t_segments : nat; t_b64ok : bool; t_payload : payload }.

(* does the verifier hand ParseToken a pointer to its (nil) claims pointer? *)
Definition ptr_to_ptr (k : vkind) : bool :=
  match k with VJWTAssertion | VRequestObject => false | _ => true end.

Definition vschema (k : vkind) : schema * bool :=
  match k with
  | VRpIDToken | VOpIDTokenHint => (sc_id_token, true)
  | VOpAccessToken => (sc_access_token, true)
  | VOpIDTokenHintTC => (sc_token_claims, false)
  | VJWTAssertion => (sc_jwt_request, true)
  | VRequestObject => (sc_request_object, false)
  end.

Section Verifier.
  Variable rfc3339_ok : string -> bool.
  Variable lang_class : string -> nat.

  (* claims pointer after ParseToken: None = nil *)
  Inductive parsed := PErr | PPanic | POk (claims : option unit).

  (* [guard] = ParseToken refuses a payload that is not a JSON object (after F02);
     [checked] = Audience uses the checked assertion (after F01) *)
  Definition parse_token (guard checked : bool) (k : vkind) (t : token) : parsed :=
    if negb (t_segments t =? 3) then PErr else
    if negb (t_b64ok t) then PErr else
    match t_payload t with
    | PInvalid => PErr
    | PJson j =>
        if guard && negb (is_obj j) then PErr else
        if is_null j && ptr_to_ptr k then POk None           (* json sets the claims pointer to nil *)
        else match decode_struct rfc3339_ok lang_class checked (fst (vschema k)) (snd (vschema k)) j with
             | Ok _ => POk (Some tt)
             | Err => PErr
             | Panic => PPanic
             end
    end.

  Inductive vres := VParseErr | VPast | VPanic.

  (* every verifier: parse; return on error; then call a method on / read a field of the claims *)
  Definition verify (guard checked : bool) (k : vkind) (t : token) : vres :=
    match parse_token guard checked k t with
    | PErr => VParseErr
    | PPanic => VPanic
    | POk c => match deref c with
               | Ok _ => VPast
               | _ => VPanic
               end
    end.
End Verifier.

(* ---- partial results of op.VerifyIDTokenHint and its two callers ----
   A hint that parses (object payload, well-typed claims). The verifier of a Provider has no
   acr / max-age settings, so the checks are issuer, signature, exp, iat. An expiry-related
   failure is returned TOGETHER WITH the claims (IDTokenHintExpiredError); the callers
   (ValidateEndSessionRequest, ValidateAuthReqIDTokenHint) tolerate that error and go on to
   claims.GetSubject(). *)
Inductive tpos := TAbsent | TPast | TFuture.
Inductive hcaller := HEndSession | HAuthorize.

Record hint := { h_issuer_ok : bool; h_sig_ok : bool; h_exp : tpos; h_iat : tpos }.

Inductive hverdict := HFatal | HTolerated | HValid.

(* [keep]: every tolerated failure hands the claims back (false = a missing / future iat returns nil claims) *)
Definition verify_hint (keep : bool) (h : hint) : hverdict * option unit :=
  if negb (h_issuer_ok h) then (HFatal, None)
  else if negb (h_sig_ok h) then (HFatal, None)
  else match h_exp h with
       | TFuture =>
           match h_iat h with
           | TPast => (HValid, Some tt)
           | _ => (HTolerated, if keep then Some tt else None)     (* ErrIatMissing / ErrIatInFuture *)
           end
       | _ => (HTolerated, Some tt)                                 (* ErrExpired (exp absent = zero time) *)
       end.

Inductive hres := HRefused | HAccepted | HPanic | HDouble.

(* both callers: a fatal verdict is answered with an error; otherwise the subject is read from the claims *)
Definition hint_caller (keep : bool) (c : hcaller) (h : hint) : hres :=
  match verify_hint keep h with
  | (HFatal, _) => HRefused
  | (_, claims) => match deref claims with
                   | Ok _ => HAccepted
                   | _ => HPanic
                   end
  end.
