(* C18 proofs. *)
From OIDC Require Import Lib C18_Url C18_Url_proofs C18_Session C18_spec.

Definition with_hint (q : esreq) (h : hint) : esreq :=
  {| e_hint := h; e_client := e_client q; e_uri := e_uri q; e_state := e_state q; e_fault := e_fault q |}.

Section S.
  Variable pmatch : string -> string -> pres.
  Variable uparse : string -> option purl.
  Variable default_uri : string.
  Variable ts : tsfr.
  Variable cs : list lclient.

  Notation validate_post := (validate_post pmatch).
  Notation validate_end_session := (validate_end_session pmatch uparse default_uri cs).
  Notation end_session := (end_session pmatch uparse default_uri ts cs).
  Notation registered_post := (registered_post pmatch).
  Notation reaches := (reaches uparse).

  (* registered exactly or via an opted-in glob, as a proposition *)
  Definition RegisteredPost (c : lclient) (u : string) : Prop :=
    In u (l_post c) \/ exists gs g, l_globs c = Some gs /\ In g gs /\ pmatch g u = PMatch.

  Lemma string_in_In x l : string_in x l = true <-> In x l.
  Proof.
    unfold string_in. rewrite existsb_exists. split.
    - intros [y [Hy He]]. apply String.eqb_eq in He. now subst.
    - intro H. exists x. split; [assumption|apply String.eqb_refl].
  Qed.

  Lemma check_pglobs_ok gs u :
    check_pglobs pmatch gs u = PvOk ->
    existsb (fun g => match pmatch g u with PMatch => true | _ => false end) gs = true.
  Proof.
    induction gs as [|g r IH]; cbn; intro H; [discriminate|].
    destruct (pmatch g u); cbn; try discriminate; auto.
  Qed.

  Lemma validate_post_registered c u : validate_post c u = PvOk -> registered_post c u = true.
  Proof.
    unfold C18_Session.validate_post, C18_spec.registered_post.
    destruct (string_in u (l_post c)); [reflexivity|]. cbn.
    destruct (l_globs c); [apply check_pglobs_ok | discriminate].
  Qed.

  Lemma registered_post_Prop c u : registered_post c u = true -> RegisteredPost c u.
  Proof.
    unfold C18_spec.registered_post, RegisteredPost. intro H. apply orb_true_iff in H as [H|H].
    - left. now apply string_in_In.
    - right. destruct (l_globs c) as [gs|]; [|discriminate].
      apply existsb_exists in H as [g [Hg Hm]]. exists gs, g. repeat split; auto.
      destruct (pmatch g u); congruence.
  Qed.

  Lemma find_lclient_id id c : find_lclient cs id = Some c -> l_id c = id.
  Proof. intro H. apply find_some in H as [_ H]. now apply String.eqb_eq in H. Qed.

  (* where the target of a successful validation comes from *)
  Definition base_of (q : esreq) (pc sc u : string) : Prop :=
    (pc = "" /\ sc = "" /\ u = default_uri) \/
    (pc <> "" /\ exists c, find_lclient cs pc = Some c /\ sc = pc /\
       ((e_uri q = "" /\ u = default_uri) \/
        (e_uri q <> "" /\ u = e_uri q /\ validate_post c u = PvOk))).

  Definition target_of (q : esreq) (u target : string) : Prop :=
    (e_state q = "" /\ target = u) \/
    (e_state q <> "" /\ exists p, uparse u = Some p /\ target = merge_state p (e_state q)).

  Lemma lookup_find f id c : lookup cs f id = Some c -> find_lclient cs id = Some c.
  Proof. destruct f; cbn; congruence. Qed.

  Lemma validate_shape q user sc target :
    validate_end_session q = inr (user, sc, target) ->
    exists pc u, proven q = inr (user, pc) /\ base_of q pc sc u /\ target_of q u target.
  Proof.
    unfold C18_Session.validate_end_session.
    destruct (proven q) as [e|[user' pc]] eqn:Ep; [discriminate|].
    destruct (String.eqb pc "") eqn:Epc.
    - apply String.eqb_eq in Epc. subst pc.
      destruct (String.eqb (e_state q) "") eqn:Es.
      + intro H. inversion H; subst. exists "", default_uri. split; [reflexivity|]. split.
        * left. auto.
        * left. apply String.eqb_eq in Es. auto.
      + destruct (uparse default_uri) as [p|] eqn:Eu; [|discriminate].
        intro H. inversion H; subst. exists "", default_uri. split; [reflexivity|]. split.
        * left. auto.
        * right. split; [intro E; rewrite E in Es; discriminate|]. exists p. auto.
    - assert (Hpc : pc <> "") by (intro E; subst; discriminate).
      destruct (lookup cs (e_fault q) pc) as [c|] eqn:El; [|discriminate].
      apply lookup_find in El. pose proof (find_lclient_id _ _ El) as Hid. subst pc.
      assert (Hgen : forall u,
        ((e_uri q = "" /\ u = default_uri) \/ (e_uri q <> "" /\ u = e_uri q /\ validate_post c u = PvOk)) ->
        (if String.eqb (e_state q) "" then inr (user', l_id c, u)
         else match uparse u with
              | None => inl E_ServerError
              | Some p => inr (user', l_id c, merge_state p (e_state q))
              end) = inr (user, sc, target) ->
        exists pc0 u0, @inr verr _ (user', l_id c) = inr (user, pc0) /\ base_of q pc0 sc u0 /\ target_of q u0 target).
      { intros u Hu. destruct (String.eqb (e_state q) "") eqn:Es.
        - intro H. injection H as H1 H2 H3. subst user sc target. exists (l_id c), u. split; [reflexivity|]. split.
          + right. split; [assumption|]. exists c. auto.
          + left. apply String.eqb_eq in Es. auto.
        - destruct (uparse u) as [p|] eqn:Eu; [|discriminate].
          intro H. injection H as H1 H2 H3. subst user sc target. exists (l_id c), u. split; [reflexivity|]. split.
          + right. split; [assumption|]. exists c. auto.
          + right. split; [intro E; rewrite E in Es; discriminate|]. exists p. auto. }
      destruct (String.eqb (e_uri q) "") eqn:Eu.
      + apply String.eqb_eq in Eu. apply Hgen. left. auto.
      + destruct (validate_post c (e_uri q)) eqn:Ev; try discriminate.
        apply Hgen. right. split; [intro E; rewrite E in Eu; discriminate|]. auto.
  Qed.

  (* the storage's own choice through the optional TerminateSessionFromRequest *)
  Definition StorageChoice (loc : string) : Prop := ts = TS_Fixed loc.

  Lemma finish_redirect st q user sc target loc user' sc' :
    finish ts st q user sc target = ERedirect loc (user', sc') ->
    user' = user /\ sc' = sc /\ (loc = target \/ StorageChoice loc).
  Proof.
    unfold finish, StorageChoice. destruct ts; try destruct (terminate_fails q); try discriminate;
      intro H; inversion H; auto.
  Qed.

  Lemma end_session_redirect r q loc user sc :
    end_session r q = ERedirect loc (user, sc) ->
    exists t, validate_end_session q = inr (user, sc, t) /\ (loc = t \/ StorageChoice loc).
  Proof.
    destruct r; cbn [C18_Session.end_session]; unfold end_session_provider, end_session_legacy;
      destruct (validate_end_session q) as [[]|[[u s] t]]; try discriminate;
      intro H; apply finish_redirect in H as [-> [-> H]]; eauto.
  Qed.

  Lemma proven_client_of q user pc : proven q = inr (user, pc) ->
    proven_client q = Some pc /\ user = hint_sub (e_hint q) /\ contradicts q = false.
  Proof.
    unfold proven, proven_client, contradicts, hint_sub. destruct (e_hint q) as [|ex sub azp|].
    - intro H. inversion H. auto.
    - destruct (negb (String.eqb (e_client q) "") && negb (String.eqb (e_client q) azp)); [discriminate|].
      intro H. inversion H. auto.
    - discriminate.
  Qed.

  Theorem redirect_registered r q loc user sc :
    end_session r q = ERedirect loc (user, sc) ->
    StorageChoice loc \/
    exists u, target_of q u loc /\
      (u = default_uri \/
       (u = e_uri q /\ e_uri q <> "" /\
        exists c, proven_client q = Some sc /\ find_lclient cs sc = Some c /\ RegisteredPost c u)).
  Proof.
    intro H. apply end_session_redirect in H as [t [H [->|Hs]]]; [|left; exact Hs]. right.
    apply validate_shape in H as [pc [u [Hp [Hb Ht]]]].
    exists u. split; [assumption|].
    destruct Hb as [[_ [_ ->]]|[_ [c [Hc [-> [[_ ->]|[Hne [-> Hv]]]]]]]]; auto.
    right. repeat split; auto. exists c. apply proven_client_of in Hp as [Hp _].
    repeat split; auto. apply registered_post_Prop, validate_post_registered, Hv.
  Qed.

  Theorem hint_rules r q :
    (e_hint q = HBad -> exists s c, end_session r q = EPage s c None) /\
    (forall ex sub azp, e_hint q = HGood ex sub azp -> e_client q <> "" -> e_client q <> azp ->
       exists s c, end_session r q = EPage s c None) /\
    (forall sub azp, end_session r (with_hint q (HGood true sub azp)) = end_session r (with_hint q (HGood false sub azp))).
  Proof.
    split; [|split].
    - intro H. destruct r; cbn [C18_Session.end_session]; unfold end_session_provider, end_session_legacy,
        C18_Session.validate_end_session, proven; rewrite H; eauto.
    - intros ex sub azp H Hc Ha.
      assert (Hp : proven q = inl E_InvalidRequest).
      { unfold proven. rewrite H.
        destruct (String.eqb (e_client q) "") eqn:E1; [apply String.eqb_eq in E1; contradiction|].
        destruct (String.eqb (e_client q) azp) eqn:E2; [apply String.eqb_eq in E2; contradiction|]. reflexivity. }
      destruct r; cbn [C18_Session.end_session]; unfold end_session_provider, end_session_legacy,
        C18_Session.validate_end_session; rewrite Hp; eauto.
    - intros sub azp. destruct r; reflexivity.
  Qed.

  Theorem terminates_right_session r q :
    (forall loc user sc, end_session r q = ERedirect loc (user, sc) ->
       user = hint_sub (e_hint q) /\ proven_client q = Some sc) /\
    (forall s c user sc, end_session r q = EPage s c (Some (user, sc)) ->
       user = hint_sub (e_hint q) /\ proven_client q = Some sc).
  Proof.
    assert (G : forall user sc t, validate_end_session q = inr (user, sc, t) ->
                user = hint_sub (e_hint q) /\ proven_client q = Some sc).
    { intros user sc t H. apply validate_shape in H as [pc [u [Hp [Hb _]]]].
      apply proven_client_of in Hp as [Hp [Hu _]]. split; [assumption|].
      destruct Hb as [[-> [-> _]]|[_ [c [_ [-> _]]]]]; assumption. }
    split.
    - intros loc user sc H. apply end_session_redirect in H as [t [H _]]. eapply G, H.
    - intros s c user sc.
      destruct r; cbn [C18_Session.end_session]; unfold end_session_provider, end_session_legacy;
        destruct (validate_end_session q) as [[]|[[u s'] t]] eqn:Ev; try discriminate;
        unfold finish; destruct ts; try destruct (terminate_fails q); try discriminate;
        intro H; inversion H; subst; eapply G; eauto.
  Qed.

  Theorem state_appended r q loc t :
    end_session r q = ERedirect loc t -> e_state q <> "" ->
    StorageChoice loc \/
    exists u p qs,
      uparse u = Some p /\
      loc = p_pre p +++ "?" +++ qs +++ match p_frag p with Some f => "#" +++ f | None => "" end /\
      parse_query qs = Some (p_le p ++ ("state", e_state q) :: p_gt p).
  Proof.
    destruct t as [user sc]. intros H Hs.
    apply end_session_redirect in H as [t [H [->|Hc]]]; [|left; exact Hc]. right.
    apply validate_shape in H as [pc [u [_ [_ [[E _]|[_ [p [Hu ->]]]]]]]]; [contradiction|].
    exists u, p, (encode_query (p_le p ++ ("state", e_state q) :: p_gt p)).
    split; [assumption|]. split; [reflexivity|]. apply parse_encode_query.
  Qed.

  (* ---- the boolean predicate holds of the model ---- *)
  Lemma values_of_state_insert (a b : list (string * string)) (s : string) :
    list_eqb String.eqb (values_of "state" (a ++ ("state", s) :: b))
             (values_of "state" a ++ s :: values_of "state" b) = true.
  Proof.
    apply (list_eqb_spec String.eqb String.eqb_eq). unfold values_of. rewrite filter_app, map_app. reflexivity.
  Qed.

  Lemma reaches_target q u loc : target_of q u loc -> reaches u (e_state q) loc = true.
  Proof.
    unfold C18_spec.reaches. intros [[-> ->]|[Hs [p [Hu ->]]]].
    - cbn. apply String.eqb_refl.
    - destruct (String.eqb (e_state q) "") eqn:E; [apply String.eqb_eq in E; contradiction|].
      rewrite Hu. unfold merge_state.
      rewrite <- append_assoc, drop_prefix_app.
      set (l := p_le p ++ ("state", e_state q) :: p_gt p).
      assert (Hh : has_char "#" (encode_query l) = false) by apply join_clean_hash.
      destruct (p_frag p) as [f|].
      + change ("#" +++ f) with (String "#" f). rewrite (cut_app "#" _ _ Hh). cbn [option_eqb].
        rewrite String.eqb_refl, parse_encode_query. cbn [andb].
        unfold l. apply values_of_state_insert.
      + rewrite append_nil_r, (cut_none "#" _ Hh). cbn [option_eqb].
        rewrite parse_encode_query.
        unfold l. apply values_of_state_insert.
  Qed.

  Lemma spec_redirect q t loc user sc :
    validate_end_session q = inr (user, sc, t) -> loc = t \/ StorageChoice loc ->
    spec_out pmatch uparse default_uri ts cs q (ERedirect loc (user, sc)) = true.
  Proof.
    intros H Hl. apply validate_shape in H as [pc [u [Hp [Hb Ht]]]].
    apply proven_client_of in Hp as [Hpc [Hu Hc]].
    cbn [spec_out]. rewrite Hpc, Hc. cbn [negb andb].
    assert (Hsc : sc = pc) by (destruct Hb as [[-> [-> _]]|[_ [c [_ [-> _]]]]]; reflexivity).
    subst sc. rewrite Hu, !String.eqb_refl, !andb_true_r.
    destruct Hl as [->|Hs].
    2:{ unfold storage_choice. unfold StorageChoice in Hs. rewrite Hs, String.eqb_refl. reflexivity. }
    pose proof (reaches_target q u t Ht) as Hr.
    destruct Hb as [[_ [_ ->]]|[Hne [c [Hf [_ [[_ ->]|[Hnu [-> Hv]]]]]]]].
    - rewrite Hr, orb_true_r. reflexivity.
    - rewrite Hr, orb_true_r. reflexivity.
    - rewrite Hf, Hr, (validate_post_registered c _ Hv).
      destruct (String.eqb (e_uri q) "") eqn:E; [apply String.eqb_eq in E; contradiction|].
      cbn. apply orb_true_r.
  Qed.

  Lemma must_accept_validates q :
    must_accept uparse default_uri ts cs q = true ->
    exists user sc loc, validate_end_session q = inr (user, sc, loc) /\ terminate_fails q = false /\ ts <> TS_Err.
  Proof.
    unfold must_accept, C18_Session.validate_end_session, proven, contradicts, terminate_fails.
    assert (F : forall (u s l : string) (A : verr + string * string * string),
              A = inr (u, s, l) -> ts <> TS_Err ->
              exists user sc loc, A = inr (user, sc, loc) /\ false = false /\ ts <> TS_Err)
      by (intros; eauto 8).
    destruct ts eqn:Ets; try discriminate;
    (destruct (e_hint q) as [|ex sub azp|]; try discriminate;
     destruct (e_fault q); try discriminate;
     destruct (negb (String.eqb (e_client q) "") && negb (String.eqb (e_client q) azp)); [discriminate|];
     cbn [negb andb lookup];
     destruct (String.eqb azp "");
     [ destruct (String.eqb (e_state q) ""); cbn [orb];
       [ intros _; eapply F; [reflexivity|discriminate]
       | destruct (uparse default_uri); [intros _; eapply F; [reflexivity|discriminate] | discriminate] ]
     | destruct (find_lclient cs azp) as [c|]; [|discriminate];
       destruct (String.eqb (e_uri q) "");
       [ destruct (String.eqb (e_state q) ""); cbn [orb];
         [ intros _; eapply F; [reflexivity|discriminate]
         | destruct (uparse default_uri); [intros _; eapply F; [reflexivity|discriminate] | discriminate] ]
       | unfold C18_Session.validate_post; destruct (string_in (e_uri q) (l_post c)); [|discriminate];
         destruct (String.eqb (e_state q) ""); cbn [orb];
         [ intros _; eapply F; [reflexivity|discriminate]
         | destruct (uparse (e_uri q)); [intros _; eapply F; [reflexivity|discriminate] | discriminate] ] ] ]).
  Qed.

  Lemma spec_finish st q user sc t :
    validate_end_session q = inr (user, sc, t) ->
    (must_accept uparse default_uri ts cs q = true -> terminate_fails q = false /\ ts <> TS_Err) ->
    spec_out pmatch uparse default_uri ts cs q (finish ts st q user sc t) = true.
  Proof.
    intros Hv Hm. unfold finish. destruct ts as [| |l|] eqn:Ets; cbn iota.
    - destruct (terminate_fails q) eqn:Et.
      + cbn [spec_out]. destruct (must_accept uparse default_uri TS_Absent cs q); [|reflexivity].
        destruct (Hm eq_refl) as [H _]. discriminate.
      + rewrite <- Ets. eapply spec_redirect; eauto.
    - rewrite <- Ets. eapply spec_redirect; eauto.
    - rewrite <- Ets. eapply spec_redirect; eauto.
    - cbn [spec_out]. destruct (must_accept uparse default_uri TS_Err cs q); [|reflexivity].
      destruct (Hm eq_refl) as [_ H]. contradiction.
  Qed.

  Theorem spec_out_model r q : spec_out pmatch uparse default_uri ts cs q (end_session r q) = true.
  Proof.
    assert (Hm : forall user sc t, validate_end_session q = inr (user, sc, t) ->
                 must_accept uparse default_uri ts cs q = true -> terminate_fails q = false /\ ts <> TS_Err).
    { intros user sc t _ H. apply must_accept_validates in H as [_ [_ [_ [_ H]]]]. exact H. }
    destruct r; cbn [C18_Session.end_session]; unfold end_session_provider, end_session_legacy;
      destruct (validate_end_session q) as [[]|[[u s] t]] eqn:Ev.
    all: try (apply spec_finish; [exact Ev | eapply Hm; reflexivity]).
    all: cbn [spec_out]; destruct (must_accept uparse default_uri ts cs q) eqn:Em; [|reflexivity];
      apply must_accept_validates in Em as [u0 [s0 [l0 [E _]]]]; congruence.
  Qed.
End S.

(* ---- provider options: which key set / algorithms the hint verifier ends up with ---- *)
Lemma fold_hint_keys opts : forall v,
  v_hint_keys (fold_left apply_opt opts v) =
  match last_hint_keys opts with Some k => k | None => v_hint_keys v end.
Proof.
  induction opts as [|o rest IH]; intro v; cbn [fold_left last_hint_keys]; [reflexivity|].
  rewrite IH. destruct (last_hint_keys rest); [reflexivity|]. destruct o; reflexivity.
Qed.

Lemma fold_hint_algs opts : forall v,
  v_hint_algs (fold_left apply_opt opts v) =
  match last_hint_algs opts with Some a => a | None => v_hint_algs v end.
Proof.
  induction opts as [|o rest IH]; intro v; cbn [fold_left last_hint_algs]; [reflexivity|].
  rewrite IH. destruct (last_hint_algs rest); [reflexivity|]. destruct o; reflexivity.
Qed.

(* after ALL options ran, the hint verifier's key set is the one of the last
   WithIDTokenHintKeySet, else the storage's; likewise its algorithms *)
Theorem hint_keyset_designated opts :
  v_hint_keys (configure opts) = designated_keys opts /\
  v_hint_algs (configure opts) = designated_algs opts.
Proof.
  unfold configure, designated_keys, designated_algs. rewrite fold_hint_keys, fold_hint_algs.
  split; [destruct (last_hint_keys opts)|destruct (last_hint_algs opts)]; reflexivity.
Qed.

Lemma model_spec_esreq opts x : model_esreq opts x = spec_esreq opts x.
Proof.
  unfold model_esreq, spec_esreq. destruct (hint_keyset_designated opts) as [-> ->]. reflexivity.
Qed.

(* the options about access tokens *)
Definition at_opt (o : popt) : bool :=
  match o with OptATKeys _ | OptATAlgs _ => true | _ => false end.

Lemma last_hint_keys_filter opts :
  last_hint_keys (filter (fun o => negb (at_opt o)) opts) = last_hint_keys opts.
Proof.
  induction opts as [|o rest IH]; [reflexivity|]. destruct o; cbn; rewrite ?IH; try reflexivity;
    match goal with |- context [match ?e with _ => _ end] => destruct e end; reflexivity.
Qed.

Lemma last_hint_algs_filter opts :
  last_hint_algs (filter (fun o => negb (at_opt o)) opts) = last_hint_algs opts.
Proof.
  induction opts as [|o rest IH]; [reflexivity|]. destruct o; cbn; rewrite ?IH; try reflexivity;
    match goal with |- context [match ?e with _ => _ end] => destruct e end; reflexivity.
Qed.

(* WithAccessTokenKeySet / WithAccessTokenVerifierOpts - wherever they stand among the options,
   whatever key set they carry - change nothing about how a hint is judged *)
Theorem access_token_options_irrelevant opts x :
  model_esreq (filter (fun o => negb (at_opt o)) opts) x = model_esreq opts x.
Proof.
  rewrite !model_spec_esreq. unfold spec_esreq, designated_keys, designated_algs.
  rewrite last_hint_keys_filter, last_hint_algs_filter. reflexivity.
Qed.

Theorem spec_model : forall i, spec i (model i) = true.
Proof.
  intros [d ts opts cs t reqs]. cbn [model spec].
  induction reqs as [|x reqs IH]; cbn [map spec_list]; [reflexivity|].
  rewrite model_spec_esreq, spec_out_model, IH. reflexivity.
Qed.

(* a really signed hint of another issuer - e.g. another host of the same provider - is rejected,
   whatever the options *)
Theorem foreign_issuer_rejected pmatch uparse d ts cs opts (x : ereq) key alg iss ex sub azp :
  r_tok x = TSigned key alg iss ex sub azp -> iss <> r_issuer x ->
  exists s c, end_session pmatch uparse d ts cs (r_router x) (model_esreq opts x) = EPage s c None.
Proof.
  intros Ht Hn. apply hint_rules. unfold model_esreq, to_esreq, classify. cbn. rewrite Ht.
  destruct (String.eqb iss (r_issuer x)) eqn:E; [apply String.eqb_eq in E; contradiction|reflexivity].
Qed.

(* a hint signed with a key that the key set DESIGNATED for hints does not trust while the
   request is served is rejected - in particular a key that only the access-token key set trusts *)
Theorem untrusted_key_rejected pmatch uparse d ts cs opts (x : ereq) key alg iss ex sub azp :
  r_tok x = TSigned key alg iss ex sub azp ->
  ks_trusts (designated_keys opts) (r_keys x) key = false ->
  exists s c, end_session pmatch uparse d ts cs (r_router x) (model_esreq opts x) = EPage s c None.
Proof.
  intros Ht Hn. apply hint_rules. rewrite model_spec_esreq. unfold spec_esreq, to_esreq, classify. cbn.
  rewrite Ht, Hn, andb_false_r. reflexivity.
Qed.

(* a hint signed with an algorithm outside the list configured for the hint verifier is rejected *)
Theorem unsupported_alg_rejected pmatch uparse d ts cs opts (x : ereq) key alg iss ex sub azp :
  r_tok x = TSigned key alg iss ex sub azp ->
  alg_allowed (designated_algs opts) alg = false ->
  exists s c, end_session pmatch uparse d ts cs (r_router x) (model_esreq opts x) = EPage s c None.
Proof.
  intros Ht Hn. apply hint_rules. rewrite model_spec_esreq. unfold spec_esreq, to_esreq, classify. cbn.
  rewrite Ht, Hn, andb_false_r. reflexivity.
Qed.

Lemma string_in_false x l : ~ In x l -> string_in x l = false.
Proof.
  intro Hn. destruct (string_in x l) eqn:E; [|reflexivity].
  exfalso. apply Hn. unfold string_in in E. apply existsb_exists in E as [y [Hy He]].
  apply String.eqb_eq in He. now subst.
Qed.

(* without any WithIDTokenHintKeySet - whatever WithAccessTokenKeySet was given - a hint signed with
   a key the storage does not publish while the request is served (never published: a foreign
   key; or published for an earlier request and withdrawn since) is rejected *)
Theorem withdrawn_key_rejected pmatch uparse d ts cs opts (x : ereq) key alg iss ex sub azp :
  last_hint_keys opts = None ->
  r_tok x = TSigned key alg iss ex sub azp -> ~ In key (r_keys x) ->
  exists s c, end_session pmatch uparse d ts cs (r_router x) (model_esreq opts x) = EPage s c None.
Proof.
  intros Ho Ht Hn. eapply untrusted_key_rejected; [exact Ht|].
  unfold designated_keys. rewrite Ho. unfold ks_trusts, ks_storage. cbn.
  rewrite (string_in_false _ _ Hn). reflexivity.
Qed.

(* ---- what else the request carries ---- *)
Definition with_form (x : ereq) (f : list (string * string)) : ereq :=
  {| r_router := r_router x; r_issuer := r_issuer x; r_keys := r_keys x; r_toks := r_toks x;
     r_form := f; r_fault := r_fault x |}.

Lemma last_app_cons (l : list string) w ws d : last (l ++ w :: ws) d = last (w :: ws) d.
Proof.
  induction l as [|y l IH]; [reflexivity|]. cbn [app]. rewrite <- IH.
  cbn [last]. destruct (l ++ w :: ws) eqn:E; [destruct l; discriminate|reflexivity].
Qed.

Lemma values_of_skip k k' v (a b : list (string * string)) :
  k' <> k -> values_of k (a ++ (k', v) :: b) = values_of k (a ++ b).
Proof.
  intro Hn. unfold values_of. rewrite !filter_app. cbn [filter fst].
  destruct (String.eqb k' k) eqn:E; [apply String.eqb_eq in E; contradiction|reflexivity].
Qed.

(* a parameter whose name is none of client_id, post_logout_redirect_uri, state - logout_hint,
   ui_locales, anything unknown - wherever it stands in body or query, changes nothing about the
   request the validator sees (id_token_hint values are r_toks) *)
Theorem extra_parameter_irrelevant keys algs (x : ereq) a b k v :
  r_form x = a ++ (k, v) :: b ->
  k <> "client_id" -> k <> "post_logout_redirect_uri" -> k <> "state" ->
  to_esreq keys algs (with_form x (a ++ b)) = to_esreq keys algs x.
Proof.
  intros Hf H1 H2 H3. unfold to_esreq, r_tok, r_client, r_uri, r_state, form_last, with_form.
  cbn [r_router r_issuer r_keys r_toks r_form r_fault]. rewrite Hf, !values_of_skip by assumption.
  reflexivity.
Qed.

(* of a repeated known parameter only the last value (body before query) counts *)
Theorem repeated_parameter_last_counts keys algs (x : ereq) a b k v v' :
  r_form x = a ++ (k, v) :: b -> In v' (values_of k b) ->
  to_esreq keys algs (with_form x (a ++ b)) = to_esreq keys algs x.
Proof.
  intros Hf Hin.
  assert (G : forall k0, form_last k0 (a ++ (k, v) :: b) = form_last k0 (a ++ b)).
  { intro k0. unfold form_last, values_of. rewrite !filter_app, !map_app. cbn [filter fst].
    destruct (String.eqb k k0) eqn:E; [|reflexivity]. apply String.eqb_eq in E. subst k0.
    cbn [map snd]. fold (values_of k b). destruct (values_of k b) as [|w ws] eqn:Eb; [destruct Hin|].
    rewrite (last_app_cons _ v (w :: ws)), (last_app_cons _ w ws). reflexivity. }
  unfold to_esreq, r_tok, r_client, r_uri, r_state, with_form.
  cbn [r_router r_issuer r_keys r_toks r_form r_fault]. rewrite Hf, !G. reflexivity.
Qed.

(* the user whose session is terminated comes from the (last) id_token_hint alone: its subject
   when it is validly signed under the designated key set, nobody otherwise - whatever r_form holds *)
Theorem terminated_user_from_hint_only pmatch uparse d ts cs opts (x : ereq) :
  let h := classify (designated_keys opts) (designated_algs opts) (r_issuer x) (r_keys x) (r_tok x) in
  (forall loc user sc,
     end_session pmatch uparse d ts cs (r_router x) (model_esreq opts x) = ERedirect loc (user, sc) ->
     user = hint_sub h) /\
  (forall s c user sc,
     end_session pmatch uparse d ts cs (r_router x) (model_esreq opts x) = EPage s c (Some (user, sc)) ->
     user = hint_sub h).
Proof.
  cbn zeta. rewrite model_spec_esreq.
  destruct (terminates_right_session pmatch uparse d ts cs (r_router x) (spec_esreq opts x)) as [H1 H2].
  split.
  - intros loc user sc H. apply H1 in H as [H _]. exact H.
  - intros s c user sc H. apply H2 in H as [H _]. exact H.
Qed.

(* ---- the globs registered for the authorization redirect_uri play no part ---- *)
Definition with_auth_globs (g : list string) (c : lclient) : lclient :=
  {| l_id := l_id c; l_post := l_post c; l_globs := l_globs c; l_auth_globs := g |}.

Lemma find_lclient_reglob (f : lclient -> list string) cs id :
  find_lclient (map (fun c => with_auth_globs (f c) c) cs) id =
  option_map (fun c => with_auth_globs (f c) c) (find_lclient cs id).
Proof.
  unfold find_lclient. induction cs as [|c cs IH]; [reflexivity|]. cbn [map find with_auth_globs l_id].
  destruct (String.eqb (l_id c) id); [reflexivity|exact IH].
Qed.

(* whatever RedirectURIGlobs() the clients have - replace them by anything - every answer of the
   endpoint is the same: only l_post and the post-logout globs decide *)
Theorem auth_globs_irrelevant pmatch uparse d ts cs (f : lclient -> list string) r q :
  end_session pmatch uparse d ts (map (fun c => with_auth_globs (f c) c) cs) r q =
  end_session pmatch uparse d ts cs r q.
Proof.
  assert (V : validate_end_session pmatch uparse d (map (fun c => with_auth_globs (f c) c) cs) q =
              validate_end_session pmatch uparse d cs q).
  { unfold validate_end_session. destruct (proven q) as [e|[user cid]]; [reflexivity|].
    destruct (String.eqb cid ""); [reflexivity|].
    unfold lookup. destruct (e_fault q); try reflexivity;
      rewrite find_lclient_reglob; destruct (find_lclient cs cid) as [c|]; reflexivity. }
  destruct r; cbn [end_session]; unfold end_session_provider, end_session_legacy; rewrite V; reflexivity.
Qed.

(* ---- non-vacuity ---- *)
Definition ex_cs : list lclient :=
  [{| l_id := "web"; l_post := ["https://app.example.com/bye"]; l_globs := Some ["https://app.example.com/out/*"];
      l_auth_globs := ["https://app.example.com/cb/*"; "https://evil.example/*"] |}].
Definition ex_pm (g u : string) : pres := if String.eqb u "https://app.example.com/out/x" then PMatch else PNoMatch.
Definition ex_up (u : string) : option purl := Some {| p_pre := u; p_le := []; p_gt := []; p_frag := None |}.

Example C18_nonvacuous_expired_glob_state :
  end_session ex_pm ex_up "/logged-out" TS_Absent ex_cs Legacy
    {| e_hint := HGood true "alice" "web"; e_client := ""; e_uri := "https://app.example.com/out/x";
       e_state := "a b&c"; e_fault := EF_None |}
  = ERedirect "https://app.example.com/out/x?state=a+b%26c" ("alice", "web").
Proof. vm_compute. reflexivity. Qed.

Example C18_nonvacuous_unregistered :
  end_session ex_pm ex_up "/logged-out" TS_Absent ex_cs Provider
    {| e_hint := HNone; e_client := "web"; e_uri := "https://evil.example/bye"; e_state := ""; e_fault := EF_None |}
  = EPage 400 "invalid_request" None.
Proof. vm_compute. reflexivity. Qed.

(* the configuration of seed C18-I's demonstration: only the access-token key set is customised
   (own keys + a partner's key "fk"); a hint signed with "fk" is not validly signed *)
Example C18_nonvacuous_access_token_keyset :
  let opts := [OptATKeys {| ks_own := true; ks_fixed := ["fk"] |}] in
  let x := {| r_router := Legacy; r_issuer := "https://op.example.com"; r_keys := ["k1"];
              r_toks := [TSigned "fk" "ES256" "https://op.example.com" false "alice" "web"];
              r_form := [("post_logout_redirect_uri", "https://app.example.com/bye")]; r_fault := EF_None |} in
  end_session ex_pm ex_up "/logged-out" TS_Absent ex_cs Legacy (model_esreq opts x) = EPage 400 "invalid_request" None
  /\ end_session ex_pm ex_up "/logged-out" TS_Absent ex_cs Legacy (model_esreq (opts ++ [OptHintKeys {| ks_own := true; ks_fixed := ["fk"] |}]) x)
     = ERedirect "https://app.example.com/bye" ("alice", "web").
Proof. vm_compute. split; reflexivity. Qed.

(* two logouts on one provider that end on the default URI: each redirect carries its own state
   only; and a request with logout_hint / a repeated client_id next to a valid hint *)
Example C18_nonvacuous_sequence_extras :
  let tk := TSigned "k1" "ES256" "https://op.example.com" false "alice" "web" in
  let rq f := {| r_router := Provider; r_issuer := "https://op.example.com"; r_keys := ["k1"];
                 r_toks := [tk]; r_form := f; r_fault := EF_None |} in
  model (IEnd "/logged-out" TS_Absent [] ex_cs
           {| t_pm := []; t_up := [("/logged-out", Some {| p_pre := "/logged-out"; p_le := []; p_gt := []; p_frag := None |})] |}
           [rq [("state", "s1")]; rq [("logout_hint", "mallory"); ("state", "s2")];
            rq [("client_id", "other"); ("client_id", "web"); ("ui_locales", "de")]])
  = OEnd [ERedirect "/logged-out?state=s1" ("alice", "web"); ERedirect "/logged-out?state=s2" ("alice", "web");
          ERedirect "/logged-out" ("alice", "web")].
Proof. vm_compute. reflexivity. Qed.

(* a URI that matches only an AUTHORIZATION-redirect glob of the client is not registered for logout *)
Example C18_nonvacuous_auth_glob_only :
  end_session (fun g u => if String.eqb g "https://app.example.com/cb/*" then PMatch else PNoMatch) ex_up
    "/logged-out" TS_Absent ex_cs Provider
    {| e_hint := HNone; e_client := "web"; e_uri := "https://app.example.com/cb/x"; e_state := ""; e_fault := EF_None |}
  = EPage 400 "invalid_request" None.
Proof. vm_compute. reflexivity. Qed.
