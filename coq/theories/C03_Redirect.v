(* C03: the redirect-URI predicate of pkg/op/auth_request.go.
   ValidateAuthReqRedirectURI + validateAuthReqRedirectURINative +
   checkURIAgainstRedirects + HTTPLoopbackOrLocalhost/equalURI.
   doublestar.Match and url.Parse+net.ParseIP(..).IsLoopback are oracles. *)
From OIDC Require Import Lib.

Inductive router := Provider | Legacy.
Inductive appt := Web | UserAgent | Native.

Definition appt_eqb (a b : appt) : bool :=
  match a, b with Web, Web | UserAgent, UserAgent | Native, Native => true | _, _ => false end.

(* doublestar.Match(glob, uri): (true,nil) / (false,nil) / ErrBadPattern *)
Inductive gres := GMatch | GNoMatch | GBad.

(* what op.Client exposes to the redirect check; c_globs = None when the client
   does not implement HasRedirectGlobs; LoginURL(id) = c_login ++ id *)
Record client := {
  c_id : string; c_app : appt; c_dev : bool; c_rtypes : list string;
  c_redirects : list string; c_globs : option (list string); c_login : string }.

(* result of ValidateAuthReqRedirectURI: nil / ErrInvalidRequestRedirectURI
   (invalid_request, redirect disabled) / server_error from a malformed glob
   (redirect disabled since fix F14) *)
Inductive vres := VOk | VBad | VGlobErr.
Inductive cres := CkOk | CkMissing | CkGlobErr.

Definition is_http (u : string) : bool := prefix "http://" u.
Definition is_https (u : string) : bool := prefix "https://" u.
Definition is_custom (u : string) : bool := negb (is_http u || is_https u).

Definition pq_eqb (a b : string * string) : bool :=
  String.eqb (fst a) (fst b) && String.eqb (snd a) (snd b).

Section Oracles.
  Variable glob : string -> string -> gres.
  (* HTTPLoopbackOrLocalhost: Some (Path, RawQuery) iff it answers true *)
  Variable loop : string -> option (string * string).

  Fixpoint check_globs (gs : list string) (u : string) : cres :=
    match gs with
    | [] => CkMissing
    | g :: r => match glob g u with
                | GBad => CkGlobErr
                | GMatch => CkOk
                | GNoMatch => check_globs r u
                end
    end.

  (* checkURIAgainstRedirects *)
  Definition check_uri (c : client) (u : string) : cres :=
    if string_in u (c_redirects c) then CkOk
    else match c_globs c with
         | None => CkMissing
         | Some gs => check_globs gs u
         end.

  Definition is_loop (u : string) : bool :=
    match loop u with Some _ => true | None => false end.

  (* the loop over client.RedirectURIs() with equalURI *)
  Definition loop_match (c : client) (pq : string * string) : bool :=
    existsb (fun r => match loop r with Some pq' => pq_eqb pq pq' | None => false end)
            (c_redirects c).

  (* validateAuthReqRedirectURINative *)
  Definition validate_native (c : client) (u : string) : vres :=
    match check_uri c u with
    | CkOk =>
        if c_dev c then VOk
        else if negb (is_loop u) && is_https u then VOk
        else if is_loop u || is_custom u then VOk
        else VBad
    | _ =>
        match loop u with
        | None => VBad
        | Some pq => if loop_match c pq then VOk else VBad
        end
    end.

  Definition of_check (r : cres) : vres :=
    match r with CkOk => VOk | CkMissing => VBad | CkGlobErr => VGlobErr end.

  (* ValidateAuthReqRedirectURI *)
  Definition validate_redirect (c : client) (u rt : string) : vres :=
    if String.eqb u "" then VBad
    else match c_app c with
    | Native => validate_native c u
    | _ =>
      if is_https u then of_check (check_uri c u)
      else match check_uri c u with
      | CkOk =>
          if is_http u then
            if c_dev c then VOk
            else if String.eqb rt "code" && appt_eqb (c_app c) Web then VOk
            else VBad
          else VBad
      | e => of_check e
      end
    end.

  (* ---- the property side: what "registered" means in the statement ---- *)
  Definition glob_match (c : client) (u : string) : bool :=
    match c_globs c with
    | None => false
    | Some gs => existsb (fun g => match glob g u with GMatch => true | _ => false end) gs
    end.

  Definition loopback_variant (c : client) (u : string) : bool :=
    appt_eqb (c_app c) Native &&
    match loop u with Some pq => loop_match c pq | None => false end.

  (* exact match, opted-in glob, or (native) loopback variant of a registered loopback URI *)
  Definition matches (c : client) (u : string) : bool :=
    string_in u (c_redirects c) || glob_match c u || loopback_variant c u.

  (* plain http: dev mode, native loopback, confidential (web) client on the code flow;
     custom scheme: native only *)
  Definition scheme_ok (c : client) (u rt : string) : bool :=
    if is_http u then
      c_dev c || (appt_eqb (c_app c) Native && is_loop u)
      || (appt_eqb (c_app c) Web && String.eqb rt "code")
    else if is_https u then true
    else appt_eqb (c_app c) Native.

  Definition registeredb (c : client) (u rt : string) : bool :=
    negb (String.eqb u "") && matches c u && scheme_ok c u rt.

  (* the statement's reading of "registered", as a proposition *)
  Definition Matches (c : client) (u : string) : Prop :=
    In u (c_redirects c)
    \/ (exists gs g, c_globs c = Some gs /\ In g gs /\ glob g u = GMatch)
    \/ (c_app c = Native /\ exists path query r,
          loop u = Some (path, query) /\ In r (c_redirects c) /\ loop r = Some (path, query)).

  Definition SchemeTable (c : client) (u rt : string) : Prop :=
    (is_http u = true ->
       c_dev c = true \/ (c_app c = Native /\ exists pq, loop u = Some pq) \/ (c_app c = Web /\ rt = "code"))
    /\ (is_custom u = true -> c_app c = Native).

  Definition Registered (c : client) (u rt : string) : Prop :=
    u <> "" /\ Matches c u /\ SchemeTable c u rt.

End Oracles.

Definition find_client (cs : list client) (id : string) : option client :=
  find (fun c => String.eqb (c_id c) id) cs.
