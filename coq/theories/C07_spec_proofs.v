From OIDC Require Import Lib C04_OP C04_Ledger C04_Hist C07_spec C04_Sim_proofs.

Lemma spec_holds : forall i : input, spec i (model i) = true.
Proof. intros [cf hs ops]. exact (c07_spec_holds (table_hash hs) cf ops). Qed.
