(* C11 proofs, part 2: html/template attribute escaping and the user agent's
   reading of a double-quoted attribute. *)
From OIDC Require Import Lib C11_Url C11_Html C11_Url_proofs.
From Coq Require Import ZifyBool ZifyNat ZifyN.

Definition NUL : ascii := ascii_of_N 0.

(* ---------- attrEscaper output is inert ---------- *)
Lemma attr_inert_esc_byte c r : attr_inert (attr_esc_byte c ++ r)%string = attr_inert r.
Proof. all_bytes c; reflexivity. Qed.

Theorem attr_escape_inert v : attr_inert (attr_escape v) = true.
Proof.
  induction v as [|c v IH]; [reflexivity|]. cbn [attr_escape]. now rewrite attr_inert_esc_byte.
Qed.

(* ---------- character references decode back ---------- *)
Lemma attr_decode_esc_byte c r :
  Ascii.eqb c NUL = false ->
  attr_decode_from 0 (attr_esc_byte c ++ r)%string = String c (attr_decode_from 0 r).
Proof. all_bytes c; intros H; try reflexivity; discriminate H. Qed.

Lemma attr_decode_escape v :
  mem_char NUL v = false -> attr_decode (attr_escape v) = v.
Proof.
  unfold attr_decode. induction v as [|c v IH]; [reflexivity|]. cbn [attr_escape mem_char].
  intros H. apply orb_false_iff in H as [H1 H2].
  rewrite attr_decode_esc_byte by (rewrite Ascii.eqb_sym; exact H1). now rewrite IH.
Qed.

(* ---------- newline normalisation ---------- *)
Lemma nl_norm_nocr s : mem_char CR s = false -> nl_norm s = s.
Proof.
  induction s as [|c s IH]; [reflexivity|]. cbn [nl_norm mem_char]. intros H.
  apply orb_false_iff in H as [H1 H2]. rewrite Ascii.eqb_sym, H1, (IH H2). reflexivity.
Qed.

Lemma esc_byte_nocr c : Ascii.eqb CR c = false -> mem_char CR (attr_esc_byte c) = false.
Proof. all_bytes c; intros H; try reflexivity; discriminate H. Qed.

Lemma attr_escape_nocr v : mem_char CR v = false -> mem_char CR (attr_escape v) = false.
Proof.
  induction v as [|c v IH]; [reflexivity|]. cbn [attr_escape mem_char]. intros H.
  apply orb_false_iff in H as [H1 H2].
  now rewrite mem_char_app, (esc_byte_nocr _ H1), (IH H2).
Qed.

(* ---------- UTF-8 decoding leaves an escaped well-formed value alone ---------- *)
Fixpoint hi_prefix (k : nat) (s : string) : bool :=
  match k, s with
  | O, _ => true
  | S k', String b r => (128 <=? byte_n b)%N && hi_prefix k' r
  | S _, EmptyString => false
  end.

Lemma ok2_hi a b : ok2 a b = true -> (128 <=? byte_n b)%N = true.
Proof. unfold ok2, is_cont, between. lia. Qed.
Lemma ok3_hi a b c : ok3 a b c = true -> (128 <=? byte_n b)%N = true /\ (128 <=? byte_n c)%N = true.
Proof. unfold ok3, is_cont, between. lia. Qed.
Lemma ok4_hi a b c d : ok4 a b c d = true ->
  (128 <=? byte_n b)%N = true /\ (128 <=? byte_n c)%N = true /\ (128 <=? byte_n d)%N = true.
Proof. unfold ok4, is_cont, between. lia. Qed.

Lemma rune_width_hi a r k : rune_width a r = S k -> hi_prefix k r = true.
Proof.
  unfold rune_width. destruct (byte_n a <? 128)%N; [intros H; inversion H; reflexivity|].
  destruct r as [|b r2]; [discriminate|].
  destruct (ok2 a b) eqn:H2.
  { intros H; inversion H; cbn. now rewrite (ok2_hi _ _ H2). }
  destruct r2 as [|c r3]; [discriminate|].
  destruct (ok3 a b c) eqn:H3.
  { intros H; inversion H; cbn. destruct (ok3_hi _ _ _ H3) as [-> ->]. reflexivity. }
  destruct r3 as [|d r4]; [discriminate|].
  destruct (ok4 a b c d) eqn:H4; [|discriminate].
  intros H; inversion H; cbn. destruct (ok4_hi _ _ _ _ H4) as [-> [-> ->]]. reflexivity.
Qed.

Lemma esc_byte_hi b : (128 <=? byte_n b)%N = true -> attr_esc_byte b = String b "".
Proof. all_bytes b; intros H; try reflexivity; discriminate H. Qed.

Lemma attr_escape_hi b r :
  (128 <=? byte_n b)%N = true -> attr_escape (String b r) = String b (attr_escape r).
Proof. intros H. cbn [attr_escape]. now rewrite (esc_byte_hi _ H). Qed.

Lemma rune_width_escape a r k : rune_width a r = S k -> rune_width a (attr_escape r) = S k.
Proof.
  unfold rune_width. destruct (byte_n a <? 128)%N; [auto|].
  destruct r as [|b r2]; [discriminate|].
  destruct (ok2 a b) eqn:H2.
  { intros H. rewrite (attr_escape_hi _ _ (ok2_hi _ _ H2)), H2. exact H. }
  destruct r2 as [|c r3]; [discriminate|].
  destruct (ok3 a b c) eqn:H3.
  { intros H. destruct (ok3_hi _ _ _ H3) as [Hb Hc].
    rewrite (attr_escape_hi _ _ Hb), (attr_escape_hi _ _ Hc), H2, H3. exact H. }
  destruct r3 as [|d r4]; [discriminate|].
  destruct (ok4 a b c d) eqn:H4; [|discriminate].
  intros H. destruct (ok4_hi _ _ _ _ H4) as [Hb [Hc Hd]].
  rewrite (attr_escape_hi _ _ Hb), (attr_escape_hi _ _ Hc), (attr_escape_hi _ _ Hd), H2, H3, H4. exact H.
Qed.

Lemma sanitize_esc_byte_ascii a x :
  (byte_n a <? 128)%N = true ->
  utf8_sanitize_from 0 (attr_esc_byte a ++ x)%string = (attr_esc_byte a ++ utf8_sanitize_from 0 x)%string.
Proof. all_bytes a; intros H; try reflexivity; discriminate H. Qed.

Lemma sanitize_escape v : forall keep,
  hi_prefix keep v = true -> valid_utf8_from keep v = true ->
  utf8_sanitize_from keep (attr_escape v) = attr_escape v.
Proof.
  induction v as [|a r IH]; intros keep Hhi Hv; [destruct keep; reflexivity|].
  destruct keep as [|k].
  - cbn [valid_utf8_from] in Hv.
    destruct (rune_width a r) as [|k] eqn:Hw; [discriminate|].
    pose proof (rune_width_hi _ _ _ Hw) as Hk.
    destruct (byte_n a <? 128)%N eqn:Ha.
    + assert (k = 0) by (unfold rune_width in Hw; rewrite Ha in Hw; now inversion Hw). subst k.
      cbn [attr_escape]. rewrite sanitize_esc_byte_ascii by exact Ha. now rewrite (IH 0).
    + assert (Hge : (128 <=? byte_n a)%N = true) by lia.
      rewrite (attr_escape_hi _ _ Hge). cbn [utf8_sanitize_from].
      rewrite (rune_width_escape _ _ _ Hw). now rewrite (IH k).
  - cbn [hi_prefix] in Hhi. apply andb_true_iff in Hhi as [Ha Hk]. cbn [valid_utf8_from] in Hv.
    rewrite (attr_escape_hi _ _ Ha). cbn [utf8_sanitize_from]. now rewrite (IH k).
Qed.

(* ---------- the round trip ---------- *)
Theorem ua_attr_escape v : text_ok v = true -> ua_attr (attr_escape v) = v.
Proof.
  unfold text_ok, ua_attr, utf8_sanitize, valid_utf8. intros H.
  apply andb_true_iff in H as [H Hcr]. apply andb_true_iff in H as [Hu Hnul].
  apply negb_true_iff in Hcr, Hnul.
  rewrite (sanitize_escape v 0 eq_refl Hu).
  rewrite nl_norm_nocr by (apply attr_escape_nocr; exact Hcr).
  apply attr_decode_escape; exact Hnul.
Qed.

(* ---------- URL attribute: filter + normaliser ---------- *)
Lemma url_normalize_clean s : url_clean s = true -> url_normalize s = s.
Proof.
  induction s as [|c s IH]; [reflexivity|]. cbn [url_clean url_normalize]. intros H.
  apply andb_true_iff in H as [H1 H2]. now rewrite H1, (IH H2).
Qed.

Definition url_char (c : ascii) : bool := url_keep c || Ascii.eqb c "%".

Lemma url_clean_chars s : url_clean s = true -> all_chars url_char s = true.
Proof.
  induction s as [|c s IH]; [reflexivity|]. cbn [url_clean all_chars]. intros H.
  apply andb_true_iff in H as [H1 H2]. rewrite (IH H2), andb_true_r. unfold url_char.
  apply orb_true_iff in H1 as [-> | H1]; [reflexivity|].
  apply andb_true_iff in H1 as [-> _]. apply orb_true_r.
Qed.

Lemma url_char_plain c :
  url_char c = true -> is_ascii c = true /\ Ascii.eqb NUL c = false /\ Ascii.eqb CR c = false.
Proof. all_bytes c; intros H; try (repeat split; reflexivity); discriminate H. Qed.

Lemma ascii_valid s : all_chars is_ascii s = true -> valid_utf8_from 0 s = true.
Proof.
  induction s as [|c s IH]; [reflexivity|]. cbn [all_chars valid_utf8_from]. intros H.
  apply andb_true_iff in H as [H1 H2]. unfold rune_width. unfold is_ascii in H1. rewrite H1. auto.
Qed.

Lemma url_clean_text_ok s : url_clean s = true -> text_ok s = true.
Proof.
  intros H. apply url_clean_chars in H. unfold text_ok, valid_utf8.
  rewrite (ascii_valid s) by (eapply all_chars_impl; [|exact H]; intros c Hc; apply (url_char_plain c Hc)).
  pose proof (all_chars_not_mem url_char NUL s H eq_refl) as Hn. unfold NUL in Hn. rewrite Hn.
  rewrite (all_chars_not_mem url_char CR s H eq_refl). reflexivity.
Qed.

(* a clean http(s)/mailto/relative redirect URI is the form's action, verbatim *)
Theorem form_action_roundtrip redirect :
  is_safe_url redirect = true -> url_clean redirect = true ->
  ua_attr (form_action redirect) = redirect.
Proof.
  intros Hs Hc. unfold form_action, url_filter. rewrite Hs, (url_normalize_clean _ Hc).
  apply ua_attr_escape, url_clean_text_ok, Hc.
Qed.

Theorem form_action_inert redirect : attr_inert (form_action redirect) = true.
Proof. apply attr_escape_inert. Qed.
