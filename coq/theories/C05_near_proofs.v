(* C05: proofs about white-space-only and near-miss secrets and ids (round 5). *)
From OIDC Require Import Lib C05_Model C05_spec C05_proofs.

(* 
   Secrets and ids are compared byte by byte, after the transport encoding (base64, %XX, "+")
   is removed and nothing else: a secret that is only white space is not the empty secret of a
   secretless client (and the empty one never authenticates), a secret or id that differs from
   the registered one by surrounding white space, letter case, a case-fold twin, a trailing
   slash or one byte is another string. *)

(* a client that is not public obtains nothing, on any endpoint that needs authentication,
   without its exact secret or a valid assertion - whatever else the request carries (a blank,
   padded, re-cased, empty or plain wrong secret, in the header, the form or both) *)
Lemma not_public_needs_credential : forall r e c rg p g pl pv ar,
  r_meth rg <> MNone -> presents_right_secret p = false -> presents_ok_assertion p = false ->
  e <> EDeviceAuthz -> g <> GBearer ->
  success (model (mkInput r e c rg p g pl pv ar)) = false.
Proof.
  intros r e c rg p g pl pv ar Hm Hp Ha He Hgb.
  assert (Hno : names_other p = false) by (destruct p; cbn in *; congruence).
  destruct (success (model (mkInput r e c rg p g pl pv ar))) eqn:Hs; [|reflexivity].
  assert (Hcv : forall b, cred_valid_lax c rg p b = false).
  { intro b. unfold cred_valid_lax. rewrite Hp, Ha.
    destruct (r_meth rg); try congruence; cbn; now rewrite andb_false_r. }
  destruct (known_gap (mkInput r e c rg p g pl pv ar)) eqn:Hg.
  - unfold known_gap in Hg; cbn [i_router i_endpoint i_grant i_reg] in Hg.
    destruct r, e, g; try discriminate Hg. apply negb_true_iff in Hg.
    destruct (token_gap_lax c rg p pl pv ar Hg Hno Hs) as [_ Hc]. rewrite Hcv in Hc. discriminate Hc.
  - pose proof (justified_lax_model _ Hg Hno Hs) as Hj. unfold justified_lax in Hj; cbn [i_endpoint i_cfg i_reg i_pres i_grant] in Hj.
    destruct e; try congruence.
    + unfold token_justified_lax in Hj. rewrite Hcv in Hj.
      destruct g; try congruence; rewrite ?andb_false_r in Hj; discriminate Hj.
    + unfold introspect_justified, authenticated in Hj. rewrite Hp, Ha in Hj.
      rewrite ?andb_false_r in Hj. discriminate Hj.
    + unfold revoke_justified, authenticated in Hj. rewrite Hp, Ha in Hj.
      destruct (r_meth rg); try congruence; cbn in Hj; rewrite ?andb_false_r in Hj; discriminate Hj.
Qed.

(* on the endpoints and grants that never admit a public client (introspection, token exchange,
   client_credentials) that holds for EVERY client: in particular the white-space-only secret
   does not stand in for the empty stored secret of a public / private_key_jwt client *)
Lemma no_credential_no_authentication : forall r e c rg p g pl pv ar,
  presents_right_secret p = false -> presents_ok_assertion p = false ->
  e = EIntrospect \/ (e = EToken /\ (g = GTE \/ g = GCC)) ->
  success (model (mkInput r e c rg p g pl pv ar)) = false.
Proof.
  intros r e c rg p g pl pv ar Hp Ha He.
  destruct (success (model (mkInput r e c rg p g pl pv ar))) eqn:Hs; [|reflexivity].
  assert (Hno : names_other p = false) by (destruct p; cbn in *; congruence).
  destruct He as [->|[-> Hg]].
  - pose proof (introspect_statement r c rg p g pl pv ar Hno Hs) as H.
    unfold authenticated in H. rewrite Hp, Ha, !andb_false_r in H. destruct (r_known rg); discriminate H.
  - assert (Hj : token_justified_lax c rg p g = true).
    { apply (token_partial_lax r c rg p g pl pv ar); [|exact Hno|exact Hs].
      intros [_ [H2 _]]. destruct Hg; congruence. }
    unfold token_justified_lax, cred_valid_lax in Hj. rewrite Hp, Ha in Hj.
    destruct Hg; subst g; destruct (r_meth rg); cbn in Hj; rewrite ?andb_false_r in Hj; discriminate Hj.
Qed.

(* the presentations the two lemmas are about: any mixture of blank, near-miss, wrong and empty
   secrets in header and form *)
Definition not_right (s : seck) : bool := match s with SRight => false | _ => true end.
Definition only_wrong_secrets (p : pres) : bool :=
  match p with
  | PIdOnly | PNone => true
  | PBasic s _ | PPost s => not_right s
  | PBoth b s => not_right b && not_right s
  | PNearId _ _ => true
  | _ => false
  end.
Lemma only_wrong_secrets_presents_nothing : forall p,
  only_wrong_secrets p = true -> presents_right_secret p = false /\ presents_ok_assertion p = false.
Proof.
  intros p H; destruct p as [| |[] ?| |[]|[]|[]| | | |[] []|?|?|?|?|?|[] []|?]; try discriminate H; split; reflexivity.
Qed.

(* a near miss of X's id is nobody's id: with X's exact secret, any other secret or none, in the
   header or the form, it obtains nothing on any endpoint, for any registration of X - also not
   what a public X gets for naming itself.  (With the jwt-bearer grant the near miss is the issuer of the grant assertion.) *)
Lemma near_id_refused : forall r e c rg sl s g pl pv ar,
  success (model (mkInput r e c rg (PNearId sl s) g pl pv ar)) = false.
Proof.
  intros r e c rg sl s g pl pv ar.
  destruct (success (model (mkInput r e c rg (PNearId sl s) g pl pv ar))) eqn:Hs; [|reflexivity].
  assert (Hcv : forall b, cred_valid_lax c rg (PNearId sl s) b = false).
  { intro b. unfold cred_valid_lax. destruct (r_meth rg); cbn; now rewrite ?andb_false_r. }
  destruct (known_gap (mkInput r e c rg (PNearId sl s) g pl pv ar)) eqn:Hg.
  - unfold known_gap in Hg; cbn [i_router i_endpoint i_grant i_reg] in Hg.
    destruct r, e, g; try discriminate Hg. apply negb_true_iff in Hg.
    destruct (token_gap_lax c rg (PNearId sl s) pl pv ar Hg eq_refl Hs) as [_ Hc]. rewrite Hcv in Hc. discriminate Hc.
  - pose proof (justified_lax_model _ Hg eq_refl Hs) as Hj. unfold justified_lax in Hj; cbn [i_endpoint i_cfg i_reg i_pres i_grant] in Hj.
    destruct e.
    + unfold token_justified_lax in Hj. rewrite Hcv in Hj.
      destruct g; cbn in Hj; rewrite ?andb_false_r in Hj; discriminate Hj.
    + unfold introspect_justified, authenticated in Hj. cbn in Hj. rewrite ?andb_false_r in Hj. discriminate Hj.
    + unfold revoke_justified, authenticated in Hj. cbn in Hj. rewrite ?andb_false_r in Hj. discriminate Hj.
    + unfold device_authz_justified in Hj. cbn in Hj. rewrite ?andb_false_r in Hj. discriminate Hj.
Qed.

(* as coded, a blank or near-miss secret is just another wrong secret: it never reaches the
   storage as the empty string and never matches *)
Lemma blank_and_near_are_wrong : forall rg s,
  s = SBlank \/ s = SNear ->
  storage_secret_ok rg s = false /\ secret_ok rg s = false /\ cc_secret_ok rg s = false /\ nonempty s = Some s.
Proof. intros rg s [->| ->]; unfold secret_ok, cc_secret_ok, storage_secret_ok; cbn; rewrite ?andb_false_r; repeat split; reflexivity. Qed.

Example near_miss_nonvacuous :
  let pub := mkReg true MNone ANative all_grants false in
  let pk := mkReg true MPKJWT AWeb all_grants true in
  let bas := mkReg true MBasic AWeb all_grants true in
  (* the inputs of seeded regression C05-I: blank Basic password, secretless client *)
  model (mkInput RProvider EIntrospect all_on pub (PBasic SBlank true) GMissing std_pl NoPrev ArtOk) = ORes S4 ENotJSON false false WNone
  /\ model (mkInput RProvider EToken all_on pk (PBasic SBlank false) GDevice std_pl NoPrev ArtOk) = ORes S4 EUnauthorizedClient false false WNone
  /\ model (mkInput RLegacy EIntrospect all_on pub (PBasic SBlank false) GMissing std_pl NoPrev ArtOk) = ORes S4 EUnauthorizedClient false false WNone
  (* a padded right secret is refused where the exact one is accepted *)
  /\ model (mkInput RLegacy EToken all_on bas (PBasic SNear false) GCode std_pl NoPrev ArtOk) = ORes S4 EInvalidClient false false WNone
  /\ success (model (mkInput RLegacy EToken all_on bas (PBasic SRight false) GCode std_pl NoPrev ArtOk)) = true
  (* a public client is served for its exact id only *)
  /\ success (model (mkInput RProvider EToken all_on pub PIdOnly GCode std_pl NoPrev ArtOk)) = true
  /\ model (mkInput RProvider EToken all_on pub (PNearId IdForm SEmpty) GCode std_pl NoPrev ArtOk) = ORes S4 EInvalidClient false false WNone
  /\ only_wrong_secrets (PBoth SBlank SNear) = true.
Proof. vm_compute. repeat split; reflexivity. Qed.

(* ---------------- round 6: auth methods outside the constants, optional provider methods *)

(* a client whose registered auth method is none of the library's constants (unset,
   client_secret_jwt, tls_client_auth, an unknown string, a case variant) is held to its secret:
   no tokens without the exact secret, on either router, for any grant that reads a client
   credential - in particular not for a bare client_id on the device_code grant *)
Lemma other_method_needs_secret : forall r c rg p g pl pv ar,
  r_meth rg = MOther -> presents_right_secret p = false -> g <> GBearer ->
  success (model (mkInput r EToken c rg p g pl pv ar)) = false.
Proof.
  intros r c rg p g pl pv ar Hm Hp Hgb.
  assert (Hno : names_other p = false) by (destruct p; cbn in *; congruence).
  destruct (success (model (mkInput r EToken c rg p g pl pv ar))) eqn:Hs; [|reflexivity].
  assert (Hcv : forall b, cred_valid_lax c rg p b = false).
  { intro b. unfold cred_valid_lax. rewrite Hm, Hp. now rewrite andb_false_r. }
  destruct (known_gap (mkInput r EToken c rg p g pl pv ar)) eqn:Hg.
  - unfold known_gap in Hg; cbn [i_router i_endpoint i_grant i_reg] in Hg.
    destruct r, g; try discriminate Hg. apply negb_true_iff in Hg.
    destruct (token_gap_lax c rg p pl pv ar Hg Hno Hs) as [_ Hc]. rewrite Hcv in Hc. discriminate Hc.
  - pose proof (token_success_justified_lax (mkInput r EToken c rg p g pl pv ar) eq_refl Hg Hno Hs) as Hj.
    cbn [i_cfg i_reg i_pres i_grant] in Hj. unfold token_justified_lax in Hj. rewrite Hcv in Hj.
    destruct g; try congruence; rewrite ?andb_false_r in Hj; discriminate Hj.
Qed.

(* the LegacyServer over a provider object without the optional method JWTProfileVerifier: a
   request that carries a client assertion (valid, wrong, junk; with or without client_id or type)
   obtains nothing on introspection and nothing on the token endpoint - the assertion is never
   dropped in favour of the secret check *)
Definition carries_assertion (p : pres) : bool :=
  match p with
  | PAssert _ | PAssertId _ | PAssertNoType | PAssertWrongType | PXAssert _ | PNearId IdAssert _ | PXSub _ => true
  | _ => false
  end.
Lemma bare_provider_assertion_refused : forall e c rg p g pl pv ar,
  c_jp c = false -> carries_assertion p = true -> e = EIntrospect \/ e = EToken ->
  success (model (mkInput RLegacy e c rg p g pl pv ar)) = false.
Proof.
  intros e c rg p g pl pv ar Hc Hp He.
  destruct c as [fpost fpk fref ccc cte cdev cjp csub]; cbn in Hc; subst cjp.
  destruct pl as [gp cp ap]; destruct rg as [known meth app gs key].
  unfold model; cbn [i_endpoint i_cfg i_reg i_pres i_grant i_router i_pl i_prev i_art].
  destruct p as [| |? ?| |?|?|?| | | |? ?|?|?|?|?|?|[] ?|?]; try discriminate Hp; clear Hp.
  all: destruct He as [->| ->]; [|destruct g]; cbn; split_goal.
Qed.

Example round6_nonvacuous :
  let oth := mkReg true MOther AWeb all_grants false in
  let pub := mkReg true MNone ANative all_grants false in
  let bare := mkCfg true true true true true true false false in
  (* seeded regression C05-K: bare client_id, method outside the constants, device_code grant *)
  model (mkInput RProvider EToken all_on oth PIdOnly GDevice std_pl NoPrev ArtOk) = ORes S4 EInvalidClient false false WNone
  /\ success (model (mkInput RProvider EToken all_on oth (PBasic SRight false) GDevice std_pl NoPrev ArtOk)) = true
  (* seeded regression C05-L: junk assertion next to the id of a secretless client *)
  /\ model (mkInput RLegacy EIntrospect bare pub (PAssertId AJunk) GMissing std_pl NoPrev ArtOk) = ORes S4 EInvalidClient false false WNone
  /\ model (mkInput RLegacy EToken bare (mkReg true MPKJWT AWeb all_grants true) (PAssert AOk) GCode std_pl NoPrev ArtOk) = ORes S4 EInvalidClient false false WNone
  /\ success (model (mkInput RLegacy EToken all_on (mkReg true MPKJWT AWeb all_grants true) (PAssert AOk) GCode std_pl NoPrev ArtOk)) = true.
Proof. vm_compute. repeat split; reflexivity. Qed.

(* ---------------- round 7: JWT profile verifier options (custom SubjectCheck) *)
(* a client assertion issued and signed by X whose subject is another registered client Y: whatever
   SubjectCheck the JWT profile verifier was built with, the answer never acts for Y - the client
   that authenticates is the one whose key signed - ... *)
Lemma subject_never_acted_for : forall r e c rg v g pl pv ar s ec tok act w,
  model (mkInput r e c rg (PXSub v) g pl pv ar) = ORes s ec tok act w -> w <> WOther.
Proof.
  intros r e c rg v g pl pv ar s ec tok act w Hm.
  pose proof (self_never_other (mkInput r e c rg (PXSub v) g pl pv ar) eq_refl) as H.
  rewrite Hm in H. intros ->. exact H.
Qed.

(* ... and with the default check (SubjectIsIssuer) such an assertion authenticates nobody *)
Lemma subject_default_refused : forall r e c rg v g pl pv ar,
  c_sub c = false -> (e = EToken -> g <> GBearer) ->
  success (model (mkInput r e c rg (PXSub v) g pl pv ar)) = false.
Proof.
  intros r e c rg v g pl pv ar Hc Hg.
  destruct c as [fpost fpk fref ccc cte cdev cjp csub]; cbn in Hc; subst csub.
  destruct pl as [gp cp ap]; destruct rg as [known meth app gs key].
  unfold model; cbn [i_endpoint i_cfg i_reg i_pres i_grant i_router i_pl i_prev i_art].
  destruct e; [destruct g; try (exfalso; now apply Hg)| | |]; destruct r, meth; cbn; split_goal.
Qed.

Example subject_nonvacuous :
  let x := mkReg true MPKJWT AWeb all_grants true in
  let sub := mkCfg true true true true true true true true in
  model (mkInput RProvider EToken sub x (PXSub (mkV MPKJWT true)) GCode std_pl NoPrev ArtOk) = ORes S4 EInvalidGrant false false WNone
  /\ model (mkInput RLegacy ERevoke sub x (PXSub (mkV MPKJWT true)) GMissing std_pl NoPrev ArtOk) = ORes S4 EInvalidClient false false WNone
  /\ model (mkInput RProvider EToken sub x (PXSub (mkV MPKJWT true)) GCC std_pl NoPrev ArtOk) = ORes S4 EInvalidClient false false WNone.
Proof. vm_compute. repeat split; reflexivity. Qed.

(* ---------------- round 11: the state of the token x the credential; audiences of other issuers; history across hosts *)

(* the artefact states the model reads: the token sent to introspection / revocation and the grant assertion of
   the jwt-bearer grant; every other case of the check carries a live artefact *)
Definition art_modelled (i : input) : bool :=
  match i_endpoint i, i_grant i with
  | EIntrospect, _ | ERevoke, _ | EToken, GBearer => true
  | _, _ => art_ok (i_art i)
  end.

(* Introspection and revocation authenticate the caller BEFORE they look at the token: unless the
   caller is justified (authenticated; revocation: or a public client naming itself) the answer is
   the same refusal whatever the token is - live, undecodable, unknown.  A caller without a valid
   credential cannot tell a live token of this provider from garbage. *)
Lemma unauthenticated_answer_ignores_token : forall r e c rg p g pl pv ar ar',
  e = EIntrospect \/ e = ERevoke -> names_other p = false ->
  justified (mkInput r e c rg p g pl pv ar) = false ->
  model (mkInput r e c rg p g pl pv ar) = model (mkInput r e c rg p g pl pv ar')
  /\ success (model (mkInput r e c rg p g pl pv ar)) = false.
Proof.
  intros r e c rg p g pl pv ar ar' He Hno Hj.
  assert (Hs : forall a, success (model (mkInput r e c rg p g pl pv a)) = false).
  { intro a. destruct (success (model (mkInput r e c rg p g pl pv a))) eqn:Hs; [|reflexivity].
    assert (Hj' : justified (mkInput r e c rg p g pl pv a) = true).
    { unfold justified; cbn [i_endpoint i_reg i_pres]. destruct He as [-> | ->].
      - exact (introspect_success_justified (mkInput r EIntrospect c rg p g pl pv a) eq_refl Hno Hs).
      - exact (revoke_success_justified (mkInput r ERevoke c rg p g pl pv a) eq_refl Hno Hs). }
    unfold justified in Hj, Hj'; cbn [i_endpoint i_reg i_pres] in Hj, Hj'. destruct He as [-> | ->]; congruence. }
  split; [|apply Hs].
  pose proof (Hs ar) as H1. pose proof (Hs ar') as H2. clear Hs Hj.
  destruct pl as [gp cp ap]; destruct c as [fpost fpk fref ccc cte cdev cjp csub]; destruct rg as [known meth app gs key].
  revert H1 H2. unfold model; cbn [i_endpoint i_cfg i_reg i_pres i_grant i_router i_pl i_prev i_art].
  destruct p as [| |[] ?| |[]|[]|[]| | | |[] []|?|?|?|?|?|[] []|?]; try discriminate Hno; clear Hno.
  all: destruct He as [-> | ->]; destruct r, meth; cbn; split_goal.
Qed.

(* a client assertion addressed to another issuer - another host, a near miss of the issuer URL, the
   issuer of another tenant of the same provider instance - authenticates nobody, on any endpoint,
   whatever the instance served before (in particular X's own valid request at that other tenant) *)
Lemma foreign_audience_refused : forall r e c rg p g pl pv ar,
  p = PAssert AWrongAud \/ p = PAssertId AWrongAud -> (e = EToken -> g <> GBearer) ->
  success (model (mkInput r e c rg p g pl pv ar)) = false.
Proof.
  intros r e c rg p g pl pv ar Hp Hg.
  destruct pl as [gp cp ap]; destruct c as [fpost fpk fref ccc cte cdev cjp csub]; destruct rg as [known meth app gs key].
  unfold model; cbn [i_endpoint i_cfg i_reg i_pres i_grant i_router i_pl i_prev i_art].
  destruct Hp as [-> | ->]; (destruct e; [destruct g; try (exfalso; now apply Hg)| | |]); destruct r, meth; cbn; split_goal.
Qed.

(* the jwt-bearer grant: a grant assertion that is no JWT, is expired, or is addressed to another issuer
   (another tenant's) yields no token *)
Lemma bearer_bad_assertion_refused : forall r c rg p pl pv ar,
  ar <> ArtOk -> success (model (mkInput r EToken c rg p GBearer pl pv ar)) = false.
Proof.
  intros r c rg p pl pv ar Ha.
  destruct pl as [gp cp ap]; destruct c as [fpost fpk fref ccc cte cdev cjp csub]; destruct rg as [known meth app gs key].
  unfold model; cbn [i_endpoint i_cfg i_reg i_pres i_grant i_router i_pl i_prev i_art].
  destruct ar; try congruence; destruct r, p; cbn; split_goal.
Qed.

Example round11_token_state_nonvacuous :
  let bas := mkReg true MBasic AWeb all_grants true in
  let pk := mkReg true MPKJWT AWeb all_grants true in
  (* the inputs of seeded regression C05-V: no / wrong / unknown credential + a token that does not decode *)
  model (mkInput RProvider EIntrospect all_on bas PNone GMissing std_pl NoPrev ArtJunk) = ORes S4 ENotJSON false false WNone
  /\ model (mkInput RProvider EIntrospect all_on bas (PBasic SWrong false) GMissing std_pl NoPrev ArtJunk) = ORes S4 ENotJSON false false WNone
  /\ model (mkInput RProvider EIntrospect all_on bas PIdOnly GMissing std_pl NoPrev ArtJunk) = ORes S4 ENotJSON false false WNone
  (* the authenticated caller gets active:false for it, active:true for the live token *)
  /\ model (mkInput RProvider EIntrospect all_on bas (PBasic SRight false) GMissing std_pl NoPrev ArtJunk) = ORes S2 ENone false false WNone
  /\ model (mkInput RLegacy EIntrospect all_on bas (PBasic SRight false) GMissing std_pl NoPrev ArtGone) = ORes S2 ENone false false WNone
  /\ model (mkInput RProvider EIntrospect all_on bas (PBasic SRight false) GMissing std_pl NoPrev ArtOk) = ORes S2 ENone false true WSelf
  (* revocation: 200 and nothing revoked for the authenticated caller, a refusal otherwise *)
  /\ model (mkInput RLegacy ERevoke all_on bas (PBasic SRight false) GMissing std_pl NoPrev ArtJunk) = ORes S2 ENone false false WNone
  /\ model (mkInput RProvider ERevoke all_on bas (PBasic SWrong false) GMissing std_pl NoPrev ArtJunk) = ORes S4 EInvalidClient false false WNone
  (* the input of seeded regression C05-U: an assertion addressed to another tenant, right after X's own request there *)
  /\ model (mkInput RProvider EToken all_on pk (PAssert AWrongAud) GCode std_pl PrevOtherHost ArtOk) = ORes S4 EServerError false false WNone
  /\ success (model (mkInput RProvider EToken all_on pk (PAssert AOk) GCode std_pl PrevOtherHost ArtOk)) = true
  /\ success (model (mkInput RLegacy EToken all_on pk PNone GBearer std_pl PrevOtherHost ArtOk)) = true
  /\ model (mkInput RLegacy EToken all_on pk PNone GBearer std_pl PrevOtherHost ArtGone) = ORes S4 EInvalidRequest false false WNone.
Proof. vm_compute. repeat split; reflexivity. Qed.

(* the central statement with the guard under which the model is tied to the code: [art_modelled] (the artefact
   states the driver generates and the model reads) and the three recorded classes *)
Lemma spec_model_wf : forall i,
  art_modelled i = true -> known_gap i = false -> post_gap i = false -> other_gap i = false ->
  spec i (model i) = true.
Proof. intros i _. apply spec_model. Qed.
