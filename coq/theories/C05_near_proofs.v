(* C05: proofs about white-space-only and near-miss secrets and ids (round 5). *)
From OIDC Require Import Lib C05_Model C05_spec C05_proofs.

(* 
   Secrets and ids are compared byte by byte, after the transport encoding (base64, %XX, "+")
   is removed and nothing else: a secret that is only white space is not the empty secret of a
   secretless client (and the empty one never authenticates), a secret or id that differs from
   the registered one by surrounding white space, letter case, a case-fold twin, a trailing
   slash or one byte is another string. *)

(* a client that is not public obtains nothing, on any endpoint that needs authentication,
   without its exact secret or a valid assertion - whatever else the request carries (a blank,
   padded, re-cased, empty or plain wrong secret, in the header, the form or both) *)
Lemma not_public_needs_credential : forall r e c rg p g pl pv,
  r_meth rg <> MNone -> presents_right_secret p = false -> presents_ok_assertion p = false ->
  e <> EDeviceAuthz -> g <> GBearer ->
  success (model (mkInput r e c rg p g pl pv)) = false.
Proof.
  intros r e c rg p g pl pv Hm Hp Ha He Hgb.
  assert (Hno : names_other p = false) by (destruct p; cbn in *; congruence).
  destruct (success (model (mkInput r e c rg p g pl pv))) eqn:Hs; [|reflexivity].
  assert (Hcv : forall b, cred_valid c rg p b = false).
  { intro b. unfold cred_valid. rewrite Hp, Ha.
    destruct (r_meth rg); try congruence; cbn; now rewrite andb_false_r. }
  destruct (known_gap (mkInput r e c rg p g pl pv)) eqn:Hg.
  - unfold known_gap in Hg; cbn [i_router i_endpoint i_grant i_reg] in Hg.
    destruct r, e, g; try discriminate Hg. apply negb_true_iff in Hg.
    destruct (token_gap c rg p pl pv Hg Hno Hs) as [_ Hc]. rewrite Hcv in Hc. discriminate Hc.
  - pose proof (justified_model _ Hg Hno Hs) as Hj. unfold justified in Hj; cbn [i_endpoint i_cfg i_reg i_pres i_grant] in Hj.
    destruct e; try congruence.
    + unfold token_justified in Hj. rewrite Hcv in Hj.
      destruct g; try congruence; rewrite ?andb_false_r in Hj; discriminate Hj.
    + unfold introspect_justified, authenticated in Hj. rewrite Hp, Ha in Hj.
      rewrite ?andb_false_r in Hj. discriminate Hj.
    + unfold revoke_justified, authenticated in Hj. rewrite Hp, Ha in Hj.
      destruct (r_meth rg); try congruence; cbn in Hj; rewrite ?andb_false_r in Hj; discriminate Hj.
Qed.

(* on the endpoints and grants that never admit a public client (introspection, token exchange,
   client_credentials) that holds for EVERY client: in particular the white-space-only secret
   does not stand in for the empty stored secret of a public / private_key_jwt client *)
Lemma no_credential_no_authentication : forall r e c rg p g pl pv,
  presents_right_secret p = false -> presents_ok_assertion p = false ->
  e = EIntrospect \/ (e = EToken /\ (g = GTE \/ g = GCC)) ->
  success (model (mkInput r e c rg p g pl pv)) = false.
Proof.
  intros r e c rg p g pl pv Hp Ha He.
  destruct (success (model (mkInput r e c rg p g pl pv))) eqn:Hs; [|reflexivity].
  assert (Hno : names_other p = false) by (destruct p; cbn in *; congruence).
  destruct He as [->|[-> Hg]].
  - pose proof (introspect_statement r c rg p g pl pv Hno Hs) as H.
    unfold authenticated in H. rewrite Hp, Ha, !andb_false_r in H. destruct (r_known rg); discriminate H.
  - assert (Hj : token_justified c rg p g = true).
    { apply (token_partial r c rg p g pl pv); [|exact Hno|exact Hs].
      intros [_ [H2 _]]. destruct Hg; congruence. }
    unfold token_justified, cred_valid in Hj. rewrite Hp, Ha in Hj.
    destruct Hg; subst g; destruct (r_meth rg); cbn in Hj; rewrite ?andb_false_r in Hj; discriminate Hj.
Qed.

(* the presentations the two lemmas are about: any mixture of blank, near-miss, wrong and empty
   secrets in header and form *)
Definition not_right (s : seck) : bool := match s with SRight => false | _ => true end.
Definition only_wrong_secrets (p : pres) : bool :=
  match p with
  | PIdOnly | PNone => true
  | PBasic s _ | PPost s => not_right s
  | PBoth b s => not_right b && not_right s
  | PNearId _ _ => true
  | _ => false
  end.
Lemma only_wrong_secrets_presents_nothing : forall p,
  only_wrong_secrets p = true -> presents_right_secret p = false /\ presents_ok_assertion p = false.
Proof.
  intros p H; destruct p as [| |[] ?| |[]|[]|[]| | | |[] []|?|?|?|?|?|[] []|?]; try discriminate H; split; reflexivity.
Qed.

(* a near miss of X's id is nobody's id: with X's exact secret, any other secret or none, in the
   header or the form, it obtains nothing on any endpoint, for any registration of X - also not
   what a public X gets for naming itself.  (With the jwt-bearer grant the near miss is the issuer of the grant assertion.) *)
Lemma near_id_refused : forall r e c rg sl s g pl pv,
  success (model (mkInput r e c rg (PNearId sl s) g pl pv)) = false.
Proof.
  intros r e c rg sl s g pl pv.
  destruct (success (model (mkInput r e c rg (PNearId sl s) g pl pv))) eqn:Hs; [|reflexivity].
  assert (Hcv : forall b, cred_valid c rg (PNearId sl s) b = false).
  { intro b. unfold cred_valid. destruct (r_meth rg); cbn; now rewrite ?andb_false_r. }
  destruct (known_gap (mkInput r e c rg (PNearId sl s) g pl pv)) eqn:Hg.
  - unfold known_gap in Hg; cbn [i_router i_endpoint i_grant i_reg] in Hg.
    destruct r, e, g; try discriminate Hg. apply negb_true_iff in Hg.
    destruct (token_gap c rg (PNearId sl s) pl pv Hg eq_refl Hs) as [_ Hc]. rewrite Hcv in Hc. discriminate Hc.
  - pose proof (justified_model _ Hg eq_refl Hs) as Hj. unfold justified in Hj; cbn [i_endpoint i_cfg i_reg i_pres i_grant] in Hj.
    destruct e.
    + unfold token_justified in Hj. rewrite Hcv in Hj.
      destruct g; cbn in Hj; rewrite ?andb_false_r in Hj; discriminate Hj.
    + unfold introspect_justified, authenticated in Hj. cbn in Hj. rewrite ?andb_false_r in Hj. discriminate Hj.
    + unfold revoke_justified, authenticated in Hj. cbn in Hj. rewrite ?andb_false_r in Hj. discriminate Hj.
    + unfold device_authz_justified in Hj. cbn in Hj. rewrite ?andb_false_r in Hj. discriminate Hj.
Qed.

(* as coded, a blank or near-miss secret is just another wrong secret: it never reaches the
   storage as the empty string and never matches *)
Lemma blank_and_near_are_wrong : forall rg s,
  s = SBlank \/ s = SNear ->
  storage_secret_ok rg s = false /\ secret_ok rg s = false /\ cc_secret_ok rg s = false /\ nonempty s = Some s.
Proof. intros rg s [->| ->]; unfold secret_ok, cc_secret_ok, storage_secret_ok; cbn; rewrite ?andb_false_r; repeat split; reflexivity. Qed.

Example near_miss_nonvacuous :
  let pub := mkReg true MNone ANative all_grants false in
  let pk := mkReg true MPKJWT AWeb all_grants true in
  let bas := mkReg true MBasic AWeb all_grants true in
  (* the inputs of seeded regression C05-I: blank Basic password, secretless client *)
  model (mkInput RProvider EIntrospect all_on pub (PBasic SBlank true) GMissing std_pl NoPrev) = ORes S4 ENotJSON false false WNone
  /\ model (mkInput RProvider EToken all_on pk (PBasic SBlank false) GDevice std_pl NoPrev) = ORes S4 EUnauthorizedClient false false WNone
  /\ model (mkInput RLegacy EIntrospect all_on pub (PBasic SBlank false) GMissing std_pl NoPrev) = ORes S4 EUnauthorizedClient false false WNone
  (* a padded right secret is refused where the exact one is accepted *)
  /\ model (mkInput RLegacy EToken all_on bas (PBasic SNear false) GCode std_pl NoPrev) = ORes S4 EInvalidClient false false WNone
  /\ success (model (mkInput RLegacy EToken all_on bas (PBasic SRight false) GCode std_pl NoPrev)) = true
  (* a public client is served for its exact id only *)
  /\ success (model (mkInput RProvider EToken all_on pub PIdOnly GCode std_pl NoPrev)) = true
  /\ model (mkInput RProvider EToken all_on pub (PNearId IdForm SEmpty) GCode std_pl NoPrev) = ORes S4 EInvalidClient false false WNone
  /\ only_wrong_secrets (PBoth SBlank SNear) = true.
Proof. vm_compute. repeat split; reflexivity. Qed.

(* ---------------- round 6: auth methods outside the constants, optional provider methods *)

(* a client whose registered auth method is none of the library's constants (unset,
   client_secret_jwt, tls_client_auth, an unknown string, a case variant) is held to its secret:
   no tokens without the exact secret, on either router, for any grant that reads a client
   credential - in particular not for a bare client_id on the device_code grant *)
Lemma other_method_needs_secret : forall r c rg p g pl pv,
  r_meth rg = MOther -> presents_right_secret p = false -> g <> GBearer ->
  success (model (mkInput r EToken c rg p g pl pv)) = false.
Proof.
  intros r c rg p g pl pv Hm Hp Hgb.
  assert (Hno : names_other p = false) by (destruct p; cbn in *; congruence).
  destruct (success (model (mkInput r EToken c rg p g pl pv))) eqn:Hs; [|reflexivity].
  assert (Hcv : forall b, cred_valid c rg p b = false).
  { intro b. unfold cred_valid. rewrite Hm, Hp. now rewrite andb_false_r. }
  destruct (known_gap (mkInput r EToken c rg p g pl pv)) eqn:Hg.
  - unfold known_gap in Hg; cbn [i_router i_endpoint i_grant i_reg] in Hg.
    destruct r, g; try discriminate Hg. apply negb_true_iff in Hg.
    destruct (token_gap c rg p pl pv Hg Hno Hs) as [_ Hc]. rewrite Hcv in Hc. discriminate Hc.
  - pose proof (token_success_justified (mkInput r EToken c rg p g pl pv) eq_refl Hg Hno Hs) as Hj.
    cbn [i_cfg i_reg i_pres i_grant] in Hj. unfold token_justified in Hj. rewrite Hcv in Hj.
    destruct g; try congruence; rewrite ?andb_false_r in Hj; discriminate Hj.
Qed.

(* the LegacyServer over a provider object without the optional method JWTProfileVerifier: a
   request that carries a client assertion (valid, wrong, junk; with or without client_id or type)
   obtains nothing on introspection and nothing on the token endpoint - the assertion is never
   dropped in favour of the secret check *)
Definition carries_assertion (p : pres) : bool :=
  match p with
  | PAssert _ | PAssertId _ | PAssertNoType | PAssertWrongType | PXAssert _ | PNearId IdAssert _ | PXSub _ => true
  | _ => false
  end.
Lemma bare_provider_assertion_refused : forall e c rg p g pl pv,
  c_jp c = false -> carries_assertion p = true -> e = EIntrospect \/ e = EToken ->
  success (model (mkInput RLegacy e c rg p g pl pv)) = false.
Proof.
  intros e c rg p g pl pv Hc Hp He.
  destruct c as [fpost fpk fref ccc cte cdev cjp csub]; cbn in Hc; subst cjp.
  destruct pl as [gp cp ap]; destruct rg as [known meth app gs key].
  unfold model; cbn [i_endpoint i_cfg i_reg i_pres i_grant i_router i_pl i_prev].
  destruct p as [| |? ?| |?|?|?| | | |? ?|?|?|?|?|?|[] ?|?]; try discriminate Hp; clear Hp.
  all: destruct He as [->| ->]; [|destruct g]; cbn; split_goal.
Qed.

Example round6_nonvacuous :
  let oth := mkReg true MOther AWeb all_grants false in
  let pub := mkReg true MNone ANative all_grants false in
  let bare := mkCfg true true true true true true false false in
  (* seeded regression C05-K: bare client_id, method outside the constants, device_code grant *)
  model (mkInput RProvider EToken all_on oth PIdOnly GDevice std_pl NoPrev) = ORes S4 EInvalidClient false false WNone
  /\ success (model (mkInput RProvider EToken all_on oth (PBasic SRight false) GDevice std_pl NoPrev)) = true
  (* seeded regression C05-L: junk assertion next to the id of a secretless client *)
  /\ model (mkInput RLegacy EIntrospect bare pub (PAssertId AJunk) GMissing std_pl NoPrev) = ORes S4 EInvalidClient false false WNone
  /\ model (mkInput RLegacy EToken bare (mkReg true MPKJWT AWeb all_grants true) (PAssert AOk) GCode std_pl NoPrev) = ORes S4 EInvalidClient false false WNone
  /\ success (model (mkInput RLegacy EToken all_on (mkReg true MPKJWT AWeb all_grants true) (PAssert AOk) GCode std_pl NoPrev)) = true.
Proof. vm_compute. repeat split; reflexivity. Qed.

(* ---------------- round 7: JWT profile verifier options (custom SubjectCheck) *)
(* a client assertion issued and signed by X whose subject is another registered client Y: whatever
   SubjectCheck the JWT profile verifier was built with, the answer never acts for Y - the client
   that authenticates is the one whose key signed - ... *)
Lemma subject_never_acted_for : forall r e c rg v g pl pv s ec tok act w,
  model (mkInput r e c rg (PXSub v) g pl pv) = ORes s ec tok act w -> w <> WOther.
Proof.
  intros r e c rg v g pl pv s ec tok act w Hm.
  pose proof (self_never_other (mkInput r e c rg (PXSub v) g pl pv) eq_refl) as H.
  rewrite Hm in H. intros ->. exact H.
Qed.

(* ... and with the default check (SubjectIsIssuer) such an assertion authenticates nobody *)
Lemma subject_default_refused : forall r e c rg v g pl pv,
  c_sub c = false -> (e = EToken -> g <> GBearer) ->
  success (model (mkInput r e c rg (PXSub v) g pl pv)) = false.
Proof.
  intros r e c rg v g pl pv Hc Hg.
  destruct c as [fpost fpk fref ccc cte cdev cjp csub]; cbn in Hc; subst csub.
  destruct pl as [gp cp ap]; destruct rg as [known meth app gs key].
  unfold model; cbn [i_endpoint i_cfg i_reg i_pres i_grant i_router i_pl i_prev].
  destruct e; [destruct g; try (exfalso; now apply Hg)| | |]; destruct r, meth; cbn; split_goal.
Qed.

Example subject_nonvacuous :
  let x := mkReg true MPKJWT AWeb all_grants true in
  let sub := mkCfg true true true true true true true true in
  model (mkInput RProvider EToken sub x (PXSub (mkV MPKJWT true)) GCode std_pl NoPrev) = ORes S4 EInvalidGrant false false WNone
  /\ model (mkInput RLegacy ERevoke sub x (PXSub (mkV MPKJWT true)) GMissing std_pl NoPrev) = ORes S4 EInvalidClient false false WNone
  /\ model (mkInput RProvider EToken sub x (PXSub (mkV MPKJWT true)) GCC std_pl NoPrev) = ORes S4 EInvalidClient false false WNone.
Proof. vm_compute. repeat split; reflexivity. Qed.
