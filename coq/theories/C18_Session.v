(* C18: the end-session endpoint.
   op.ValidateEndSessionRequest + ValidateEndSessionPostLogoutRedirectURI (pkg/op/session.go),
   handlers op.EndSession (Provider router) and webServer.endSessionHandler +
   LegacyServer.EndSession (Legacy router).  path.Match and url.Parse are oracles; the
   outcome of VerifyIDTokenHint is an abstract input (the driver signs real tokens).
   Storage behaviour used (refstore contract): GetClientByClientID finds registered
   clients only; TerminateSession(user, client) is journaled with its arguments. *)
From OIDC Require Import Lib C18_Url.

Inductive router := Provider | Legacy.

(* VerifyIDTokenHint: no hint / claims returned (possibly with IDTokenHintExpiredError)
   / any other error (bad signature, foreign issuer, not a JWT ...) *)
Inductive hint :=
| HNone
| HGood (expired : bool) (sub azp : string)
| HBad.

(* what the driver knows about a presented hint: not a verifiable token at all (signed by
   nobody's key, tampered, garbage), or a token really signed with the key named [key] (its kid)
   and the algorithm [alg] for issuer [iss].
   The verifier is built per request from the issuer of the CURRENT request
   (Provider.IDTokenHintVerifier(ctx) -> IssuerFromContext): a token of another issuer -
   including another host of the same provider - is rejected by CheckIssuer. *)
Inductive tok :=
| TNone
| TSigned (key alg : string) (iss : string) (expired : bool) (sub azp : string)
| TBad.

(* an oidc.KeySet handed to a verifier: it trusts the keys the storage publishes while the
   request is served (ks_own: what OpenIDKeySet{storage} does, the key set is read for every
   verification) and / or a fixed list of key ids of its own (a partner's key, a pinned key).
   ks_storage is the provider's default for both verifiers. *)
Record keyset := { ks_own : bool; ks_fixed : list string }.
Definition ks_storage : keyset := {| ks_own := true; ks_fixed := [] |}.

Definition ks_trusts (k : keyset) (published : list string) (key : string) : bool :=
  (ks_own k && string_in key published) || string_in key (ks_fixed k).

(* jose.ParseSigned(token, algs): no configured list = RS256, ES256, PS256 *)
Definition alg_allowed (algs : list string) (alg : string) : bool :=
  match algs with
  | [] => string_in alg ["RS256"; "ES256"; "PS256"]
  | _ => string_in alg algs
  end.

(* the provider options that concern token verification, in the order NewProvider applies them *)
Inductive popt :=
| OptATKeys (k : keyset)          (* op.WithAccessTokenKeySet *)
| OptHintKeys (k : keyset)        (* op.WithIDTokenHintKeySet *)
| OptATAlgs (a : list string)     (* op.WithAccessTokenVerifierOpts(WithSupportedAccessTokenSigningAlgorithms a...) *)
| OptHintAlgs (a : list string).  (* op.WithIDTokenHintVerifierOpts(WithSupportedIDTokenHintSigningAlgorithms a...) *)

(* the four Provider fields the options write (accessTokenKeySet, idTokenHinKeySet,
   accessTokenVerifierOpts, idTokenHintVerifierOpts) *)
Record vconf := { v_at_keys : keyset; v_hint_keys : keyset; v_at_algs : list string; v_hint_algs : list string }.

Definition vconf0 : vconf :=
  {| v_at_keys := ks_storage; v_hint_keys := ks_storage; v_at_algs := []; v_hint_algs := [] |}.

Definition apply_opt (v : vconf) (o : popt) : vconf :=
  match o with
  | OptATKeys k => {| v_at_keys := k; v_hint_keys := v_hint_keys v; v_at_algs := v_at_algs v; v_hint_algs := v_hint_algs v |}
  | OptHintKeys k => {| v_at_keys := v_at_keys v; v_hint_keys := k; v_at_algs := v_at_algs v; v_hint_algs := v_hint_algs v |}
  | OptATAlgs a => {| v_at_keys := v_at_keys v; v_hint_keys := v_hint_keys v; v_at_algs := a; v_hint_algs := v_hint_algs v |}
  | OptHintAlgs a => {| v_at_keys := v_at_keys v; v_hint_keys := v_hint_keys v; v_at_algs := v_at_algs v; v_hint_algs := a |}
  end.

(* NewProvider: defaults, then `for _, optFunc := range opOpts` *)
Definition configure (opts : list popt) : vconf := fold_left apply_opt opts vconf0.

(* VerifyIDTokenHint with the key set [keys] and the supported algorithms [algs] of the hint
   verifier. published = the key ids Storage.KeySet returns when THIS request is served (a key
   that was withdrawn since an earlier request no longer counts, exactly like a key that was
   never published) *)
Definition classify (keys : keyset) (algs : list string) (current_issuer : string) (published : list string) (t : tok) : hint :=
  match t with
  | TNone => HNone
  | TBad => HBad
  | TSigned key alg iss ex sub azp =>
      if String.eqb iss current_issuer && alg_allowed algs alg && ks_trusts keys published key
      then HGood ex sub azp else HBad
  end.

Inductive pres := PMatch | PNoMatch | PBad.      (* path.Match *)

(* l_globs = Some gs: the client opted in to globs (implements op.HasRedirectGlobs) and gs is its
   PostLogoutRedirectURIGlobs(); l_auth_globs = its RedirectURIGlobs(), the globs for the
   AUTHORIZATION redirect_uri - registered for another purpose, nothing on this endpoint reads them *)
Record lclient := { l_id : string; l_post : list string; l_globs : option (list string); l_auth_globs : list string }.

Inductive efault := EF_None | EF_GetClient | EF_Terminate.

(* the storage may implement the optional op.CanTerminateSessionFromRequest: it then gets the
   validated session and chooses the redirect itself. TS_Echo returns session.RedirectURI,
   TS_Fixed l returns a URI of its own whose Location rendering (http.Redirect) is l
   (the empty string included), TS_Err fails. *)
Inductive tsfr := TS_Absent | TS_Echo | TS_Fixed (loc : string) | TS_Err.

Record esreq := { e_hint : hint; e_client : string; e_uri : string; e_state : string; e_fault : efault }.

(* url.Parse u, as far as mergeQueryParams needs it: rendering of the URL without query
   and fragment, the decoded query pairs in Values.Encode order split around the key
   "state", and the escaped fragment if there is one *)
Record purl := { p_pre : string; p_le : list (string * string); p_gt : list (string * string);
                 p_frag : option string }.

Inductive eout :=
| EPage (status : N) (code : string) (term : option (string * string))
| ERedirect (loc : string) (term : string * string)     (* term = TerminateSession(user, client) *)
| EPanic | EOther.

Inductive verr := E_InvalidRequest | E_ServerError.

Definition code_of (e : verr) : string :=
  match e with E_InvalidRequest => "invalid_request" | E_ServerError => "server_error" end.

Definition find_lclient (cs : list lclient) (id : string) : option lclient :=
  find (fun c => String.eqb (l_id c) id) cs.

Section Session.
  Variable pmatch : string -> string -> pres.
  Variable uparse : string -> option purl.
  Variable default_uri : string.
  Variable ts : tsfr.
  Variable cs : list lclient.

  Inductive pv := PvOk | PvInvalid | PvGlobErr.

  Fixpoint check_pglobs (gs : list string) (u : string) : pv :=
    match gs with
    | [] => PvInvalid
    | g :: r => match pmatch g u with
                | PBad => PvGlobErr
                | PMatch => PvOk
                | PNoMatch => check_pglobs r u
                end
    end.

  (* ValidateEndSessionPostLogoutRedirectURI *)
  Definition validate_post (c : lclient) (u : string) : pv :=
    if string_in u (l_post c) then PvOk
    else match l_globs c with
         | None => PvInvalid
         | Some gs => check_pglobs gs u
         end.

  (* mergeQueryParams(parsed, {"state": s}) *)
  Definition merge_state (p : purl) (s : string) : string :=
    p_pre p +++ "?" +++ encode_query (p_le p ++ ("state", s) :: p_gt p)
    +++ match p_frag p with Some f => "#" +++ f | None => "" end.

  (* the first half of ValidateEndSessionRequest: who is logging out of which client *)
  Definition proven (q : esreq) : verr + (string * string) :=
    match e_hint q with
    | HNone => inr ("", e_client q)
    | HBad => inl E_InvalidRequest
    | HGood _ sub azp =>
        if negb (String.eqb (e_client q) "") && negb (String.eqb (e_client q) azp)
        then inl E_InvalidRequest
        else inr (sub, azp)
    end.

  Definition lookup (f : efault) (id : string) : option lclient :=
    match f with EF_GetClient => None | _ => find_lclient cs id end.

  (* ValidateEndSessionRequest: (user, session client, redirect) *)
  Definition validate_end_session (q : esreq) : verr + (string * string * string) :=
    match proven q with
    | inl e => inl e
    | inr (user, cid) =>
      match (if String.eqb cid "" then inr ("", default_uri)
             else match lookup (e_fault q) cid with
                  | None => inl E_ServerError
                  | Some c =>
                      if String.eqb (e_uri q) "" then inr (l_id c, default_uri)
                      else match validate_post c (e_uri q) with
                           | PvOk => inr (l_id c, e_uri q)
                           | PvInvalid => inl E_InvalidRequest
                           | PvGlobErr => inl E_ServerError
                           end
                  end) with
      | inl e => inl e
      | inr (sc, target) =>
          if String.eqb (e_state q) "" then inr (user, sc, target)
          else match uparse target with
               | None => inl E_ServerError
               | Some p => inr (user, sc, merge_state p (e_state q))
               end
      end
    end.

  Definition terminate_fails (q : esreq) : bool :=
    match e_fault q with EF_Terminate => true | _ => false end.

  (* after a successful validation: Storage.TerminateSession, or the optional
     TerminateSessionFromRequest whose answer replaces the redirect; err_status = status of
     the server_error page of the router *)
  Definition finish (err_status : N) (q : esreq) (user sc target : string) : eout :=
    match ts with
    | TS_Absent =>
        if terminate_fails q then EPage err_status "server_error" (Some (user, sc))
        else ERedirect target (user, sc)
    | TS_Echo => ERedirect target (user, sc)
    | TS_Fixed l => ERedirect l (user, sc)
    | TS_Err => EPage err_status "server_error" (Some (user, sc))
    end.

  (* op.EndSession: RequestError answers 400 with the error as JSON *)
  Definition end_session_provider (q : esreq) : eout :=
    match validate_end_session q with
    | inl e => EPage 400 (code_of e) None
    | inr (user, sc, target) => finish 400 q user sc target
    end.

  (* webServer.endSessionHandler / LegacyServer.EndSession: WriteError answers 500 for server_error *)
  Definition end_session_legacy (q : esreq) : eout :=
    match validate_end_session q with
    | inl E_InvalidRequest => EPage 400 "invalid_request" None
    | inl E_ServerError => EPage 500 "server_error" None
    | inr (user, sc, target) => finish 500 q user sc target
    end.

  Definition end_session (r : router) : esreq -> eout :=
    match r with Provider => end_session_provider | Legacy => end_session_legacy end.
End Session.
