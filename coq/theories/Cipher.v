(* AES-CFB sealing of pkg/crypto (EncryptAES / DecryptAES) over an abstract
   block function E (the cipher under one fixed key). *)
From OIDC Require Import Lib Base64.

Fixpoint xor_bytes (a b : list nat) : list nat :=
  match a, b with
  | x :: a', y :: b' => Nat.lxor x y :: xor_bytes a' b'
  | _, _ => []
  end.

Section CFB.
  Variable E : list nat -> list nat.

  Fixpoint cfb_enc (fuel : nat) (prev p : list nat) : list nat :=
    match fuel with
    | 0 => []
    | S f =>
        match p with
        | [] => []
        | _ => let c := xor_bytes (firstn 16 p) (E prev) in
               c ++ cfb_enc f c (skipn 16 p)
        end
    end.

  Fixpoint cfb_dec (fuel : nat) (prev c : list nat) : list nat :=
    match fuel with
    | 0 => []
    | S f =>
        match c with
        | [] => []
        | _ => let cb := firstn 16 c in
               xor_bytes cb (E prev) ++ cfb_dec f cb (skipn 16 c)
        end
    end.

  Definition seal_bytes (iv p : list nat) : list nat := iv ++ cfb_enc (List.length p) iv p.
  Definition open_bytes (ct : list nat) : option (list nat) :=
    if List.length ct <? 16 then None
    else let iv := firstn 16 ct in let body := skipn 16 ct in
         Some (cfb_dec (List.length body) iv body).

  Definition seal (iv p : list nat) : string := b64_encode (seal_bytes iv p).
  Definition open (s : string) : option (list nat) :=
    match b64_decode s with
    | Some ct => open_bytes ct
    | None => None
    end.
End CFB.

Definition key_len_ok (k : list nat) : bool :=
  let n := List.length k in (n =? 16) || (n =? 24) || (n =? 32).

(* The key streams of two block functions agree along a ciphertext: at every
   feedback block, on as many bytes as the block of ciphertext has.  (Used to
   characterise exactly when decryption under another key returns the plaintext.) *)
Fixpoint streams_agree (E E' : list nat -> list nat) (fuel : nat) (prev c : list nat) : Prop :=
  match fuel with
  | 0 => True
  | S f =>
      match c with
      | [] => True
      | _ => let cb := firstn 16 c in
             firstn (List.length cb) (E prev) = firstn (List.length cb) (E' prev)
             /\ streams_agree E E' f cb (skipn 16 c)
      end
  end.
