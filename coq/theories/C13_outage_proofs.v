(* C13: an outage of the JWKS endpoint.  While every download that ends is a failed one
   (transport error, non-200, any malformed body: empty, blank, null, {}, [], truncated ...)
   the cache is exactly what it was, under every schedule and however many downloads fail,
   and a token the cache answered before is answered by the cache again, with the same
   answer and without a download. *)
From OIDC Require Import Lib C13_RemoteKeys C13_proofs C13_thm_proofs.
Local Arguments Nat.ltb : simpl never.

(* no download that has ended well is still waiting for updateKeys' tail *)
Definition no_good_pending (w : world) : Prop :=
  forall g gn r, nth_error (w_gens w) g = Some gn -> g_ans gn = Some r -> g_committed gn = false ->
                 parse r = None.
(* every answer of the endpoint in this stretch of the schedule is a failed download *)
Definition all_fail (evs : list event) : Prop :=
  forall g r, In (FetchReturns g r) evs -> parse r = None.

Section Outage.
  Variable verify : jwk -> token -> bool.
  Notation step := (step verify).
  Notation exec := (exec verify).
  Notation cached_try := (cached_try verify).

  Lemma step_ngp w e :
    no_good_pending w -> (forall g r, e = FetchReturns g r -> parse r = None) -> no_good_pending (step w e).
  Proof.
    intros H Hf. unfold no_good_pending.
    destruct e as [tok|t|t|t|g r|g]; cbn.
    - exact H.
    - destruct (nth_error (w_callers w) t) as [c|]; [|exact H].
      unfold run_caller. destruct (c_pc c); cbn; try exact H.
      + destruct (w_inflight w); cbn; [exact H|].
        intros g gn r E A C. apply nth_error_snoc_inv in E. destruct E as [E|[_ ->]]; [eauto|].
        cbn in A. discriminate.
      + destruct (res_of (w_gens w) g); exact H.
    - destruct (nth_error (w_callers w) t) as [c|]; [|exact H].
      destruct (c_pc c); try exact H. destruct (c_cancelled c); exact H.
    - destruct (t <? List.length (w_callers w)); exact H.
    - destruct (nth_error (w_gens w) g) as [gn|] eqn:Eg; [|exact H].
      destruct (g_ans gn) eqn:Ea; [exact H|]. cbn.
      intros g' gn' r' E A C. rewrite nth_error_upd in E. destruct (Nat.eqb_spec g g') as [->|].
      + rewrite Eg in E; cbn in E; inversion E; subst; cbn in A. inversion A; subst.
        apply (Hf g' r' eq_refl).
      + eauto.
    - destruct (nth_error (w_gens w) g) as [gn|] eqn:Eg; [|exact H].
      destruct (g_ans gn) as [r|] eqn:Ea; [|exact H]. destruct (g_committed gn) eqn:Ec; [exact H|]. cbn.
      intros g' gn' r' E A C. rewrite nth_error_upd in E. destruct (Nat.eqb_spec g g') as [->|].
      + rewrite Eg in E; cbn in E; inversion E; subst; cbn in C. discriminate.
      + eauto.
  Qed.

  Lemma step_cache_ngp w e : no_good_pending w -> w_cache (step w e) = w_cache w.
  Proof.
    intro H. destruct (cache_changes_only_by_good_commit verify w e) as [E|(g & gn & r & ks & _ & Eg & Ea & Ec & Ep & _)].
    - exact E.
    - rewrite (H g gn r Eg Ea Ec) in Ep. discriminate.
  Qed.

  Lemma outage_cache evs : forall w, no_good_pending w -> all_fail evs ->
    w_cache (exec w evs) = w_cache w /\ no_good_pending (exec w evs).
  Proof.
    induction evs as [|e evs IH]; intros w H F; [split; [reflexivity|exact H]|].
    rewrite exec_cons.
    assert (H' : no_good_pending (step w e)).
    { apply step_ngp; [exact H|]. intros g r ->. apply (F g r). left; reflexivity. }
    destruct (IH (step w e) H') as (C & N).
    { intros g r I. apply (F g r). right; exact I. }
    split; [|exact N]. rewrite C. apply step_cache_ngp. exact H.
  Qed.

  (* a call arriving at any world: what the cache answers is its answer, at its first step,
     and neither the cache nor the request count moves *)
  Lemma arrival_from_cache w tok res :
    cached_try (w_skip w) (w_cache w) tok = Some res ->
    let t := List.length (w_callers w) in
    let w' := exec w [Arrive tok; Run t] in
    pc_of w' t = Some (PDone res) /\ w_fetches w' = w_fetches w /\ w_cache w' = w_cache w /\
    w_gens w' = w_gens w /\ w_inflight w' = w_inflight w.
  Proof.
    intros E t w'. subst w'. cbn [C13_RemoteKeys.exec fold_left]. cbn [C13_RemoteKeys.step].
    set (w1 := set_callers w _).
    assert (Ec : nth_error (w_callers w1) t =
                 Some (mkCaller tok PCached (existsb (Nat.eqb t) (w_pre w)) None None 0)).
    { unfold w1; cbn. apply nth_error_snoc_new. }
    rewrite Ec. unfold run_caller. cbn [c_pc].
    assert (E1 : cached_try (w_skip w1) (w_cache w1) tok = Some res) by exact E.
    cbn [c_tok]. rewrite E1. unfold pc_of; cbn.
    rewrite (nth_error_upd_same _ _ _ _ Ec). cbn. auto.
  Qed.

  Lemma outage w evs :
    no_good_pending w -> all_fail evs ->
    let w2 := exec w evs in
    w_cache w2 = w_cache w /\
    forall tok res, cached_try (w_skip w) (w_cache w) tok = Some res ->
      let t := List.length (w_callers w2) in
      let w3 := exec w2 [Arrive tok; Run t] in
      pc_of w3 t = Some (PDone res) /\ w_fetches w3 = w_fetches w2 /\ w_cache w3 = w_cache w.
  Proof.
    intros H F w2. destruct (outage_cache evs w H F) as (C & _). fold w2 in C.
    split; [exact C|]. intros tok res E t w3.
    assert (E2 : cached_try (w_skip w2) (w_cache w2) tok = Some res).
    { rewrite C. unfold w2. rewrite exec_skip. exact E. }
    destruct (arrival_from_cache w2 tok res E2) as (P & Fq & Cq & _).
    split; [exact P|]. split; [exact Fq|]. unfold w3, t. etransitivity; [exact Cq|exact C].
  Qed.

  (* in particular a token that the unique matching cached key verifies *)
  Lemma cached_try_ok skip ks tok k :
    find_matching_key (t_kid tok) (t_alg tok) ks = inl k -> verify k tok = true ->
    cached_try skip ks tok = Some (ROk k).
  Proof.
    intros Fk V. unfold C13_RemoteKeys.cached_try.
    destruct ks as [|k0 r]; [cbn in Fk; discriminate|]. rewrite Fk, V. reflexivity.
  Qed.

  Lemma outage_keeps_cached_keys skip evs evs' :
    let w := exec (init skip) evs in
    no_good_pending w -> all_fail evs' ->
    let w2 := exec w evs' in
    w_cache w2 = w_cache w /\
    (forall tok res, cached_try (w_skip w) (w_cache w) tok = Some res ->
       let t := List.length (w_callers w2) in
       let w3 := exec w2 [Arrive tok; Run t] in
       pc_of w3 t = Some (PDone res) /\ w_fetches w3 = w_fetches w2 /\ w_cache w3 = w_cache w) /\
    (forall tok k, find_matching_key (t_kid tok) (t_alg tok) (w_cache w) = inl k -> verify k tok = true ->
       cached_try (w_skip w) (w_cache w) tok = Some (ROk k)).
  Proof.
    intros w H F w2. destruct (outage w evs' H F) as (C & A).
    split; [exact C|]. split; [exact A|]. intros tok k. apply cached_try_ok.
  Qed.
End Outage.
