(* C11 model, part 1: net/url (go1.24.1) and the library's URL builders.

   Go source                                   Gallina
   ------------------------------------------  ---------------------------
   net/url  shouldEscape(c, mode)               should_escape
            escape(s, mode)  (QueryEscape)      escape
            unescape(s, mode) (QueryUnescape,   unescape
                               PathUnescape)
            parseQuery / ParseQuery / Query()   parse_query
            Values.Encode                       values_encode
            validEncoded(s, encodeFragment)     valid_encoded_frag
            URL.EscapedFragment                 escaped_fragment
            URL.String                          url_string  (scheme/authority/path
                                                             part = oracle [u_prefix])
   net/http hexEscapeNonASCII (http.Redirect)   hex_escape_non_ascii
   pkg/op   mergeQueryParams                    merge_query_params
            setFragment (after fix F08)         set_fragment
            setFragment (before fix F08)        set_fragment_unfixed
            AuthResponseURL mode selection      auth_response_url
   user agent: split Location at '#' and '?'    ua_base / ua_query / ua_fragment

   Only the two escaping modes the property needs are modelled:
   encodeQueryComponent (EQuery) and encodeFragment (EFragment); PathUnescape
   (mode encodePathSegment) behaves exactly like unescape in EFragment mode.
   Multi-maps (url.Values) are flat lists of (key, value) pairs; the per-key
   order of values is the list order.  No proofs in this file. *)
From OIDC Require Import Lib.

Definition pairs := list (string * string).

Definition byte_n (c : ascii) : N := N_of_ascii c.
Definition between (lo hi : N) (c : ascii) : bool :=
  ((lo <=? byte_n c) && (byte_n c <=? hi))%N.

Fixpoint mem_char (c : ascii) (s : string) : bool :=
  match s with
  | EmptyString => false
  | String d r => Ascii.eqb c d || mem_char c r
  end.

Fixpoint all_chars (p : ascii -> bool) (s : string) : bool :=
  match s with
  | EmptyString => true
  | String c r => p c && all_chars p r
  end.

Definition is_alnum (c : ascii) : bool :=
  between 97 122 c || between 65 90 c || between 48 57 c.
Definition is_hex (c : ascii) : bool :=
  between 48 57 c || between 97 102 c || between 65 70 c.
Definition unhex (c : ascii) : N :=
  if between 48 57 c then byte_n c - 48
  else if between 97 102 c then byte_n c - 97 + 10
  else if between 65 70 c then byte_n c - 65 + 10
  else 0.

Definition hex_digit (upper : bool) (n : N) : ascii :=
  match String.get (N.to_nat n) (if upper then "0123456789ABCDEF" else "0123456789abcdef") with
  | Some c => c
  | None => "0"%char
  end.

(* "%XX" *)
Definition pct (upper : bool) (c : ascii) : string :=
  String "%" (String (hex_digit upper (byte_n c / 16)) (String (hex_digit upper (byte_n c mod 16)) "")).

Inductive emode := EQuery | EFragment.

Definition should_escape (m : emode) (c : ascii) : bool :=
  if is_alnum c then false
  else if mem_char c "-_.~" then false
  else if mem_char c "$&+,/:;=?@" then
    match m with EQuery => true | EFragment => false end
  else
    match m with EQuery => true | EFragment => negb (mem_char c "!()*") end.

Definition esc_byte (m : emode) (c : ascii) : string :=
  match m with
  | EQuery => if Ascii.eqb c " " then "+" else if should_escape m c then pct true c else String c ""
  | EFragment => if should_escape m c then pct true c else String c ""
  end.

Fixpoint escape (m : emode) (s : string) : string :=
  match s with
  | EmptyString => EmptyString
  | String c r => (esc_byte m c ++ escape m r)%string
  end.

(* None = EscapeError *)
Fixpoint unescape (m : emode) (s : string) : option string :=
  match s with
  | EmptyString => Some EmptyString
  | String c r =>
      if Ascii.eqb c "%" then
        match r with
        | String h1 (String h2 r') =>
            if is_hex h1 && is_hex h2
            then option_map (String (ascii_of_N (unhex h1 * 16 + unhex h2))) (unescape m r')
            else None
        | _ => None
        end
      else if Ascii.eqb c "+" then
        option_map (String (match m with EQuery => " "%char | EFragment => "+"%char end)) (unescape m r)
      else option_map (String c) (unescape m r)
  end.

(* strings.Cut: (before, after, found) *)
Fixpoint cut (sep : ascii) (s : string) : string * string * bool :=
  match s with
  | EmptyString => (EmptyString, EmptyString, false)
  | String c r =>
      if Ascii.eqb c sep then (EmptyString, r, true)
      else match cut sep r with (a, b, f) => (String c a, b, f) end
  end.

(* strings.Split on one byte; split "" = [""] *)
Fixpoint split_on (sep : ascii) (s : string) : list string :=
  match s with
  | EmptyString => [EmptyString]
  | String c r =>
      if Ascii.eqb c sep then EmptyString :: split_on sep r
      else match split_on sep r with
           | h :: t => String c h :: t
           | [] => [String c EmptyString]
           end
  end.

(* one "k=v" setting of parseQuery; None = skipped (empty, semicolon, bad escape) *)
Definition parse_segment (seg : string) : option (string * string) :=
  if mem_char ";" seg then None
  else if String.eqb seg "" then None
  else match cut "=" seg with
       | (k, v, _) =>
           match unescape EQuery k with
           | None => None
           | Some k' =>
               match unescape EQuery v with
               | None => None
               | Some v' => Some (k', v')
               end
           end
       end.

Fixpoint parse_segments (l : list string) : pairs :=
  match l with
  | [] => []
  | seg :: r =>
      match parse_segment seg with
      | Some p => p :: parse_segments r
      | None => parse_segments r
      end
  end.

(* url.ParseQuery with the error dropped (= URL.Query()) *)
Definition parse_query (q : string) : pairs := parse_segments (split_on "&" q).

(* url.ParseQuery's error: some segment was refused (an empty segment is skipped
   without an error; a segment with ';' or a bad escape is dropped AND reported) *)
Definition seg_ok (seg : string) : bool :=
  String.eqb seg "" || match parse_segment seg with Some _ => true | None => false end.
Definition query_ok (q : string) : bool := forallb seg_ok (split_on "&" q).

(* Go string order: bytewise lexicographic *)
Fixpoint str_ltb (a b : string) : bool :=
  match a, b with
  | EmptyString, EmptyString => false
  | EmptyString, String _ _ => true
  | String _ _, EmptyString => false
  | String x a', String y b' =>
      if (byte_n x <? byte_n y)%N then true
      else if (byte_n y <? byte_n x)%N then false
      else str_ltb a' b'
  end.

(* stable insertion sort by key: what "range over sorted keys, then the key's
   values in insertion order" yields for a Go map[string][]string *)
Fixpoint insert_pair (p : string * string) (l : pairs) : pairs :=
  match l with
  | [] => [p]
  | q :: r => if str_ltb (fst q) (fst p) then q :: insert_pair p r else p :: l
  end.
Fixpoint sort_pairs (l : pairs) : pairs :=
  match l with
  | [] => []
  | p :: r => insert_pair p (sort_pairs r)
  end.

Definition enc_pair (p : string * string) : string :=
  (escape EQuery (fst p) ++ "=" ++ escape EQuery (snd p))%string.

Fixpoint join_amp (l : list string) : string :=
  match l with
  | [] => EmptyString
  | [x] => x
  | x :: r => (x ++ "&" ++ join_amp r)%string
  end.

Definition values_encode (l : pairs) : string := join_amp (map enc_pair (sort_pairs l)).

(* ---- url.URL as far as String() needs it.  u_prefix is what String() writes
   before the query (scheme, authority, escaped path): an oracle filled by the
   driver with the real function's answer; it never contains '?' or '#'. *)
Record purl := mk_purl {
  u_prefix : string;
  u_force_query : bool;
  u_raw_query : string;
  u_fragment : string;
  u_raw_fragment : string
}.

Definition valid_encoded_frag (s : string) : bool :=
  all_chars (fun c => mem_char c "!$&'()*+,;=:@[]%" || negb (should_escape EFragment c)) s.

Definition escaped_fragment (u : purl) : string :=
  if negb (String.eqb (u_raw_fragment u) "") && valid_encoded_frag (u_raw_fragment u) then
    match unescape EFragment (u_raw_fragment u) with
    | Some f => if String.eqb f (u_fragment u) then u_raw_fragment u
                else escape EFragment (u_fragment u)
    | None => escape EFragment (u_fragment u)
    end
  else escape EFragment (u_fragment u).

Definition url_string (u : purl) : string :=
  (u_prefix u
   ++ (if u_force_query u || negb (String.eqb (u_raw_query u) "") then "?" ++ u_raw_query u else "")
   ++ (if negb (String.eqb (u_fragment u) "") then "#" ++ escaped_fragment u else ""))%string.

(* ---- pkg/op/auth_request.go ---- *)
Definition merge_query_params (u : purl) (params : pairs) : string :=
  url_string (mk_purl (u_prefix u) (u_force_query u)
                      (values_encode (parse_query (u_raw_query u) ++ params))
                      (u_fragment u) (u_raw_fragment u)).

(* after fix F08: the encoded parameters are the RAW fragment *)
Definition set_fragment (u : purl) (params : pairs) : string :=
  let enc := values_encode params in
  let dec := match unescape EFragment enc with Some d => d | None => enc end in
  url_string (mk_purl (u_prefix u) (u_force_query u) (u_raw_query u) dec enc).

(* before fix F08 (kept to document the defect; not used by [model]) *)
Definition set_fragment_unfixed (u : purl) (params : pairs) : string :=
  url_string (mk_purl (u_prefix u) (u_force_query u) (u_raw_query u)
                      (values_encode params) (u_raw_fragment u)).

Definition auth_response_url (u : purl) (rtype rmode : string) (params : pairs) : string :=
  if String.eqb rmode "query" then merge_query_params u params
  else if String.eqb rmode "fragment" then set_fragment u params
  else if String.eqb rtype "id_token token" || String.eqb rtype "id_token" then set_fragment u params
  else merge_query_params u params.

(* net/http hexEscapeNonASCII, applied by http.Redirect to the Location *)
Fixpoint hex_escape_non_ascii (s : string) : string :=
  match s with
  | EmptyString => EmptyString
  | String c r =>
      if (128 <=? byte_n c)%N then (pct false c ++ hex_escape_non_ascii r)%string
      else String c (hex_escape_non_ascii r)
  end.

(* ---- user agent: raw fragment = after the first '#'; raw query = between the
   first '?' and the fragment; both read as application/x-www-form-urlencoded *)
Definition ua_front (loc : string) : string := fst (fst (cut "#" loc)).
Definition ua_base (loc : string) : string := fst (fst (cut "?" (ua_front loc))).
Definition ua_raw_query (loc : string) : string := snd (fst (cut "?" (ua_front loc))).
Definition ua_raw_fragment (loc : string) : string := snd (fst (cut "#" loc)).
Definition ua_query (loc : string) : pairs := parse_query (ua_raw_query loc).
Definition ua_fragment (loc : string) : pairs := parse_query (ua_raw_fragment loc).

(* comparison helpers *)
Definition pair_eqb (a b : string * string) : bool :=
  String.eqb (fst a) (fst b) && String.eqb (snd a) (snd b).
Definition pairs_eqb : pairs -> pairs -> bool := list_eqb pair_eqb.
