(* C04: proofs of the property theorems (statements repeated in coq/props/C04.v). *)
From OIDC Require Import Lib C04_OP C04_Ledger C04_OP_proofs C04_Inv_proofs.

Section T.
Variable H : string -> string.
Variable cf : cfg.

Lemma client_public_of id c : find_client cf id = Some c -> client_public cf id = is_public c.
Proof. intro Hf. unfold client_public, is_public. now rewrite Hf. Qed.

Lemma chal_ok_spec ch ver :
  chal_ok H ch ver = true <-> ver <> "" /\ (if fst ch then H ver else ver) = snd ch.
Proof.
  unfold chal_ok. rewrite andb_true_iff, negb_true_iff, String.eqb_neq, String.eqb_eq. tauto.
Qed.

Lemma exchange_sound ops h s : exec H cf ops = (h, s) ->
  forall h1 e h2 pl f cr code uri ver t,
    h = h1 ++ e :: h2 -> e_op e = TokenCode pl f cr code uri ver -> e_out e = OTokens t ->
  exists c q,
    code = Some c
    /\ (exists ecb, In ecb h1 /\ e_op ecb = Callback (q_id q) /\ e_out ecb = OCode c)
    /\ find_req (e_pre e) (q_id q) = Some q /\ q_done q = true
    /\ (exists elog, In elog h1 /\ e_op elog = Login (q_id q) (q_sub q) (q_auth q) /\ e_out elog = OLogin true)
    /\ (exists eau uri0 scopes0 nonce0 chal0, In eau h1
          /\ e_op eau = Authorize (q_client q) uri0 scopes0 nonce0 chal0 (q_extra q)
          /\ q_uri q = eff_uri uri0 (q_extra q) /\ q_scopes q = eff_scopes scopes0 (q_extra q)
          /\ q_nonce q = eff_nonce nonce0 (q_extra q) /\ q_chal q = eff_chal chal0 (q_extra q)
          /\ e_out eau = OAuthz (Some (q_id q)))
    /\ cred_proves cf cr (q_client q) = true
    /\ uri = q_uri q
    /\ (forall ch, q_chal q = Some ch -> ver <> "" /\ (if fst ch then H ver else ver) = snd ch)
    /\ (client_public cf (q_client q) = true -> q_chal q <> None)
    /\ t_at_sub t = q_sub q /\ t_sub t = q_sub q
    /\ t_azp t = q_client q /\ In (q_client q) (t_aud t)
    /\ (forall x, t_jwt t = Some x -> x = q_client q)
    /\ t_scope t = q_scopes q /\ t_nonce t = q_nonce q.
Proof.
  intros Hex h1 e h2 pl f cr code uri ver t Heq Hop Hout.
  apply exec_reach in Hex. destruct (reach_split H cf h s Hex h1 e h2 Heq) as [Hr1 Hstep].
  apply reach_inv in Hr1. apply step_trans in Hstep. rewrite Hop, Hout in Hstep.
  apply trans_code_inv in Hstep as [cd [q [c [-> [Hcr [Hfc [Hp [Hu [Hch [Hpub Hiss]]]]]]]]]].
  destruct (code_req_in _ _ _ Hcr) as [Hcin Hqf].
  destruct (i_codes _ _ _ Hr1 _ _ Hcin) as [_ [[q' [Hq' Hd]] Hcb]].
  rewrite Hqf in Hq'. injection Hq' as <-.
  destruct (find_req_in _ _ _ Hqf) as [Hqin _].
  destruct (i_req _ _ _ Hr1 _ Hqin) as [_ [[eau [Hau1 [[uri0 [scopes0 [nonce0 [chal0 Hmade]]]] Hau3]]] Hlog]].
  exists cd, q. do 5 (split; [solve [auto] | ]).
  split. { exists eau, uri0, scopes0, nonce0, chal0. tauto. }
  repeat (split; [solve [auto] | ]).
  split. { intros ch Hc. apply chal_ok_spec. auto. }
  split. { rewrite (client_public_of _ _ Hfc). exact Hpub. }
  unfold issue_code in Hiss. injection Hiss as _ <-.
  cbn [t_at_sub t_sub t_azp t_aud t_jwt t_scope t_nonce].
  repeat split; auto.
  - unfold aud_with. destruct (string_in (q_client q) (grant_aud cf (q_client q))) eqn:E.
    + now apply string_in_In.
    + apply in_app_iff. right. now left.
  - intros x. destruct (c_jwt c); [|discriminate]. intros [= <-].
    apply find_client_id in Hfc as [Hid _]. exact Hid.
Qed.

(* a code_challenge carried by the signed Request Object is in force: its method is the
   object's, else the query's, else plain *)
Lemma eff_chal_object chal x ro :
  x_ro x = Some ro -> ro_cc ro <> "" ->
  eff_chal chal x = Some (match ro_cm ro with
                          | Some m => m
                          | None => match chal with Some c => fst c | None => false end
                          end, ro_cc ro).
Proof.
  intros Hx Hcc. unfold eff_chal. rewrite Hx. apply String.eqb_neq in Hcc.
  cbv zeta. rewrite Hcc. cbv iota. rewrite Hcc. reflexivity.
Qed.

Lemma request_object_pkce ops h s : exec H cf ops = (h, s) ->
  forall h1 e h2 pl f cr code uri ver t,
    h = h1 ++ e :: h2 -> e_op e = TokenCode pl f cr code uri ver -> e_out e = OTokens t ->
  exists c n eau cl uri0 scopes0 nonce0 chal0 x,
    code = Some c
    /\ (exists ecb, In ecb h1 /\ e_op ecb = Callback n /\ e_out ecb = OCode c)
    /\ In eau h1 /\ e_op eau = Authorize cl uri0 scopes0 nonce0 chal0 x /\ e_out eau = OAuthz (Some n)
    /\ forall ro, x_ro x = Some ro -> ro_cc ro <> "" ->
          ver <> ""
          /\ (if match ro_cm ro with
                 | Some m => m
                 | None => match chal0 with Some ch => fst ch | None => false end
                 end then H ver else ver) = ro_cc ro.
Proof.
  intros Hex h1 e h2 pl f cr code uri ver t Heq Hop Hout.
  destruct (exchange_sound ops h s Hex h1 e h2 pl f cr code uri ver t Heq Hop Hout)
    as [c [q [Hc [Hcb [_ [_ [_ [Hau [_ [_ [Hch _]]]]]]]]]]].
  destruct Hau as [eau [uri0 [scopes0 [nonce0 [chal0 [A1 [A2 [_ [_ [_ [A6 A7]]]]]]]]]]].
  exists c, (q_id q), eau, (q_client q), uri0, scopes0, nonce0, chal0, (q_extra q).
  repeat (split; [solve [auto] | ]).
  intros ro Hx Hcc. rewrite (eff_chal_object chal0 _ ro Hx Hcc) in A6.
  destruct (Hch _ A6) as [B1 B2]. cbn [fst snd] in B2. auto.
Qed.

Lemma other_method_needs_secret ops h s : exec H cf ops = (h, s) ->
  forall h1 e h2 pl f cr c uri ver t q cl,
    h = h1 ++ e :: h2 -> e_op e = TokenCode pl f cr (Some c) uri ver -> e_out e = OTokens t ->
    code_req (e_pre e) c = Some q -> find_client cf (q_client q) = Some cl -> c_auth cl = AM_Other ->
    cr_assert cr = None /\ cred_id_sec cr = (q_client q, c_secret cl).
Proof.
  intros Hex h1 e h2 pl f cr c uri ver t q cl Heq Hop Hout Hcq Hf Ha.
  apply exec_reach in Hex. destruct (reach_split H cf h s Hex h1 e h2 Heq) as [_ Hstep].
  apply step_trans in Hstep. rewrite Hop, Hout in Hstep.
  apply trans_code_inv in Hstep as [cd [q2 [c2 [[= <-] [Hcr2 [_ [Hp _]]]]]]].
  rewrite Hcq in Hcr2. injection Hcr2 as <-.
  eapply cred_proves_other; eauto.
Qed.

Lemma single_use ops h s : exec H cf ops = (h, s) ->
  forall h1 e1 h2 e2 h3 c pl1 f1 cr1 u1 v1 pl2 f2 cr2 u2 v2,
    h = h1 ++ e1 :: h2 ++ e2 :: h3 ->
    e_op e1 = TokenCode pl1 f1 cr1 (Some c) u1 v1 -> is_tokens (e_out e1) = true ->
    e_op e2 = TokenCode pl2 f2 cr2 (Some c) u2 v2 -> is_tokens (e_out e2) = true -> False.
Proof.
  intros Hex h1 e1 h2 e2 h3 c pl1 f1 cr1 u1 v1 pl2 f2 cr2 u2 v2 Heq Ho1 Hk1 Ho2 Hk2.
  apply exec_reach in Hex.
  assert (Heq' : h = (h1 ++ e1 :: h2) ++ e2 :: h3) by (rewrite Heq, <- app_assoc; reflexivity).
  destruct (reach_split H cf h s Hex _ e2 h3 Heq') as [Hr Hstep].
  apply reach_inv in Hr. apply step_trans in Hstep. rewrite Ho2 in Hstep.
  destruct (e_out e2) as [| | | | |t2| | | |] eqn:Hout; try discriminate.
  apply trans_code_inv in Hstep as [cd [q [cl [[= <-] [Hcr _]]]]].
  destruct (code_req_in _ _ _ Hcr) as [Hcin _].
  assert (Hin1 : In e1 (h1 ++ e1 :: h2)) by (apply in_app_iff; right; now left).
  destruct (i_used _ _ _ Hr e1 pl1 f1 cr1 c u1 v1 Hin1 Ho1 Hk1) as [_ Hno].
  exact (Hno _ Hcin).
Qed.

Lemma not_done_no_code ops h s : exec H cf ops = (h, s) ->
  forall h1 e h2 n c, h = h1 ++ e :: h2 -> e_op e = Callback n -> e_out e = OCode c ->
  exists q, find_req (e_pre e) n = Some q /\ q_done q = true
    /\ exists elog, In elog h1 /\ e_op elog = Login n (q_sub q) (q_auth q) /\ e_out elog = OLogin true.
Proof.
  intros Hex h1 e h2 n c Heq Hop Hout.
  apply exec_reach in Hex. destruct (reach_split H cf h s Hex h1 e h2 Heq) as [Hr1 Hstep].
  apply reach_inv in Hr1. apply step_trans in Hstep. rewrite Hop, Hout in Hstep.
  apply trans_callback_inv in Hstep as [q [Hq Hd]].
  exists q. split; [exact Hq|]. split; [exact Hd|].
  destruct (find_req_in _ _ _ Hq) as [Hqin Hid].
  destruct (i_req _ _ _ Hr1 _ Hqin) as [_ [_ Hlog]]. rewrite Hid in Hlog. auto.
Qed.

Lemma not_done_no_code_step r s n :
  (forall q, find_req s n = Some q -> q_done q = false) ->
  forall c, snd (step H cf r s (Callback n)) <> OCode c.
Proof.
  intros Hnd c. cbn [step]. unfold do_callback. destruct (find_req s n) as [q|] eqn:Hq; [|discriminate].
  rewrite (Hnd q eq_refl). discriminate.
Qed.

(* a refused exchange - wrong input or a storage failure at any point - changes nothing
   the history can refer to: the code stays valid for its rightful client *)
Lemma code_refusal_keeps_state r s pl f cr code uri ver s' x :
  step H cf r s (TokenCode pl f cr code uri ver) = (s', x) -> is_tokens x = false -> s' = s.
Proof. intros Hs Hk. apply step_trans in Hs. eapply trans_code_refused; eauto. Qed.

(* a request is judged on what it carries itself: whatever the history before it (e.g. an exchange
   by the same client with full credentials, verifier and redirect_uri immediately before), an
   exchange that does not itself prove the client of the code's request, or presents another
   redirect_uri, or no matching verifier for a challenge, is refused and changes nothing *)
Lemma incomplete_exchange_refused ops h s : exec H cf ops = (h, s) ->
  forall h1 e h2 pl f cr c uri ver q,
    h = h1 ++ e :: h2 -> e_op e = TokenCode pl f cr (Some c) uri ver ->
    code_req (e_pre e) c = Some q ->
    (cred_proves cf cr (q_client q) = false \/ uri <> q_uri q
     \/ (exists ch, q_chal q = Some ch /\ (ver = "" \/ (if fst ch then H ver else ver) <> snd ch))) ->
    is_tokens (e_out e) = false /\ e_post e = e_pre e.
Proof.
  intros Hex h1 e h2 pl f cr c uri ver q Heq Hop Hcq Hbad.
  destruct (e_out e) as [| | | | |t| | | |] eqn:Hout.
  6: { exfalso. apply exec_reach in Hex. destruct (reach_split H cf h s Hex h1 e h2 Heq) as [_ Hstep].
       apply step_trans in Hstep. rewrite Hop, Hout in Hstep.
       apply trans_code_inv in Hstep as [cd [q2 [c2 [[= <-] [Hcr2 [_ [Hp [Hu [Hch _]]]]]]]]].
       rewrite Hcq in Hcr2. injection Hcr2 as <-.
       destruct Hbad as [Hnp | [Hnu | [ch [Hc [Hv | Hv]]]]]; [congruence | congruence | |];
         apply Hch in Hc; apply chal_ok_spec in Hc as [B1 B2]; congruence. }
  all: split; [reflexivity|];
    apply exec_reach in Hex; destruct (reach_split H cf h s Hex h1 e h2 Heq) as [_ Hstep];
    rewrite Hop in Hstep; eapply code_refusal_keeps_state; eauto; rewrite Hout; reflexivity.
Qed.

(* how the authorization request travels - GET, or POST with any split of the parameters between
   URL query and body - is irrelevant: same answer, and the request that comes into being has the
   same client, redirect_uri, scopes, nonce and PKCE challenge *)
Lemma authorize_transport_irrelevant r s cl uri scopes nonce chal x :
  let a := step H cf r s (Authorize cl uri scopes nonce chal x) in
  let b := step H cf r s (Authorize cl uri scopes nonce chal (by_get x)) in
  snd a = snd b
  /\ codes (fst a) = codes (fst b) /\ rtoks (fst a) = rtoks (fst b) /\ next (fst a) = next (fst b)
  /\ map (fun q => (q_id q, q_client q, q_uri q, q_scopes q, q_nonce q, q_chal q, q_done q, q_sub q))
         (reqs (fst a))
     = map (fun q => (q_id q, q_client q, q_uri q, q_scopes q, q_nonce q, q_chal q, q_done q, q_sub q))
         (reqs (fst b)).
Proof.
  cbn [step]. unfold do_authorize, ro_accepted, eff_uri, eff_scopes, eff_nonce, eff_chal, extra_ok, hinted_sub, by_get.
  cbn [x_ro x_hint x_prompt].
  destruct (find_client cf cl); [|cbn; auto].
  match goal with |- context [if ?g then _ else _] => destruct g end; cbn; auto.
Qed.

(* where the parameters travel (body, query string, both with conflicting values) is irrelevant *)
Lemma placement_irrelevant r s o :
  step H cf r s o = step H cf r s
    (match o with
     | TokenCode _ f cr code uri ver => TokenCode P_body f cr code uri ver
     | TokenRefresh _ cr rt sc => TokenRefresh P_body cr rt sc
     | other => other
     end).
Proof. destruct o; try reflexivity; cbn [step]; now rewrite !read_grant_ok, !read_field_ok. Qed.

End T.

(* ---- non-vacuity: a concrete history in which every hypothesis above is met ---- *)
Definition ex_cfg : cfg :=
  {| f_post := true; f_pkjwt := true; f_refresh := true; f_reqobj := true; f_keep := false; f_aud := None;
     clients := [ {| c_id := "web"; c_secret := "s3cret"; c_auth := AM_Basic; c_redirects := ["https://web/cb"];
                     c_code := true; c_refresh := true; c_jwt := false |};
                  {| c_id := "spa"; c_secret := ""; c_auth := AM_None; c_redirects := ["https://spa/cb"];
                     c_code := true; c_refresh := true; c_jwt := true |} ] |}.
Definition ex_H (v : string) : string := "H(" ++ v ++ ")".
Definition ex_ops : list (router * op) :=
  [ (Legacy, Authorize "web" "https://web/cb" ["openid"; "offline_access"; "email"] "n-1" (Some (true, "H(v1)")) no_extra);
    (Legacy, Callback 1);                                             (* not done: no code *)
    (Legacy, Login 1 "alice" 7);
    (Provider, Callback 1);
    (Legacy, TokenCode P_body None (Post "spa" "") (Some 1) "https://web/cb" "v1");   (* other client *)
    (Legacy, TokenCode P_body None (Basic "web" "s3cret") (Some 1) "https://web/cb" "");   (* no verifier *)
    (Legacy, TokenCode P_body None (Basic "web" "s3cret") (Some 1) "https://web/cb" "v1");
    (Provider, TokenCode P_body None (Basic "web" "s3cret") (Some 1) "https://web/cb" "v1");   (* replay *)
    (Provider, TokenRefresh P_body (Basic "web" "s3cret") (Some 2) ["openid"; "phone"]);  (* superset *)
    (Provider, TokenRefresh P_body (Basic "web" "s3cret") (Some 2) ["openid"; "email"]);
    (Legacy, TokenRefresh P_body (Basic "web" "s3cret") (Some 2) []);                     (* rotated *)
    (Legacy, TokenRefresh P_body (Basic "web" "s3cret") (Some 4) ["openid"]);
    (* second flow: a storage failure while the redeemed request is removed, then the same code again *)
    (Provider, Authorize "web" "https://web/cb" ["openid"] "n-2" None no_extra);
    (Provider, Login 8 "bob" 9);
    (Provider, Callback 8);
    (Provider, TokenCode P_field_conflict (Some SM_DeleteAuthRequest) (Basic "web" "s3cret") (Some 2) "https://web/cb" "");
    (Legacy, TokenCode P_query None (Basic "web" "s3cret") (Some 2) "https://web/cb" "");
    (Legacy, TokenCode P_body None (Basic "web" "s3cret") (Some 2) "https://web/cb" "");
    (* the refresh grant is withdrawn from the registration; grant_type travels in the query string *)
    (Legacy, DropRefresh "web");
    (Legacy, TokenRefresh P_grant_query (Basic "web" "s3cret") (Some 6) []);
    (* an id_token_hint gives the request a subject, not a login: the callback yields no code *)
    (Provider, Authorize "web" "https://web/cb" ["openid"] "n-3" None {| x_hint := Some (Some "alice"); x_prompt := ["login"]; x_ro := None; x_via := V_get |});
    (Legacy, Callback 10);
    (Legacy, Authorize "web" "https://web/cb" ["openid"] "n-4" None {| x_hint := None; x_prompt := ["none"]; x_ro := None; x_via := V_get |});
    (* the PKCE challenge travels inside a signed Request Object, without a method (= plain); the
       object also supersedes the nonce.  No verifier: refused; wrong verifier: refused *)
    (Legacy, Authorize "web" "https://web/cb" ["openid"] "n-5" None
               {| x_hint := None; x_prompt := [];
                  x_ro := Some {| ro_ok := true; ro_uri := ""; ro_scopes := []; ro_nonce := "n-obj"; ro_cc := "v9"; ro_cm := None |}; x_via := V_post ["code_challenge"; "nonce"] |});
    (Legacy, Login 11 "alice" 11);
    (Legacy, Callback 11);
    (Provider, TokenCode P_body None (Basic "web" "s3cret") (Some 3) "https://web/cb" "");
    (Legacy, TokenCode P_body None (Basic "web" "s3cret") (Some 3) "https://web/cb" "");
    (Legacy, TokenCode P_body None (Basic "web" "s3cret") (Some 3) "https://web/cb" "v8");
    (Provider, TokenCode P_body None (Basic "web" "s3cret") (Some 3) "https://web/cb" "v9");
    (* an object that does not verify: no request *)
    (Provider, Authorize "web" "https://web/cb" ["openid"] "n-6" None
               {| x_hint := None; x_prompt := [];
                  x_ro := Some {| ro_ok := false; ro_uri := ""; ro_scopes := []; ro_nonce := ""; ro_cc := "v9"; ro_cm := None |}; x_via := V_post ["code_challenge"; "nonce"] |}) ].

Example history_nonvacuous :
  map is_tokens (outs ex_H ex_cfg ex_ops)
  = [false; false; false; false; false; false; true; false; false; true; false; true;
     false; false; false; false; true; false; false; false; false; false; false;
     false; false; false; false; false; false; true; false]
  /\ nth_error (outs ex_H ex_cfg ex_ops) 1 = Some OCbErr
  /\ nth_error (outs ex_H ex_cfg ex_ops) 4 = Some (OErr 4 E_grant)
  /\ nth_error (outs ex_H ex_cfg ex_ops) 5 = Some (OErr 4 E_request)
  /\ nth_error (outs ex_H ex_cfg ex_ops) 8 = Some (OErr 4 E_scope)
  /\ nth_error (outs ex_H ex_cfg ex_ops) 10 = Some (OErr 4 E_grant)
  /\ nth_error (outs ex_H ex_cfg ex_ops) 15 = Some (OErr 4 E_server)
  /\ nth_error (outs ex_H ex_cfg ex_ops) 17 = Some (OErr 4 E_grant)
  /\ nth_error (outs ex_H ex_cfg ex_ops) 19 = Some (OErr 4 E_unauthorized)
  /\ nth_error (outs ex_H ex_cfg ex_ops) 20 = Some (OAuthz (Some 10))
  /\ nth_error (outs ex_H ex_cfg ex_ops) 21 = Some OCbErr
  /\ nth_error (outs ex_H ex_cfg ex_ops) 22 = Some (OAuthz None)
  /\ nth_error (outs ex_H ex_cfg ex_ops) 26 = Some (OErr 4 E_request)
  /\ nth_error (outs ex_H ex_cfg ex_ops) 27 = Some (OErr 4 E_request)
  /\ nth_error (outs ex_H ex_cfg ex_ops) 28 = Some (OErr 4 E_grant)
  /\ option_map (fun x => match x with OTokens t => t_nonce t | _ => "" end) (nth_error (outs ex_H ex_cfg ex_ops) 29) = Some "n-obj"
  /\ nth_error (outs ex_H ex_cfg ex_ops) 30 = Some (OAuthz None).
Proof. vm_compute. repeat split. Qed.
