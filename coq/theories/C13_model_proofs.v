(* C13: the model runner of the correspondence run only ever looks at worlds the
   machine reaches by a schedule, so every theorem of props/C13.v speaks about
   every snapshot the model predicts. *)
From OIDC Require Import Lib C13_RemoteKeys C13_proofs C13_spec.

Lemma run_script_snapshots ms : forall w k s,
  nth_error (run_script w ms) k = Some s ->
  exists evs d, s = snap_of (exec sym_verify w evs) d.
Proof.
  induction ms as [|m ms IH]; intros w k s H; cbn in H.
  - destruct k; discriminate.
  - destruct k as [|k]; cbn in H.
    + inversion H. exists (events_of w m), (delivered_of w m). reflexivity.
    + destruct (IH _ _ _ H) as (evs & d & E). exists (events_of w m ++ evs), d.
      rewrite exec_app. exact E.
Qed.

Lemma model_is_a_schedule skip ms k s :
  nth_error (run_script (init skip) ms) k = Some s ->
  exists evs d, s = snap_of (exec sym_verify (init skip) evs) d.
Proof. apply run_script_snapshots. Qed.
