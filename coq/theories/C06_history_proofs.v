(* C06 proofs, part 3: histories of refresh requests on one grant (C06_Grant), the
   property predicate on them, and the authentication time of a request that
   records none. *)
From OIDC Require Import Lib Base64 Base64_proofs Cipher Cipher_proofs
     C02_Jws C01_Verifier C02_Verifiers C06_Token C06_Grant C06_spec C06_proofs C06_model_proofs.
From Coq Require Import ZifyBool ZifyNat ZifyN.

(* ---------------- one request ---------------- *)
Lemma validate_some requested granted s :
  validate_refresh_scopes requested granted = Some s ->
  incl s granted /\ (requested <> [] -> s = requested) /\ (requested = [] -> s = granted).
Proof.
  unfold validate_refresh_scopes. destruct requested as [|x l].
  - intro E. inversion E; subst. repeat split; [apply incl_refl | congruence].
  - destruct (subset_of (x :: l) granted) eqn:Es; [|discriminate].
    intro E. inversion E; subst. repeat split; [now apply subset_of_iff | discriminate].
Qed.

Lemma validate_none requested granted :
  validate_refresh_scopes requested granted = None <->
  requested <> [] /\ ~ incl requested granted.
Proof.
  unfold validate_refresh_scopes. destruct requested as [|x l].
  - split; [discriminate | intros [Hn _]; now destruct Hn].
  - destruct (subset_of (x :: l) granted) eqn:Es.
    + split; [discriminate|]. intros [_ Hn]. apply subset_of_iff in Es. contradiction.
    + split; [|reflexivity]. intros _. split; [discriminate|].
      intro Hi. apply subset_of_iff in Hi. congruence.
Qed.

Lemma grant_step_within g e : incl (grant_step g e) g.
Proof.
  unfold grant_step. destruct (e_owner e); [|apply incl_refl].
  destruct (validate_refresh_scopes (e_scopes e) g) as [s|] eqn:Ev; [|apply incl_refl].
  now apply validate_some in Ev as [Hi _].
Qed.

(* ---------------- histories: by induction over the list of earlier requests ---------------- *)
Lemma grant_after_within : forall earlier g0, incl (grant_after g0 earlier) g0.
Proof.
  unfold grant_after. induction earlier as [|e rest IH]; intro g0; cbn [fold_left].
  - apply incl_refl.
  - eapply incl_tran; [apply IH | apply grant_step_within].
Qed.

Lemma grant_after_app g0 pre post :
  grant_after g0 (pre ++ post) = grant_after (grant_after g0 pre) post.
Proof. unfold grant_after. apply fold_left_app. Qed.

(* every issuance at the end of any history stays within the scopes of the authorization;
   a scope parameter is honoured exactly; without one the token's standing scopes are taken *)
Theorem refresh_within_grant g0 earlier requested s :
  refresh_scopes g0 earlier requested = Some s ->
  incl s g0
  /\ (requested <> [] -> s = requested)
  /\ (requested = [] -> s = grant_after g0 earlier).
Proof.
  unfold refresh_scopes. intro E. apply validate_some in E as (Hi & Hr & Hn).
  repeat split; [|exact Hr|exact Hn].
  eapply incl_tran; [exact Hi | apply grant_after_within].
Qed.

(* a refused request - made by another client, or asking for a scope beyond what the token
   stands for - can be struck from any history: every later request sees the same grant *)
Definition refused (g : list string) (e : earlier_req) : Prop :=
  e_owner e = false \/ validate_refresh_scopes (e_scopes e) g = None.

Theorem refused_request_leaves_grant g0 pre e post requested :
  refused (grant_after g0 pre) e ->
  grant_after g0 (pre ++ e :: post) = grant_after g0 (pre ++ post)
  /\ refresh_scopes g0 (pre ++ e :: post) requested = refresh_scopes g0 (pre ++ post) requested.
Proof.
  intro Hr.
  assert (Hs : grant_step (grant_after g0 pre) e = grant_after g0 pre).
  { unfold grant_step. destruct Hr as [Ho|Hv]; [now rewrite Ho | rewrite Hv; now destruct (e_owner e)]. }
  assert (Hg : grant_after g0 (pre ++ e :: post) = grant_after g0 (pre ++ post)).
  { rewrite !grant_after_app. unfold grant_after at 1. cbn [fold_left].
    fold (grant_after (grant_step (grant_after g0 pre) e) post). now rewrite Hs. }
  split; [exact Hg|]. unfold refresh_scopes. now rewrite Hg.
Qed.

(* the predicate's reading of "granted" (RFC 6749 section 6) and the modelled code agree
   on every history *)
Lemma standing_grant_eq : forall earlier g, standing_grant g earlier = grant_after g earlier.
Proof.
  unfold grant_after. induction earlier as [|e rest IH]; intro g; cbn [standing_grant fold_left];
    [reflexivity|].
  rewrite IH. f_equal. unfold grant_step, validate_refresh_scopes.
  destruct (e_scopes e) as [|x l]; [now destruct (e_owner e)|].
  destruct (e_owner e); cbn [andb]; [|reflexivity].
  now destruct (subset_of (x :: l) g).
Qed.

Lemma granted_now_eq g0 earlier requested :
  granted_now g0 earlier requested = refresh_scopes g0 earlier requested.
Proof.
  unfold granted_now, refresh_scopes, validate_refresh_scopes. cbv zeta.
  now rewrite standing_grant_eq.
Qed.

(* ---------------- the predicate on the modelled end of a history ---------------- *)
Theorem spec_model_refreshed : forall g0 earlier requested c,
  (forall s, refresh_scopes g0 earlier requested = Some s -> wf (with_scopes c s) = true) ->
  spec (IRefreshed g0 earlier requested c) (model (IRefreshed g0 earlier requested c)) = true.
Proof.
  intros g0 earlier requested c Hw. cbn [model].
  destruct (refresh_scopes g0 earlier requested) as [s|] eqn:Es.
  - unfold model_case. cbn [spec]. rewrite granted_now_eq, Es.
    pose proof (spec_model (with_scopes c s) (Hw s eq_refl)) as Hm.
    cbn [model spec] in Hm. unfold model_case in Hm. exact Hm.
  - reflexivity.
Qed.

(* what the modelled response at the end of a history carries stays within the authorization:
   response scope, stored scopes, and the user claims / custom claims of the ID token *)
Theorem refreshed_tokens_within_grant g0 earlier requested c r k :
  is_exchange (cs_flow c) = false ->
  model (IRefreshed g0 earlier requested c) = OResp r k ->
  incl (r_scope r) g0
  /\ (forall id e sc, k_stored k = Some (id, e, sc) -> incl sc g0)
  /\ (forall j ic, r_id r = Some (j, ic) ->
        (i_name ic <> "" \/ i_username ic <> "" -> In "profile" g0)
        /\ (i_email ic <> "" \/ i_email_verified ic = true -> In "email" g0)
        /\ (i_phone ic <> "" \/ i_phone_verified ic = true -> In "phone" g0)
        /\ (i_addr ic <> "" -> In "address" g0)
        /\ (forall x, In x (i_extra ic) -> In ("custom:" ++ fst x)%string g0)).
Proof.
  intros Hx. cbn [model].
  destruct (refresh_scopes g0 earlier requested) as [s|] eqn:Es; [|discriminate].
  apply refresh_within_grant in Es as (Hin & _ & _).
  unfold model_case. remember (with_scopes c s) as c' eqn:Ec'.
  assert (Hsc : rq_scopes (cs_req c') = s) by (subst c'; reflexivity).
  assert (Hfl : cs_flow c' = cs_flow c) by (subst c'; reflexivity).
  clear Ec'. intro E. injection E as Hr Hk. subst r k.
  split; [|split].
  - assert (Hrs : r_scope (model_response c') = rq_scopes (cs_req c')) by reflexivity.
    now rewrite Hrs, Hsc.
  - intros id e sc. unfold model_checks. cbn [k_stored].
    destruct (r_access (model_response c')); [discriminate| |];
      intro E; injection E as _ _ Esc; subst sc; now rewrite Hsc.
  - intros j ic Hid.
    pose proof (id_token_claims (lookup_hash (cs_hashes c')) (lookup_block (cs_aes c')) (cs_issuer c')
                  (cs_flow c') (cs_client c') (case_key_at c') (case_key_id c') (cs_user c') (cs_req c')
                  (cs_state c') (cs_ids c') (cs_ent c') (cs_now0 c') j ic Hid)
      as (_ & _ & _ & _ & _ & _ & _ & _ & _ & _ & _ & _ & _ & G).
    cbv zeta in G. destruct G as (Gp & Ge & Gph & Ga & Gx).
    assert (Hg : forall x acc, string_in x (granted (cs_flow c') (cs_client c') (cs_req c') acc) = true -> In x g0).
    { intros x acc Hi. apply Hin. rewrite <- Hsc. apply string_in_iff.
      unfold granted, id_scopes in Hi. rewrite Hfl, Hx in Hi.
      destruct (negb (acc =s "") && negb (cl_assert (cs_client c'))).
      - unfold remove_userinfo in Hi. apply string_in_filter in Hi. unfold restrict in Hi.
        now apply string_in_filter in Hi.
      - unfold restrict in Hi. now apply string_in_filter in Hi. }
    repeat split; intros; eapply Hg; eauto.
Qed.

(* ---------------- a request without a recorded authentication ---------------- *)
(* FromTime(zero.Add(-skew)): the ID token asserts no authentication time (skew 0), or Go's
   zero time moved by the skew - in either case nothing after the Unix epoch, so never the
   time of issuance (iat > 0) or any other time the provider made up *)
Theorem auth_time_only_from_request
        (H : hkind -> string -> list nat) (E : list nat -> list nat)
        issuer f cl kat kid u rq state ids en now j ic :
  r_id (create_token_response H E issuer f cl kat kid u rq state ids en now) = Some (j, ic) ->
  is_exchange f = false ->
  (rq_auth_time rq = 0%Z ->
     (cl_skew cl = 0%Z -> i_auth_time ic = 0%Z)
     /\ (i_auth_time ic = 0%Z \/ i_auth_time ic = (zero_unix - cl_skew cl)%Z)
     /\ ((zero_unix <= cl_skew cl)%Z -> (i_auth_time ic <= 0)%Z /\ (0 < i_iat ic -> i_auth_time ic < i_iat ic)%Z))
  /\ (rq_auth_time rq <> 0%Z -> i_auth_time ic = (rq_auth_time rq - cl_skew cl)%Z).
Proof.
  intros Hid Hx.
  pose proof (id_token_claims H E issuer f cl kat kid u rq state ids en now j ic Hid)
    as (_ & _ & _ & _ & _ & _ & _ & _ & Ha & _).
  rewrite Hx in Ha. unfold shifted_auth_time in Ha. split.
  - intro Hz. rewrite Hz in Ha. cbn [Z.eqb] in Ha.
    destruct (Z.eqb (cl_skew cl) 0) eqn:Es.
    + repeat split; lia.
    + repeat split; lia.
  - intro Hn. destruct (Z.eqb (rq_auth_time rq) 0) eqn:Ez; [lia | exact Ha].
Qed.

(* ---------------- non-vacuity ---------------- *)
Definition ex_g0 : list string := ["openid"; "profile"; "offline_access"].
(* a request beyond the grant (refused), a narrowing attempt by another client (refused), a
   narrowing by the owner within the grant (accepted) *)
Definition ex_beyond : earlier_req := mkEarlier true ["openid"; "email"; "phone"].
Definition ex_other : earlier_req := mkEarlier false ["openid"].
Definition ex_narrow : earlier_req := mkEarlier true ["openid"; "offline_access"].

Example refresh_history_nonvacuous :
  refused ex_g0 ex_beyond /\ refused ex_g0 ex_other
  /\ refresh_scopes ex_g0 [ex_beyond; ex_other] [] = Some ex_g0
  /\ refresh_scopes ex_g0 [ex_beyond; ex_narrow] [] = Some ["openid"; "offline_access"]
  /\ refresh_scopes ex_g0 [ex_narrow] ["profile"] = None
  /\ refresh_scopes ex_g0 [ex_beyond] ["profile"; "openid"] = Some ["profile"; "openid"].
Proof. repeat split; try reflexivity. now right. now left. Qed.

(* the case of C06_spec_model_nonvacuous as the end of such a history (refresh flow) *)
Definition ex_refresh_case : case :=
  mkCase (cs_router ex_case) (cs_issuer ex_case) FRefresh (cs_client ex_case) (cs_key ex_case) (cs_key2 ex_case)
         (cs_rot ex_case) (cs_keys ex_case) (cs_user ex_case) (cs_req ex_case) (cs_state ex_case) (cs_ids ex_case)
         (cs_ent ex_case) (cs_now0 ex_case) (cs_now1 ex_case) (cs_vnow ex_case) (cs_verifier ex_case)
         (cs_at_algs ex_case) (cs_hashes ex_case) (cs_aes ex_case).

Example spec_model_refreshed_nonvacuous :
  wf (with_scopes ex_refresh_case ex_g0) = true
  /\ (exists r k, model (IRefreshed ex_g0 [ex_beyond; ex_other] [] ex_refresh_case) = OResp r k
                  /\ r_scope r = ex_g0
                  /\ exists j ic, r_id r = Some (j, ic) /\ i_name ic = "Alice" /\ i_email ic = "")
  /\ model (IRefreshed ex_g0 [ex_narrow] ["profile"] ex_refresh_case) = ONoTokens 400.
Proof.
  split; [vm_compute; reflexivity|]. split; [|reflexivity].
  eexists. eexists. split; [reflexivity|]. split; [vm_compute; reflexivity|].
  eexists. eexists. split; [vm_compute; reflexivity|]. split; vm_compute; reflexivity.
Qed.

Example refresh_history_nonvacuous_all :
  (ex_beyond = mkEarlier true ["openid"; "email"; "phone"] /\ ex_other = mkEarlier false ["openid"]
   /\ ex_g0 = ["openid"; "profile"; "offline_access"])
  /\ refresh_scopes ex_g0 [ex_beyond; ex_other] [] = Some ex_g0
  /\ refresh_scopes ex_g0 [ex_beyond; ex_narrow] [] = Some ["openid"; "offline_access"]
  /\ refresh_scopes ex_g0 [ex_narrow] ["profile"] = None
  /\ wf (with_scopes ex_refresh_case ex_g0) = true
  /\ (exists r k, model (IRefreshed ex_g0 [ex_beyond; ex_other] [] ex_refresh_case) = OResp r k
                  /\ r_scope r = ex_g0
                  /\ exists j ic, r_id r = Some (j, ic) /\ i_name ic = "Alice" /\ i_email ic = "")
  /\ model (IRefreshed ex_g0 [ex_narrow] ["profile"] ex_refresh_case) = ONoTokens 400.
Proof.
  split; [repeat split|].
  destruct refresh_history_nonvacuous as (_ & _ & A & B & C & _).
  destruct spec_model_refreshed_nonvacuous as (D & F & G).
  exact (conj A (conj B (conj C (conj D (conj F G))))).
Qed.
