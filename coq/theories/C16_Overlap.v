(* C16: overlapping requests. Several token requests can be inside the provider at
   the same time: a poll enters, authenticates its client, and then waits inside
   the storage's GetDeviceAuthorizatonState (a slow storage) while other requests
   - polls of the same or another device code by the same or other clients, device
   authorizations, the user's approval or denial - run from start to end; then its
   lookup is served and it is answered. refstore serves every lookup atomically
   (one mutex), and a device poll consults the device storage exactly once
   (CheckDeviceAuthorizationState): a poll takes effect at its lookup. *)
From OIDC Require Import Lib C16_UserCode C16_Device.

Inductive sev :=
| SArrive (i : nat)   (* poll i of the case's poll list enters the provider and is held at its storage lookup *)
| SServe (i : nat)    (* the lookup of poll i is served, the poll is answered *)
| SOp (o : op).       (* an operation that runs from start to end here, whatever is in flight *)

(* the overlapped execution: the storage and the polls in flight; answers in the
   order in which they are given *)
Fixpoint run_sched (g : cfg) (cl : list client) (st : store) (inflight : list nat)
    (polls : list op) (evs : list sev) : list resp :=
  match evs with
  | [] => []
  | SArrive i :: r => run_sched g cl st (i :: inflight) polls r
  | SServe i :: r =>
      match nth_error polls i with
      | Some o => let (st', x) := step g cl st o in
                  x :: run_sched g cl st' (filter (fun j => negb (j =? i)) inflight) polls r
      | None => run_sched g cl st inflight polls r
      end
  | SOp o :: r => let (st', x) := step g cl st o in x :: run_sched g cl st' inflight polls r
  end.

(* the sequential history in which every request stands where it took effect *)
Fixpoint lin (polls : list op) (evs : list sev) : list op :=
  match evs with
  | [] => []
  | SArrive _ :: r => lin polls r
  | SServe i :: r =>
      match nth_error polls i with
      | Some o => o :: lin polls r
      | None => lin polls r
      end
  | SOp o :: r => o :: lin polls r
  end.

Definition is_poll (o : op) : bool := match o with OpPoll _ _ _ _ _ _ _ => true | _ => false end.

(* a schedule makes sense: a poll arrives once, is served once, after it arrived *)
Fixpoint sched_ok (n : nat) (inflight served : list nat) (evs : list sev) : bool :=
  match evs with
  | [] => true
  | SArrive i :: r =>
      (i <? n) && negb (existsb (Nat.eqb i) inflight) && negb (existsb (Nat.eqb i) served)
      && sched_ok n (i :: inflight) served r
  | SServe i :: r =>
      existsb (Nat.eqb i) inflight
      && sched_ok n (filter (fun j => negb (j =? i)) inflight) (i :: served) r
  | SOp _ :: r => sched_ok n inflight served r
  end.
