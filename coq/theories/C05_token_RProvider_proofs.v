(* C05: success on the token endpoint is justified - RProvider router (one file per router so that
   the two case analyses compile in parallel). *)
From OIDC Require Import Lib C05_Model C05_spec C05_base_proofs.

Lemma token_success_justified_RProvider : forall i,
  i_router i = RProvider ->
  i_endpoint i = EToken -> known_gap i = false -> names_other (i_pres i) = false ->
  success (model i) = true -> token_justified_lax (i_cfg i) (i_reg i) (i_pres i) (i_grant i) = true.
Proof.
  intro i; open_input i; cbn [i_endpoint i_cfg i_reg i_pres i_grant i_router i_pl i_prev i_art].
  all: intros -> -> Hgap Hno.
  all: unfold model, known_gap in *; cbn [i_endpoint i_cfg i_reg i_pres i_grant i_router i_pl i_prev i_art] in *.
  all: destruct p as [| |[] ?| |[]|[]|[]| | | |[] []|?|?|?|?|?|[] []|?]; try discriminate Hno; clear Hno.
  all: destruct g; cbn in Hgap |- *; destruct meth; cbn in Hgap |- *; split_goal.
Qed.
