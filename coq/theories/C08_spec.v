(* C08: case vocabulary, model runner and the property predicate.
   The predicate is a reference monitor written from the property text: it keeps the
   ground truth "which tokens has the provider issued and not yet lost to revocation /
   session termination" from what the IMPLEMENTATION answered (issued ids, stored
   records) and from what the driver knows about every presented string (tokstr), and
   judges each answer against it.  It never calls the model's step function. *)
From OIDC Require Import Lib.
From OIDC Require Export C08_OP.

(* Ground truth about key trust, from the configuration as WRITTEN: the extra key is good for
   access tokens exactly when the LAST WithAccessTokenKeySet option designates a key set that trusts
   it (no such option: the storage's keys only), and likewise - independently - for id_token_hints.
   No option about one kind of token says anything about the other kind. *)
Fixpoint last_at (opts : list kopt) : option bool :=
  match opts with
  | [] => None
  | o :: r => match last_at r with
              | Some b => Some b
              | None => match o with OptATKeys b => Some b | OptHintKeys _ => None end
              end
  end.
Fixpoint last_hint (opts : list kopt) : option bool :=
  match opts with
  | [] => None
  | o :: r => match last_hint r with
              | Some b => Some b
              | None => match o with OptHintKeys b => Some b | OptATKeys _ => None end
              end
  end.
Definition designated (opts : list kopt) : keyconf :=
  KeyConf (match last_at opts with Some b => b | None => false end)
          (match last_hint opts with Some b => b | None => false end).

Definition input := hist_input.
Definition observed := list out.
Definition model : input -> observed := run_hist.

(* ---- ground truth about presented strings *)

(* the issued access token a presented string is: what it was sealed as, or a JWT that is
   genuine (issuer, signature) and unexpired *)
Definition as_access (t : tokstr) : sid :=
  match t with
  | Opq id _ => id
  | Jwt true true false jti _ _ => jti
  | _ => Junk
  end.
(* at the revocation endpoint the storage also takes a bare identifier (refresh tokens are
   bare identifiers) *)
Definition denotes (t : tokstr) : sid :=
  match t with Raw id => id | _ => as_access t end.

(* Ground truth "who is calling": the client whose CREDENTIAL is presented for verification -
   the Basic client id (never a client_id form field sent along with it), the issuer of a
   verified client assertion, or the client_id a secret / nothing else is posted with. *)
Definition cred_id (c : cred) : string :=
  match c with
  | Assertion (Some x) _ => x
  | Assertion None _ => ""
  | _ => fst (cred_pair c)
  end.
(* "the authenticated caller": the request PROVES a credential registered for the client it
   names.  A secret proves something only if the client is registered WITH one and the presented
   secret is exactly that one: a client registered without a secret (public, private_key_jwt -
   whatever empty value the storage keeps for it and however it compares) has nothing to prove
   with, so naming it with a missing, empty, blank or any other secret authenticates nobody; no
   trimming, no case folding, no near misses of id or secret.  A client assertion proves the
   identity of its issuer when it verifies (oracle verdict).  Written from the registrations
   (ground truth of the input), not from what the storage or the provider's helpers accept. *)
Definition proved_secret (cl : list client) (id sec : string) : bool :=
  match find_client cl id with
  | Some k => nonempty (c_secret k) && String.eqb (c_secret k) sec
  | None => false
  end.
Definition authenticated (cl : list client) (c : cred) : bool :=
  match c with
  | NoCred => false
  | Basic i s | Post i s | Both i s _ => proved_secret cl i s
  | Assertion who _ => match who with Some _ => true | None => false end
  end.
(* credentials every endpoint has to accept: a client registered for basic / post proves its
   non-empty secret, a public client (auth method none) names itself, a private_key_jwt client
   presents a verified assertion *)
Definition proper (cl : list client) (c : cred) : bool :=
  match c with
  | NoCred | Assertion None _ => false
  | Assertion (Some x) _ =>       (* a verified assertion of a client registered for private_key_jwt *)
      match find_client cl x with Some k => match c_auth k with AMPkjwt => true | _ => false end | None => false end
  | Basic i s | Post i s | Both i s _ =>
      match find_client cl i with
      | None => false
      | Some k => nonempty i
                  && match c_auth k with
                     | AMNone => match c with Post _ "" => true | _ => nonempty s && String.eqb (c_secret k) s end
                     | AMPkjwt => false
                     | _ => nonempty s && String.eqb (c_secret k) s
                     end
      end
  end.

(* Presented strings outside the theorems' domain (known finding Fxx-C08-1): a provider-signed
   JWT of the other kind than declared (JWT access token as id_token; a JWT without jti and
   sub as access_token), or a sealed string naming neither token nor subject. *)
Definition confused (typ : ttype) (t : tokstr) : bool :=
  match typ, t with
  | TId, Jwt _ _ _ (AT _ | RT _ | Junk) _ _ => true
  | TAccess, Jwt _ _ _ NoId "" _ => true
  | TAccess, Opq NoId "" => true
  | _, _ => false
  end.
Definition op_unconfused (o : op) : bool :=
  match o with
  | Exchange _ _ subj styp actor _ _ _ =>
      negb (confused styp subj) && match actor with Some (ta, atyp) => negb (confused atyp ta) | None => true end
  | _ => true
  end.
Definition expired_of (cl : list client) (cid : string) : bool :=
  match find_client cl cid with Some c => c_exp c | None => false end.

(* ---- the monitor's state: live access tokens and refresh tokens *)

Definition g_has_live (g : store) (n : nat) (p : trec -> bool) : bool :=
  match find_tok n (toks g) with
  | Some t => negb (tr_expired t) && p t
  | None => false
  end.

(* is the presented string a live token of the provider, of the declared type? *)
Definition own_live (g : store) (typ : ttype) (t : tokstr) : bool :=
  match typ with
  | TAccess => match as_access t with AT n => g_has_live g n (fun _ => true) | _ => false end
  | TRefresh => match t with
                | Raw (RT m) => match find_rt m (rtoks g) with Some _ => true | None => false end
                | _ => false
                end
  | TId => match t with
           | Jwt true true false NoId _ _ => true     (* a genuine, unexpired ID token (no jti); stateless *)
           | _ => false
           end
  | _ => false
  end.

(* A third-party token is valid IN THE ROLE it is presented in (actor = true: as actor token)
   exactly when its issuer vouches for it in that role - a token good as actor only is no subject
   token and vice versa - and only a provider whose storage verifies third-party tokens can know;
   it is declared id_token or jwt (it is neither an access nor a refresh token of this provider). *)
Definition ext_live (g : store) (actor : bool) (typ : ttype) (t : tokstr) : bool :=
  match t, typ with
  | Ext c _, (TId | TJwt) => p_verifier (policy g) && ext_accepts c actor
  | _, _ => false
  end.

(* the token presented in a role is a live token of the declared type *)
Definition subj_live (actor : bool) (g : store) (typ : ttype) (t : tokstr) : bool :=
  own_live g typ t || ext_live g actor typ t.

Definition actor_live (g : store) (actor : option (tokstr * ttype)) : bool :=
  match actor with None => true | Some (ta, typ) => subj_live true g typ ta end.

(* a successful revocation: the token the string stands for is gone, and with a refresh
   token its access token (storage contract) *)
Definition g_revoke (g : store) (id : sid) : store :=
  match id with
  | AT n => drop_at n g
  | RT m => match find_rt m (rtoks g) with Some r => drop_rt r g | None => g end
  | _ => g
  end.

(* whose session an accepted end_session request ends: the user a genuine id_token_hint names,
   else the user agent session's user if the provider's storage can tell (ua_user), for the
   client the hint / the client_id parameter names *)
Definition session_of (pol : tepolicy) (hint : option tokstr) (cid : string) : option (string * string) :=
  match hint with
  | None => Some (ua_user pol "", cid)
  | Some (Jwt true true _ _ sub azp) => Some (ua_user pol sub, azp)
  | Some _ => None
  end.

Definition gstep (cl : list client) (g : store) (o : op) (x : out) : store :=
  match o, x with
  | Issue _ cid sub scopes, OIssued (AT a) rt =>
      let t := TRec cid sub "" scopes [cid] (expired_of cl cid) in
      match rt with RT m => add_at_rt m a t g | _ => add_at a t g end
  | Exchange _ _ _ _ _ _ _ _, OExch _ (XOpaque (AT a) _ | XJwt (AT a) _ _ _) rt _ _ (Some t) =>
      match rt with RT m => add_at_rt m a t g | _ => add_at a t g end
  | Revoke _ _ t _, OOk => g_revoke g (denotes t)
  | EndSession _ hint cid, ORedirect =>
      match session_of (policy g) hint cid with Some (u, c) => terminate g u c | None => g end
  | _, _ => g
  end.

(* is the token a string stands for live and owned by somebody else than [who]? *)
Definition foreign_to (g : store) (id : sid) (who : string) : bool :=
  match id with
  | AT n => match find_tok n (toks g) with Some t => negb (String.eqb (tr_client t) who) | None => false end
  | RT m => match find_rt m (rtoks g) with Some r => negb (String.eqb (r_client r) who) | None => false end
  | _ => false
  end.

Definition check (cl : list client) (g : store) (o : op) (x : out) : bool :=
  match o, x with
  | _, OPanic => false
  | Issue _ _ _ _, (OIssued _ _ | OErr _ _) => true
  (* claims only for a live issued token, and they are that token's *)
  | UserInfo _ t, OInfo sub =>
      match as_access t with
      | AT n => g_has_live g n (fun tr => String.eqb sub "" || String.eqb sub (tr_sub tr))
      | _ => false
      end
  | UserInfo _ _, OErr _ _ => true
  (* active:true only for a live issued token, to a caller that proved a registered credential
     (authenticated) and is in the token's audience *)
  | Introspect _ c t, OIntro true sub client _ _ =>
      authenticated cl c &&
      match as_access t with
      | AT n => g_has_live g n (fun tr => string_in (cred_id c) (tr_aud tr) && String.eqb sub (tr_sub tr)
                                          && String.eqb client (tr_client tr))
      | _ => false
      end
  (* an inactive answer discloses nothing *)
  | Introspect _ _ _, OIntro false sub client scopes bare =>
      String.eqb sub "" && String.eqb client "" && match scopes with [] => true | _ => false end && bare
  | Introspect _ _ _, OErr _ _ => true
  (* another client's live token: refused; otherwise an authenticated caller gets 200
     (own token, unknown token, garbage) *)
  | Revoke _ c t _, OOk => negb (foreign_to g (denotes t) (cred_id c))
  | Revoke _ c t _, OErr _ _ => foreign_to g (denotes t) (cred_id c) || negb (proper cl c)
  (* a redirect reports a logout that happened: where the storage cannot end the session the
     request is about, answering 302 claims an effect that did not take place *)
  | EndSession _ hint cid, ORedirect =>
      match session_of (policy g) hint cid with
      | Some (_, c) => negb (logout_fails (policy g) c)
      | None => true
      end
  | EndSession _ _ _, OErr _ _ => true
  (* exchange accepts only live subject / actor tokens *)
  | Exchange _ _ subj styp actor _ _ _, OExch _ _ _ _ _ _ => subj_live false g styp subj && actor_live g actor
  | Exchange _ _ _ _ _ _ _ _, OErr _ _ => true
  | _, _ => false
  end.

Fixpoint spec_run (cl : list client) (g : store) (ops : list op) (xs : list out) : bool :=
  match ops, xs with
  | [], [] => true
  | o :: ops', x :: xs' => check cl g o x && spec_run cl (gstep cl g o x) ops' xs'
  | _, _ => false
  end.

Definition spec (i : input) (o : observed) : bool :=
  match i with Hist cl pol ops => spec_run cl (Store [] [] pol) (located (designated (p_kopts pol)) ops) o end.

Definition obs_eqb (a b : observed) : bool := list_eqb out_eqb a b.

(* decision-path class of a run: 0 = nothing was ever honoured *)
Definition out_code (x : out) : N :=
  match x with
  | OIssued _ (RT _) => 1 | OIssued _ _ => 2
  | OInfo _ => 3
  | OIntro true _ _ _ _ => 4 | OIntro false _ _ _ _ => 5
  | OOk => 6 | ORedirect => 7
  | OExch TAccess _ _ _ _ _ => 8 | OExch TRefresh _ _ _ _ _ => 9 | OExch _ _ _ _ _ _ => 10
  | OErr S400 _ => 11 | OErr S401 _ => 12 | OErr S403 _ => 13 | OErr S500 _ => 14 | OErr _ _ => 15
  | OPanic => 16
  end%N.
Definition positive (x : out) : bool :=
  match x with OInfo _ | OIntro true _ _ _ _ | OOk | ORedirect | OExch _ _ _ _ _ _ => true | _ => false end.
Definition path_of (xs : list out) : nat :=
  if existsb positive xs
  then 1 + N.to_nat (fold_left (fun a x => (a * 17 + out_code x) mod 997)%N xs 0%N)
  else 0.
Definition path (i : input) (o : observed) : nat := path_of o.

Definition case_mismatches := run_mismatches model obs_eqb.
Definition case_violations := run_violations spec.
Definition case_paths := run_paths model path.
