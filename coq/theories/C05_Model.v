(* C05: the guard prefix of the token, introspection, revocation and
   device-authorization handlers of zitadel/oidc, once per router, exactly as
   coded (pkg/op, with the fixes F03 F21 F22 Fxx-C05-1..3 applied).

   Go function                                   Gallina
   ------------------------------------------   -------------------------
   Exchange (token_request.go)                   p_token
   CodeExchange/AuthorizeCodeClient              p_code
   RefreshTokenExchange/AuthorizeRefreshClient   p_refresh
   ClientCredentialsExchange/Validate..Request   p_cc
   TokenExchange/ValidateTokenExchangeRequest    p_te
   JWTProfile                                    p_bearer
   deviceAccessToken (device.go)                 p_device
   ClientIDFromRequest/ClientBasicAuth/JWTAuth   client_id_from_request
   Introspect/ParseTokenIntrospectionRequest     p_introspect
   Revoke/ParseTokenRevocationRequest            p_revoke
   DeviceAuthorization/ParseDeviceCodeRequest    p_device_authz
   webServer.parseClientCredentials              parse_creds / l_parse
   LegacyServer.VerifyClient                     l_verify_client
   webServer.withClient                          l_with_client
   webServer.tokensHandler + LegacyServer.*      l_token
   introspectionHandler/authenticateResource..   l_introspect
   revocationHandler, deviceAuthorizationHandler l_revoke, l_device_authz
   AuthorizePrivateJWTKey                        private_jwt
   ValidateGrantType                             registered                *)
From OIDC Require Import Lib.

Inductive router := RProvider | RLegacy.
Inductive endpoint := EToken | EIntrospect | ERevoke | EDeviceAuthz.
Inductive amethod := MBasic | MPost | MPKJWT | MNone
                   | MOther.   (* Client.AuthMethod() returns a value outside the library's four constants: "" (unset),
                                  client_secret_jwt, tls_client_auth, an unknown string, a case variant of a constant.
                                  The client has a stored secret.  As coded every guard compares with the constants
                                  and falls through to the secret check: such a client is handled like
                                  client_secret_basic (also OIDC's default when the method is not registered). *)
Inductive apptype := AWeb | ANative | AUserAgent.
Inductive grant := GCode | GRefresh | GCC | GBearer | GTE | GDevice | GImplicit | GUnknown | GMissing.
Inductive seck := SRight | SWrong
                | SEmpty    (* the empty string: Basic "id:" / client_secret= *)
                | SBlank    (* not empty, but nothing except white space once the transport encoding is
                               removed: " ", tab, LF, CR LF, NBSP ... sent raw, as %20 %09 %0A ..., or as "+" *)
                | SNear.    (* a near miss of the right secret: surrounding white space, other letter case,
                               Unicode case-fold twins, a trailing slash, one byte more or fewer *)
(* where a near miss of X's client id travels *)
Inductive idslot := IdBasic | IdForm
                  | IdAssert.   (* issuer and subject of an otherwise valid client assertion signed with X's key *)
Inductive atype := TJWT | TNone | TWrong.   (* client_assertion_type: the jwt-bearer urn / absent / something else *)
Inductive assk := AOk | AWrongKey | AWrongAud
                | AJunk.   (* not a JWT at all *)

(* the registration of a second client Y: auth method; registered for every grant or for none *)
Record victim := mkV { v_meth : amethod; v_grants : bool }.

(* what the request carries as client credential *)
Inductive pres :=
| PNone                          (* nothing, not even client_id *)
| PIdOnly                        (* client_id in the form *)
| PBasic (s : seck) (pct : bool) (* Authorization: Basic id:secret, optionally %XX-encoded byte by byte *)
| PBasicBadEsc                   (* Basic with a malformed percent escape (%zz) *)
| PPost (s : seck)               (* client_id + client_secret in the form *)
| PAssert (a : assk)             (* client_assertion + client_assertion_type *)
| PAssertId (a : assk)           (* client_id=X + client_assertion + client_assertion_type *)
| PAssertTypeOnly                (* client_id + client_assertion_type, no client_assertion *)
| PAssertNoType                  (* valid client_assertion without client_assertion_type *)
| PAssertWrongType               (* valid client_assertion with another client_assertion_type *)
| PBoth (b p : seck)             (* Basic and form secret together *)
(* cross-client presentations: a second, confidential client Y ("victim", [victim_reg]) exists,
   the grant artefact of the case (code, refresh token, device code, token to introspect or
   revoke) belongs to Y, and the request mixes the case's client X with Y's id *)
| PXBasic (v : victim)           (* Basic X:right secret of X, client_id=Y in the form *)
| PXAssert (v : victim)          (* valid assertion of X, client_id=Y in the form *)
| PXPost (v : victim)            (* client_id=X + right client_secret of X in the form, Basic Y:wrong secret *)
| PXPostId (v : victim)          (* client_id=Y + right client_secret of X in the form *)
| PXDup (v : victim)             (* body: client_id=X + right client_secret of X; URL query: client_id=Y *)
(* v: how the second client Y is registered *)
(* the id sent is not X's id but a near miss of it (surrounding white space - raw, %XX or "+" -,
   other letter case, case-fold twins, trailing slash, one byte more or fewer, white space only,
   a keyword such as null): that string is nobody's id.  Sent as Basic id':s, as
   client_id=id' & client_secret=s (s = SEmpty: no secret), or as iss = sub = id' of a client
   assertion signed with X's key (no secret sent).  With the jwt-bearer grant the grant
   assertion is issued by id' as well. *)
| PNearId (sl : idslot) (s : seck)
(* a client assertion issued (iss) and signed by X whose subject (sub) is the second client Y; the grant
   artefact is Y's.  The client that authenticates is the one whose key signed: X. *)
| PXSub (v : victim).

Record cfg := mkCfg { f_post : bool; f_pkjwt : bool; f_refresh : bool;   (* op.Config flags *)
                      c_cc : bool; c_te : bool; c_dev : bool;            (* optional storage capabilities *)
                      c_jp : bool;     (* the provider object handed to NewLegacyServer has the optional method
                                          JWTProfileVerifier (interfaces ClientJWTProfile / JWTAuthorizationGrantExchanger,
                                          which the LegacyServer type-asserts); *op.Provider has it, a wrapper that embeds
                                          the OpenIDProvider interface does not.  The Provider's own router is built by
                                          the provider itself and always has it. *)
                      c_sub : bool }.  (* the JWT profile verifier the provider hands out (JWTProfileVerifier, overridden by
                                          a wrapper around the provider) is built with a custom op.SubjectCheck that lets
                                          iss <> sub pass (delegation); default: SubjectIsIssuer *)

Record reg := mkReg { r_known : bool;          (* the client id is registered at all *)
                      r_meth : amethod; r_app : apptype;
                      r_grants : list grant;   (* Client.GrantTypes() *)
                      r_key : bool }.          (* a public key is registered for the client *)

(* where the parameters travel: request body, URL query, or both *)
Inductive gplace := GPBody | GPQuery | GPBothSame
                  | GPBothDiff.  (* body: the grant; query: another grant_type *)
Inductive place := InBody | InQuery.
Record placement := mkPl { pl_grant : gplace;   (* grant_type *)
                           pl_client : place;   (* client_id, client_secret, client_assertion(_type) *)
                           pl_art : place }.    (* code, refresh_token, device_code, subject_token, token, ... *)

(* what the same provider instance served immediately before: nothing, an introspection
   request of a third client P with its full credential, or X's own fully credentialed request.  No guard keeps state between requests,
   so the model does not read it. *)
Inductive prevk := NoPrev | PrevAssert | PrevBasic | PrevPost
                | PrevSelf    (* X's own request on the same endpoint and grant, with the full credential of its
                                 registered method and an artefact of its own, immediately before *)
                | PrevOtherHost.   (* round 11: the provider derives its issuer from the request's host (IssuerFromHost); X's own
                                 fully credentialed request arrived at ANOTHER host of the same provider instance immediately
                                 before (its client assertion / grant assertion addressed to that host's issuer) *)

(* round 11: the state of the token the request carries - the token to introspect / to revoke, the grant assertion
   of the jwt-bearer grant.  ArtJunk: a string that does not decode (not an encrypted token id, not a JWT of this
   provider; a grant assertion that is no JWT).  ArtGone: well formed, but names nothing live (unknown / expired
   token id; a signed grant assertion that is expired or addressed to another issuer).  The other grants' artefacts
   (code, refresh_token, device_code, subject_token) are always live in the cases of this check. *)
Inductive artk := ArtOk | ArtJunk | ArtGone.
Definition art_ok (a : artk) : bool := match a with ArtOk => true | _ => false end.

Record input := mkInput { i_router : router; i_endpoint : endpoint; i_cfg : cfg;
                          i_reg : reg; i_pres : pres; i_grant : grant; i_pl : placement;
                          i_prev : prevk; i_art : artk }.

Inductive stclass := S1 | S2 | S3 | S4 | S5.
Inductive ecode := ENone | EInvalidRequest | EInvalidClient | EInvalidGrant | EUnauthorizedClient
                 | EUnsupportedGrantType | EServerError | EAccessDenied | EInvalidScope
                 | EOther      (* another code of the OAuth/OIDC vocabulary *)
                 | ENotOAuth   (* a JSON document whose error member is not in the vocabulary *)
                 | ENotJSON.   (* not a JSON document *)

Inductive result := Granted | Refused (s : stclass) (e : ecode)
                  | Inactive.   (* introspection: 200 with active:false *)

Definition grant_eqb (a b : grant) : bool :=
  match a, b with
  | GCode, GCode | GRefresh, GRefresh | GCC, GCC | GBearer, GBearer | GTE, GTE
  | GDevice, GDevice | GImplicit, GImplicit | GUnknown, GUnknown | GMissing, GMissing => true
  | _, _ => false
  end.

(* ---------------- C05_Storage: the part of the refstore contract (DESIGN 4.5) the guards rely on *)

Definition has_secret (m : amethod) : bool :=
  match m with MBasic | MPost | MOther => true | _ => false end.

(* Storage.AuthorizeClientIDSecret compares the presented with the stored secret; a client
   registered none / private_key_jwt has the empty string stored, so the EMPTY secret matches it
   (refstore, and the repository's example storage, compare "" == "") *)
Definition storage_secret_ok (rg : reg) (s : seck) : bool :=
  r_known rg && match s with
                | SRight => has_secret (r_meth rg)
                | SWrong => false
                | SEmpty => negb (has_secret (r_meth rg))
                | SBlank | SNear => false   (* compared byte by byte: " " is not "", "secret " is not "secret" *)
                end.
(* ClientBasicAuth and op.AuthorizeClientIDSecret refuse an empty secret before asking the
   storage (fix Fxx-C05-5) *)
Definition secret_ok (rg : reg) (s : seck) : bool :=
  match s with SEmpty => false | _ => storage_secret_ok rg s end.
(* ClientCredentialsStorage.ClientCredentials: refstore refuses clients without a secret *)
Definition cc_secret_ok (rg : reg) (s : seck) : bool :=
  r_known rg && has_secret (r_meth rg) && match s with SRight => true | _ => false end.

(* VerifyJWTAssertion over Storage.GetKeyByIDAndClientID: only an assertion addressed to the
   issuer and signed by a key registered for exactly that client verifies *)
Definition assertion_ok (rg : reg) (a : assk) : bool :=
  r_known rg && r_key rg && match a with AOk => true | _ => false end.

(* ValidateGrantType *)
Definition registered (rg : reg) (g : grant) : bool := existsb (grant_eqb g) (r_grants rg).

(* ---------------- cross-client presentations: which client and credential the parsers end up with *)

Definition all_grants := [GCode; GRefresh; GCC; GBearer; GTE; GDevice; GImplicit].
Definition victim_reg (v : victim) :=
  mkReg true (v_meth v) AWeb (if v_grants v then all_grants else []) false.
(* a near miss of X's id is the id of no registered client, and X's artefacts are not its *)
Definition nobody_reg := mkReg false MNone AWeb [] false.
Definition names_nobody (p : pres) : bool := match p with PNearId _ _ => true | _ => false end.

(* ---------------- which part of the request a guard reads.  http.Request.Form holds the body
   values followed by the URL query values, PostForm the body values only; Form.Get / FormValue
   take the first value (the body's when both are present), the schema decoder the last (the
   query's). *)
Inductive source := SForm | SPostForm.
Definition read_grant (src : source) (pl : gplace) (g : grant) : grant :=
  match src with
  | SForm => g
  | SPostForm => match pl with GPQuery => GMissing | _ => g end
  end.
Definition visible (src : source) (pl : place) : bool :=
  match src with
  | SForm => true
  | SPostForm => match pl with InQuery => false | InBody => true end
  end.
(* as coded: every guard of both routers reads Form, except ParseDeviceAccessTokenRequest *)
Definition src_dispatch_p := SForm.      (* Exchange: r.FormValue("grant_type") *)
Definition src_dispatch_l := SForm.      (* tokensHandler: r.Form.Get("grant_type") *)
Definition src_with_client := SForm.     (* withClient: r.Form.Get("grant_type") *)
Definition src_verify_client := SForm.   (* VerifyClient: r.Form.Get("grant_type") *)
Definition src_client := SForm.          (* every decoder of client_id / client_secret / client_assertion *)
Definition src_artefact := SForm.        (* every decoder of code, refresh_token, subject_token, token *)
Definition src_device_code_p := SPostForm. (* ParseDeviceAccessTokenRequest decodes r.PostForm *)

(* every parser lets Basic overwrite the form's client_id/client_secret and reads an assertion's
   issuer, so: PXBasic, PXAssert name X (with a valid credential of X); PXPost, PXPostId name Y
   (with a secret that is not Y's) *)
Definition names_other_client (p : pres) : option victim :=
  match p with PXPost v | PXPostId v | PXDup v => Some v | _ => None end.
(* a credential sent where the reading guard does not look is not there *)
Definition seen (src : source) (pl : place) (p : pres) : pres :=
  if visible src pl then p
  else match p with
       | PBasic _ _ | PBasicBadEsc => p          (* the header is always seen *)
       | PBoth b _ => PBasic b false
       | _ => PNone
       end.
Definition eff_pres (c : cfg) (p : pres) : pres :=
  match p with
  (* VerifyJWTAssertion: CheckSubject runs before the signature check; SubjectIsIssuer refuses the assertion,
     a permissive check lets it through and AuthorizePrivateJWTKey / ClientJWTAuth take the ISSUER *)
  | PXSub _ => PAssert (if c_sub c then AOk else AWrongKey)
  | PXBasic _ => PBasic SRight false
  | PXAssert _ => PAssert AOk
  | PXPost _ => PBasic SWrong false
  | PXPostId _ | PXDup _ => PPost SWrong   (* PXDup: the decoders take the last client_id, the query's *)
  | PNearId IdBasic s => PBasic s false
  | PNearId IdForm s => PPost s
  | PNearId IdAssert _ => PAssert AOk
  | _ => p
  end.
(* the artefact belongs to the client the request names *)
Definition own_artefact (p : pres) : bool :=
  match p with PXBasic _ | PXAssert _ | PNearId _ _ | PXSub _ => false | _ => true end.

(* ---------------- what the parsers see *)

(* Authorization header: None = absent, Some None = malformed escape, Some (Some s) = decoded *)
Definition basic_of (p : pres) : option (option seck) :=
  match p with
  | PBasic s _ => Some (Some s)
  | PBasicBadEsc => Some None
  | PBoth b _ => Some (Some b)
  | _ => None
  end.
Definition form_id (p : pres) : bool :=
  match p with PIdOnly | PPost _ | PBoth _ _ | PAssertTypeOnly | PAssertId _ => true | _ => false end.
(* an empty client_secret decodes like an absent one *)
Definition nonempty (s : seck) : option seck := match s with SEmpty => None | _ => Some s end.
Definition form_secret (p : pres) : option seck :=
  match p with PPost s => nonempty s | PBoth _ s => nonempty s | _ => None end.
Definition assertion_of (p : pres) : option assk :=
  match p with PAssert a | PAssertId a => Some a | PAssertNoType | PAssertWrongType => Some AOk | _ => None end.
Definition atype_of (p : pres) : atype :=
  match p with PAssert _ | PAssertId _ | PAssertTypeOnly => TJWT | PAssertWrongType => TWrong | _ => TNone end.
Definition is_jwt (t : atype) : bool := match t with TJWT => true | _ => false end.
(* VerifyJWTAssertion of the client_assertion field, which may be empty *)
Definition assertion_opt_ok (rg : reg) (o : option assk) : bool :=
  match o with Some a => assertion_ok rg a | None => false end.

(* client id and secret after the form was decoded and Basic, when present, overwrote them
   (ParseAuthenticatedTokenRequest, ParseClientCredentialsRequest, parseClientCredentials) *)
Inductive creds := CBad | CCreds (id : bool) (sec : option seck).
Definition parse_creds (p : pres) : creds :=
  match basic_of p with
  | Some None => CBad
  | Some (Some s) => CCreds true (nonempty s)
  | None => CCreds (form_id p) (form_secret p)
  end.

Definition secret_check (rg : reg) (sec : option seck) : bool :=
  match sec with Some s => secret_ok rg s | None => false end.

Definition cc_secret_check (rg : reg) (sec : option seck) : bool :=
  match sec with Some s => cc_secret_ok rg s | None => false end.

Definition r4 := Refused S4.
Definition r5 := Refused S5.

Definition is_pkjwt (m : amethod) := match m with MPKJWT => true | _ => false end.
Definition is_none (m : amethod) := match m with MNone => true | _ => false end.
Definition is_post (m : amethod) := match m with MPost => true | _ => false end.

(* AuthorizePrivateJWTKey; [raw] is how the caller renders an unclassified error *)
Definition private_jwt (rg : reg) (a : option assk) (raw : result) (k : result) : result :=
  if negb (assertion_opt_ok rg a) then raw
  else if negb (is_pkjwt (r_meth rg)) then r4 EInvalidClient
  else k.

(* the secret branch shared by AuthorizeCodeClient, AuthorizeRefreshClient, VerifyClient *)
Definition by_secret (c : cfg) (rg : reg) (sec : option seck) (k : result) : result :=
  match r_meth rg with
  | MPKJWT => r4 EInvalidClient
  | MNone => k
  | MPost => if negb (f_post c) then r4 EInvalidClient
             else if secret_check rg sec then k else r4 EInvalidClient
  | MBasic | MOther => if secret_check rg sec then k else r4 EInvalidClient
  end.

(* ---------------- Provider router (op.NewProvider(...).Handler) *)

Definition p_code (c : cfg) (rg : reg) (p : pres) (own : bool) : result :=
  let k := if negb own then r4 EInvalidGrant   (* client.GetID() != authReq.GetClientID() *)
           else if registered rg GCode then Granted else r4 EUnauthorizedClient in
  match parse_creds p with
  | CBad => r4 EInvalidClient
  | CCreds id sec =>
      if is_jwt (atype_of p) then   (* tokenReq.ClientAssertionType == jwt-bearer *)
        if negb (f_pkjwt c) then r4 EInvalidClient
        else private_jwt rg (assertion_of p) (r4 EServerError) k
      else if negb (id && r_known rg) then r4 EInvalidClient
      else by_secret c rg sec k
  end.

Definition p_refresh (c : cfg) (rg : reg) (p : pres) (own : bool) : result :=
  let ok := if own then Granted else r4 EInvalidGrant in
  match parse_creds p with
  | CBad => r4 EInvalidClient
  | CCreds id sec =>
      if is_jwt (atype_of p) then
        if negb (f_pkjwt c) then r4 EServerError
        else private_jwt rg (assertion_of p) (r4 EServerError)
               (if registered rg GRefresh then ok else r4 EUnauthorizedClient)
      else if negb (id && r_known rg) then r4 EServerError
      else if negb (registered rg GRefresh) then r4 EUnauthorizedClient
      else by_secret c rg sec ok
  end.

Definition p_cc (c : cfg) (rg : reg) (p : pres) : result :=
  match parse_creds p with
  | CBad => r4 EInvalidClient
  | CCreds id sec =>
      if negb (id && cc_secret_check rg sec) then r4 EInvalidClient
      else if negb (registered rg GCC) then r4 EUnauthorizedClient
      else if is_post (r_meth rg) && negb (f_post c) then r4 EInvalidClient
      else Granted
  end.

(* ParseTokenExchangeRequest reads the credentials from the Basic header only *)
Definition p_te (c : cfg) (rg : reg) (p : pres) : result :=
  match basic_of p with
  | Some None => r4 EInvalidClient
  | Some (Some s) =>
      if negb (secret_ok rg s) then r4 EInvalidClient
      else if is_post (r_meth rg) && negb (f_post c) then r4 EInvalidClient
      else if negb (registered rg GTE) then r4 EUnauthorizedClient
      else Granted
  | None => r4 EInvalidClient
  end.

(* the assertion is the grant: its issuer must have a registered key *)
Definition bearer_ok (rg : reg) (art : artk) : bool := r_known rg && r_key rg && art_ok art.
Definition p_bearer (rg : reg) (art : artk) : result :=
  if bearer_ok rg art then Granted else r4 EServerError.

Inductive cid := CidErr (r : result) | CidOk (authenticated by_assertion : bool).
Definition client_id_from_request (rg : reg) (p : pres) : cid :=
  match assertion_of p with
  | Some a => if assertion_ok rg a then CidOk true true else CidErr (r4 EUnauthorizedClient)
  | None =>
      match basic_of p with
      | Some None => CidErr (r4 EInvalidClient)
      | Some (Some s) => if secret_ok rg s then CidOk true false else CidErr (r4 EUnauthorizedClient)
      | None => if form_id p then CidOk false false else CidErr (r4 EInvalidClient)
      end
  end.

(* deviceClientAuthenticated (fix Fxx-C05-2) *)
Definition device_client_authenticated (c : cfg) (rg : reg) (au ba : bool) : bool :=
  match r_meth rg with
  | MNone => true
  | MPKJWT => au && ba && f_pkjwt c
  | MPost => au && negb ba && f_post c
  | MBasic | MOther => au && negb ba   (* the switch's default branch *)
  end.

(* no ValidateGrantType here: recorded finding Fxx-C05-4 *)
Definition p_device (c : cfg) (rg : reg) (p : pres) (art : place) (own : bool) : result :=
  match client_id_from_request rg p with
  | CidErr r => r
  | CidOk au ba =>
      (* GetDeviceAuthorizatonState(clientID, deviceCode); a device_code in the URL query is not read *)
      if negb own || negb (visible src_device_code_p art) then r4 EAccessDenied
      else if negb (r_known rg) then r4 EServerError
      else if device_client_authenticated c rg au ba then Granted else r4 EInvalidClient
  end.

Definition p_token (c : cfg) (rg : reg) (p : pres) (pl : placement) (g : grant) (own : bool) (art : artk) : result :=
  match read_grant src_dispatch_p (pl_grant pl) g with
  | GCode => p_code c rg p own
  | GRefresh => if f_refresh c then p_refresh c rg p own else r4 EUnsupportedGrantType
  | GBearer => p_bearer rg art
  | GTE => if c_te c then p_te c rg p else r4 EUnsupportedGrantType
  | GCC => if c_cc c then p_cc c rg p else r4 EUnsupportedGrantType
  | GDevice => if c_dev c then p_device c rg p (pl_art pl) own else r4 EUnsupportedGrantType
  | GMissing => r4 EInvalidRequest
  | GImplicit | GUnknown => r4 EUnsupportedGrantType
  end.

(* errors of the introspection endpoint are plain text 401; SetIntrospectionFromToken fails for a
   caller outside the token's audience.  The caller is authenticated FIRST (ParseTokenIntrospectionRequest);
   only then is the token decoded (getTokenIDAndSubject) and looked up: a token that does not decode or names
   nothing live is answered active:false - to an authenticated caller only *)
Definition p_introspect (rg : reg) (p : pres) (own : bool) (art : artk) : result :=
  match client_id_from_request rg p with
  | CidOk true _ => if own && art_ok art then Granted else Inactive
  | _ => r4 ENotJSON
  end.

(* Storage.RevokeToken refuses a token that belongs to another client; a token that does not decode or that the
   storage does not know is answered 200 with nothing revoked (RFC 7009 2.2) - [Inactive] - after the client
   authenticated *)
Definition revoke_outcome (own : bool) (art : artk) : result :=
  if art_ok art then (if own then Granted else r4 EInvalidClient) else Inactive.
Definition p_revoke (c : cfg) (rg : reg) (p : pres) (own : bool) (art : artk) : result :=
  let ok := revoke_outcome own art in
  if is_jwt (atype_of p) then   (* req.ClientAssertionType == jwt-bearer *)
    if negb (f_pkjwt c) then r4 EInvalidClient
    else if assertion_opt_ok rg (assertion_of p) then ok else r5 EServerError
  else
      match basic_of p with
      | Some None => r4 EInvalidClient
      | Some (Some s) => if secret_ok rg s then ok else r4 EInvalidClient
      | None =>
          if negb (form_id p && r_known rg) then r4 EInvalidClient
          else match form_secret p with
               | None => if is_none (r_meth rg) then ok else r4 EInvalidClient
               | Some s => if is_post (r_meth rg) && negb (f_post c) then r4 EInvalidClient
                           else if secret_ok rg s then ok else r4 EInvalidClient
               end
      end.

Definition p_device_authz (c : cfg) (rg : reg) (p : pres) : result :=
  match client_id_from_request rg p with
  | CidErr r => r
  | CidOk _ _ =>
      if negb (r_known rg) then r4 EServerError
      else if negb (registered rg GDevice) then r4 EUnauthorizedClient
      else if negb (c_dev c) then r4 EUnsupportedGrantType
      else Granted
  end.

(* ---------------- LegacyServer router (RegisterLegacyServer(NewLegacyServer(...))) *)

(* parseClientCredentials; k gets (client_id present, secret, assertion) *)
Definition l_parse (p : pres) (k : bool -> option seck -> option assk -> atype -> result) : result :=
  match parse_creds p with
  | CBad => r4 EInvalidClient
  | CCreds id sec =>
      match assertion_of p with
      | None => if id then k id sec None (atype_of p) else r4 EInvalidRequest
      | Some a => if is_jwt (atype_of p) then k id sec (Some a) TJWT
                  else r4 EInvalidRequest   (* invalid client_assertion_type *)
      end
  end.

(* LegacyServer.VerifyClient; [is_cc]: grant_type=client_credentials *)
Definition l_verify_client (c : cfg) (rg : reg) (is_cc : bool)
    (id : bool) (sec : option seck) (ass : option assk) (ty : atype) (k : result) : result :=
  if is_cc then
    if negb (c_cc c) then r4 EUnsupportedGrantType
    else if negb (id && cc_secret_check rg sec) then r5 EServerError
    else if is_post (r_meth rg) && negb (f_post c) then r4 EInvalidClient
    else k
  else if is_jwt ty then   (* r.Data.ClientAssertionType == jwt-bearer *)
    if negb (c_jp c && f_pkjwt c) then r4 EInvalidClient   (* provider.(JWTAuthorizationGrantExchanger) *)
    else private_jwt rg ass (r5 EServerError) k
  else if negb (id && r_known rg) then r4 EInvalidClient
  else by_secret c rg sec k.

(* webServer.withClient: verifyRequestClient, then the grant registration when grant_type is sent *)
(* [g]: the grant_type parameter as sent (GMissing: none), [gp] where it travels *)
Definition l_with_client (c : cfg) (rg : reg) (p : pres) (gp : gplace) (g : grant) (k : result) : result :=
  l_parse p (fun id sec ass ty =>
    l_verify_client c rg (match read_grant src_verify_client gp g with GCC => true | _ => false end) id sec ass ty
      (match read_grant src_with_client gp g with
       | GMissing => k
       | g' => if registered rg g' then k else r4 EUnauthorizedClient
       end)).

Definition l_token (c : cfg) (rg : reg) (p : pres) (pl : placement) (g : grant) (own : bool) (art : artk) : result :=
  let gp := pl_grant pl in
  match read_grant src_dispatch_l gp g with
  | GCode => l_with_client c rg p gp g (if own then Granted else r4 EInvalidGrant)
  | GRefresh => l_with_client c rg p gp g
                  (if negb (f_refresh c) then r4 EUnsupportedGrantType
                   else if own then Granted else r4 EInvalidGrant)
  | GCC => l_with_client c rg p gp g
                  (if is_none (r_meth rg) then r4 EInvalidClient else Granted)
  | GBearer => if negb (c_jp c) then r4 EUnsupportedGrantType   (* provider.(JWTAuthorizationGrantExchanger) *)
               else if bearer_ok rg art then Granted else r4 EInvalidRequest
  | GTE => l_with_client c rg p gp g
                  (if is_none (r_meth rg) then r4 EInvalidClient
                   else if c_te c then Granted else r4 EUnsupportedGrantType)
  | GDevice => l_with_client c rg p gp g
                  (if negb (c_dev c) then r4 EUnsupportedGrantType
                   else if own then Granted else r4 EAccessDenied)
  | GMissing => r4 EInvalidRequest
  | GImplicit | GUnknown => r4 EUnsupportedGrantType
  end.

Definition l_introspect (c : cfg) (rg : reg) (p : pres) (own : bool) (art : artk) : result :=
  let ok := if own && art_ok art then Granted else Inactive in
  l_parse p (fun id sec ass ty =>
    match ass with
    | Some a => if negb (c_jp c) then r4 EInvalidClient   (* provider.(ClientJWTProfile): an assertion is never
                                                              passed on to the secret check *)
                else if assertion_ok rg a then ok else r4 EUnauthorizedClient
    | None => match sec with
              | None => r4 EInvalidClient   (* cc.ClientSecret == "" && cc.ClientAssertion == "" *)
              | Some s => (* authenticateResourceClient asks the storage directly *)
                          if storage_secret_ok rg s then ok else r4 EUnauthorizedClient
              end
    end).

Definition l_revoke (c : cfg) (rg : reg) (p : pres) (own : bool) (art : artk) : result :=
  l_with_client c rg p GPBody GMissing (revoke_outcome own art).

Definition l_device_authz (c : cfg) (rg : reg) (p : pres) : result :=
  l_with_client c rg p GPBody GMissing
    (if negb (registered rg GDevice) then r4 EUnauthorizedClient
     else if negb (c_dev c) then r5 EUnsupportedGrantType
     else Granted).

(* ---------------- both routers *)

(* [rg], [p]: the client and credential the request names; [own]: the grant artefact belongs to it *)
Definition authenticate (r : router) (e : endpoint) (c : cfg) (rg : reg) (p0 : pres) (pl : placement)
    (g : grant) (own : bool) (art : artk) : result :=
  let p := seen src_client (pl_client pl) p0 in
  match r, e with
  | RProvider, EToken => p_token c rg p pl g own art
  | RProvider, EIntrospect => p_introspect rg p own art
  | RProvider, ERevoke => p_revoke c rg p own art
  | RProvider, EDeviceAuthz => p_device_authz c rg p
  | RLegacy, EToken => l_token c rg p pl g own art
  | RLegacy, EIntrospect => l_introspect c rg p own art
  | RLegacy, ERevoke => l_revoke c rg p own art
  | RLegacy, EDeviceAuthz => l_device_authz c rg p
  end.
