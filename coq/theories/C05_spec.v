(* C05: case vocabulary, model runner and the property predicate.
   The predicate is written from the property text and DESIGN Appendix D; it uses only the
   ground truth of the input (who is registered how, what was presented) and never the model. *)
From OIDC Require Import Lib.
From OIDC Require Export C05_Model.

(* the client a request turned out to act for: the owner of a token / device code created by
   it, of the token it revoked, of the token it reported active *)
Inductive who := WNone | WSelf (* the case's client X *) | WOther (* anybody else, e.g. the victim Y *).

Inductive observed :=
| ORes (s : stclass) (e : ecode) (tok act : bool) (w : who)
    (* status class; error member of the JSON body; body carries a token / device code;
       introspection said active:true, or the token sent to revocation is gone; acted for *)
| OPanic
| ODouble.   (* WriteHeader called twice *)

Definition issues_token (e : endpoint) := match e with EToken | EDeviceAuthz => true | _ => false end.
Definition has_effect (e : endpoint) := match e with EIntrospect | ERevoke => true | _ => false end.

(* the jwt-bearer grant reads no client credential: its assertion (issued by X in every case) is
   all that counts *)
Definition by_grant_assertion (i : input) : bool :=
  match i_endpoint i, i_grant i with EToken, GBearer => true | _, _ => false end.

Definition model (i : input) : observed :=
  let other := if by_grant_assertion i then None else names_other_client (i_pres i) in
  match authenticate (i_router i) (i_endpoint i) (i_cfg i)
          (match other with
           | Some v => victim_reg v
           | None => if names_nobody (i_pres i) then nobody_reg else i_reg i
           end)
          (eff_pres (i_cfg i) (i_pres i)) (i_pl i) (i_grant i) (own_artefact (i_pres i)) (i_art i) with
  | Granted => ORes S2 ENone (issues_token (i_endpoint i)) (has_effect (i_endpoint i))
                    (match other with Some _ => WOther | None => WSelf end)
  | Refused s e => ORes s e false false WNone
  | Inactive => ORes S2 ENone false false WNone
  end.

(* ---------------- the property *)

Definition presents_right_secret (p : pres) : bool :=
  match p with
  | PBasic SRight _ | PPost SRight | PBoth SRight _ | PBoth _ SRight => true
  | PXBasic _ | PXPost _ | PXPostId _ | PXDup _ => true   (* X's secret is in the request *)
  | _ => false
  end.
Definition presents_ok_assertion (p : pres) : bool :=
  match p with
  | PAssert AOk | PAssertId AOk | PAssertNoType | PAssertWrongType | PXAssert _ => true
  | PXSub _ => true   (* issued and signed by X: it is X that may be authenticated by it, never its subject Y *)
  | _ => false
  end.
(* [presents_right_secret]: the exact secret of X next to the exact id of X; a white-space-only or
   near-miss secret is not it, nor is X's secret next to a near miss of X's id *)
(* the request names X: a near miss of X's id names nobody *)
Definition identifies (p : pres) : bool := match p with PNone | PNearId _ _ => false | _ => true end.

(* Where X's exact secret travels (round 11).  The property text: "correct secret via Basic or - if
   enabled - POST".  [secret_in_basic]: in the Authorization header; [secret_in_form]: as the
   client_secret parameter (request body, or wherever the form parameters of the case travel). *)
Definition secret_in_basic (p : pres) : bool :=
  match p with PBasic SRight _ | PBoth SRight _ | PXBasic _ => true | _ => false end.
Definition secret_in_form (p : pres) : bool :=
  match p with
  | PPost SRight | PBoth _ SRight => true
  | PXPost _ | PXPostId _ | PXDup _ => true
  | _ => false
  end.
(* the secret arrives by a transport the provider has enabled: Basic always, the form only when
   Config.AuthMethodPost is on - whatever method the client is registered with *)
Definition secret_as_enabled (c : cfg) (p : pres) : bool :=
  secret_in_basic p || (f_post c && secret_in_form p).

(* "authenticated in the way it is registered" (Appendix D) *)
Definition cred_valid (c : cfg) (rg : reg) (p : pres) (public_allowed : bool) : bool :=
  r_known rg &&
  match r_meth rg with
  | MBasic | MOther => secret_as_enabled c p     (* MOther: a method the library does not know, read as the default
                                                     client_secret_basic - never less than the client's secret *)
  | MPost => presents_right_secret p && f_post c
  | MPKJWT => presents_ok_assertion p && r_key rg && f_pkjwt c
  | MNone => public_allowed && identifies p
  end.

(* grants a public client may use without a secret *)
Definition grant_public (g : grant) : bool :=
  match g with GCode | GRefresh | GDevice => true | _ => false end.

(* provider flag / storage capability of a grant *)
Definition capability (c : cfg) (g : grant) : bool :=
  match g with
  | GCode | GBearer => true
  | GRefresh => f_refresh c
  | GCC => c_cc c
  | GTE => c_te c
  | GDevice => c_dev c
  | GImplicit | GUnknown | GMissing => false
  end.

(* jwt-bearer: the grant assertion is the credential (signed by a key registered for its
   issuer); the library has no op.Client on that path, so no grant registration applies *)
Definition token_justified (c : cfg) (rg : reg) (p : pres) (g : grant) : bool :=
  match g with
  | GBearer => r_known rg && r_key rg && negb (names_nobody p)   (* ... issued by X, not by a near miss of X's id *)
  | _ => capability c g && registered rg g && cred_valid c rg p (grant_public g)
  end.

(* the caller proved possession of a credential registered for it *)
Definition authenticated (rg : reg) (p : pres) : bool :=
  r_known rg && ((has_secret (r_meth rg) && presents_right_secret p)
                 || (r_key rg && presents_ok_assertion p)).

Definition introspect_justified (rg : reg) (p : pres) : bool := authenticated rg p.
Definition revoke_justified (rg : reg) (p : pres) : bool :=
  authenticated rg p || (r_known rg && is_none (r_meth rg) && identifies p).
Definition device_authz_justified (rg : reg) (p : pres) : bool :=
  r_known rg && identifies p && registered rg GDevice.

Definition justified (i : input) : bool :=
  match i_endpoint i with
  | EToken => token_justified (i_cfg i) (i_reg i) (i_pres i) (i_grant i)
  | EIntrospect => introspect_justified (i_reg i) (i_pres i)
  | ERevoke => revoke_justified (i_reg i) (i_pres i)
  | EDeviceAuthz => device_authz_justified (i_reg i) (i_pres i)
  end.

Definition oauth_code (e : ecode) : bool :=
  match e with ENone | ENotOAuth | ENotJSON => false | _ => true end.

(* a refusal: status >= 400, nothing issued, nothing disclosed or done; on the token endpoint an
   OAuth error document *)
Definition refusal_shape (ep : endpoint) (s : stclass) (e : ecode) (tok act : bool) (w : who) : bool :=
  match s with S4 | S5 => true | _ => false end
  && negb tok && negb act && match w with WNone => true | _ => false end
  && match ep with EToken => oauth_code e | _ => true end.

(* the request carries the id of a second client Y, registered with that method *)
Definition victim_of (p : pres) : option victim :=
  match p with
  | PXBasic v | PXAssert v | PXPost v | PXPostId v | PXDup v | PXSub v => Some v
  | _ => None
  end.
(* ... in the slot that names the client (Basic before form; of two client_id values the last) *)
Definition names_other (p : pres) : bool :=
  match p with PXPost _ | PXPostId _ | PXDup _ => true | _ => false end.

(* acting for another client than X must be justified by THAT client's registration and
   credential. No credential of Y is ever in the request, Y is merely named: so exactly what the
   property grants a client that only identifies itself (a public Y on the grants that admit
   public clients and on revocation; a device code for any known Y registered for the grant) *)
Definition other_justified (i : input) : bool :=
  match victim_of (i_pres i) with
  | Some v => justified (mkInput (i_router i) (i_endpoint i) (i_cfg i) (victim_reg v) PIdOnly
                                  (i_grant i) (i_pl i) (i_prev i) (i_art i))
  | None => false
  end.

(* 2xx: justified by the registration and credential of the client the request acted for *)
Definition spec (i : input) (o : observed) : bool :=
  match o with
  | OPanic | ODouble => false
  | ORes S2 e tok act w => match e with ENone => true | _ => false end
                           && match w with
                              | WOther => other_justified i
                              | WSelf => justified i
                              (* a success document that did nothing for anybody (active:false; 200 for a token that
                                 is not there to revoke): justified by the client the request names, X or Y *)
                              | WNone => justified i || other_justified i
                              end
  | ORes s e tok act w => refusal_shape (i_endpoint i) s e tok act w
  end.

(* ---------------- comparison, path classes *)

Definition st_n (s : stclass) : nat := match s with S1 => 1 | S2 => 2 | S3 => 3 | S4 => 4 | S5 => 5 end.
Definition ec_n (e : ecode) : nat :=
  match e with
  | ENone => 0 | EInvalidRequest => 1 | EInvalidClient => 2 | EInvalidGrant => 3
  | EUnauthorizedClient => 4 | EUnsupportedGrantType => 5 | EServerError => 6 | EAccessDenied => 7
  | EInvalidScope => 8 | EOther => 9 | ENotOAuth => 10 | ENotJSON => 11
  end.

Definition who_n (w : who) : nat := match w with WNone => 0 | WSelf => 1 | WOther => 2 end.

Definition obs_eqb (a b : observed) : bool :=
  match a, b with
  | ORes s1 e1 t1 a1 w1, ORes s2 e2 t2 a2 w2 =>
      Nat.eqb (st_n s1) (st_n s2) && Nat.eqb (ec_n e1) (ec_n e2) && Bool.eqb t1 t2 && Bool.eqb a1 a2
      && Nat.eqb (who_n w1) (who_n w2)
  | OPanic, OPanic | ODouble, ODouble => true
  | _, _ => false
  end.

Definition ep_n (e : endpoint) : nat :=
  match e with EToken => 0 | EIntrospect => 1 | ERevoke => 2 | EDeviceAuthz => 3 end.

(* 0 = the request dies at the first guard (no client named, malformed header, grant_type not
   dispatched); otherwise endpoint x outcome of the model *)
Definition path (i : input) (o : observed) : nat :=
  let trivial :=
    match i_pres i with PNone | PBasicBadEsc => true | _ => false end
    || match i_endpoint i, i_grant i with
       | EToken, (GMissing | GImplicit | GUnknown) => true
       | _, _ => false
       end in
  if trivial then 0
  else match o with
       | ORes s e _ _ _ => 1 + ep_n (i_endpoint i) + 4 * (ec_n e + 12 * match s with S5 => 1 | _ => 0 end)
       | _ => 0
       end.

Definition case_mismatches := run_mismatches model obs_eqb.
Definition case_violations := run_violations spec.
Definition case_paths := run_paths model path.
