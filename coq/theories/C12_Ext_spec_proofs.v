(* C12, round 11: the property predicate holds on the extension model for every
   input; closes spec_model_codec (C12_codec_spec_holds) over the extended types. *)
From OIDC Require Import Lib Base64 Cipher C12_spec C12_Codec_proofs C12_Ext_proofs C12_proofs.

Ltac split_andb :=
  match goal with |- andb _ _ = true => apply andb_true_iff; split end.

(* ---------- round 11: the predicate holds on the extension model ---------- *)
Lemma ostrs_eqb_refl o : ostrs_eqb o o = true.
Proof. destruct o; cbn; [apply strs_eqb_refl | reflexivity]. Qed.

Lemma parse_spec_ok e s v :
  enum_parse e s = Some v ->
  match declared e v with Some nm => ci_eq s nm = true | None => False end.
Proof.
  intros H. apply enum_parse_sound in H as [R E].
  pose proof (in_range_cases e v R) as C.
  assert (D : declared e v = Some (enum_string e v))
    by (destruct e; repeat destruct C as [C | C]; subst; reflexivity).
  rewrite D. unfold ci_eq. rewrite E, seqb_refl. reflexivity.
Qed.

Lemma parse_none_not_name e s : enum_parse e s = None -> string_in s (enum_names e) = false.
Proof.
  intros H. destruct (string_in s (enum_names e)) eqn:E; [| reflexivity].
  apply enum_exact_name_accepted in E as [v [P _]]. congruence.
Qed.

Lemma spec_model_ext x : xspec x (xmodel x) = true.
Proof.
  destruct x as [iss sub aud es en jti sid skew now | vals claims | intro a | init d | l | s n | ts | now
                | iss claims key | e n | e init src | e | a b ma mb].
  - (* NewLogoutTokenClaims *)
    cbn [xmodel xspec new_logout].
    repeat split_andb; try apply seqb_refl; try apply strs_eqb_refl.
    + unfold from_time, at_ns, is_zero_time, zero_sec, giga. cbn [fst snd].
      destruct (_ && _); apply Z.eqb_refl.
    + unfold from_time, is_zero_time, zero_sec. destruct (_ && _); apply Z.eqb_refl.
    + reflexivity.
    + pose proof (spec_model_round (O [] [] []) TLogout (new_logout iss sub aud es en jti sid skew now) []) as R.
      cbn [model spec] in R. apply andb_true_iff in R as [R _]. exact R.
  - (* GetUserInfo *)
    cbn [xmodel xspec].
    destruct (List.length vals =? List.length (schema_of TID)) eqn:L; [| reflexivity].
    cbn [negb orb].
    assert (Ha : In (fo "address" KAddr) (schema_of TUserInfo)).
    { unfold schema_of. apply in_or_app. right. apply in_or_app. right.
      unfold sch_email_phone_addr. repeat (first [left; reflexivity | right]). }
    repeat split_andb.
    + unfold get_userinfo. cbn [fst]. rewrite map_length. apply Nat.eqb_refl.
    + apply forallb_forall. intros f Hin. rewrite getuserinfo_members by exact Hin. apply fval_eqb_refl.
    + apply obj_eqb_refl.
    + reflexivity.
    + pose proof (getuserinfo_members vals claims (fo "address" KAddr) (VAddr None) Ha) as G.
      cbn [fname fkind fo zero_of] in G. rewrite G.
      destruct (get_val "address" (schema_of TID) vals (VAddr None)) as [? | ? | ? | ? | ? | ? | [ad |] | ?];
        cbn [get_address the_addr]; apply addr_eqb_refl.
  - (* GetAddress *)
    cbn [xmodel xspec]. destruct a; apply addr_eqb_refl.
  - (* SpaceDelimitedArray.Scan *)
    cbn [xmodel xspec]. pose proof (sda_scan_total init d) as T.
    destruct d; try (rewrite T; cbn [fst snd]; try reflexivity; rewrite ostrs_eqb_refl; reflexivity).
    + destruct T as [l0 [E [H1 H2]]]. rewrite E. cbn [fst snd andb olist].
      destruct (String.eqb s "") eqn:Es.
      * apply seqb_eq in Es. subst. now rewrite (H1 eq_refl).
      * apply seqb_neq in Es. rewrite (H2 Es). apply seqb_refl.
    + destruct T as [l0 [E [H1 H2]]]. rewrite E. cbn [fst snd andb olist].
      destruct (String.eqb s "") eqn:Es.
      * apply seqb_eq in Es. subst. now rewrite (H1 eq_refl).
      * apply seqb_neq in Es. rewrite (H2 Es). apply seqb_refl.
  - (* Value, then Scan *)
    cbn [xmodel xspec]. unfold sda_value at 1. fold (olist l). rewrite seqb_refl. cbn [andb].
    destruct (forallb space_free (olist l)) eqn:SF; [| reflexivity]. cbn [negb orb].
    destruct l as [[| x [| y r]] |]; try reflexivity.
    + destruct x as [| c x']; [reflexivity |].
      destruct (sda_value_scan (Some ["#"]) [String c x'] SF) as [E1 E2]; try discriminate.
      rewrite E1, E2. cbn [fst snd olist]. now rewrite strs_eqb_refl.
    + destruct (sda_value_scan (Some ["#"]) (x :: y :: r) SF) as [E1 E2]; try discriminate.
      rewrite E1, E2. cbn [fst snd olist]. now rewrite strs_eqb_refl.
  - cbn [xmodel xspec]. unfold from_time, is_zero_time, zero_sec. destruct (_ && _); apply Z.eqb_refl.
  - cbn [xmodel xspec]. unfold as_time. destruct (ts =? 0)%Z; cbn [fst snd]; [reflexivity |].
    now rewrite !Z.eqb_refl.
  - cbn [xmodel xspec]. unfold now_time, from_time, at_ns, is_zero_time, zero_sec, giga. cbn [fst snd].
    destruct (_ && _); apply Z.eqb_refl.
  - (* getters *)
    cbn [xmodel xspec]. rewrite !seqb_refl. cbn [andb]. unfold custom_claim.
    destruct (lookup key claims) as [[] |]; try reflexivity; apply opt_json_eqb_refl.
  - (* enum: String and the marshalers *)
    destruct (enum_in_range e n) eqn:R.
    + pose proof (in_range_cases e n R) as C.
      destruct e; repeat destruct C as [C | C]; subst; reflexivity.
    + cbn [xmodel xspec option_eqb json_eqb dyn_eqb]. rewrite !seqb_refl. cbn [andb].
      destruct (enum_out_of_range e n R) as [P N].
      assert (D : declared e n = None).
      { unfold declared. unfold enum_in_range, enum_count in R. now rewrite R. }
      rewrite D, R, P, N. reflexivity.
  - (* enum: the unmarshalers *)
    cbn [xmodel xspec].
    assert (A : forall s src', src_says src' = Some s -> src_plain src' = Some s ->
              let r := assign_parse e s in
              (if fst r then match src_says src' with
                             | Some s0 => match declared e (snd r) with Some nm => ci_eq s0 nm | None => false end
                             | None => false end
               else ((snd r =? init)%Z || (snd r =? 0)%Z) &&
                    match src_plain src' with Some s0 => negb (string_in s0 (enum_names e)) | None => true end) = true).
    { intros s src' Hs Hp. unfold assign_parse. rewrite Hs, Hp.
      destruct (enum_parse e s) as [v |] eqn:P; cbn [fst snd].
      - apply parse_spec_ok in P. destruct (declared e v); [exact P | contradiction].
      - rewrite (parse_none_not_name e s P). now rewrite orb_true_r. }
    assert (B : forall s src', src_says src' = Some s -> (src_plain src' = Some s \/ src_plain src' = None) ->
              let r := match enum_parse e s with Some v => (true, v) | None => (false, init) end in
              (if fst r then match src_says src' with
                             | Some s0 => match declared e (snd r) with Some nm => ci_eq s0 nm | None => false end
                             | None => false end
               else ((snd r =? init)%Z || (snd r =? 0)%Z) &&
                    match src_plain src' with Some s0 => negb (string_in s0 (enum_names e)) | None => true end) = true).
    { intros s src' Hs Hp. rewrite Hs.
      destruct (enum_parse e s) as [v |] eqn:P; cbn [fst snd].
      - apply parse_spec_ok in P. destruct (declared e v); [exact P | contradiction].
      - rewrite Z.eqb_refl. cbn [orb andb]. destruct Hp as [-> | ->]; [| reflexivity].
        now rewrite (parse_none_not_name e s P). }
    destruct src as [s | s | [] s | d | d | j]; cbn [enum_unmarshal].
    + exact (A s (SName s) eq_refl eq_refl).
    + exact (A s (SText s) eq_refl eq_refl).
    + exact (A s (SYaml true s) eq_refl eq_refl).
    + cbn. now rewrite Z.eqb_refl.
    + destruct d; try (cbn; now rewrite Z.eqb_refl). exact (A s (SGql (DStr s)) eq_refl eq_refl).
    + destruct d; try (cbn; now rewrite Z.eqb_refl).
      * exact (B s (SScan (DStr s)) eq_refl (or_introl eq_refl)).
      * exact (B s (SScan (DBytes s)) eq_refl (or_introl eq_refl)).
      * exact (B s (SScan (DStringer s)) eq_refl (or_intror eq_refl)).
    + destruct j; try (cbn; now rewrite Z.eqb_refl).
      * assert (P : enum_parse e "" = None) by (destruct e; reflexivity).
        unfold assign_parse. rewrite P. cbn. now rewrite orb_true_r.
      * exact (A s (SJson (JStr s)) eq_refl eq_refl).
  - destruct e; reflexivity.
  - (* ConcatenateJSON *)
    cbn [xmodel xspec]. destruct ma as [xo |]; [| reflexivity]. destruct mb as [yo |]; [| reflexivity].
    destruct (nodupb (keys xo) && nodupb (keys yo) && ends_with "}"%char a && starts_with "{"%char b) eqn:G;
      [| reflexivity].
    apply andb_true_iff in G as [G Hs]. apply andb_true_iff in G as [G He].
    apply andb_true_iff in G as [Hx Hy]. apply nodupb_sound in Hx. apply nodupb_sound in Hy.
    assert (F : exists t, fst (concat_json a b) = Some t).
    { unfold concat_json. rewrite He, Hs. cbn [negb].
      destruct (String.length a =? 2); [eexists; reflexivity |].
      destruct (String.length b =? 2); eexists; reflexivity. }
    destruct F as [t F]. rewrite F.
    repeat split_andb; apply forallb_forall; intros [k v] Hin; cbn [fst snd].
    + rewrite (concat_second_wins xo yo k Hx Hy), (in_lookup_nodup k v yo Hy Hin). apply opt_json_eqb_refl.
    + rewrite (concat_second_wins xo yo k Hx Hy).
      destruct (lookup k yo) as [w |] eqn:Ly.
      * now rewrite (lookup_in_keys k yo w Ly).
      * rewrite (in_lookup_nodup k v xo Hx Hin), opt_json_eqb_refl. apply orb_true_r.
    + unfold members_obj in Hin. apply in_overlay in Hin as [Hin | []].
      apply in_app_or in Hin as [Hin | Hin].
      * rewrite (in_lookup_nodup k v xo Hx Hin), opt_json_eqb_refl. apply orb_true_r.
      * now rewrite (in_lookup_nodup k v yo Hy Hin), opt_json_eqb_refl.
Qed.


Lemma spec_model_codec i : is_codec i = true -> spec i (model i) = true.
Proof. apply spec_model_codec_core, spec_model_ext. Qed.
