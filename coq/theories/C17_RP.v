(* C17: relying-party login / callback handlers over a symbolic cookie MAC.

   Go                                              Gallina
   httphelper.CookieHandler.SetCookie              Mac key name value      (gorilla/securecookie.Encode)
   CookieHandler.CheckCookie / securecookie.Decode check_cookie / decode
   CookieHandler.CheckQueryCookie                  the state comparison in [callback]
   CookieHandler.DeleteCookie                      (name, None) in an event's cookie list
   the browser's cookie jar                        jar, jar_apply
   rp.AuthURLHandler + GenerateAndStoreCodeChallenge + rp.AuthURL + oauth2.Config.AuthCodeURL
                                                   start_login, auth_params
   rp.CodeExchangeHandler + tryReadStateCookie + oauth2.Config.Exchange
                                                   callback
   oidc.NewSHACodeChallenge                        H (Section variable)

   No proofs in this file. *)
From OIDC Require Import Lib.

(* ---- cookies ---- *)

(* A cookie value is either what some CookieHandler (identified by its key
   material, a small number) minted for a cookie name and a plaintext value,
   or anything else (truncated, bit-flipped, random ...).  Free constructor:
   decoding succeeds iff same key and same name.  This is the symbolic
   (Dolev-Yao) reading of securecookie's HMAC over "name|date|value". *)
Inductive cval :=
| Mac (k : nat) (name value : string)
| Junk (label : string).

Definition decode (k : nat) (name : string) (c : cval) : option string :=
  match c with
  | Mac k' n v => if Nat.eqb k k' && String.eqb n name then Some v else None
  | Junk _ => None
  end.

(* browser jar: ordered (name, value) list; http.Request.Cookie returns the first match *)
Definition jar := list (string * cval).

Fixpoint jar_get (n : string) (j : jar) : option cval :=
  match j with
  | [] => None
  | (m, c) :: r => if String.eqb m n then Some c else jar_get n r
  end.

Definition jar_del (n : string) (j : jar) : jar :=
  filter (fun e => negb (String.eqb (fst e) n)) j.

Definition jar_set (n : string) (c : cval) (j : jar) : jar := jar_del n j ++ [(n, c)].

(* what a response does to the jar: Set-Cookie headers in order; None = MaxAge<0 (delete) *)
Definition cookie_cmd := (string * option cval)%type.

Definition jar_apply1 (j : jar) (e : cookie_cmd) : jar :=
  match snd e with
  | Some c => jar_set (fst e) c j
  | None => jar_del (fst e) j
  end.

Definition jar_apply (j : jar) (cs : list cookie_cmd) : jar := fold_left jar_apply1 cs j.

(* CookieHandler.CheckCookie *)
Definition check_cookie (k : nat) (name : string) (j : jar) : option string :=
  match jar_get name j with
  | Some c => decode k name c
  | None => None
  end.

(* ---- parameter lists (url.Values with Set semantics / Request.FormValue) ---- *)

Definition params := list (string * string).

Fixpoint plookup (k : string) (l : params) : option string :=
  match l with
  | [] => None
  | (k', v) :: r => if String.eqb k' k then Some v else plookup k r
  end.

Fixpoint pset (k v : string) (l : params) : params :=
  match l with
  | [] => [(k, v)]
  | (k', v') :: r => if String.eqb k' k then (k, v) :: r else (k', v') :: pset k v r
  end.

(* r.FormValue: first value, "" when absent *)
Definition form (q : params) (k : string) : string :=
  match plookup k q with Some v => v | None => "" end.

Definition is_empty (s : string) : bool := String.eqb s "".

(* ---- configuration of the relying party ---- *)

Record config := Cfg {
  c_key : nat;                 (* key material of its CookieHandler *)
  c_pkce : bool;               (* rp.WithPKCE *)
  c_jwt : bool;                (* rp.WithJWTProfile: client_assertion on the token request *)
  c_client : string;
  c_redirect : string;
  c_scopes : list string;
  c_auth : string;             (* authorization endpoint, no query part *)
  c_extra : params             (* URLParamOpt given to AuthURLHandler, in order *)
}.

Definition state_name : string := "state".
Definition pkce_name : string := "pkce".

Section RP.
  Variable H : string -> string.   (* S256: base64url(sha256(verifier)) *)

  (* oauth2.Config.AuthCodeURL followed by the options in order *)
  Definition auth_params (cfg : config) (s : string) (challenge : option string) : params :=
    let p := [("response_type", "code"); ("client_id", c_client cfg)] in
    let p := if is_empty (c_redirect cfg) then p else pset "redirect_uri" (c_redirect cfg) p in
    let p := match c_scopes cfg with [] => p | _ => pset "scope" (String.concat " " (c_scopes cfg)) p end in
    let p := if is_empty s then p else pset "state" s p in
    let p := fold_left (fun p kv => pset (fst kv) (snd kv) p) (c_extra cfg) p in
    match challenge with
    | Some c => pset "code_challenge_method" "S256" (pset "code_challenge" c p)
    | None => p
    end.

  Inductive handler :=
  | HUnauth (st : string)          (* unauthorized handler, with the state it was given *)
  | HError (e d st : string)       (* error handler *)
  | HApp (st : string)             (* application callback *)
  | HOther.                        (* none or several handlers ran (never in the model) *)

  Record tokreq := TokReq {
    t_code : string; t_redirect : string; t_client : string;
    t_verifier : option string; t_assert : bool }.

  Inductive event :=
  | EvAuth (cookies : list cookie_cmd) (base : string) (ps : params)   (* 302 to base?ps *)
  | EvCb (h : handler) (reqs : list tokreq) (cookies : list cookie_cmd)
  | EvProbe (base : string) (ps : params)                              (* rp.AuthURL(probe_state, rp) asked after another API call *)
  | EvNone                                                             (* no library call *)
  | EvOther.                                                           (* login did not redirect *)

  Definition state_cookie (cfg : config) (s : string) : cookie_cmd :=
    (state_name, Some (Mac (c_key cfg) state_name s)).
  Definition pkce_cookie (cfg : config) (v : string) : cookie_cmd :=
    (pkce_name, Some (Mac (c_key cfg) pkce_name v)).

  Definition login_cookies (cfg : config) (s v : string) : list cookie_cmd :=
    state_cookie cfg s :: (if c_pkce cfg then [pkce_cookie cfg v] else []).

  (* AuthURLHandler: s = stateFn(), v = the fresh verifier *)
  Definition start_login (cfg : config) (s v : string) : event :=
    EvAuth (login_cookies cfg s v) (c_auth cfg)
           (auth_params cfg s (if c_pkce cfg then Some (H v) else None)).

  (* CodeExchangeHandler; tok_ok = the token endpoint answers with a token *)
  Definition callback (cfg : config) (j : jar) (q : params) (tok_ok : bool) : event :=
    match check_cookie (c_key cfg) state_name j with
    | None => EvCb (HUnauth "") [] []
    | Some s =>
      if negb (String.eqb s (form q "state")) then EvCb (HUnauth "") [] []
      else
        let d1 := [(state_name, None)] in
        if negb (is_empty (form q "error")) then
          EvCb (HError (form q "error") (form q "error_description") s) [] d1
        else
          let exchange (ver : option string) (d : list cookie_cmd) :=
            EvCb (if tok_ok then HApp s else HUnauth s)
                 [TokReq (form q "code") (c_redirect cfg) (c_client cfg) ver (c_jwt cfg)] d in
          if c_pkce cfg then
            match check_cookie (c_key cfg) pkce_name j with
            | None => EvCb (HUnauth s) [] d1
            | Some v => exchange (Some v) (d1 ++ [(pkce_name, None)])
            end
          else exchange None d1
    end.

  (* ---- histories in one browser ---- *)
  Inductive op :=
  | OStart (s v : string)                         (* browser opens the login URL and stores the cookies *)
  | OStartFail (s : string)                       (* login whose state the CookieHandler cannot encode
                                                     (securecookie: value too long; oracle = the real Encode) *)
  | OCallback (q : params) (tok_ok apply : bool)  (* browser calls the callback; apply = it processes the response's cookies *)
  | OSet (n : string) (c : cval)                  (* something else writes a cookie into the jar *)
  | ODel (n : string)                             (* ... or removes one (also: a late response's deletion) *)
  | OStartQ (s v : string) (lq : params)          (* as OStart, the login request itself carrying query parameters lq
                                                     (a crafted login link: code_challenge=..., state=..., client_id=...) *)
  | OApi (label : string).                        (* the application uses the same RP value for something else
                                                     (rp.ClientCredentials, RefreshTokens, Userinfo, EndSession,
                                                     RevokeToken, DeviceAuthorization, CodeExchange,
                                                     GenerateAndStoreCodeChallenge, AuthURL with other options,
                                                     a JWT profile assertion) and then asks rp.AuthURL(probe_state, rp) *)

  (* rp.AuthURL(state, rp) without options: the configured values, nothing else *)
  Definition probe_state : string := "probe-state".
  Definition plain_cfg (cfg : config) : config :=
    Cfg (c_key cfg) (c_pkce cfg) (c_jwt cfg) (c_client cfg) (c_redirect cfg) (c_scopes cfg) (c_auth cfg) [].
  Definition probe_params (cfg : config) : params := auth_params (plain_cfg cfg) probe_state None.

  Definition respond (cfg : config) (j : jar) (o : op) : event :=
    match o with
    | OStart s v => start_login cfg s v
    | OStartQ s v _ => start_login cfg s v   (* the login request's own parameters are not read *)
    | OStartFail _ => EvOther          (* unauthorized handler, no cookie, no redirect *)
    | OCallback q ok _ => callback cfg j q ok
    | OSet _ _ | ODel _ => EvNone
    | OApi _ => EvProbe (c_auth cfg) (probe_params cfg)   (* whatever the call was: the RP is as configured *)
    end.

  Definition ev_cookies (ev : event) : list cookie_cmd :=
    match ev with
    | EvAuth c _ _ => c
    | EvCb _ _ c => c
    | _ => []
    end.

  (* the browser: how the jar changes given the operation and the RP's response *)
  Definition jar_after (j : jar) (o : op) (ev : event) : jar :=
    match o with
    | OStart _ _ | OStartFail _ | OStartQ _ _ _ => jar_apply j (ev_cookies ev)
    | OCallback _ _ apply => if apply then jar_apply j (ev_cookies ev) else j
    | OSet n c => jar_set n c j
    | ODel n => jar_del n j
    | OApi _ => j
    end.

  (* authorization redirects issued so far, most recent first: (cookies, url parameters) *)
  Definition logins := list (list cookie_cmd * params).
  Definition push_login (ev : event) (lg : logins) : logins :=
    match ev with EvAuth c _ p => (c, p) :: lg | _ => lg end.

  (* for each operation: jar before it, logins before it, the operation, the RP's response *)
  Fixpoint trace (cfg : config) (j : jar) (lg : logins) (ops : list op)
    : list (jar * logins * op * event) :=
    match ops with
    | [] => []
    | o :: r =>
      let ev := respond cfg j o in
      (j, lg, o, ev) :: trace cfg (jar_after j o ev) (push_login ev lg) r
    end.

  Definition run (cfg : config) (j : jar) (ops : list op) : list event :=
    map (fun t => snd t) (trace cfg j [] ops).

  (* "honest" history: nobody but the RP writes a cookie the RP would accept
     (no replay of old state/pkce cookies into the jar) *)
  Definition op_honest (cfg : config) (o : op) : bool :=
    match o with
    | OSet n c => match decode (c_key cfg) n c with None => true | Some _ => false end
    | _ => true
    end.
  Definition jar_honest (cfg : config) (j : jar) : bool :=
    match check_cookie (c_key cfg) state_name j with None => true | Some _ => false end.
  Definition honest (cfg : config) (j : jar) (ops : list op) : bool :=
    jar_honest cfg j && forallb (op_honest cfg) ops.

  (* URLParamOpt keys that would overwrite what the handler itself sets *)
  Definition reserved : list string :=
    ["response_type"; "client_id"; "redirect_uri"; "scope"; "state"].
  Definition extra_ok (cfg : config) : bool :=
    forallb (fun kv => negb (string_in (fst kv) reserved)) (c_extra cfg).
End RP.
