(* C07: the client credential on the wire (definitions only).
   The decoding a server applies to the Basic header is C04_OP.form_unescape / wire_basic.  Here: the
   two encodings a client may use for it (RFC 6749 2.3.1 / Appendix B: application/x-www-form-urlencoded,
   i.e. unreserved characters as they are, a space as '+' - or as %20, which decodes alike -, every
   other byte as %XY), used only in the statements of coq/props/C07.v. *)
From OIDC Require Import Lib C04_OP.

Definition unreserved (c : ascii) : bool :=
  let n := nat_of_ascii c in
  ((48 <=? n) && (n <=? 57)) || ((65 <=? n) && (n <=? 90)) || ((97 <=? n) && (n <=? 122))
  || (n =? 45) || (n =? 46) || (n =? 95) || (n =? 126).
Definition hex_digit (n : nat) : ascii := ascii_of_nat (if n <? 10 then 48 + n else 55 + n).
Definition pct_char (c : ascii) : string :=
  let n := nat_of_ascii c in
  String "%"%char (String (hex_digit (n / 16)) (String (hex_digit (n mod 16)) EmptyString)).
(* plus = true: a space is sent as '+' (url.QueryEscape); false: as %20 *)
Definition esc_char (plus : bool) (c : ascii) : string :=
  if unreserved c then String c EmptyString
  else if plus && Ascii.eqb c " "%char then String "+"%char EmptyString else pct_char c.
Fixpoint form_escape (plus : bool) (s : string) : string :=
  match s with
  | EmptyString => EmptyString
  | String c r => (esc_char plus c ++ form_escape plus r)%string
  end.

Fixpoint has_char (a : ascii) (s : string) : bool :=
  match s with
  | EmptyString => false
  | String c r => Ascii.eqb c a || has_char a r
  end.

(* the token's client authenticates by a secret (client_secret_basic / client_secret_post / any
   method the library has no name for) *)
Definition secret_based (c : client) : bool :=
  match c_auth c with AM_None | AM_PKJWT => false | _ => true end.
