(* C04 / C07: case vocabulary shared by both checks (a case = one history). *)
From OIDC Require Export Lib C04_OP C04_Ledger.

Record hinput := MkIn {
  i_cfg : cfg;
  i_hash : list (string * string);     (* oracle table: verifier -> S256(verifier), filled by the driver *)
  i_ops : list (router * op)
}.
Inductive hobserved := Obs (xs : list out).

Definition table_hash (t : list (string * string)) (v : string) : string :=
  match find (fun p => String.eqb (fst p) v) t with Some p => snd p | None => "" end.

Definition hmodel (i : hinput) : hobserved :=
  Obs (outs (table_hash (i_hash i)) (i_cfg i) (i_ops i)).

Definition onat_eqb := option_eqb Nat.eqb.

Definition tokresp_eqb (a b : tokresp) : bool :=
  Nat.eqb (t_at a) (t_at b) && String.eqb (t_at_sub a) (t_at_sub b)
  && option_eqb String.eqb (t_jwt a) (t_jwt b) && strs_eqb (t_at_aud a) (t_at_aud b)
  && onat_eqb (t_rt a) (t_rt b)
  && String.eqb (t_sub a) (t_sub b) && strs_eqb (t_aud a) (t_aud b) && String.eqb (t_azp a) (t_azp b)
  && String.eqb (t_nonce a) (t_nonce b) && Nat.eqb (t_auth a) (t_auth b) && strs_eqb (t_scope a) (t_scope b).

Definition out_eqb (a b : out) : bool :=
  match a, b with
  | OAuthz x, OAuthz y => onat_eqb x y
  | OLogin x, OLogin y => Bool.eqb x y
  | OCode x, OCode y => Nat.eqb x y
  | OCbErr, OCbErr | OCbFail, OCbFail | OPanic, OPanic | OOther, OOther | ODone, ODone => true
  | OTokens x, OTokens y => tokresp_eqb x y
  | OErr c e, OErr c' e' => Nat.eqb c c' && String.eqb e e'
  | _, _ => false
  end.

Definition hobs_eqb (a b : hobserved) : bool :=
  match a, b with Obs x, Obs y => list_eqb out_eqb x y end.

Definition is_deep_err (x : out) : bool :=
  match x with
  | OErr _ e => String.eqb e E_grant || String.eqb e E_scope || String.eqb e E_unauthorized
  | OCbErr => true
  | _ => false
  end.

(* decision-path class of a history: 0 = no token response and no refusal beyond
   the first guards; otherwise (#token responses, #deep refusals), both capped *)
Definition hpath (i : hinput) (o : hobserved) : nat :=
  match o with
  | Obs xs => Nat.min 15 (List.length (filter is_tokens xs)) * 16
              + Nat.min 15 (List.length (filter is_deep_err xs))
  end.
