(* C05: proofs. Every statement quantifies over all registrations (including an arbitrary
   list of registered grants), presentations, grants, configurations and both routers; the
   proofs are case analyses of the guard functions, the grant list stays abstract. *)
From OIDC Require Import Lib C05_Model C05_spec.

(* the grant list is only consulted through [registered] *)
Global Opaque registered.

(* the one recorded gap (finding Fxx-C05-4): the Provider router's device_code handler does
   not consult the grant registration *)
Definition known_gap (i : input) : bool :=
  match i_router i, i_endpoint i, i_grant i with
  | RProvider, EToken, GDevice => negb (registered (i_reg i) GDevice)
  | _, _, _ => false
  end.

Definition success (o : observed) : bool :=
  match o with ORes S2 _ _ _ _ => true | _ => false end.

(* split on whatever the goal still branches on *)
Ltac unfold_defs :=
  unfold authenticate, p_token, p_code, p_refresh, p_cc, p_te, p_bearer, p_device, p_introspect, p_revoke,
    p_device_authz, l_token, l_with_client, l_parse, l_verify_client, l_introspect, l_revoke, l_device_authz,
    private_jwt, by_secret, client_id_from_request, device_client_authenticated, secret_check, secret_ok,
    assertion_ok, bearer_ok, parse_creds, r4, r5,
    token_justified, cred_valid, authenticated, introspect_justified, revoke_justified, device_authz_justified,
    refusal_shape in *.

Ltac split_goal :=
  cbn; unfold_defs;
  repeat (cbn;
    match goal with
    | |- context [andb ?b _] => is_var b; destruct b
    | |- context [andb _ ?b] => is_var b; destruct b
    | |- context [negb ?b] => is_var b; destruct b
    | |- context [if ?b then _ else _] => is_var b; destruct b
    | |- context [if ?b then _ else _] => destruct b eqn:?
    | |- context [match ?x with _ => _ end] => destruct x eqn:?
    end);
  cbn in *; intros;
  repeat match goal with
         | H : context [negb ?b] |- _ => is_var b; destruct b; cbn in *
         | H : context [andb ?b _] |- _ => is_var b; destruct b; cbn in *
         end;
  repeat match goal with
         | H : negb _ = false |- _ => apply negb_false_iff in H
         | H : negb _ = true |- _ => apply negb_true_iff in H
         end;
  repeat match goal with H : registered ?a ?b = _ |- context [registered ?a ?b] => rewrite H end;
  cbn; try reflexivity; try discriminate; try congruence.

Definition acted_other (o : observed) : bool :=
  match o with ORes _ _ _ _ WOther => true | _ => false end.

Lemma names_self_acts_self : forall i, names_other (i_pres i) = false -> acted_other (model i) = false.
Proof.
  intros [r e c rg p g] H; cbn [i_pres] in H. unfold model; cbn [i_pres].
  destruct p; try discriminate H; cbn [names_other_client andb];
    destruct (authenticate _ _ _ _ _ _ _); reflexivity.
Qed.

Ltac open_input i :=
  destruct i as [r e c rg p g]; destruct c as [fpost fpk fref ccc cte cdev];
  destruct rg as [known meth app gs key].

(* ---------------- success is justified *)

Lemma token_success_justified : forall i,
  i_endpoint i = EToken -> known_gap i = false ->
  success (model i) = true -> token_justified (i_cfg i) (i_reg i) (i_pres i) (i_grant i) = true.
Proof.
  intro i; open_input i; cbn [i_endpoint i_cfg i_reg i_pres i_grant i_router].
  all: intros -> Hgap.
  all: unfold model, known_gap in *; cbn [i_endpoint i_cfg i_reg i_pres i_grant i_router] in *.
  all: destruct r, g; cbn in Hgap |- *; destruct p as [| |[] ?| |[]|[]|[] []| | | |], meth;
    cbn in Hgap |- *; split_goal.
Qed.

(* in the gap class everything but the registration of the device grant is still enforced *)
Lemma token_gap_still_authenticated : forall i,
  i_endpoint i = EToken -> known_gap i = true ->
  success (model i) = true ->
  capability (i_cfg i) GDevice = true /\
  cred_valid (i_cfg i) (i_reg i) (i_pres i) true = true.
Proof.
  intro i; open_input i; cbn [i_endpoint i_cfg i_reg i_pres i_grant i_router].
  all: intros -> Hgap.
  all: unfold model, known_gap in *; cbn [i_endpoint i_cfg i_reg i_pres i_grant i_router] in *.
  all: destruct r, g; try discriminate Hgap.
  all: destruct p as [| |[] ?| |[]|[]|[] []| | | |], meth; cbn; split_goal; split; reflexivity.
Qed.

Lemma introspect_success_justified : forall i,
  i_endpoint i = EIntrospect ->
  success (model i) = true -> introspect_justified (i_reg i) (i_pres i) = true.
Proof.
  intro i; open_input i; cbn [i_endpoint i_cfg i_reg i_pres i_grant i_router].
  all: intros ->; unfold model; cbn [i_endpoint i_cfg i_reg i_pres i_grant i_router].
  all: destruct r; destruct p as [| |[] ?| |[]|[]|[] []| | | |], meth; cbn; split_goal.
Qed.

Lemma revoke_success_justified : forall i,
  i_endpoint i = ERevoke ->
  success (model i) = true -> revoke_justified (i_reg i) (i_pres i) = true.
Proof.
  intro i; open_input i; cbn [i_endpoint i_cfg i_reg i_pres i_grant i_router].
  all: intros ->; unfold model; cbn [i_endpoint i_cfg i_reg i_pres i_grant i_router].
  all: destruct r; destruct p as [| |[] ?| |[]|[]|[] []| | | |], meth; cbn; split_goal.
Qed.

Lemma device_authz_success_justified : forall i,
  i_endpoint i = EDeviceAuthz -> acted_other (model i) = false ->
  success (model i) = true -> device_authz_justified (i_reg i) (i_pres i) = true.
Proof.
  intro i; open_input i; cbn [i_endpoint i_cfg i_reg i_pres i_grant i_router].
  all: intros ->; unfold model; cbn [i_endpoint i_cfg i_reg i_pres i_grant i_router].
  all: destruct r; destruct p as [| |[] ?| |[]|[]|[] []| | | |], meth; cbn; split_goal.
Qed.

(* ---------------- refusals *)

(* whatever the model answers is either the success document or a well-shaped refusal *)
Lemma refusal_shape_model : forall i,
  match model i with
  | ORes S2 e tok act w => e = ENone /\
      (w = WOther -> i_endpoint i = EDeviceAuthz /\ names_other (i_pres i) = true)
  | ORes s e tok act w => refusal_shape (i_endpoint i) s e tok act w = true
  | _ => False
  end.
Proof.
  intro i; open_input i; unfold model; cbn [i_endpoint i_cfg i_reg i_pres i_grant i_router].
  all: destruct e; [destruct g| | |]; destruct r; destruct p as [| |[] ?| |[]|[]|[] []| | | |], meth; cbn; split_goal.
  all: split; [reflexivity|intro HW; try discriminate HW; split; reflexivity].
Qed.

(* ---------------- the predicate on the model *)

Lemma justified_model : forall i,
  known_gap i = false -> acted_other (model i) = false -> success (model i) = true -> justified i = true.
Proof.
  intros i Hg Hn Hs. unfold justified.
  destruct (i_endpoint i) eqn:He.
  - now apply token_success_justified.
  - now apply introspect_success_justified.
  - now apply revoke_success_justified.
  - now apply device_authz_success_justified.
Qed.

Theorem spec_model : forall i, known_gap i = false -> spec i (model i) = true.
Proof.
  intros i Hg.
  pose proof (justified_model i Hg) as Hj.
  pose proof (refusal_shape_model i) as Hr.
  unfold spec. destruct (model i) as [s e tok act w| |]; try contradiction.
  destruct s; try exact Hr.
  destruct Hr as [-> Hw]. cbn [andb].
  destruct w.
  - apply Hj; reflexivity.
  - apply Hj; reflexivity.
  - destruct (Hw eq_refl) as [He Hn]. unfold other_justified. now rewrite He.
Qed.

Definition gap_witness : input :=
  mkInput RProvider EToken (mkCfg true true true true true true)
          (mkReg true MNone ANative [GCode; GRefresh] false) PIdOnly GDevice.

Lemma spec_model_refuted : exists i, spec i (model i) = false.
Proof. exists gap_witness. vm_compute. reflexivity. Qed.

(* ---------------- readable statements *)

(* the full statement for the token endpoint (what the property asks); see C05_token_refuted *)
Definition token_statement : Prop :=
  forall r c rg p g,
    success (model (mkInput r EToken c rg p g)) = true ->
    token_justified c rg p g = true.

Lemma token_partial : forall r c rg p g,
  (r = RProvider /\ g = GDevice /\ registered rg GDevice = false -> False) ->
  success (model (mkInput r EToken c rg p g)) = true ->
  token_justified c rg p g = true.
Proof.
  intros r c rg p g Hn Hs.
  apply (token_success_justified (mkInput r EToken c rg p g)); [reflexivity| |exact Hs].
  unfold known_gap; cbn [i_router i_endpoint i_grant i_reg].
  destruct r; try reflexivity. destruct g; try reflexivity.
  destruct (registered rg GDevice) eqn:E; [reflexivity|].
  exfalso; apply Hn; auto.
Qed.

Lemma token_refuted : ~ token_statement.
Proof.
  intro H.
  specialize (H RProvider (mkCfg true true true true true true)
                (mkReg true MNone ANative [GCode; GRefresh] false) PIdOnly GDevice).
  vm_compute in H. specialize (H eq_refl). discriminate H.
Qed.

Lemma token_gap : forall c rg p,
  registered rg GDevice = false ->
  success (model (mkInput RProvider EToken c rg p GDevice)) = true ->
  c_dev c = true /\ cred_valid c rg p true = true.
Proof.
  intros c rg p Hn Hs.
  apply (token_gap_still_authenticated (mkInput RProvider EToken c rg p GDevice)); [reflexivity| |exact Hs].
  unfold known_gap; cbn. now rewrite Hn.
Qed.

Lemma introspect_statement : forall r c rg p g,
  success (model (mkInput r EIntrospect c rg p g)) = true -> authenticated rg p = true.
Proof. intros r c rg p g. exact (introspect_success_justified (mkInput r EIntrospect c rg p g) eq_refl). Qed.

Lemma revoke_statement : forall r c rg p g,
  success (model (mkInput r ERevoke c rg p g)) = true ->
  authenticated rg p = true \/ (r_known rg = true /\ r_meth rg = MNone /\ identifies p = true).
Proof.
  intros r c rg p g Hs.
  pose proof (revoke_success_justified (mkInput r ERevoke c rg p g) eq_refl Hs) as H.
  cbn [i_reg i_pres] in H. unfold revoke_justified in H.
  apply orb_true_iff in H as [H|H]; [now left|right].
  apply andb_true_iff in H as [H H3]. apply andb_true_iff in H as [H1 H2].
  repeat split; try assumption. now destruct (r_meth rg).
Qed.

Lemma device_authz_statement : forall r c rg p g,
  names_other p = false ->
  success (model (mkInput r EDeviceAuthz c rg p g)) = true ->
  r_known rg = true /\ identifies p = true /\ registered rg GDevice = true.
Proof.
  intros r c rg p g Hno Hs.
  pose proof (device_authz_success_justified (mkInput r EDeviceAuthz c rg p g) eq_refl (names_self_acts_self (mkInput r EDeviceAuthz c rg p g) Hno) Hs) as H.
  cbn [i_reg i_pres] in H. unfold device_authz_justified in H.
  apply andb_true_iff in H as [H H3]. apply andb_true_iff in H as [H1 H2]. auto.
Qed.

(* every answer that is not the success document is a refusal: status >= 400, no token, nothing
   disclosed or revoked, and on the token endpoint an OAuth error document *)
Lemma refusal_statement : forall i s e tok act w,
  model i = ORes s e tok act w -> s <> S2 ->
  (s = S4 \/ s = S5) /\ tok = false /\ act = false /\ w = WNone /\
  (i_endpoint i = EToken -> oauth_code e = true).
Proof.
  intros i s e tok act w Hm Hs.
  pose proof (refusal_shape_model i) as H. rewrite Hm in H.
  assert (Hr : refusal_shape (i_endpoint i) s e tok act w = true) by (destruct s; try exact H; congruence).
  unfold refusal_shape in Hr.
  apply andb_true_iff in Hr as [Hr H4]. apply andb_true_iff in Hr as [Hr H5].
  apply andb_true_iff in Hr as [Hr H3]. apply andb_true_iff in Hr as [H1 H2].
  repeat split.
  - destruct s; try discriminate H1; auto.
  - now destruct tok.
  - now destruct act.
  - now destruct w.
  - intros He. now rewrite He in H4.
Qed.

(* whatever a request issues, revokes or reports active belongs to the case's client X; the one
   exception needs no authentication at all: a device code in the name of a client the request
   names. In particular a valid credential of X next to the id of Y never acts for Y. *)
Lemma acts_for_self : forall i s e tok act w,
  model i = ORes s e tok act w -> w = WOther ->
  i_endpoint i = EDeviceAuthz /\ names_other (i_pres i) = true.
Proof.
  intros i s e tok act w Hm ->.
  pose proof (refusal_shape_model i) as H. rewrite Hm in H.
  destruct s; try (unfold refusal_shape in H; rewrite ?andb_false_r in H; cbn in H; discriminate H).
  destruct H as [_ H]. now apply H.
Qed.

(* the model never panics and never writes twice *)
Lemma model_total : forall i, exists s e tok act w, model i = ORes s e tok act w.
Proof.
  intro i. unfold model. destruct (authenticate _ _ _ _ _ _ _); eauto 6.
Qed.

(* consequences spelled out for the cases the property text names *)

(* an unknown client gets nothing anywhere *)
Lemma unknown_client_refused : forall r e c rg p g,
  r_known rg = false -> names_other p = false -> success (model (mkInput r e c rg p g)) = false.
Proof.
  intros r e c rg p g Hk Hno.
  destruct (success (model (mkInput r e c rg p g))) eqn:Hs; [|reflexivity].
  assert (Hgap : known_gap (mkInput r e c rg p g) = false \/ known_gap (mkInput r e c rg p g) = true)
    by (destruct (known_gap _); auto).
  destruct Hgap as [Hg|Hg].
  - pose proof (justified_model _ Hg (names_self_acts_self (mkInput r e c rg p g) Hno) Hs) as Hj. unfold justified in Hj; cbn [i_endpoint i_cfg i_reg i_pres i_grant] in Hj.
    destruct e; cbn in Hj.
    + unfold token_justified, cred_valid in Hj. rewrite Hk in Hj.
      destruct g; cbn in Hj; rewrite ?andb_false_r in Hj; discriminate Hj.
    + unfold introspect_justified, authenticated in Hj. rewrite Hk in Hj. discriminate Hj.
    + unfold revoke_justified, authenticated in Hj. rewrite Hk in Hj. discriminate Hj.
    + unfold device_authz_justified in Hj. rewrite Hk in Hj. discriminate Hj.
  - unfold known_gap in Hg; cbn [i_router i_endpoint i_grant i_reg] in Hg.
    destruct r, e, g; try discriminate Hg.
    apply negb_true_iff in Hg.
    destruct (token_gap c rg p Hg Hs) as [_ Hc]. unfold cred_valid in Hc. rewrite Hk in Hc. discriminate Hc.
Qed.

(* a secret-registered client that presents neither its secret nor a valid assertion gets no
   token and no metadata *)
Lemma wrong_secret_refused : forall r e c rg p g,
  has_secret (r_meth rg) = true -> presents_right_secret p = false -> presents_ok_assertion p = false ->
  e <> EDeviceAuthz -> g <> GBearer ->
  success (model (mkInput r e c rg p g)) = false.
Proof.
  intros r e c rg p g Hm Hp Ha He Hgb.
  assert (Hno : names_other p = false) by (destruct p; cbn in *; congruence).
  destruct (success (model (mkInput r e c rg p g))) eqn:Hs; [|reflexivity].
  assert (Hcv : forall b, cred_valid c rg p b = false).
  { intro b. unfold cred_valid. rewrite Hp, Ha.
    destruct (r_meth rg); try discriminate Hm; cbn; now rewrite andb_false_r. }
  destruct (known_gap (mkInput r e c rg p g)) eqn:Hg.
  - unfold known_gap in Hg; cbn [i_router i_endpoint i_grant i_reg] in Hg.
    destruct r, e, g; try discriminate Hg. apply negb_true_iff in Hg.
    destruct (token_gap c rg p Hg Hs) as [_ Hc]. rewrite Hcv in Hc. discriminate Hc.
  - pose proof (justified_model _ Hg (names_self_acts_self (mkInput r e c rg p g) Hno) Hs) as Hj. unfold justified in Hj; cbn [i_endpoint i_cfg i_reg i_pres i_grant] in Hj.
    destruct e; try congruence.
    + unfold token_justified in Hj. rewrite Hcv in Hj.
      destruct g; try congruence; rewrite ?andb_false_r in Hj; discriminate Hj.
    + unfold introspect_justified, authenticated in Hj. rewrite Hp, Ha in Hj.
      rewrite ?andb_false_r in Hj. discriminate Hj.
    + unfold revoke_justified, authenticated in Hj. rewrite Hp, Ha in Hj.
      destruct (r_meth rg); try discriminate Hm; cbn in Hj; rewrite ?andb_false_r in Hj; discriminate Hj.
Qed.

(* a grant that is not registered for the client yields no token (outside the recorded gap),
   and no device code *)
Lemma unregistered_grant_refused : forall r c rg p g,
  registered rg g = false -> g <> GBearer -> (r = RProvider /\ g = GDevice -> False) ->
  success (model (mkInput r EToken c rg p g)) = false.
Proof.
  intros r c rg p g Hn Hb Hgap.
  destruct (success (model (mkInput r EToken c rg p g))) eqn:Hs; [|reflexivity].
  assert (Hj : token_justified c rg p g = true).
  { apply (token_partial r c rg p g); [|exact Hs]. intros [H1 [H2 _]]. now apply Hgap. }
  unfold token_justified in Hj. rewrite Hn in Hj.
  destruct g; try congruence; rewrite ?andb_false_r in Hj; cbn in Hj; discriminate.
Qed.

Lemma unregistered_device_grant_no_device_code : forall r c rg p g,
  registered rg GDevice = false -> names_other p = false ->
  success (model (mkInput r EDeviceAuthz c rg p g)) = false.
Proof.
  intros r c rg p g Hn Hno.
  destruct (success (model (mkInput r EDeviceAuthz c rg p g))) eqn:Hs; [|reflexivity].
  destruct (device_authz_statement r c rg p g Hno Hs) as [_ [_ H]]. congruence.
Qed.

(* a disabled grant (provider flag or storage capability off) yields no token *)
Lemma disabled_grant_refused : forall r c rg p g,
  capability c g = false -> success (model (mkInput r EToken c rg p g)) = false.
Proof.
  intros r c rg p g Hc.
  destruct (success (model (mkInput r EToken c rg p g))) eqn:Hs; [|reflexivity].
  destruct (known_gap (mkInput r EToken c rg p g)) eqn:Hg.
  - unfold known_gap in Hg; cbn [i_router i_endpoint i_grant i_reg] in Hg.
    destruct r, g; try discriminate Hg. apply negb_true_iff in Hg.
    destruct (token_gap c rg p Hg Hs) as [Hd _]. cbn in Hc. congruence.
  - pose proof (token_success_justified (mkInput r EToken c rg p g) eq_refl Hg Hs) as Hj. cbn [i_cfg i_reg i_pres i_grant] in Hj.
    unfold token_justified in Hj. rewrite Hc in Hj. destruct g; cbn in *; discriminate.
Qed.

(* ---------------- non-vacuity: success is reachable on every endpoint and router *)

Definition all_on := mkCfg true true true true true true.

Example token_nonvacuous :
  forallb (fun r => forallb (fun g =>
    success (model (mkInput r EToken all_on (mkReg true MBasic AWeb all_grants true) (PBasic SRight true) g)))
    [GCode; GRefresh; GCC; GBearer; GTE; GDevice]) [RProvider; RLegacy] = true.
Proof. vm_compute. reflexivity. Qed.

Example token_nonvacuous_pkjwt_public :
  forallb (fun r =>
    success (model (mkInput r EToken all_on (mkReg true MPKJWT AWeb all_grants true) (PAssert AOk) GCode))
    && success (model (mkInput r EToken all_on (mkReg true MNone ANative all_grants false) PIdOnly GRefresh))
    && success (model (mkInput r EToken all_on (mkReg true MPost AWeb all_grants false) (PPost SRight) GCode)))
    [RProvider; RLegacy] = true.
Proof. vm_compute. reflexivity. Qed.

Example other_endpoints_nonvacuous :
  forallb (fun r => forallb (fun e =>
    success (model (mkInput r e all_on (mkReg true MBasic AWeb all_grants true) (PBasic SRight false) GMissing)))
    [EIntrospect; ERevoke; EDeviceAuthz]) [RProvider; RLegacy] = true.
Proof. vm_compute. reflexivity. Qed.

Example refusal_nonvacuous :
  model (mkInput RLegacy EToken all_on (mkReg true MBasic AWeb all_grants true) (PBasic SWrong false) GCode)
  = ORes S4 EInvalidClient false false WNone.
Proof. vm_compute. reflexivity. Qed.

(* cross-client requests: X's valid credential with Y's id and Y's artefact acts for X or not at all *)
Example cross_nonvacuous :
  let x := mkReg true MBasic AWeb all_grants true in
  model (mkInput RProvider ERevoke all_on x PXBasic GMissing) = ORes S4 EInvalidClient false false WNone
  /\ model (mkInput RLegacy EToken all_on x PXBasic GCode) = ORes S4 EInvalidGrant false false WNone
  /\ model (mkInput RProvider EToken all_on x PXAssert GCC) = ORes S4 EInvalidClient false false WNone
  /\ model (mkInput RLegacy EToken all_on x PXBasic GCC) = ORes S2 ENone true false WSelf
  /\ model (mkInput RProvider EIntrospect all_on x PXAssert GMissing) = ORes S2 ENone false false WNone.
Proof. vm_compute. repeat split; reflexivity. Qed.

Example known_gap_nonvacuous : known_gap gap_witness = true /\ success (model gap_witness) = true.
Proof. split; vm_compute; reflexivity. Qed.
