(* C05: proofs. Every statement quantifies over all registrations (including an arbitrary
   list of registered grants), presentations, grants, configurations and both routers; the
   proofs are case analyses of the guard functions, the grant list stays abstract. *)
From OIDC Require Import Lib C05_Model C05_spec.
From OIDC Require Export C05_base_proofs.
From OIDC Require Import C05_token_RProvider_proofs C05_token_RLegacy_proofs C05_shape_RProvider_proofs C05_shape_RLegacy_proofs.

(* ---------------- success is justified *)

Lemma token_success_justified_lax : forall i,
  i_endpoint i = EToken -> known_gap i = false -> names_other (i_pres i) = false ->
  success (model i) = true -> token_justified_lax (i_cfg i) (i_reg i) (i_pres i) (i_grant i) = true.
Proof.
  intro i. destruct (i_router i) eqn:E.
  - now apply token_success_justified_RProvider.
  - now apply token_success_justified_RLegacy.
Qed.

(* in the gap class everything but the registration of the device grant is still enforced *)
Lemma token_gap_still_authenticated : forall i,
  i_endpoint i = EToken -> known_gap i = true -> names_other (i_pres i) = false ->
  success (model i) = true ->
  capability (i_cfg i) GDevice = true /\
  cred_valid (i_cfg i) (i_reg i) (i_pres i) true = true.
Proof.
  intro i; open_input i; cbn [i_endpoint i_cfg i_reg i_pres i_grant i_router i_pl i_prev i_art].
  all: intros -> Hgap Hno.
  all: unfold model, known_gap in *; cbn [i_endpoint i_cfg i_reg i_pres i_grant i_router i_pl i_prev i_art] in *.
  all: destruct r, g; try discriminate Hgap.
  all: destruct p as [| |[] ?| |[]|[]|[]| | | |[] []|?|?|?|?|?|[] []|?]; try discriminate Hno; clear Hno.
  all: destruct meth; cbn; split_goal; split; reflexivity.
Qed.

Lemma introspect_success_justified : forall i,
  i_endpoint i = EIntrospect -> names_other (i_pres i) = false ->
  success (model i) = true -> introspect_justified (i_reg i) (i_pres i) = true.
Proof.
  intro i; open_input i; cbn [i_endpoint i_cfg i_reg i_pres i_grant i_router i_pl i_prev i_art].
  all: intros -> Hno; unfold model; cbn [i_endpoint i_cfg i_reg i_pres i_grant i_router i_pl i_prev i_art] in *.
  all: destruct p as [| |[] ?| |[]|[]|[]| | | |[] []|?|?|?|?|?|[] []|?]; try discriminate Hno; clear Hno.
  all: destruct r, meth; cbn; split_goal.
Qed.

Lemma revoke_success_justified : forall i,
  i_endpoint i = ERevoke -> names_other (i_pres i) = false ->
  success (model i) = true -> revoke_justified (i_reg i) (i_pres i) = true.
Proof.
  intro i; open_input i; cbn [i_endpoint i_cfg i_reg i_pres i_grant i_router i_pl i_prev i_art].
  all: intros -> Hno; unfold model; cbn [i_endpoint i_cfg i_reg i_pres i_grant i_router i_pl i_prev i_art] in *.
  all: destruct p as [| |[] ?| |[]|[]|[]| | | |[] []|?|?|?|?|?|[] []|?]; try discriminate Hno; clear Hno.
  all: destruct r, meth; cbn; split_goal.
Qed.

Lemma device_authz_success_justified : forall i,
  i_endpoint i = EDeviceAuthz -> names_other (i_pres i) = false ->
  success (model i) = true -> device_authz_justified (i_reg i) (i_pres i) = true.
Proof.
  intro i; open_input i; cbn [i_endpoint i_cfg i_reg i_pres i_grant i_router i_pl i_prev i_art].
  all: intros -> Hno; unfold model; cbn [i_endpoint i_cfg i_reg i_pres i_grant i_router i_pl i_prev i_art] in *.
  all: destruct p as [| |[] ?| |[]|[]|[]| | | |[] []|?|?|?|?|?|[] []|?]; try discriminate Hno; clear Hno.
  all: destruct r, meth; cbn; split_goal.
Qed.

(* ---------------- refusals *)

(* whatever the model answers is either the success document or a well-shaped refusal *)
Lemma refusal_shape_model : forall i,
  match model i with
  | ORes S2 e tok act w => e = ENone
  | ORes s e tok act w => refusal_shape (i_endpoint i) s e tok act w = true
  | _ => False
  end.
Proof.
  intro i. destruct (i_router i) eqn:E.
  - now apply refusal_shape_model_RProvider.
  - now apply refusal_shape_model_RLegacy.
Qed.

Lemma self_never_other : forall i,
  names_other_client (i_pres i) = None ->
  match model i with ORes _ _ _ _ WOther => False | _ => True end.
Proof.
  intros [r e c rg p g pl pv ar] H; cbn [i_pres] in H. unfold model; cbn [i_pres]. rewrite H.
  destruct (by_grant_assertion _); destruct (authenticate _ _ _ _ _ _ _ _ _); exact I.
Qed.

(* acting for the other client is justified by the other client's registration *)
Lemma other_model : forall i,
  other_gap i = false ->
  match model i with
  | ORes S2 _ _ _ WOther => other_justified i = true
  | _ => True
  end.
Proof.
  intro i. destruct (names_other_client (i_pres i)) eqn:En.
  2:{ intros _. pose proof (self_never_other i En) as H.
      destruct (model i) as [s e tok act w| |]; try exact I. destruct s, w; try exact I; contradiction. }
  revert En; open_input i; cbn [i_pres]; intro En.
  all: destruct p as [| |[] ?| |[]|[]|[]| | | |[] []|?|?|[[] ?]|[[] ?]|[[] ?]|[] []|?]; try discriminate En; clear En.
  all: unfold model, other_gap; cbn [i_endpoint i_cfg i_reg i_pres i_grant i_router i_pl i_prev i_art].
  all: destruct e; [destruct g| | |]; destruct r; cbn; intro Hgap; split_goal; try exact I.
Qed.

(* ---------------- the predicate on the model *)

Lemma justified_lax_model : forall i,
  known_gap i = false -> names_other (i_pres i) = false -> success (model i) = true -> justified_lax i = true.
Proof.
  intros i Hg Hn Hs. unfold justified_lax.
  destruct (i_endpoint i) eqn:He.
  - now apply token_success_justified_lax.
  - now apply introspect_success_justified.
  - now apply revoke_success_justified.
  - now apply device_authz_success_justified.
Qed.

(* ---------------- round 11: the transport rule ("via Basic or - if enabled - POST") *)

Lemma secret_as_enabled_presents : forall c p, secret_as_enabled c p = true -> presents_right_secret p = true.
Proof.
  intros c p; unfold secret_as_enabled; destruct (f_post c);
    destruct p as [| |[] ?| |[]|[]|[]| | | |[] []|?|?|?|?|?|[] []|?]; cbn; congruence.
Qed.

Lemma cred_strict_to_lax : forall c rg p b, cred_valid c rg p b = true -> cred_valid_lax c rg p b = true.
Proof.
  intros c rg p b; unfold cred_valid, cred_valid_lax.
  destruct (r_known rg); cbn; [|congruence].
  destruct (r_meth rg); try congruence; apply secret_as_enabled_presents.
Qed.

Lemma cred_lax_to_strict : forall c rg p b,
  cred_valid_lax c rg p b = true ->
  secret_not_post (r_meth rg) && form_only_while_post_off c p = false ->
  cred_valid c rg p b = true.
Proof.
  intros c rg p b; unfold cred_valid, cred_valid_lax, form_only_while_post_off, secret_as_enabled.
  destruct (r_known rg); cbn; [|congruence].
  destruct (r_meth rg); cbn; try congruence; destruct (f_post c);
    destruct p as [| |[] ?| |[]|[]|[]| | | |[] []|?|?|?|?|?|[] []|?]; cbn; congruence.
Qed.

(* the two token-endpoint handlers of the Provider router that do not read form credentials (token
   exchange: Basic only; device_code: ClientIDFromRequest - Basic or assertion) give a client held to
   its secret nothing unless that secret is in the Authorization header *)
Lemma form_secret_unread : forall c rg p g pl pv ar,
  g = GTE \/ g = GDevice -> secret_not_post (r_meth rg) = true -> secret_in_basic p = false ->
  names_other p = false ->
  success (model (mkInput RProvider EToken c rg p g pl pv ar)) = false.
Proof.
  intros c rg p g pl pv ar Hg Hm Hb Hno.
  destruct pl as [gp cp ap]; destruct c as [fpost fpk fref ccc cte cdev cjp csub]; destruct rg as [known meth app gs key].
  cbn in Hm. unfold model; cbn [i_endpoint i_cfg i_reg i_pres i_grant i_router i_pl i_prev i_art].
  destruct p as [| |[] ?| |[]|[]|[]| | | |[] []|?|?|?|?|?|[] []|?]; try discriminate Hb; try discriminate Hno; clear Hb Hno.
  all: destruct Hg as [-> | ->]; destruct meth; try discriminate Hm; cbn; split_goal.
Qed.

Lemma token_success_justified : forall i,
  i_endpoint i = EToken -> known_gap i = false -> post_gap i = false -> names_other (i_pres i) = false ->
  success (model i) = true -> token_justified (i_cfg i) (i_reg i) (i_pres i) (i_grant i) = true.
Proof.
  intros i He Hg Hpg Hno Hs.
  pose proof (token_success_justified_lax i He Hg Hno Hs) as Hl.
  destruct i as [r e c rg p g pl pv ar]; cbn [i_endpoint i_cfg i_reg i_pres i_grant i_router] in *; subst e.
  unfold post_gap in Hpg; cbn [i_endpoint i_cfg i_reg i_pres i_grant i_router] in Hpg.
  destruct (secret_not_post (r_meth rg) && form_only_while_post_off c p) eqn:Hcls.
  2:{ unfold token_justified_lax in Hl; unfold token_justified.
      destruct g; try exact Hl.
      all: apply andb_true_iff in Hl as [Hcr Hcv]; rewrite Hcr; cbn [andb]; now apply cred_lax_to_strict. }
  apply andb_true_iff in Hcls as [Hm Hf].
  rewrite Hm, Hf, !andb_true_r in Hpg.
  assert (Hb : secret_in_basic p = false).
  { unfold form_only_while_post_off in Hf. apply andb_true_iff in Hf as [_ Hf]. now apply negb_true_iff in Hf. }
  assert (Hte : success (model (mkInput RProvider EToken c rg p GTE pl pv ar)) = false)
    by (apply form_secret_unread; auto).
  assert (Hdv : success (model (mkInput RProvider EToken c rg p GDevice pl pv ar)) = false)
    by (apply form_secret_unread; auto).
  destruct r, g; try discriminate Hpg; try congruence;
    unfold token_justified_lax in Hl; unfold token_justified; cbn [capability andb] in Hl; try discriminate Hl; exact Hl.
Qed.

Lemma justified_model : forall i,
  known_gap i = false -> post_gap i = false -> names_other (i_pres i) = false -> success (model i) = true ->
  justified i = true.
Proof.
  intros i Hg Hpg Hn Hs. unfold justified.
  destruct (i_endpoint i) eqn:He.
  - now apply token_success_justified.
  - now apply introspect_success_justified.
  - now apply revoke_success_justified.
  - now apply device_authz_success_justified.
Qed.

(* a request that names the other client either acts for it or is the jwt-bearer grant, which
   reads no client credential and is justified by X's key *)
Lemma names_other_model : forall i,
  names_other (i_pres i) = true ->
  match model i with
  | ORes S2 _ _ _ WOther => True
  | ORes S2 _ _ _ WSelf => justified i = true
  | ORes S2 _ _ _ WNone => justified i || other_justified i = true
  | _ => True
  end.
Proof.
  intro i; open_input i; cbn [i_pres]; intro Hno.
  all: destruct p as [| |[] ?| |[]|[]|[]| | | |[] []|?|?|[[] ?]|[[] ?]|[[] ?]|[] []|?]; try discriminate Hno; clear Hno.
  all: unfold model; cbn [i_endpoint i_cfg i_reg i_pres i_grant i_router i_pl i_prev i_art].
  all: destruct e; [destruct g| | |]; destruct r; cbn; split_goal; try exact I; rewrite ?orb_true_r; reflexivity.
Qed.

Theorem spec_model : forall i,
  known_gap i = false -> post_gap i = false -> other_gap i = false -> spec i (model i) = true.
Proof.
  intros i Hg Hpg Hog.
  pose proof (justified_model i Hg Hpg) as Hj.
  pose proof (names_other_model i) as Hn.
  pose proof (refusal_shape_model i) as Hr.
  pose proof (other_model i Hog) as Ho.
  unfold spec. destruct (model i) as [s e tok act w| |]; try contradiction.
  destruct s; try exact Hr.
  subst e. cbn [andb].
  destruct w; try exact Ho.
  all: destruct (names_other (i_pres i)) eqn:E; [exact (Hn eq_refl)|rewrite ?Hj; reflexivity].
Qed.

Definition gap_witness : input :=
  mkInput RProvider EToken (mkCfg true true true true true true true false)
          (mkReg true MNone ANative [GCode; GRefresh] false) PIdOnly GDevice (mkPl GPBody InBody InBody) NoPrev ArtOk.

Lemma spec_model_refuted : exists i, spec i (model i) = false.
Proof. exists gap_witness. vm_compute. reflexivity. Qed.

(* ---------------- readable statements *)

(* the full statement for the token endpoint (what the property asks); see C05_token_refuted *)
Definition token_statement : Prop :=
  forall r c rg p g pl pv ar,
    names_other p = false ->
    success (model (mkInput r EToken c rg p g pl pv ar)) = true ->
    token_justified c rg p g = true.

(* outside the device gap: everything but the transport rule, for every input *)
Lemma token_partial_lax : forall r c rg p g pl pv ar,
  (r = RProvider /\ g = GDevice /\ registered rg GDevice = false -> False) ->
  names_other p = false ->
  success (model (mkInput r EToken c rg p g pl pv ar)) = true ->
  token_justified_lax c rg p g = true.
Proof.
  intros r c rg p g pl pv ar Hn Hno Hs.
  apply (token_success_justified_lax (mkInput r EToken c rg p g pl pv ar)); [reflexivity| |exact Hno|exact Hs].
  unfold known_gap; cbn [i_router i_endpoint i_grant i_reg].
  destruct r; try reflexivity. destruct g; try reflexivity.
  destruct (registered rg GDevice) eqn:E; [reflexivity|].
  exfalso; apply Hn; auto.
Qed.

Lemma token_partial : forall r c rg p g pl pv ar,
  (r = RProvider /\ g = GDevice /\ registered rg GDevice = false -> False) ->
  post_gap (mkInput r EToken c rg p g pl pv ar) = false ->
  names_other p = false ->
  success (model (mkInput r EToken c rg p g pl pv ar)) = true ->
  token_justified c rg p g = true.
Proof.
  intros r c rg p g pl pv ar Hn Hpg Hno Hs.
  apply (token_success_justified (mkInput r EToken c rg p g pl pv ar)); [reflexivity| |exact Hpg|exact Hno|exact Hs].
  unfold known_gap; cbn [i_router i_endpoint i_grant i_reg].
  destruct r; try reflexivity. destruct g; try reflexivity.
  destruct (registered rg GDevice) eqn:E; [reflexivity|].
  exfalso; apply Hn; auto.
Qed.

Lemma token_refuted : ~ token_statement.
Proof.
  intro H.
  specialize (H RProvider (mkCfg true true true true true true true false)
                (mkReg true MNone ANative [GCode; GRefresh] false) PIdOnly GDevice (mkPl GPBody InBody InBody) NoPrev ArtOk).
  vm_compute in H. specialize (H eq_refl eq_refl). discriminate H.
Qed.

(* finding Fxx-C05-6: AuthMethodPost off, client registered client_secret_basic, exact secret as a form
   parameter, authorization_code grant on the Provider router -> tokens *)
Definition post_gap_witness : input :=
  mkInput RProvider EToken (mkCfg false true true true true true true false)
          (mkReg true MBasic AWeb [GCode] false) (PPost SRight) GCode (mkPl GPBody InBody InBody) NoPrev ArtOk.

(* the statement without the post guard is false too, also outside the device gap *)
Lemma token_post_refuted : ~ (forall r c rg p g pl pv ar,
  (r = RProvider /\ g = GDevice /\ registered rg GDevice = false -> False) ->
  names_other p = false ->
  success (model (mkInput r EToken c rg p g pl pv ar)) = true -> token_justified c rg p g = true).
Proof.
  intro H.
  specialize (H RProvider (mkCfg false true true true true true true false)
                (mkReg true MBasic AWeb [GCode] false) (PPost SRight) GCode (mkPl GPBody InBody InBody) NoPrev ArtOk).
  assert (Hn : RProvider = RProvider /\ GCode = GDevice /\
               registered (mkReg true MBasic AWeb [GCode] false) GDevice = false -> False) by (intros [_ [E _]]; discriminate E).
  specialize (H Hn eq_refl). vm_compute in H. specialize (H eq_refl). discriminate H.
Qed.

Lemma spec_model_post_refuted : exists i, known_gap i = false /\ other_gap i = false /\ spec i (model i) = false.
Proof. exists post_gap_witness. vm_compute. repeat split; reflexivity. Qed.

(* inside the post gap everything except the transport rule is still enforced: capability, grant
   registration, a known client and its exact secret *)
Lemma token_post_gap : forall r c rg p g pl pv ar,
  post_gap (mkInput r EToken c rg p g pl pv ar) = true -> names_other p = false ->
  success (model (mkInput r EToken c rg p g pl pv ar)) = true ->
  capability c g = true /\ registered rg g = true /\ r_known rg = true /\ presents_right_secret p = true.
Proof.
  intros r c rg p g pl pv ar Hpg Hno Hs.
  unfold post_gap in Hpg; cbn [i_endpoint i_cfg i_reg i_pres i_grant i_router] in Hpg.
  apply andb_true_iff in Hpg as [Hpg _]. apply andb_true_iff in Hpg as [Hrf Hm].
  assert (Hl : token_justified_lax c rg p g = true).
  { apply (token_partial_lax r c rg p g pl pv ar); [|exact Hno|exact Hs].
    intros [-> [-> _]]. discriminate Hrf. }
  unfold token_justified_lax, cred_valid_lax in Hl.
  destruct r, g; try discriminate Hrf.
  all: apply andb_true_iff in Hl as [Hl Hcv]; apply andb_true_iff in Hl as [Hc Hr];
    apply andb_true_iff in Hcv as [Hk Hp]; destruct (r_meth rg); try discriminate Hm; auto.
Qed.

Lemma token_gap : forall c rg p pl pv ar,
  registered rg GDevice = false -> names_other p = false ->
  success (model (mkInput RProvider EToken c rg p GDevice pl pv ar)) = true ->
  c_dev c = true /\ cred_valid c rg p true = true.
Proof.
  intros c rg p pl pv ar Hn Hno Hs.
  apply (token_gap_still_authenticated (mkInput RProvider EToken c rg p GDevice pl pv ar)); [reflexivity| |exact Hno|exact Hs].
  unfold known_gap; cbn. now rewrite Hn.
Qed.

Lemma token_gap_lax : forall c rg p pl pv ar,
  registered rg GDevice = false -> names_other p = false ->
  success (model (mkInput RProvider EToken c rg p GDevice pl pv ar)) = true ->
  c_dev c = true /\ cred_valid_lax c rg p true = true.
Proof.
  intros c rg p pl pv ar Hn Hno Hs. destruct (token_gap c rg p pl pv ar Hn Hno Hs) as [H1 H2].
  split; [exact H1|now apply cred_strict_to_lax].
Qed.

(* round 11: with AuthMethodPost off, outside the recorded class, a request whose Authorization
   header does not carry the client's exact secret and that has no valid assertion obtains no
   token for any client that is not public - in particular the exact secret as a form parameter
   buys nothing: not for a client registered client_secret_post (any router, any grant), and not
   for a client_secret_basic client on the handlers that honour the flag by construction
   (Provider router: token exchange, device_code) *)
Lemma post_disabled_form_secret_refused : forall r c rg p g pl pv ar,
  f_post c = false -> post_gap (mkInput r EToken c rg p g pl pv ar) = false ->
  secret_in_basic p = false -> presents_ok_assertion p = false ->
  r_meth rg <> MNone -> g <> GBearer -> names_other p = false ->
  success (model (mkInput r EToken c rg p g pl pv ar)) = false.
Proof.
  intros r c rg p g pl pv ar Hf Hpg Hb Ha Hm Hgb Hno.
  destruct (success (model (mkInput r EToken c rg p g pl pv ar))) eqn:Hs; [|reflexivity].
  assert (Hcv : forall b, cred_valid c rg p b = false).
  { intro b. unfold cred_valid, secret_as_enabled. rewrite Hf, Hb, Ha.
    destruct (r_meth rg); try congruence; cbn; now rewrite ?andb_false_r. }
  destruct (known_gap (mkInput r EToken c rg p g pl pv ar)) eqn:Hg.
  - unfold known_gap in Hg; cbn [i_router i_endpoint i_grant i_reg] in Hg.
    destruct r, g; try discriminate Hg. apply negb_true_iff in Hg.
    destruct (token_gap c rg p pl pv ar Hg Hno Hs) as [_ Hc]. rewrite Hcv in Hc. discriminate Hc.
  - pose proof (token_success_justified (mkInput r EToken c rg p g pl pv ar) eq_refl Hg Hpg Hno Hs) as Hj.
    cbn [i_cfg i_reg i_pres i_grant] in Hj. unfold token_justified in Hj. rewrite Hcv in Hj.
    destruct g; try congruence; rewrite ?andb_false_r in Hj; discriminate Hj.
Qed.

(* the recorded class is exactly the handlers that read form credentials; e.g. on the Provider
   router's token exchange the statement above applies to every client held to a secret *)
Lemma post_gap_excludes_unread : forall r c rg p g pl pv ar,
  reads_form_secret r g = false -> post_gap (mkInput r EToken c rg p g pl pv ar) = false.
Proof. intros r c rg p g pl pv ar H. unfold post_gap; cbn [i_endpoint i_router i_grant]. now rewrite H. Qed.

Lemma introspect_statement : forall r c rg p g pl pv ar,
  names_other p = false ->
  success (model (mkInput r EIntrospect c rg p g pl pv ar)) = true -> authenticated rg p = true.
Proof. intros r c rg p g pl pv ar. exact (introspect_success_justified (mkInput r EIntrospect c rg p g pl pv ar) eq_refl). Qed.

Lemma revoke_statement : forall r c rg p g pl pv ar,
  names_other p = false ->
  success (model (mkInput r ERevoke c rg p g pl pv ar)) = true ->
  authenticated rg p = true \/ (r_known rg = true /\ r_meth rg = MNone /\ identifies p = true).
Proof.
  intros r c rg p g pl pv ar Hno Hs.
  pose proof (revoke_success_justified (mkInput r ERevoke c rg p g pl pv ar) eq_refl Hno Hs) as H.
  cbn [i_reg i_pres] in H. unfold revoke_justified in H.
  apply orb_true_iff in H as [H|H]; [now left|right].
  apply andb_true_iff in H as [H H3]. apply andb_true_iff in H as [H1 H2].
  repeat split; try assumption. now destruct (r_meth rg).
Qed.

Lemma device_authz_statement : forall r c rg p g pl pv ar,
  names_other p = false ->
  success (model (mkInput r EDeviceAuthz c rg p g pl pv ar)) = true ->
  r_known rg = true /\ identifies p = true /\ registered rg GDevice = true.
Proof.
  intros r c rg p g pl pv ar Hno Hs.
  pose proof (device_authz_success_justified (mkInput r EDeviceAuthz c rg p g pl pv ar) eq_refl Hno Hs) as H.
  cbn [i_reg i_pres] in H. unfold device_authz_justified in H.
  apply andb_true_iff in H as [H H3]. apply andb_true_iff in H as [H1 H2]. auto.
Qed.

(* every answer that is not the success document is a refusal: status >= 400, no token, nothing
   disclosed or revoked, and on the token endpoint an OAuth error document *)
Lemma refusal_statement : forall i s e tok act w,
  model i = ORes s e tok act w -> s <> S2 ->
  (s = S4 \/ s = S5) /\ tok = false /\ act = false /\ w = WNone /\
  (i_endpoint i = EToken -> oauth_code e = true).
Proof.
  intros i s e tok act w Hm Hs.
  pose proof (refusal_shape_model i) as H. rewrite Hm in H.
  assert (Hr : refusal_shape (i_endpoint i) s e tok act w = true) by (destruct s; try exact H; congruence).
  unfold refusal_shape in Hr.
  apply andb_true_iff in Hr as [Hr H4]. apply andb_true_iff in Hr as [Hr H5].
  apply andb_true_iff in Hr as [Hr H3]. apply andb_true_iff in Hr as [H1 H2].
  repeat split.
  - destruct s; try discriminate H1; auto.
  - now destruct tok.
  - now destruct act.
  - now destruct w.
  - intros He. now rewrite He in H4.
Qed.

(* whatever a request issues, revokes or reports active in the name of another client than the
   case's client X is justified by that client's own registration for a request that merely
   names it (public client on a public grant / revocation, device code): a valid credential of X
   next to the id of Y never buys anything Y's id alone would not. *)
Lemma acts_for_other : forall i s e tok act,
  other_gap i = false ->
  model i = ORes s e tok act WOther -> other_justified i = true.
Proof.
  intros i s e tok act Hog Hm.
  pose proof (refusal_shape_model i) as H. rewrite Hm in H.
  pose proof (other_model i Hog) as Ho. rewrite Hm in Ho.
  destruct s; try (unfold refusal_shape in H; rewrite ?andb_false_r in H; cbn in H; discriminate H).
  exact Ho.
Qed.

(* in particular never for a confidential client Y, except the device code that needs no
   authentication - and that only when Y is registered for the device grant *)
Lemma never_for_confidential : forall i s e tok act v,
  other_gap i = false ->
  model i = ORes s e tok act WOther -> victim_of (i_pres i) = Some v -> v_meth v <> MNone ->
  i_endpoint i = EDeviceAuthz.
Proof.
  intros i s e tok act [vm vg] Hog Hm Hv Hn. cbn in Hn.
  pose proof (acts_for_other i s e tok act Hog Hm) as H.
  unfold other_justified in H. rewrite Hv in H. unfold justified in H; cbn [i_endpoint i_cfg i_reg i_pres i_grant] in H.
  destruct (i_endpoint i); try reflexivity; exfalso.
  - unfold token_justified, cred_valid in H; cbn in H.
    destruct (i_grant i), vm; cbn in H; rewrite ?andb_false_r in H; try discriminate H; now apply Hn.
  - unfold introspect_justified, authenticated in H; cbn in H. destruct vm; cbn in H; discriminate H.
  - unfold revoke_justified, authenticated in H; cbn in H. destruct vm; cbn in H; try discriminate H; now apply Hn.
Qed.

(* a device code is stored in another client's name only if that client is registered for the
   device grant (and the request names it) *)
Lemma device_code_for_other_needs_grant : forall i s e tok act v,
  model i = ORes s e tok act WOther -> victim_of (i_pres i) = Some v -> i_endpoint i = EDeviceAuthz ->
  registered (victim_reg v) GDevice = true.
Proof.
  intros i s e tok act v Hm Hv He.
  assert (Hog : other_gap i = false) by (unfold other_gap; rewrite He; now destruct (i_router i)).
  pose proof (acts_for_other i s e tok act Hog Hm) as H.
  unfold other_justified in H. rewrite Hv in H. unfold justified in H; cbn [i_endpoint i_cfg i_reg i_pres i_grant] in H.
  rewrite He in H. unfold device_authz_justified in H; cbn [i_reg i_pres] in H.
  apply andb_true_iff in H as [_ H]. exact H.
Qed.

(* the model never panics and never writes twice *)
Lemma model_total : forall i, exists s e tok act w, model i = ORes s e tok act w.
Proof.
  intro i. unfold model. destruct (authenticate _ _ _ _ _ _ _ _ _); eauto 6.
Qed.

(* consequences spelled out for the cases the property text names *)

(* an unknown client gets nothing anywhere *)
Lemma unknown_client_refused : forall r e c rg p g pl pv ar,
  r_known rg = false -> names_other p = false -> success (model (mkInput r e c rg p g pl pv ar)) = false.
Proof.
  intros r e c rg p g pl pv ar Hk Hno.
  destruct (success (model (mkInput r e c rg p g pl pv ar))) eqn:Hs; [|reflexivity].
  assert (Hgap : known_gap (mkInput r e c rg p g pl pv ar) = false \/ known_gap (mkInput r e c rg p g pl pv ar) = true)
    by (destruct (known_gap _); auto).
  destruct Hgap as [Hg|Hg].
  - pose proof (justified_lax_model _ Hg Hno Hs) as Hj. unfold justified_lax in Hj; cbn [i_endpoint i_cfg i_reg i_pres i_grant] in Hj.
    destruct e; cbn in Hj.
    + unfold token_justified_lax, cred_valid_lax in Hj. rewrite Hk in Hj.
      destruct g; cbn in Hj; rewrite ?andb_false_r in Hj; discriminate Hj.
    + unfold introspect_justified, authenticated in Hj. rewrite Hk in Hj. discriminate Hj.
    + unfold revoke_justified, authenticated in Hj. rewrite Hk in Hj. discriminate Hj.
    + unfold device_authz_justified in Hj. rewrite Hk in Hj. discriminate Hj.
  - unfold known_gap in Hg; cbn [i_router i_endpoint i_grant i_reg] in Hg.
    destruct r, e, g; try discriminate Hg.
    apply negb_true_iff in Hg.
    destruct (token_gap_lax c rg p pl pv ar Hg Hno Hs) as [_ Hc]. unfold cred_valid_lax in Hc. rewrite Hk in Hc. discriminate Hc.
Qed.

(* a secret-registered client that presents neither its secret nor a valid assertion gets no
   token and no metadata *)
Lemma wrong_secret_refused : forall r e c rg p g pl pv ar,
  has_secret (r_meth rg) = true -> presents_right_secret p = false -> presents_ok_assertion p = false ->
  e <> EDeviceAuthz -> g <> GBearer ->
  success (model (mkInput r e c rg p g pl pv ar)) = false.
Proof.
  intros r e c rg p g pl pv ar Hm Hp Ha He Hgb.
  assert (Hno : names_other p = false) by (destruct p; cbn in *; congruence).
  destruct (success (model (mkInput r e c rg p g pl pv ar))) eqn:Hs; [|reflexivity].
  assert (Hcv : forall b, cred_valid_lax c rg p b = false).
  { intro b. unfold cred_valid_lax. rewrite Hp, Ha.
    destruct (r_meth rg); try discriminate Hm; cbn; now rewrite andb_false_r. }
  destruct (known_gap (mkInput r e c rg p g pl pv ar)) eqn:Hg.
  - unfold known_gap in Hg; cbn [i_router i_endpoint i_grant i_reg] in Hg.
    destruct r, e, g; try discriminate Hg. apply negb_true_iff in Hg.
    destruct (token_gap_lax c rg p pl pv ar Hg Hno Hs) as [_ Hc]. rewrite Hcv in Hc. discriminate Hc.
  - pose proof (justified_lax_model _ Hg Hno Hs) as Hj. unfold justified_lax in Hj; cbn [i_endpoint i_cfg i_reg i_pres i_grant] in Hj.
    destruct e; try congruence.
    + unfold token_justified_lax in Hj. rewrite Hcv in Hj.
      destruct g; try congruence; rewrite ?andb_false_r in Hj; discriminate Hj.
    + unfold introspect_justified, authenticated in Hj. rewrite Hp, Ha in Hj.
      rewrite ?andb_false_r in Hj. discriminate Hj.
    + unfold revoke_justified, authenticated in Hj. rewrite Hp, Ha in Hj.
      destruct (r_meth rg); try discriminate Hm; cbn in Hj; rewrite ?andb_false_r in Hj; discriminate Hj.
Qed.

(* a grant that is not registered for the client yields no token (outside the recorded gap),
   and no device code *)
Lemma unregistered_grant_refused : forall r c rg p g pl pv ar,
  registered rg g = false -> g <> GBearer -> (r = RProvider /\ g = GDevice -> False) ->
  names_other p = false ->
  success (model (mkInput r EToken c rg p g pl pv ar)) = false.
Proof.
  intros r c rg p g pl pv ar Hn Hb Hgap Hno.
  destruct (success (model (mkInput r EToken c rg p g pl pv ar))) eqn:Hs; [|reflexivity].
  assert (Hj : token_justified_lax c rg p g = true).
  { apply (token_partial_lax r c rg p g pl pv ar); [|exact Hno|exact Hs]. intros [H1 [H2 _]]. now apply Hgap. }
  unfold token_justified_lax in Hj. rewrite Hn in Hj.
  destruct g; try congruence; rewrite ?andb_false_r in Hj; cbn in Hj; discriminate.
Qed.

Lemma unregistered_device_grant_no_device_code : forall r c rg p g pl pv ar,
  registered rg GDevice = false -> names_other p = false ->
  success (model (mkInput r EDeviceAuthz c rg p g pl pv ar)) = false.
Proof.
  intros r c rg p g pl pv ar Hn Hno.
  destruct (success (model (mkInput r EDeviceAuthz c rg p g pl pv ar))) eqn:Hs; [|reflexivity].
  destruct (device_authz_statement r c rg p g pl pv ar Hno Hs) as [_ [_ H]]. congruence.
Qed.

(* a disabled grant (provider flag or storage capability off) yields no token *)
Lemma disabled_grant_refused : forall r c rg p g pl pv ar,
  capability c g = false -> names_other p = false ->
  success (model (mkInput r EToken c rg p g pl pv ar)) = false.
Proof.
  intros r c rg p g pl pv ar Hc Hno.
  destruct (success (model (mkInput r EToken c rg p g pl pv ar))) eqn:Hs; [|reflexivity].
  destruct (known_gap (mkInput r EToken c rg p g pl pv ar)) eqn:Hg.
  - unfold known_gap in Hg; cbn [i_router i_endpoint i_grant i_reg] in Hg.
    destruct r, g; try discriminate Hg. apply negb_true_iff in Hg.
    destruct (token_gap c rg p pl pv ar Hg Hno Hs) as [Hd _]. cbn in Hc. congruence.
  - pose proof (token_success_justified_lax (mkInput r EToken c rg p g pl pv ar) eq_refl Hg Hno Hs) as Hj. cbn [i_cfg i_reg i_pres i_grant] in Hj.
    unfold token_justified_lax in Hj. rewrite Hc in Hj. destruct g; cbn in *; discriminate.
Qed.

(* No guard keeps state between requests: the answer does not depend on what the provider
   served before (the correspondence run sends a fully credentialed request of a third client
   first and compares with this model). *)
Lemma history_independent : forall r e c rg p g pl pv pv' ar,
  model (mkInput r e c rg p g pl pv ar) = model (mkInput r e c rg p g pl pv' ar).
Proof. reflexivity. Qed.

(* The storage contract lets the EMPTY secret match a client without a stored secret
   ([storage_secret_ok rg SEmpty = r_known rg] for none / private_key_jwt clients).  Still such a
   client gets nothing that needs authentication out of an empty or half-sent credential. *)
Definition hollow (p : pres) : bool :=
  match p with
  | PIdOnly | PBasic SEmpty _ | PPost SEmpty | PBoth SEmpty SEmpty | PAssertTypeOnly => true
  | _ => false
  end.

Lemma storage_accepts_empty_secret : forall rg,
  r_known rg = true -> has_secret (r_meth rg) = false -> storage_secret_ok rg SEmpty = true.
Proof. intros rg Hk Hs. unfold storage_secret_ok. now rewrite Hk, Hs. Qed.

Lemma hollow_credential_refused : forall r e c rg p g pl pv ar,
  hollow p = true ->
  e = EIntrospect \/ (e = EToken /\ (g = GTE \/ g = GCC)) ->
  success (model (mkInput r e c rg p g pl pv ar)) = false.
Proof.
  intros r e c rg p g pl pv ar Hh He.
  destruct (success (model (mkInput r e c rg p g pl pv ar))) eqn:Hs; [|reflexivity].
  assert (Hno : names_other p = false) by (destruct p; try discriminate Hh; reflexivity).
  assert (Hp : presents_right_secret p = false)
    by (destruct p as [| |[] ?| |[]|[]|[]| | | |[] []|?|?|?|?|?|[] []|?]; try discriminate Hh; reflexivity).
  assert (Ha : presents_ok_assertion p = false) by (destruct p; try discriminate Hh; reflexivity).
  destruct He as [->|[-> Hg]].
  - pose proof (introspect_statement r c rg p g pl pv ar Hno Hs) as H.
    unfold authenticated in H. rewrite Hp, Ha, !andb_false_r in H. destruct (r_known rg); discriminate H.
  - assert (Hj : token_justified_lax c rg p g = true).
    { apply (token_partial_lax r c rg p g pl pv ar); [|exact Hno|exact Hs].
      intros [_ [H2 _]]. destruct Hg; congruence. }
    unfold token_justified_lax, cred_valid_lax in Hj. rewrite Hp, Ha in Hj.
    destruct Hg; subst g; destruct (r_meth rg); cbn in Hj; rewrite ?andb_false_r in Hj; discriminate Hj.
Qed.

(* ---------------- non-vacuity: success is reachable on every endpoint and router *)

Definition std_pl := mkPl GPBody InBody InBody.
Definition all_on := mkCfg true true true true true true true false.

Example token_nonvacuous :
  forallb (fun r => forallb (fun g =>
    success (model (mkInput r EToken all_on (mkReg true MBasic AWeb all_grants true) (PBasic SRight true) g std_pl NoPrev ArtOk)))
    [GCode; GRefresh; GCC; GBearer; GTE; GDevice]) [RProvider; RLegacy] = true.
Proof. vm_compute. reflexivity. Qed.

Example token_nonvacuous_pkjwt_public :
  forallb (fun r =>
    success (model (mkInput r EToken all_on (mkReg true MPKJWT AWeb all_grants true) (PAssert AOk) GCode std_pl NoPrev ArtOk))
    && success (model (mkInput r EToken all_on (mkReg true MNone ANative all_grants false) PIdOnly GRefresh std_pl NoPrev ArtOk))
    && success (model (mkInput r EToken all_on (mkReg true MPost AWeb all_grants false) (PPost SRight) GCode std_pl NoPrev ArtOk)))
    [RProvider; RLegacy] = true.
Proof. vm_compute. reflexivity. Qed.

Example other_endpoints_nonvacuous :
  forallb (fun r => forallb (fun e =>
    success (model (mkInput r e all_on (mkReg true MBasic AWeb all_grants true) (PBasic SRight false) GMissing std_pl NoPrev ArtOk)))
    [EIntrospect; ERevoke; EDeviceAuthz]) [RProvider; RLegacy] = true.
Proof. vm_compute. reflexivity. Qed.

Example refusal_nonvacuous :
  model (mkInput RLegacy EToken all_on (mkReg true MBasic AWeb all_grants true) (PBasic SWrong false) GCode std_pl NoPrev ArtOk)
  = ORes S4 EInvalidClient false false WNone.
Proof. vm_compute. reflexivity. Qed.

(* cross-client requests: X's valid credential with Y's id and Y's artefact acts for X or not at all *)
Example cross_nonvacuous :
  let x := mkReg true MBasic AWeb all_grants true in
  model (mkInput RProvider ERevoke all_on x (PXBasic (mkV MBasic true)) GMissing std_pl NoPrev ArtOk) = ORes S4 EInvalidClient false false WNone
  /\ model (mkInput RLegacy EToken all_on x (PXBasic (mkV MBasic true)) GCode std_pl NoPrev ArtOk) = ORes S4 EInvalidGrant false false WNone
  /\ model (mkInput RProvider EToken all_on x (PXAssert (mkV MBasic true)) GCC std_pl NoPrev ArtOk) = ORes S4 EInvalidClient false false WNone
  /\ model (mkInput RLegacy EToken all_on x (PXBasic (mkV MBasic true)) GCC std_pl NoPrev ArtOk) = ORes S2 ENone true false WSelf
  /\ model (mkInput RProvider EIntrospect all_on x (PXAssert (mkV MBasic true)) GMissing std_pl NoPrev ArtOk) = ORes S2 ENone false false WNone.
Proof. vm_compute. repeat split; reflexivity. Qed.

(* where parameters travel: a device_code in the URL query is not read by the Provider router;
   a grant_type in the URL query is dispatched AND checked against the registration; a client_id
   in the query wins over the one in the body; an assertion of X never acts for a
   private_key_jwt client Y named by client_id *)
Example placement_nonvacuous :
  let x := mkReg true MBasic AWeb all_grants true in
  let nogrant := mkReg true MBasic AWeb [GCode] true in
  model (mkInput RProvider EToken all_on x (PBasic SRight false) GDevice (mkPl GPBody InBody InQuery) NoPrev ArtOk)
    = ORes S4 EAccessDenied false false WNone
  /\ model (mkInput RLegacy EToken all_on x (PBasic SRight false) GDevice (mkPl GPQuery InQuery InQuery) NoPrev ArtOk)
    = ORes S2 ENone true false WSelf
  /\ model (mkInput RLegacy EToken all_on nogrant (PBasic SRight false) GTE (mkPl GPQuery InBody InBody) NoPrev ArtOk)
    = ORes S4 EUnauthorizedClient false false WNone
  /\ model (mkInput RLegacy EToken all_on x (PXDup (mkV MBasic true)) GCode std_pl NoPrev ArtOk)
    = ORes S4 EInvalidClient false false WNone
  /\ model (mkInput RLegacy EToken all_on (mkReg true MPKJWT AWeb all_grants true) (PXAssert (mkV MPKJWT true)) GCode std_pl NoPrev ArtOk)
    = ORes S4 EInvalidGrant false false WNone
  /\ model (mkInput RLegacy EToken all_on x (PXPost (mkV MNone true)) GCode std_pl NoPrev ArtOk)
    = ORes S2 ENone true false WOther.
Proof. vm_compute. repeat split; reflexivity. Qed.

Example known_gap_nonvacuous : known_gap gap_witness = true /\ success (model gap_witness) = true.
Proof. split; vm_compute; reflexivity. Qed.

(* round 11: where the secret travels x AuthMethodPost.  The input of seeded regression C05-S (Provider
   router, token exchange, AuthMethodPost off, client_secret_basic client, exact secret in the form)
   is refused, the same secret in the Authorization header is served; a client_secret_post client is
   served by the form while the flag is on and refused everywhere while it is off; the recorded
   class (Fxx-C05-6) is not empty. *)
Definition post_off := mkCfg false true true true true true true false.
Example post_flag_nonvacuous :
  let bas := mkReg true MBasic AWeb all_grants false in
  let pst := mkReg true MPost AWeb all_grants false in
  model (mkInput RProvider EToken post_off bas (PPost SRight) GTE std_pl NoPrev ArtOk) = ORes S4 EInvalidClient false false WNone
  /\ post_gap (mkInput RProvider EToken post_off bas (PPost SRight) GTE std_pl NoPrev ArtOk) = false
  /\ success (model (mkInput RProvider EToken post_off bas (PBasic SRight false) GTE std_pl NoPrev ArtOk)) = true
  /\ success (model (mkInput RProvider EToken all_on pst (PPost SRight) GRefresh std_pl NoPrev ArtOk)) = true
  /\ forallb (fun r => forallb (fun g =>
        negb (success (model (mkInput r EToken post_off pst (PPost SRight) g std_pl NoPrev ArtOk)))
        && negb (success (model (mkInput r EToken post_off pst (PBasic SRight false) g std_pl NoPrev ArtOk))))
        [GCode; GRefresh; GCC; GTE; GDevice]) [RProvider; RLegacy] = true
  /\ post_gap post_gap_witness = true /\ success (model post_gap_witness) = true
  /\ token_justified (i_cfg post_gap_witness) (i_reg post_gap_witness) (i_pres post_gap_witness) GCode = false.
Proof. vm_compute. repeat split; reflexivity. Qed.
