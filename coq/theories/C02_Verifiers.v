(* C02: the provider-side verifiers, as compositions of the Check* predicates
   (C01_Verifier) and check_signature (C02_Jws).

   Go                                                    Gallina
   ------------------------------------------------------------------------
   op.VerifyAccessToken  (pkg/op/verifier_access_token.go)    verify_access_token
   op.VerifyIDTokenHint  (pkg/op/verifier_id_token_hint.go)   verify_id_token_hint
   op.VerifyJWTAssertion (pkg/op/verifier_jwt_profile.go)     verify_jwt_assertion
        with op.SubjectIsIssuer
   op.ParseRequestObject + CopyRequestObjectToAuthRequest
        (pkg/op/auth_request.go)                              parse_request_object
   rp.VerifyIDToken                                           C01_Verifier.verify_id_token *)
From OIDC Require Import Lib C02_Jws C01_Verifier.

(* the authorization request a request object is attached to *)
Record authreq := mkAuthReq {
  a_client : string; a_rtype : string; a_nonce : string; a_state : string
}.

Definition empty_claims : claims :=
  mkClaims "" "" [] "" 0 0 0 "" "" "" "" "" "".

(* what ParseRequestObject hands back: the authorization request after
   CopyRequestObjectToAuthRequest, projected to client_id, response_type, nonce, state *)
Definition ro_project (a : authreq) (c : claims) : claims :=
  mkClaims "" "" [] "" 0 0 0
           (if c_nonce c =s "" then a_nonce a else c_nonce c) "" ""
           (a_client a) (a_rtype a)
           (if c_extra c =s "" then a_state a else c_extra c).

(* VerifyJWTAssertion / ParseRequestObject bind the storage key set to the
   token's (unverified) issuer; a caller-supplied key set is used as is *)
Definition bind_profile (ks : keyset) (iss : string) : keyset :=
  match ks with
  | KSProfile _ store => KSProfile iss store
  | other => other
  end.

(* op.NewProvider with its key-set / verifier options, and the verifiers
   Provider.AccessTokenVerifier / Provider.IDTokenHintVerifier build from it:
   each key set defaults, on its own, to the storage-backed OpenIDKeySet *)
Record provider := mkProvider {
  p_issuer : string;
  p_storage_keys : option (list jwk);     (* Storage.KeySet; None = error *)
  p_at_keyset : option keyset;            (* WithAccessTokenKeySet *)
  p_hint_keyset : option keyset;          (* WithIDTokenHintKeySet *)
  p_at_algs : list string;                (* WithAccessTokenVerifierOpts(WithSupportedAccessTokenSigningAlgorithms) *)
  p_hint_algs : list string               (* WithIDTokenHintVerifierOpts(WithSupportedIDTokenHintSigningAlgorithms) *)
}.

Definition provider_keyset (p : provider) (hint : bool) : keyset :=
  match (if hint then p_hint_keyset p else p_at_keyset p) with
  | Some k => k
  | None => KSOpenID (p_storage_keys p)
  end.

Definition provider_verifier (p : provider) (hint : bool) : verifier :=
  mkVerifier (p_issuer p) "" 0 0 0 None None (if hint then p_hint_algs p else p_at_algs p).

Section Verify.
  Variable verify : jwk -> sigentry -> string -> bool.

  Definition verify_access_token (v : verifier) (ks : keyset) (t : token) (m : middle) (now : Z) : outcome :=
    match m with
    | MidOk bytes c =>
        chk_issuer c (v_issuer v) ;;
        match check_signature verify (v_algs v) ks t bytes with
        | Err e => Reject e
        | Ok alg => chk_expiration c (v_offset v) now ;; Accept c alg
        end
    | _ => Reject (mid_error m)
    end.

  Definition verify_id_token_hint (v : verifier) (ks : keyset) (t : token) (m : middle) (now : Z) : outcome :=
    match m with
    | MidOk bytes c =>
        chk_issuer c (v_issuer v) ;;
        match check_signature verify (v_algs v) ks t bytes with
        | Err e => Reject e
        | Ok alg =>
            chk_acr c (v_acr v) ;;
            match chk_expiration c (v_offset v) now with
            | Some e => AcceptExpired c alg e
            | None =>
                match chk_issued_at c (v_max_iat v) (v_offset v) now with
                | Some e => AcceptExpired c alg e
                | None =>
                    match chk_auth_time c (v_max_age v) now with
                    | Some e => AcceptExpired c alg e
                    | None => Accept c alg
                    end
                end
            end
        end
    | _ => Reject (mid_error m)
    end.

  (* v_issuer, v_max_iat, v_offset are the only configuration used;
     SetSignatureAlgorithm is a no-op on JWTTokenRequest, so alg is "" *)
  (* deleg = the verifier was built with a SubjectCheck option that admits
     sub <> iss (delegation); otherwise the default SubjectIsIssuer *)
  Definition verify_jwt_assertion (deleg : bool) (v : verifier) (ks : keyset) (t : token) (m : middle) (now : Z) : outcome :=
    match m with
    | MidOk bytes c =>
        chk_audience c (v_issuer v) ;;
        chk_expiration c (v_offset v) now ;;
        chk_issued_at c (v_max_iat v) (v_offset v) now ;;
        (if deleg || (c_iss c =s c_sub c) then None else Some ESubjectIssuer) ;;
        match check_signature verify [] (bind_profile ks (c_iss c)) t bytes with
        | Err e => Reject e
        | Ok _ => Accept c ""
        end
    | _ => Reject (mid_error m)
    end.

  Definition parse_request_object (a : authreq) (issuer : string) (ks : keyset) (t : token) (m : middle) : outcome :=
    match m with
    | MidOk bytes c =>
        (if negb (c_client_id c =s "") && negb (c_client_id c =s a_client a) then Some EReq else None) ;;
        (if negb (c_rtype c =s "") && negb (c_rtype c =s a_rtype a) then Some EReq else None) ;;
        (if c_iss c =s c_client_id c then None else Some EReq) ;;
        (if string_in issuer (c_aud c) then None else Some EReq) ;;
        match check_signature verify [] (bind_profile ks (c_iss c)) t bytes with
        | Err e => Reject e
        | Ok _ => Accept (ro_project a c) ""
        end
    | _ => Reject (mid_error m)
    end.

  (* the five public entry points *)
  Inductive vkind :=
  | VRpIDToken | VAccessToken | VIDTokenHint
  | VJWTAssertion (deleg : bool)
  | VRequestObject (a : authreq).

  Definition run_verifier (k : vkind) (v : verifier) (ks : keyset) (t : token) (m : middle) (now : Z) : outcome :=
    match k with
    | VRpIDToken => verify_id_token verify v ks t m now
    | VAccessToken => verify_access_token v ks t m now
    | VIDTokenHint => verify_id_token_hint v ks t m now
    | VJWTAssertion d => verify_jwt_assertion d v ks t m now
    | VRequestObject a => parse_request_object a (v_issuer v) ks t m
    end.

  (* the verifier a provider hands out, run on one token *)
  Definition run_provider_verifier (p : provider) (hint : bool) (t : token) (m : middle) (now : Z) : outcome :=
    run_verifier (if hint then VIDTokenHint else VAccessToken) (provider_verifier p hint) (provider_keyset p hint) t m now.

  (* allow-list and key set a verifier hands to CheckSignature for claims c *)
  Definition verifier_algs (k : vkind) (v : verifier) : list string :=
    match k with
    | VRpIDToken | VAccessToken | VIDTokenHint => v_algs v
    | VJWTAssertion _ | VRequestObject _ => []
    end.
  Definition verifier_keyset (k : vkind) (ks : keyset) (c : claims) : keyset :=
    match k with
    | VRpIDToken | VAccessToken | VIDTokenHint => ks
    | VJWTAssertion _ | VRequestObject _ => bind_profile ks (c_iss c)
    end.
  (* claims handed back for decoded payload c *)
  Definition returned_claims (k : vkind) (c : claims) : claims :=
    match k with
    | VRequestObject a => ro_project a c
    | _ => c
    end.
End Verify.
