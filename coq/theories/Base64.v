(* base64.RawURLEncoding as Go implements it (non-strict: '\r' and '\n' are
   skipped by the decoder, trailing bits are not checked, '=' is illegal). *)
From OIDC Require Import Lib.

Definition b64_alphabet : string :=
  "ABCDEFGHIJKLMNOPQRSTUVWXYZabcdefghijklmnopqrstuvwxyz0123456789-_".

Definition enc_char (n : nat) : ascii :=
  nth n (list_ascii_of_string b64_alphabet) "A"%char.

Definition dec_char (a : ascii) : option nat :=
  let n := nat_of_ascii a in
  if (65 <=? n) && (n <=? 90) then Some (n - 65)
  else if (97 <=? n) && (n <=? 122) then Some (n - 71)
  else if (48 <=? n) && (n <=? 57) then Some (n + 4)
  else if n =? 45 then Some 62
  else if n =? 95 then Some 63
  else None.

Fixpoint sextets_of_bytes (l : list nat) : list nat :=
  match l with
  | b1 :: b2 :: b3 :: r =>
      (b1 / 4) :: ((b1 mod 4) * 16 + b2 / 16) :: ((b2 mod 16) * 4 + b3 / 64) :: (b3 mod 64)
      :: sextets_of_bytes r
  | [b1; b2] => [b1 / 4; (b1 mod 4) * 16 + b2 / 16; (b2 mod 16) * 4]
  | [b1] => [b1 / 4; (b1 mod 4) * 16]
  | [] => []
  end.

Fixpoint bytes_of_sextets (s : list nat) : option (list nat) :=
  match s with
  | s1 :: s2 :: s3 :: s4 :: r =>
      match bytes_of_sextets r with
      | Some t => Some ((s1 * 4 + s2 / 16) :: ((s2 mod 16) * 16 + s3 / 4) :: ((s3 mod 4) * 64 + s4) :: t)
      | None => None
      end
  | [s1; s2; s3] => Some [s1 * 4 + s2 / 16; (s2 mod 16) * 16 + s3 / 4]
  | [s1; s2] => Some [s1 * 4 + s2 / 16]
  | [_] => None
  | [] => Some []
  end.

Fixpoint string_of_sextets (l : list nat) : string :=
  match l with
  | [] => EmptyString
  | n :: r => String (enc_char n) (string_of_sextets r)
  end.

(* decoder front end: skip CR/LF, map characters, fail on anything else *)
Fixpoint sextets_of_string (s : string) : option (list nat) :=
  match s with
  | EmptyString => Some []
  | String a r =>
      let n := nat_of_ascii a in
      if (n =? 10) || (n =? 13) then sextets_of_string r
      else match dec_char a, sextets_of_string r with
           | Some v, Some t => Some (v :: t)
           | _, _ => None
           end
  end.

Definition b64_encode (l : list nat) : string := string_of_sextets (sextets_of_bytes l).
Definition b64_decode (s : string) : option (list nat) :=
  match sextets_of_string s with
  | Some x => bytes_of_sextets x
  | None => None
  end.

Definition is_byte (n : nat) : bool := n <? 256.
Definition all_bytes (l : list nat) : bool := forallb is_byte l.
