(* C09 layer (d): client-side helpers over what a (faulty or hostile) provider answers.
   pkg/http/http.go HttpRequest; pkg/client/client.go Discover, CallTokenEndpoint,
   CallTokenExchangeEndpoint, CallDeviceAuthorizationEndpoint, CallDeviceAccessTokenEndpoint;
   pkg/client/rp/relying_party.go Userinfo; pkg/client/rs/resource_server.go Introspect;
   pkg/client/rp/jwks.go fetchRemoteKeys (body decoding is go-jose: not modelled). *)
From OIDC Require Import Lib C09_Json C09_Codec.

Inductive helper :=
| HDiscover | HTokenEndpoint | HTokenExchange | HDeviceAuthz | HDeviceToken | HUserinfo | HIntrospect | HJwks.

Inductive body :=
| BInvalid              (* empty, truncated or otherwise not a JSON document *)
| BJson (j : json)
| BTrailing (j : json). (* a complete JSON value followed by further non-blank bytes (appended error page,
                           two concatenated documents): not a JSON document either *)

Definition well_formed (b : body) : bool := match b with BJson _ => true | _ => false end.

(* the Content-Length the response announces, relative to the body actually sent *)
Inductive clen := CLHonest | CLUnknown (* -1: chunked *) | CLSmaller | CLLarger | CLNegative
               | CLHuge.   (* beyond any allocation: 2^62 .. 2^63-1 *)

Record answer := { a_ok : bool (* status 200 *); a_body : body; a_clen : clen }.

Definition hschema (h : helper) : schema * bool :=
  match h with
  | HDiscover => (sc_discovery, false)
  | HTokenEndpoint | HDeviceToken => (sc_token_response, false)
  | HTokenExchange => (sc_token_exchange, false)
  | HDeviceAuthz => (sc_device_authz, false)
  | HUserinfo => (sc_userinfo, true)
  | HIntrospect => (sc_introspection, true)
  | HJwks => ([], false)
  end.

Section Client.
  Variable rfc3339_ok : string -> bool.
  Variable lang_class : string -> nat.

  (* HttpRequest into a pointer to the helper's (non-nil) result pointer:
     None = the pointer was reset to nil by a JSON null.
     [guard] = HttpRequest refuses a null document (after F12). *)
  (* [presize] = the body buffer is grown to the announced Content-Length before reading
     (bytes.Buffer.Grow panics beyond the maximal allocation); the code reads with io.ReadAll *)
  Definition read_body (presize : bool) (a : answer) : result unit :=
    match a_clen a with
    | CLHuge => if presize then Panic else Ok tt
    | _ => Ok tt
    end.

  Definition http_request_from (presize guard : bool) (h : helper) (a : answer) : result (option json) :=
    match read_body presize a with
    | Panic => Panic
    | _ =>
    if negb (a_ok a) then Err else        (* non-200: *oidc.Error or a plain error, always an error *)
    match a_body a with
    | BInvalid => Err
    | BTrailing _ => Err     (* json.Unmarshal validates the whole body first *)
    | BJson j =>
        if is_null j then (if guard then Err else Ok None)
        else match decode_struct rfc3339_ok lang_class true (fst (hschema h)) (snd (hschema h)) j with
             | Ok _ => Ok (Some j)
             | Err => Err
             | Panic => Panic
             end
    end
    end.

  Definition http_request := http_request_from false.

  Definition field (k : string) (j : json) : string :=
    match j with JObj ms => last_str k ms EmptyString | _ => EmptyString end.

  Inductive cres := CRetOk | CRetErr | CPanic
  | CHang.   (* did not return: blocked past its context / a watchdog, or blocks the next call on the same instance *)

  (* [expect]: the issuer (Discover) / subject (Userinfo) the caller compares with *)
  Definition call (guard : bool) (h : helper) (a : answer) (expect : string) : cres :=
    match h with
    | HJwks => CRetErr      (* projection: returned (outcome class of go-jose decoding not modelled) *)
    | _ =>
      match http_request guard h a with
      | Err => CRetErr
      | Panic => CPanic
      | Ok p =>
          match h with
          | HDiscover =>        (* discoveryConfig.Issuer *)
              match deref p with
              | Ok j => if String.eqb (field "issuer" j) expect then CRetOk else CRetErr
              | _ => CPanic
              end
          | HTokenEndpoint =>   (* tokenRes.AccessToken *)
              match deref p with Ok _ => CRetOk | _ => CPanic end
          | HUserinfo =>        (* userinfo.GetSubject() *)
              match deref p with
              | Ok j => if String.eqb (field "sub" j) expect then CRetOk else CRetErr
              | _ => CPanic
              end
          | _ => CRetOk         (* the (possibly nil) pointer is returned as is *)
          end
      end
    end.

  (* ---- device flow: rp.DeviceAuthorization, then rp.DeviceAccessToken / client.PollDeviceAccessTokenEndpoint
     with the poll interval the provider's answer carries (absent = 0; OPTIONAL in RFC 8628) ----
     [after]: the wait is time.After / context.WithTimeout, which accept a non-positive duration
     (false = time.NewTicker, which panics on one).
     Intervals are counted in the caller's unit; more than [max_wait] units exceed the caller's deadline. *)
  Definition int_field (k : string) (j : json) : Z :=
    match j with JObj ms => last_int k ms 0%Z | _ => 0%Z end.

  Definition max_wait : Z := 2%Z.

  Definition poll (after : bool) (interval : Z) (tok : answer) : cres :=
    if (interval <=? 0)%Z then (if after then CRetErr else CPanic)   (* attempt under an expired context: deadline exceeded *)
    else if (max_wait <? interval)%Z then CRetErr                     (* caller's context ends first *)
    else match http_request true HDeviceToken tok with
         | Ok _ => CRetOk
         | Err => CRetErr            (* refusal; or authorization_pending / slow_down until the caller's deadline *)
         | Panic => CPanic
         end.

  Definition device_flow (after : bool) (dev tok : answer) : cres :=
    match http_request true HDeviceAuthz dev with
    | Err => CRetErr
    | Panic => CPanic
    | Ok p => match deref p with
              | Ok j => poll after (int_field "interval" j) tok
              | _ => CPanic
              end
    end.
End Client.
