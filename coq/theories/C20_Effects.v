(* C20: effect system for "shared instances are race-free and isolated".

   Locations are the pieces of state that more than one instance / goroutine can
   reach: package variables, objects supplied by the caller, storage-owned objects
   handed to the framework, per-instance fields, and per-instance state that is only
   touched under the instance's mutex.  Every public constructor / option / API call
   that is covered is an [op]; [effects] is its write table (in program order, with
   the source of every written value), [extra_reads] the locations it reads without
   copying them anywhere.  [apply] executes the table: it writes exactly the write
   set.  The table is derived by reading the Go code (FIXED code for F09, F10, F11,
   Fxx-C20-1, Fxx-C20-2; see notes/C20.md for the line-by-line map). *)
From OIDC Require Import Lib.

Definition val := nat.            (* canonical value id; 0 = nil / unset *)

Inductive ep := EAuth | EToken | EIntro | EUserinfo | ERevoke | EEndSession
              | ECheckSession | EKeys | EDevice.      (* fields of op.Endpoints *)
Definition all_eps := [EAuth; EToken; EIntro; EUserinfo; ERevoke; EEndSession; ECheckSession; EKeys; EDevice].

Inductive cfield := CTransport | CCheckRedirect | CJar | CTimeout.   (* fields of http.Client *)
Definition all_cfields := [CTransport; CCheckRedirect; CJar; CTimeout].

Inductive gvar :=
| GEp (e : ep)        (* op.DefaultEndpoints.<e> *)
| GHTTPClient         (* the pointer variable httphelper.DefaultHTTPClient (its target is client 0) *)
| GClaims             (* op.DefaultSupportedClaims (contents) *)
| GScopes             (* op.DefaultSupportedScopes (contents) *)
| GCors               (* op.defaultCORSOptions (deep contents) *)
| GEncoder            (* client.Encoder *)
| GErrH               (* rp.DefaultErrorHandler *)
| GUnauthH.           (* rp.DefaultUnauthorizedHandler *)

Inductive ifield :=
| FEp (e : ep)        (* Provider.endpoints.<e> / LegacyServer.endpoints.<e> *)
| FHTTP               (* httpClient pointer of an RP / RS / token exchanger / key set *)
| FCors               (* corsOpts pointer *)
| FFlag               (* insecure *)
| FSliceRef           (* stored alias of / copy of a caller's option slice *)
| FVerifier           (* relyingParty.idTokenVerifier (lazily created) *)
| FErrH               (* relyingParty.errorHandler (lazily defaulted) *)
| FUnauthH            (* relyingParty.unauthorizedHandler (lazily defaulted) *)
| FAuthStyle          (* relyingParty.oauthConfig.Endpoint.AuthStyle *)
| FCfg                (* relyingParty.oauthConfig (private copy) *)
| FURL                (* endpoint URLs learnt from discovery / static options *)
| FMisc.              (* everything else set once by the constructor: router, decoder, crypto, logger, cookie handler, signer ... *)
Definition all_ifields := [FEp EAuth; FEp EToken; FEp EIntro; FEp EUserinfo; FEp ERevoke; FEp EEndSession;
  FEp ECheckSession; FEp EKeys; FEp EDevice; FHTTP; FCors; FFlag; FSliceRef; FVerifier; FErrH; FUnauthH;
  FAuthStyle; FCfg; FURL; FMisc].

Inductive loc :=
| LG (g : gvar)                  (* package variable *)
| LClient (c : nat) (f : cfield) (* *http.Client number c (0 = *httphelper.DefaultHTTPClient), caller-supplied *)
| LSlice (s : nat)               (* backing array of a caller's slice (options, scopes), spare capacity included *)
| LCfg (c : nat)                 (* caller's *oauth2.Config number c (Endpoint.AuthStyle and the rest) *)
| LArg (a : nat)                 (* a caller-supplied VALUE the API lets one pass to several constructors: an issuer-function
                                    value (op.IssuerFromHost(..) / IssuerFromForwardedOrHost(..)), a *op.Config, a KeySet *)
| LStor (s : nat)                (* storage-owned DeviceAuthorizationState number s (Audience) *)
| LInst (i : nat) (f : ifield)   (* field of instance i: unshared until its constructor returns, never written afterwards except lazily *)
| LLocked (i : nat).             (* state of instance / storage i that is only touched under its mutex:
                                    remoteKeySet cache, oauth2 auth-style cache, storage contents *)

Definition ep_eq_dec : forall a b : ep, {a = b} + {a <> b}. Proof. decide equality. Defined.
Definition cfield_eq_dec : forall a b : cfield, {a = b} + {a <> b}. Proof. decide equality. Defined.
Definition gvar_eq_dec : forall a b : gvar, {a = b} + {a <> b}. Proof. decide equality; apply ep_eq_dec. Defined.
Definition ifield_eq_dec : forall a b : ifield, {a = b} + {a <> b}. Proof. decide equality; apply ep_eq_dec. Defined.
Definition loc_eq_dec : forall a b : loc, {a = b} + {a <> b}.
Proof. decide equality; try apply Nat.eq_dec; try apply gvar_eq_dec; try apply cfield_eq_dec; apply ifield_eq_dec. Defined.
Definition loc_eqb (a b : loc) : bool := if loc_eq_dec a b then true else false.

(* shared state in the sense of the property text: anything that is not private to one instance *)
Definition is_shared_state (l : loc) : bool :=
  match l with LG _ | LClient _ _ | LSlice _ | LCfg _ | LArg _ | LStor _ => true | LInst _ _ | LLocked _ => false end.
Definition locked (l : loc) : bool := match l with LLocked _ => true | _ => false end.
Definition owner (l : loc) : option nat := match l with LInst i _ | LLocked i => Some i | _ => None end.

(* ---- heaps and effects ---- *)
Definition heap := loc -> val.
Definition upd (h : heap) (l : loc) (v : val) : heap := fun x => if loc_eqb x l then v else h x.

Inductive src := SConst (v : val) | SCopy (l : loc).
Inductive eff :=
| EWrite (l : loc) (s : src)     (* l := s *)
| EInit (l : loc) (s : src).     (* if l == nil { l = s }   -- the lazy getters of relyingParty *)

Definition eval (s : src) (h : heap) : val := match s with SConst v => v | SCopy l => h l end.
Definition step (h : heap) (e : eff) : heap :=
  match e with
  | EWrite l s => upd h l (eval s h)
  | EInit l s => if h l =? 0 then upd h l (eval s h) else h
  end.
Definition run (es : list eff) (h : heap) : heap := fold_left step es h.

Definition eloc (e : eff) : loc := match e with EWrite l _ | EInit l _ => l end.
Definition src_reads (s : src) : list loc := match s with SConst _ => [] | SCopy l => [l] end.
Definition eff_reads (e : eff) : list loc :=
  match e with EWrite _ s => src_reads s | EInit l s => l :: src_reads s end.

(* ---- operations ---- *)
Inductive popt :=                 (* op.Option *)
| PInsecure                       (* WithAllowInsecure *)
| PEndpoint (e : ep) (v : val)    (* WithCustom<e>Endpoint(v) *)
| PEndpoints (a t u r s k : val)  (* WithCustomEndpoints *)
| PInterceptors (sl : nat)        (* WithHttpInterceptors(sl...) *)
| PATVerifierOpts (sl : nat)      (* WithAccessTokenVerifierOpts(sl...) *)
| PIDHVerifierOpts (sl : nat)     (* WithIDTokenHintVerifierOpts(sl...) *)
| PKeySets                        (* WithAccessTokenKeySet / WithIDTokenHintKeySet *)
| PCors (v : val)                 (* WithCORSOptions *)
| PIssuerFn (a : nat)             (* the provider is built from the caller's issuer-function value number a (shared between providers) *)
| PLogger.                        (* WithLogger *)

Inductive ropt :=                 (* rp.Option *)
| RHTTPClient (c : nat) | RDiscoveryURL | RCookieHandler | RPKCE
| RErrorHandler (v : val) | RUnauthorizedHandler (v : val) | RAuthStyle (v : val)
| RVerifierOpts (sl : nat) | RJWTProfile | RLogger | RSigningAlgsFromDiscovery.

Inductive preq := QDiscovery | QKeys | QAuthorize | QToken | QUserinfo | QIntrospect | QRevoke
                | QEndSession | QDeviceAuthz | QDeviceToken (st : nat).
Inductive rpcall := RAuthURL | RCodeExchange | RUserinfo | RRefresh | REndSession | RRevoke
                  | RClientCredentials | RDeviceAuthz | RGetters | RVerify.
(* handler values the library hands out; r below is the request (its per-request data) *)
Inductive hkind := HCodeExchange | HAuthURL | HRefresh | HOPAuthorize
                 (* calls on ONE RP / RS / token exchanger overlapping with THEMSELVES, each with its own arguments: *)
                 | HUserinfo | HIntrospect | HRevoke | HEndSession | HTokenExchange | HDeviceAuthz.
(* what a request of an identified client asks the provider to do (token endpoint grants, introspection,
   revocation, device authorization); the credential it carries is the client's registered one:
   client secret (basic / post) or a signed JWT assertion (private_key_jwt, jwt-bearer) *)
Inductive ckind := KClientCredentials | KCode | KBearer | KIntrospect | KRevoke | KRefresh | KDevice
                 | KIntrospectOther   (* introspection of a token that was issued to ANOTHER client (not in its audience): never active *)
                 | KUserinfo.         (* userinfo with the access token the client obtained for ITS user *)
Definition reads_only (k : ckind) : bool :=
  match k with KIntrospect | KIntrospectOther | KUserinfo => true | _ => false end.
Inductive ccall := CDiscover | CToken | CRevoke | CEndSession | CTokenExchange | CDeviceAuthz | CDeviceToken.

Inductive op :=
(* construction phase *)
| NewProvider (i stor : nat) (opts : list popt)    (* op.NewProvider / NewOpenIDProvider / ... *)
| NewLegacyServer (i : nat) (sl : nat)             (* RegisterLegacyServer(NewLegacyServer(p, *DefaultEndpoints), cb, sl...) *)
| NewRPOIDC (i : nat) (sl : nat) (t : val) (opts : list ropt) (* rp.NewRelyingPartyOIDC(issuer t, ..., scopes=sl, opts...) *)
| NewRPOAuth (i cfg : nat) (opts : list ropt)      (* rp.NewRelyingPartyOAuth(cfg, opts...) *)
| NewRS (i : nat) (c : option nat) (static : bool) (t : val) (* rs.NewResourceServer*(issuer t, …, WithClient c?, WithStaticEndpoints?) *)
| NewTE (i : nat) (c : option nat) (static : bool) (t : val) (* tokenexchange.NewTokenExchanger*(issuer t, …) *)
| NewKeySet (i c : nat) (t : val)                  (* rp.NewRemoteKeySet(client c, jwks url of issuer t) *)
(* shared phase *)
| ProvReq (i stor : nat) (q : preq)                (* one HTTP request served by provider / legacy server i *)
| DevGetAudience (st : nat)                        (* DeviceAuthorizationState.GetAudience *)
| RPCall (i c : nat) (k : rpcall)                  (* rp.<k>(ctx, …, rp_i) with rp_i.HttpClient() = client c *)
| RSIntrospect (i c : nat)                         (* rs.Introspect *)
| TEExchange (i c : nat)                           (* tokenexchange.ExchangeToken *)
| KSVerify (i c : nat)                             (* remoteKeySet.VerifySignature *)
| ClientCall (c : nat) (k : ccall)                 (* client.Discover / client.Call*Endpoint with a caller holding client c *)
| FindKey (sl : nat)                               (* oidc.FindMatchingKey / FindKey(kid, use, alg, keys(sl)...): a pure function of a caller-owned slice passed variadically *)
| HelperCall (f a : nat)                            (* a package-level helper: crypto.GetHashAlgorithm + HashString, oidc.ClaimHash (at_hash / c_hash),
                                                      crypto.EncryptAES / DecryptAES, oidc.NewSHACodeChallenge - function f on argument class a
                                                      (the signing-algorithm family that selects the digest).  A pure function: every call
                                                      works on state it allocates itself; nothing is kept between calls *)
| ProvAns (i stor q r : nat)                        (* request number r of class q (every validation-error class and the happy path of the
                                                      authorize, token, device-authorization, end-session, userinfo, introspection and
                                                      revocation endpoints) served by provider / legacy server i, carrying its own
                                                      per-request data (state, codes).  The ANSWER - status, redirect, error document,
                                                      verification URIs - is built from the request, the configuration and values
                                                      created for this request: errors are constructed per call, URLs parsed per call *)
| ClientReq (i stor cl : nat) (k : ckind) (own : bool)
                                                   (* a request of CLIENT cl (one of any number of clients registered with the
                                                      storage) served by provider / legacy server i.  own = the credential it
                                                      presents is cl's own and complete (ground truth of the request itself).
                                                      Whom the provider authenticates is decided from the request and the
                                                      storage's registrations alone: no row writes anything but storage contents *)
| HandlerReq (i c : nat) (k : hkind) (r : nat).    (* request r served by a handler value of instance i: rp.CodeExchangeHandler /
                                                      AuthURLHandler callback, an rp.RefreshTokens call, a provider authorize request.
                                                      Its per-request data (code verifier, state, token) lives in the request, never in the
                                                      handler value or the instance: the row has no write besides the mutex-protected cache *)

Definition is_ctor (o : op) : bool :=
  match o with
  | NewProvider _ _ _ | NewLegacyServer _ _ | NewRPOIDC _ _ _ _ | NewRPOAuth _ _ _
  | NewRS _ _ _ _ | NewTE _ _ _ _ | NewKeySet _ _ _ => true
  | _ => false
  end.
Definition target (o : op) : nat :=
  match o with
  | NewProvider i _ _ | NewLegacyServer i _ | NewRPOIDC i _ _ _ | NewRPOAuth i _ _
  | NewRS i _ _ _ | NewTE i _ _ _ | NewKeySet i _ _ => i
  | ProvReq i _ _ | RPCall i _ _ | RSIntrospect i _ | TEExchange i _ | KSVerify i _ | HandlerReq i _ _ _ => i
  | ClientReq i _ _ _ _ | ProvAns i _ _ _ => i
  | DevGetAudience _ | ClientCall _ _ | FindKey _ | HelperCall _ _ => 0
  end.

Definition inst (i : nat) (f : ifield) (s : src) := EWrite (LInst i f) s.

Definition popt_effs (i : nat) (o : popt) : list eff :=
  match o with
  | PInsecure => [inst i FFlag (SConst 1)]
  | PEndpoint e v => [inst i (FEp e) (SConst v)]
  | PEndpoints a t u r s k =>
      [inst i (FEp EAuth) (SConst a); inst i (FEp EToken) (SConst t); inst i (FEp EUserinfo) (SConst u);
       inst i (FEp ERevoke) (SConst r); inst i (FEp EEndSession) (SConst s); inst i (FEp EKeys) (SConst k)]
  | PInterceptors sl | PATVerifierOpts sl | PIDHVerifierOpts sl => [inst i FSliceRef (SCopy (LSlice sl))]
  | PKeySets => [inst i FMisc (SCopy (LArg 4))]     (* the caller's KeySet value (shared) *)
  | PLogger => [inst i FMisc (SConst 1)]
  | PCors v => [inst i FCors (SConst v)]
  | PIssuerFn a => [inst i FMisc (SCopy (LArg a))]
  end.

Definition ropt_effs (i : nat) (o : ropt) : list eff :=
  match o with
  | RHTTPClient c => [inst i FHTTP (SConst (S c))]
  | RErrorHandler v => [inst i FErrH (SConst v)]
  | RUnauthorizedHandler v => [inst i FUnauthH (SConst v)]
  | RAuthStyle v => [inst i FAuthStyle (SConst v)]
  | RVerifierOpts sl => [inst i FSliceRef (SCopy (LSlice sl))]
  | RDiscoveryURL | RCookieHandler | RPKCE | RJWTProfile | RLogger | RSigningAlgsFromDiscovery =>
      [inst i FMisc (SConst 1)]
  end.

(* relyingParty: "avoid races by calling these early" *)
Definition rp_inits (i : nat) : list eff :=
  [EInit (LInst i FVerifier) (SConst 1); EInit (LInst i FErrH) (SCopy (LG GErrH));
   EInit (LInst i FUnauthH) (SCopy (LG GUnauthH))].

Definition copy_default_eps (i : nat) : list eff :=
  map (fun e => inst i (FEp e) (SCopy (LG (GEp e)))) all_eps.

Definition opt_client (i : nat) (c : option nat) : list eff :=
  match c with Some c => [inst i FHTTP (SConst (S c))] | None => [] end.

Definition effects (o : op) : list eff :=
  match o with
  | NewProvider i _ opts =>
      inst i FCors (SCopy (LG GCors)) :: copy_default_eps i
      ++ flat_map (popt_effs i) opts ++ [inst i FMisc (SConst 1)]
  | NewLegacyServer i sl =>
      inst i FCors (SCopy (LG GCors)) :: copy_default_eps i
      ++ [inst i FSliceRef (SCopy (LSlice sl)); inst i FMisc (SConst 1)]
  | NewRPOIDC i sl t opts =>
      [inst i FCfg (SCopy (LSlice sl)); inst i FHTTP (SCopy (LG GHTTPClient)); inst i FAuthStyle (SConst 0)]
      ++ flat_map (ropt_effs i) opts ++ [inst i FURL (SConst t)] ++ rp_inits i
  | NewRPOAuth i cfg opts =>
      [inst i FCfg (SCopy (LCfg cfg)); inst i FHTTP (SCopy (LG GHTTPClient));
       inst i FUnauthH (SCopy (LG GUnauthH)); inst i FAuthStyle (SConst 0)]
      ++ flat_map (ropt_effs i) opts ++ rp_inits i
  | NewRS i c _ t | NewTE i c _ t =>
      inst i FHTTP (SCopy (LG GHTTPClient)) :: opt_client i c ++ [inst i FURL (SConst t); inst i FMisc (SConst 1)]
  | NewKeySet i c t => [inst i FHTTP (SConst (S c)); inst i FURL (SConst t)]
  | ProvReq _ stor q =>
      match q with
      | QDiscovery | QKeys | QUserinfo | QIntrospect => []
      | _ => [EWrite (LLocked stor) (SConst 1)]
      end
  | ProvAns _ stor _ _ => [EWrite (LLocked stor) (SConst 1)]
  | ClientReq _ stor _ k _ =>
      if reads_only k then [] else [EWrite (LLocked stor) (SConst 1)]
  | DevGetAudience _ => []
  | RPCall i _ k =>
      match k with
      | RCodeExchange | RRefresh | RVerify => [EWrite (LLocked i) (SConst 1)]
      | RGetters => rp_inits i
      | _ => []
      end
  | RSIntrospect _ _ | TEExchange _ _ => []
  | KSVerify i _ => [EWrite (LLocked i) (SConst 1)]
  | ClientCall _ _ | FindKey _ | HelperCall _ _ => []
  | HandlerReq i _ k _ => match k with HCodeExchange | HRefresh => [EWrite (LLocked i) (SConst 1)] | _ => [] end
  end.

Definition client_locs (c : nat) : list loc := map (LClient c) all_cfields.
Definition inst_locs (i : nat) : list loc := map (LInst i) all_ifields.
Definition ctor_client (c : option nat) : nat := match c with Some c => c | None => 0 end.
Fixpoint rp_client (opts : list ropt) (acc : nat) : nat :=
  match opts with [] => acc | RHTTPClient c :: r => rp_client r c | _ :: r => rp_client r acc end.

(* locations read without being copied into a modelled location *)
Definition extra_reads (o : op) : list loc :=
  match o with
  | NewProvider _ _ _ => [LArg 3]                                     (* the *op.Config (shared by the providers of a run) *)
  | NewLegacyServer _ _ => []
  | FindKey sl => [LSlice sl]
  | HelperCall _ _ => []
  | NewRPOIDC _ _ _ opts => client_locs (rp_client opts 0)           (* client.Discover *)
  | NewRPOAuth _ _ _ => []
  | NewRS _ c static _ | NewTE _ c static _ => if static then [] else client_locs (ctor_client c)
  | NewKeySet _ _ _ => []
  | ProvReq i stor q =>
      LLocked stor :: inst_locs i ++
      match q with
      | QDiscovery => [LG GScopes; LG GClaims]
      | QDeviceToken st => [LStor st]
      | _ => []
      end
  | ClientReq i stor _ _ _ | ProvAns i stor _ _ => LLocked stor :: inst_locs i
  | DevGetAudience st => [LStor st]
  | RPCall i c _ => LLocked i :: LG GEncoder :: inst_locs i ++ client_locs c
  | RSIntrospect i c | TEExchange i c => LG GEncoder :: inst_locs i ++ client_locs c
  | KSVerify i c => LLocked i :: inst_locs i ++ client_locs c
  | ClientCall c _ => LG GEncoder :: client_locs c
  | HandlerReq i c _ _ => LLocked i :: LG GEncoder :: inst_locs i ++ client_locs c
  end.

Definition writes (o : op) : list loc := map eloc (effects o).
Definition reads (o : op) : list loc := extra_reads o ++ flat_map eff_reads (effects o).
Definition apply (o : op) (h : heap) : heap := run (effects o) h.

(* ids of the instances / storages an operation touches *)
Definition tids (o : op) : list nat :=
  match o with
  | ProvReq i stor _ | ClientReq i stor _ _ _ | ProvAns i stor _ _ => [i; stor]
  | DevGetAudience _ | ClientCall _ _ | FindKey _ | HelperCall _ _ => []
  | _ => [target o]
  end.

(* ---- observable behaviour of an operation ---- *)
Definition obs_reads (o : op) : list loc :=
  match o with
  | ProvReq i _ QDiscovery =>                                          (* advertised endpoints, claims and scopes *)
      map (fun e => LInst i (FEp e)) all_eps ++ [LG GClaims; LG GScopes; LInst i FFlag]   (* FFlag: http:// issuer *)
  | RPCall i c _ | RSIntrospect i c | TEExchange i c =>
      [LClient c CCheckRedirect; LInst i FURL]         (* are redirects followed?  which issuer are requests / assertions addressed to? *)
  | KSVerify i _ => [LInst i FURL]                     (* which issuer's tokens are accepted? *)
  | ClientCall c _ => [LClient c CCheckRedirect]
  | _ => []
  end.
(* the part of the behaviour that is a function of the request alone *)
Definition const_result (o : op) : list val :=
  match o with
  | HandlerReq _ _ _ r => [S r]
  | ProvAns _ _ _ r => [S r]          (* the answer is the one this request gets alone, and carries no other request's data *)
  | HelperCall _ _ => [1]             (* the value computed equals the value the standard library computes for the argument *)
  | ClientReq _ _ cl k own =>        (* served AS client cl (for cl's user), or refused: never as anybody else *)
      [match k with KIntrospectOther => 0 | _ => if own then S cl else 0 end]
  | ProvReq _ _ QUserinfo => [1]      (* a code flow followed by userinfo succeeds on a provider of the driver's configuration *)
  | _ => []
  end.
Definition obsval (l : loc) (v : val) : val :=
  match l with LClient _ CCheckRedirect => if v =? 0 then 0 else 1 | _ => v end.
Definition result (o : op) (h : heap) : list val := const_result o ++ map (fun l => obsval l (h l)) (obs_reads o).
(* the locations an operation's writes and result really depend on (a subset of its reads) *)
Definition deps (o : op) : list loc := flat_map eff_reads (effects o) ++ obs_reads o.

(* requests served by a provider / legacy server (shared phase of a provider) *)
Definition is_prov_request (o : op) : bool :=
  match o with ProvReq _ _ _ | ClientReq _ _ _ _ _ | ProvAns _ _ _ _ => true | _ => false end.

Definition run_ops (os : list op) (h : heap) : heap := fold_left (fun h o => apply o h) os h.

(* ---- accesses, for data-race freedom ---- *)
Definition access := (loc * bool)%type.                 (* (location, is a write) *)
Definition dyn_writes (o : op) (h : heap) : list loc :=
  flat_map (fun e => match e with
                     | EWrite l _ => [l]
                     | EInit l _ => if h l =? 0 then [l] else []
                     end) (effects o).
Definition accesses (o : op) (h : heap) : list access :=
  map (fun l => (l, false)) (reads o) ++ map (fun l => (l, true)) (dyn_writes o h).
Definition conflict (a b : access) : Prop :=
  fst a = fst b /\ (snd a = true \/ snd b = true) /\ locked (fst a) = false.
(* every lazily initialised field the operation may touch is already set *)
Definition inited (o : op) (h : heap) : bool :=
  forallb (fun e => match e with EInit l _ => negb (h l =? 0) | _ => true end) (effects o).
