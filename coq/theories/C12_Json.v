(* C12: JSON value AST (what encoding/json yields when decoding into `any`)
   and JSON objects as association lists.  The driver writes every object with
   its keys in ascending byte order and without duplicates (a Go map); the
   model's [oset] keeps that form, so comparison is structural equality.
   Numbers: [JNum z frac]: z is the value truncated toward zero (Go int64(x)),
   frac = "" for an integral number, otherwise the shortest decimal text of
   the float64 (only used to tell two fractional numbers apart).
   encoding/json's byte level (escaping, UTF-8 repair, syntax errors, case-
   insensitive key matching) is outside the model. *)
From OIDC Require Import Lib.

Inductive json :=
| JNull
| JBool (b : bool)
| JNum (z : Z) (frac : string)
| JStr (s : string)
| JArr (l : list json)
| JObj (f : list (string * json)).

Definition obj := list (string * json).

Fixpoint json_eqb (a b : json) {struct a} : bool :=
  match a, b with
  | JNull, JNull => true
  | JBool x, JBool y => Bool.eqb x y
  | JNum x f, JNum y g => Z.eqb x y && String.eqb f g
  | JStr x, JStr y => String.eqb x y
  | JArr x, JArr y =>
      (fix go (x y : list json) {struct x} : bool :=
         match x, y with
         | [], [] => true
         | a :: x', b :: y' => json_eqb a b && go x' y'
         | _, _ => false
         end) x y
  | JObj x, JObj y =>
      (fix go (x y : list (string * json)) {struct x} : bool :=
         match x, y with
         | [], [] => true
         | (k, a) :: x', (k', b) :: y' => String.eqb k k' && json_eqb a b && go x' y'
         | _, _ => false
         end) x y
  | _, _ => false
  end.

Definition obj_eqb (a b : obj) : bool := json_eqb (JObj a) (JObj b).

Fixpoint lookup (k : string) (o : obj) : option json :=
  match o with
  | [] => None
  | (k', v) :: r => if String.eqb k k' then Some v else lookup k r
  end.

Fixpoint oremove (k : string) (o : obj) : obj :=
  match o with
  | [] => []
  | (k', v) :: r => if String.eqb k k' then oremove k r else (k', v) :: oremove k r
  end.

Fixpoint oinsert (k : string) (v : json) (o : obj) : obj :=
  match o with
  | [] => [(k, v)]
  | (k', v') :: r => if String.ltb k k' then (k, v) :: o else (k', v') :: oinsert k v r
  end.

(* Go: m[k] = v on a map that is later written with sorted keys *)
Definition oset (k : string) (v : json) (o : obj) : obj := oinsert k v (oremove k o).

(* decode the registered object over the custom map: every registered entry
   replaces a custom entry of the same name *)
Definition overlay (reg cust : obj) : obj :=
  fold_left (fun acc kv => oset (fst kv) (snd kv) acc) reg cust.

Definition keys (o : obj) : list string := map fst o.

(* strings.EqualFold against an ASCII name (the relation encoding/json uses to
   match object keys to struct fields): ASCII case, plus the two non-ASCII
   runes that fold to ASCII letters, U+017F (C5 BF) ~ s and U+212A (E2 84 AA) ~ k *)
Fixpoint fold_norm (s : string) : string :=
  match s with
  | EmptyString => EmptyString
  | String c r =>
      let n := nat_of_ascii c in
      if (65 <=? n) && (n <=? 90) then String (ascii_of_nat (n + 32)) (fold_norm r)
      else if n =? 197 then
        match r with
        | String d r' => if nat_of_ascii d =? 191 then String "s"%char (fold_norm r')
                         else String c (fold_norm r)
        | EmptyString => String c EmptyString
        end
      else if n =? 226 then
        match r with
        | String d (String e r') =>
            if (nat_of_ascii d =? 132) && (nat_of_ascii e =? 170) then String "k"%char (fold_norm r')
            else String c (fold_norm r)
        | _ => String c (fold_norm r)
        end
      else String c (fold_norm r)
  end.

Definition fold_eq (a b : string) : bool := String.eqb (fold_norm a) (fold_norm b).

Definition fold_variant (names : list string) (k : string) : bool := existsb (fold_eq k) names.

(* mergeRegistered (util.go, fix Fxx-C12-1): custom entries whose name is a
   case variant of a registered entry are dropped, then the registered entries
   are written over the custom map *)
Definition merge (reg cust : obj) : obj :=
  overlay reg (filter (fun kv => negb (fold_variant (keys reg) (fst kv))) cust).

(* strings.Split(s, " ") and strings.Join(l, " ") *)
Definition is_space (c : ascii) : bool := Ascii.eqb c " "%char.

Fixpoint split_sp (s : string) : list string :=
  match s with
  | EmptyString => [EmptyString]
  | String c r =>
      if is_space c then EmptyString :: split_sp r
      else match split_sp r with
           | h :: t => String c h :: t
           | [] => [String c EmptyString]
           end
  end.

Fixpoint join_sp (l : list string) : string :=
  match l with
  | [] => EmptyString
  | x :: r => match r with
              | [] => x
              | _ => String.append x (String " "%char (join_sp r))
              end
  end.

Fixpoint space_free (s : string) : bool :=
  match s with
  | EmptyString => true
  | String c r => negb (is_space c) && space_free r
  end.
