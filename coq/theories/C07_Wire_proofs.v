(* C07: proofs about the wire encoding of the Basic header and about stray parameters
   (statements repeated in coq/props/C07.v). *)
From OIDC Require Import Lib C04_OP C04_Ledger C04_OP_proofs C04_Inv_proofs C07_Chain C07_Wire C07_proofs.

Lemma esc_char_unescape plus c r :
  form_unescape (esc_char plus c ++ r)%string = option_map (String c) (form_unescape r).
Proof.
  destruct plus; destruct c as [b0 b1 b2 b3 b4 b5 b6 b7];
    destruct b0, b1, b2, b3, b4, b5, b6, b7; reflexivity.
Qed.

(* both standard encodings denote the string they encode *)
Lemma wire_roundtrip plus s : form_unescape (form_escape plus s) = Some s.
Proof.
  induction s as [|c r IH]; [reflexivity|].
  cbn [form_escape]. rewrite esc_char_unescape, IH. reflexivity.
Qed.

Lemma wire_basic_roundtrip p1 p2 i s : wire_basic (form_escape p1 i) (form_escape p2 s) = Some (i, s).
Proof. unfold wire_basic. now rewrite !wire_roundtrip. Qed.

Lemma unescape_step c r :
  Ascii.eqb c "+"%char = false -> Ascii.eqb c "%"%char = false ->
  form_unescape (String c r) = option_map (String c) (form_unescape r).
Proof. intros E1 E2. cbn [form_unescape]. now rewrite E1, E2. Qed.

Lemma unescape_len n : forall s t, String.length s <= n -> form_unescape s = Some t ->
  String.length t <= String.length s
  /\ (t = s -> has_char "+"%char s = false /\ has_char "%"%char s = false).
Proof.
  induction n as [|n IH]; intros s t Hl.
  - destruct s; [|cbn in Hl; lia]. cbn. intros [= <-]. auto.
  - destruct s as [|c r]; [cbn; intros [= <-]; auto|].
    cbn [String.length] in Hl.
    destruct (Ascii.eqb c "+"%char) eqn:E1.
    { cbn [form_unescape]. rewrite E1.
      destruct (form_unescape r) as [t'|] eqn:Hr; cbn [option_map]; [|discriminate]. intros [= <-].
      destruct (IH r t' ltac:(lia) Hr) as [Hle _]. split; [cbn [String.length]; lia|].
      intros [= Hc _]. apply Ascii.eqb_eq in E1. subst c. discriminate. }
    destruct (Ascii.eqb c "%"%char) eqn:E2.
    { cbn [form_unescape]. rewrite E1, E2.
      destruct r as [|h1 [|h2 r']]; try discriminate.
      destruct (hex_val h1); [|discriminate]. destruct (hex_val h2); [|discriminate].
      destruct (form_unescape r') as [t'|] eqn:Hr; cbn [option_map]; [|discriminate]. intros [= <-].
      cbn [String.length] in Hl.
      destruct (IH r' t' ltac:(lia) Hr) as [Hle _]. split; [cbn [String.length]; lia|].
      intros [= _ Ht]. subst t'. cbn [String.length] in Hle. lia. }
    rewrite (unescape_step c r E1 E2).
    destruct (form_unescape r) as [t'|] eqn:Hr; cbn [option_map]; [|discriminate]. intros [= <-].
    destruct (IH r t' ltac:(lia) Hr) as [Hle Heq]. split; [cbn [String.length]; lia|].
    intros [= Ht]. destruct (Heq Ht) as [A B]. cbn [has_char]. now rewrite E1, E2, A, B.
Qed.

(* an UNENCODED header text denotes itself exactly when nothing in it needs encoding *)
Lemma wire_raw_fixed s :
  form_unescape s = Some s <-> has_char "+"%char s = false /\ has_char "%"%char s = false.
Proof.
  split.
  - intro Hs. exact (proj2 (unescape_len (String.length s) s s (le_n _) Hs) eq_refl).
  - induction s as [|c r IH]; [reflexivity|]. cbn [has_char]. intros [A B].
    apply orb_false_iff in A as [A1 A2]. apply orb_false_iff in B as [B1 B2].
    rewrite (unescape_step c r A1 B1), (IH (conj A2 B2)). reflexivity.
Qed.

Section T.
Variable H : string -> string.
Variable cf : cfg.

(* success with a (well-formed) Basic header for a token of a secret-based client: the DECODED
   header is that client's id and secret *)
Lemma wire_bound ops h s : exec H cf ops = (h, s) ->
  forall h1 e h2 pl hi hs fi fs n scopes t r cl,
    h = h1 ++ e :: h2 ->
    e_op e = TokenRefresh pl (MkCred (wire_basic hi hs) fi fs None) (Some n) scopes -> e_out e = OTokens t ->
    find_rt (e_pre e) n = Some r -> find_client cf (r_client r) = Some cl -> secret_based cl = true ->
    wire_basic hi hs <> None ->
    form_unescape hi = Some (r_client r) /\ form_unescape hs = Some (c_secret cl).
Proof.
  intros Hex h1 e h2 pl hi hs fi fs n scopes t r cl Heq Hop Hout Hrt Hf Hsb Hwf.
  destruct (bound H cf ops h s Hex h1 e h2 pl _ (Some n) scopes t Heq Hop Hout)
    as [n' [r' [[= <-] [Hrt' [Hp _]]]]]. rewrite Hrt in Hrt'. injection Hrt' as <-.
  unfold cred_proves in Hp. rewrite Hf in Hp. unfold presented in Hp. cbn [cr_assert cr_basic] in Hp.
  unfold wire_basic in *.
  destruct (form_unescape hi) as [i|]; [|congruence]. destruct (form_unescape hs) as [sx|]; [|congruence].
  unfold secret_based in Hsb.
  destruct (c_auth cl); try discriminate;
    apply andb_true_iff in Hp as [E1 E2]; apply String.eqb_eq in E1, E2; subst; auto.
Qed.

Lemma not_proven_by_secret cl id i sx :
  find_client cf id = Some cl -> secret_based cl = true -> sx <> c_secret cl ->
  cred_proves cf (MkCred (Some (i, sx)) "" "" None) id = false.
Proof.
  intros Hf Hsb Hne. unfold cred_proves, presented. rewrite Hf. cbn [cr_assert cr_basic].
  unfold secret_based in Hsb.
  destruct (c_auth cl); try discriminate;
    (destruct (String.eqb sx (c_secret cl)) eqn:E; [apply String.eqb_eq in E; congruence | now rewrite andb_false_r]).
Qed.

(* a secret with a '+' or a '%' in it, sent UNENCODED in the header, is another secret *)
Lemma raw_secret_refused ops h s : exec H cf ops = (h, s) ->
  forall h1 e h2 pl hi n scopes r cl,
    h = h1 ++ e :: h2 ->
    find_rt (e_pre e) n = Some r -> find_client cf (r_client r) = Some cl -> secret_based cl = true ->
    has_char "+"%char (c_secret cl) || has_char "%"%char (c_secret cl) = true ->
    e_op e = TokenRefresh pl (MkCred (wire_basic hi (c_secret cl)) "" "" None) (Some n) scopes ->
    is_tokens (e_out e) = false /\ e_post e = e_pre e.
Proof.
  intros Hex h1 e h2 pl hi n scopes r cl Heq Hrt Hf Hsb Hch Hop.
  eapply (unproven_refused H cf ops h s Hex h1 e h2 pl _ n scopes r Heq Hop Hrt).
  assert (Hne : form_unescape (c_secret cl) <> Some (c_secret cl)).
  { intro Hs. apply wire_raw_fixed in Hs as [A B]. rewrite A, B in Hch. discriminate. }
  assert (Hnz : c_secret cl <> "").
  { intro Hz. rewrite Hz in Hch. discriminate. }
  unfold wire_basic. destruct (form_unescape hi) as [i|]; [destruct (form_unescape (c_secret cl)) as [sx|] eqn:Hs|].
  - eapply not_proven_by_secret; eauto. congruence.
  - unfold cred_proves, presented. rewrite Hf. cbn [cr_assert cr_basic cr_id cr_sec].
    unfold secret_based in Hsb. destruct (c_auth cl); try discriminate;
      (destruct (String.eqb "" (c_secret cl)) eqn:E; [apply String.eqb_eq in E; congruence | now rewrite andb_false_r]).
  - unfold cred_proves, presented. rewrite Hf. cbn [cr_assert cr_basic cr_id cr_sec].
    unfold secret_based in Hsb. destruct (c_auth cl); try discriminate;
      (destruct (String.eqb "" (c_secret cl)) eqn:E; [apply String.eqb_eq in E; congruence | now rewrite andb_false_r]).
Qed.

(* parameters the refresh grant does not define change nothing *)
Lemma stray_irrelevant names r s cr rt scopes :
  step H cf r s (TokenRefresh (P_stray names) cr rt scopes) = step H cf r s (TokenRefresh P_body cr rt scopes).
Proof. cbn [step]. now rewrite !read_grant_ok, !read_field_ok. Qed.

(* ... in particular they are no substitute for the secret of a secret-based client *)
Lemma stray_no_secret_refused ops h s : exec H cf ops = (h, s) ->
  forall h1 e h2 names cr n scopes r cl,
    h = h1 ++ e :: h2 -> e_op e = TokenRefresh (P_stray names) cr (Some n) scopes ->
    find_rt (e_pre e) n = Some r -> find_client cf (r_client r) = Some cl -> secret_based cl = true ->
    c_secret cl <> "" -> cr_assert cr = None -> snd (cred_id_sec cr) = "" ->
    is_tokens (e_out e) = false /\ e_post e = e_pre e.
Proof.
  intros Hex h1 e h2 names cr n scopes r cl Heq Hop Hrt Hf Hsb Hnz Hna Hns.
  eapply (unproven_refused H cf ops h s Hex h1 e h2 _ cr n scopes r Heq Hop Hrt).
  unfold cred_proves, presented. rewrite Hf, Hna. unfold cred_id_sec in Hns.
  unfold secret_based in Hsb.
  destruct (cr_basic cr) as [[i sx]|]; cbn [snd] in Hns;
    destruct (c_auth cl); try discriminate; rewrite Hns;
    (destruct (String.eqb "" (c_secret cl)) eqn:E; [apply String.eqb_eq in E; congruence | now rewrite andb_false_r]).
Qed.

(* ---- the storage refuses the rotation (TokenRefreshRF) ---- *)
Lemma rotation_refused_no_tokens r s pl cr rt scopes :
  exists x, step H cf r s (TokenRefreshRF pl cr rt scopes) = (s, x) /\ is_tokens x = false.
Proof.
  destruct (step H cf r s (TokenRefreshRF pl cr rt scopes)) as [s' x] eqn:E.
  pose proof (step_trans H cf _ _ _ _ _ E) as Ht.
  cbn [step] in E. injection E as <- _. exists x. split; [reflexivity|].
  inversion Ht; subst; try reflexivity. destruct x; try contradiction; reflexivity.
Qed.

(* what the client is told: server_error where a willing storage would have let the request
   succeed, and otherwise the very refusal the request earns anyway *)
Lemma rotation_refused_answer r s pl cr rt scopes s' x :
  step H cf r s (TokenRefresh pl cr rt scopes) = (s', x) ->
  step H cf r s (TokenRefreshRF pl cr rt scopes) = (s, if is_tokens x then err r E_server else x).
Proof.
  cbn [step]. rewrite !read_grant_ok, !read_field_ok. intros ->. cbn [snd].
  destruct x; reflexivity.
Qed.

End T.

(* ---- non-vacuity: a client whose secret has a '+', a '/' and a space in it.  The form-encoded header
   (either spelling of the space) refreshes, also with stray parameters next to it; the unencoded
   secret, and the bare client id with a stray code_verifier, are refused on both routers ---- *)
Definition wx_secret : string := "k+9/x== z".
Definition wx_cfg : cfg :=
  {| f_post := true; f_pkjwt := true; f_refresh := true; f_reqobj := true; f_keep := true; f_aud := None;
     clients := [ {| c_id := "web 4"; c_secret := wx_secret; c_auth := AM_Basic; c_redirects := ["https://web/cb"];
                     c_code := true; c_refresh := true; c_jwt := false |} ] |}.
Definition wx_hdr (hi hs : string) : cred := MkCred (wire_basic hi hs) "" "" None.
Definition wx_ops : list (router * op) :=
  [ (Provider, Authorize "web 4" "https://web/cb" ["openid"; "offline_access"] "n" None no_extra);
    (Provider, Login 1 "alice" 3);
    (Provider, Callback 1);
    (Provider, TokenCode (P_stray ["refresh_token"; "scope"]) None (wx_hdr "web+4" "k%2B9%2Fx%3D%3D+z") (Some 1) "https://web/cb" "");
    (Legacy, TokenRefresh (P_stray ["code_verifier"]) (Post "web 4" "") (Some 2) []);                       (* id only *)
    (Provider, TokenRefresh (P_stray ["code_verifier"; "code"]) (Basic "web 4" "") (Some 2) []);           (* id only *)
    (Provider, TokenRefresh P_body (wx_hdr "web 4" wx_secret) (Some 2) []);                                (* unencoded *)
    (Legacy, TokenRefresh P_body (wx_hdr "web 4" wx_secret) (Some 2) []);                                  (* unencoded *)
    (Legacy, TokenRefreshRF P_body (wx_hdr "web+4" "k%2B9%2Fx%3D%3D+z") (Some 2) ["openid"]);            (* rotation refused *)
    (Provider, TokenRefreshRF P_body (wx_hdr "web+4" "k%2B9%2Fx%3D%3D+z") (Some 2) ["phone"]);           (* ... of a request refused anyway *)
    (Legacy, TokenRefresh (P_stray ["code"; "redirect_uri"]) (wx_hdr "web%204" "k%2b9%2fx%3d%3D%20z") (Some 2) ["openid"]) ].

Example wire_nonvacuous :
  form_escape true "web 4" = "web+4" /\ form_escape false "web 4" = "web%204"
  /\ form_escape true wx_secret = "k%2B9%2Fx%3D%3D+z"
  /\ wire_basic "web 4" wx_secret = Some ("web 4", "k 9/x== z")
  /\ map (fun x => match x with OTokens t => "200" | OErr _ e => e | _ => "" end) (outs (fun v => v) wx_cfg wx_ops)
     = [""; ""; ""; "200"; E_client; E_client; E_client; E_client; E_server; E_scope; "200"].
Proof. vm_compute. repeat split. Qed.
