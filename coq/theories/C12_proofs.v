From OIDC Require Import Lib Base64 Base64_proofs Cipher Cipher_proofs C12_spec.

Lemma bytes_eqb_refl l : bytes_eqb l l = true.
Proof. apply (list_eqb_spec Nat.eqb); [intros; apply Nat.eqb_eq | reflexivity]. Qed.

(* For every block function with 16-byte outputs (in particular AES under any
   key), every 16-byte IV and every plaintext: the model's answer to a
   seal-then-open case satisfies the same-key half of the property. *)
Lemma seal_case_same_key E iv p :
  (forall b, List.length (E b) = 16) -> (forall b, all_bytesP (E b)) ->
  List.length iv = 16 -> all_bytesP iv -> all_bytesP p ->
  option_eqb bytes_eqb (open E (seal E iv p)) (Some p) = true.
Proof.
  intros H1 H2 H3 H4 H5. rewrite (open_seal E H1 H2 iv p H3 H4 H5). cbn. apply bytes_eqb_refl.
Qed.
