From OIDC Require Import Lib Base64 Base64_proofs Cipher Cipher_proofs C12_spec.

Lemma bytes_eqb_refl l : bytes_eqb l l = true.
Proof. apply (list_eqb_spec Nat.eqb); [intros; apply Nat.eqb_eq | reflexivity]. Qed.

(* For every block function with 16-byte outputs (in particular AES under any
   key), every 16-byte IV and every plaintext: the model's answer to a
   seal-then-open case satisfies the same-key half of the property. *)
Lemma seal_case_same_key E iv p :
  (forall b, List.length (E b) = 16) -> (forall b, all_bytesP (E b)) ->
  List.length iv = 16 -> all_bytesP iv -> all_bytesP p ->
  option_eqb bytes_eqb (open E (seal E iv p)) (Some p) = true.
Proof.
  intros H1 H2 H3 H4 H5. rewrite (open_seal E H1 H2 iv p H3 H4 H5). cbn. apply bytes_eqb_refl.
Qed.

(* ====================== claims codec ====================== *)
From OIDC Require Import C12_Codec_proofs.

Lemma strs_eqb_refl l : strs_eqb l l = true.
Proof. apply (list_eqb_spec String.eqb); [intros; apply String.eqb_eq | reflexivity]. Qed.

Lemma forallb_impl {A} (p q : A -> bool) l :
  (forall x, p x = true -> q x = true) -> forallb p l = true -> forallb q l = true.
Proof.
  intros H. induction l as [| x r IH]; cbn; [reflexivity |]. intros Hp.
  apply andb_true_iff in Hp as [H1 H2]. rewrite (H x H1). now apply IH.
Qed.

Lemma existsb_cons_mono {A} (p : A -> bool) x l : existsb p l = true -> existsb p (x :: l) = true.
Proof. intros H. cbn. rewrite H. apply orb_true_r. Qed.

Lemma str_from_dec s oj : dec_opt dec_str "" oj = Ok s -> str_from s oj = true.
Proof.
  unfold str_from. destruct oj as [[| | | s' | |] |]; cbn; intros H; inversion H; subst; try reflexivity.
  rewrite seqb_refl. apply orb_true_r.
Qed.

Lemma in_arr_mono e l x :
  String.eqb x "" || in_arr x l = true -> String.eqb x "" || in_arr x (e :: l) = true.
Proof.
  intros H. apply orb_true_iff in H as [H | H]; [rewrite H; reflexivity |].
  unfold in_arr in *. cbn [existsb]. rewrite H. now rewrite !orb_true_r.
Qed.

Lemma all_strs_from l : forall r, all_strs l = Some r ->
  List.length r = List.length l /\ forallb (fun s => String.eqb s "" || in_arr s l) r = true.
Proof.
  induction l as [| e l IH]; cbn [all_strs mapM]; intros r H.
  - inversion H. split; reflexivity.
  - destruct e; try discriminate. destruct (all_strs l) as [t |]; [| discriminate].
    inversion H; subst. destruct (IH t eq_refl) as [Hl Hf]. split; [cbn; congruence |].
    cbn [forallb]. apply andb_true_iff. split.
    + unfold in_arr. cbn [existsb]. rewrite seqb_refl. now rewrite orb_true_r.
    + eapply forallb_impl; [| exact Hf]. apply in_arr_mono.
Qed.

Lemma mapM_strs_from l : forall r,
  mapM (fun e => match e with JStr s => Ok s | JNull => Ok "" | _ => Err end) l = Ok r ->
  List.length r = List.length l /\ forallb (fun s => String.eqb s "" || in_arr s l) r = true.
Proof.
  induction l as [| e l IH]; cbn [mapM]; intros r H.
  - inversion H. split; reflexivity.
  - destruct e; try discriminate; cbn [bind] in H;
      destruct (mapM _ l) as [t | |]; try discriminate; cbn [bind] in H; inversion H; subst;
      destruct (IH t eq_refl) as [Hl Hf]; (split; [cbn [List.length]; congruence |]); cbn [forallb];
      (apply andb_true_iff; split; [| eapply forallb_impl; [| exact Hf]; apply in_arr_mono]).
    + reflexivity.
    + unfold in_arr. cbn [existsb]. rewrite seqb_refl. now rewrite orb_true_r.
Qed.

Local Arguments rfc_of : simpl never.
Local Arguments lt_of : simpl never.
Local Arguments lp_of : simpl never.

Section Oracles.
  Variable o : oracles.

  Definition lp_hit (c p : string) : bool :=
    match lp_of o p with LOk c' => String.eqb c c' | _ => false end.

  Lemma parse_locales_from ps :
    forallb (fun c => existsb (lp_hit c) ps) (parse_locales (lp_of o) ps) = true.
  Proof.
    induction ps as [| p ps IH]; [reflexivity |].
    unfold parse_locales. cbn [flat_map]. rewrite forallb_app. apply andb_true_iff. split.
    - unfold lp_hit at 1. destruct (lp_of o p) as [c | |] eqn:E; try reflexivity.
      destruct (String.eqb c "und"); [reflexivity |]. cbn. unfold lp_hit. rewrite E, seqb_refl. reflexivity.
    - eapply forallb_impl; [| exact IH]. intros c Hc. now apply existsb_cons_mono.
  Qed.

  Lemma all_strs_exists l : forall r c, all_strs l = Some r -> existsb (lp_hit c) r = true ->
    existsb (fun e => match e with JStr p => lp_hit c p | _ => false end) l = true.
  Proof.
    induction l as [| e l IH]; cbn; intros r c H Hex.
    - inversion H; subst. discriminate.
    - destruct e; try discriminate. destruct (all_strs l) as [t |]; [| discriminate].
      inversion H; subst. cbn in Hex. apply orb_true_iff in Hex as [Hx | Hx].
      + rewrite Hx. reflexivity.
      + rewrite (IH t c eq_refl Hx). apply orb_true_r.
  Qed.

  Lemma lookup_forall (P : json -> Prop) k ob v :
    Forall (fun kv => P (snd kv)) ob -> lookup k ob = Some v -> P v.
  Proof.
    induction 1 as [| [k0 v0] r Hx _ IH]; cbn; [discriminate |].
    destruct (String.eqb k k0); [intros E; inversion E; subst; exact Hx | exact IH].
  Qed.

  Lemma actor_from_dec : forall j a, dec_actor j = Ok a -> actor_from a j = true.
  Proof.
    induction j as [| b | z f | s | l IH | ob IH] using json_ind'; intros a H; try discriminate.
    rewrite dec_actor_obj in H.
    destruct (dec_opt dec_actor_member None (lookup "act" ob)) as [x | |] eqn:Ea; try discriminate.
    cbn [bind] in H.
    destruct (dec_opt dec_str "" (lookup "iss" ob)) as [i | |] eqn:Ei; try discriminate.
    cbn [bind] in H.
    destruct (dec_opt dec_str "" (lookup "sub" ob)) as [s | |] eqn:Es; try discriminate.
    cbn [bind] in H. inversion H; subst a; clear H.
    cbn [actor_from]. rewrite obj_eqb_refl, (str_from_dec _ _ Ei), (str_from_dec _ _ Es). cbn.
    destruct x as [p |]; [| reflexivity].
    destruct (lookup "act" ob) as [j' |] eqn:El; cbn in Ea; [| discriminate].
    apply (lookup_forall (fun j => forall a, dec_actor j = Ok a -> actor_from a j = true) _ _ _ IH El).
    unfold dec_actor_member in Ea. destruct j'; try discriminate.
    destruct (dec_actor (JObj f)) as [q | |]; try discriminate. cbn in Ea. congruence.
  Qed.

  (* C12_other_forms_err_or_zero, member level: whatever a decoder accepts is
     empty or one of the documented readings of the JSON value *)
  Lemma from_doc_dec k j v : dec_field_o o k j = Ok v -> from_doc o k (Some j) v = true.
  Proof.
    unfold dec_field_o, from_doc. intros H. destruct k; cbn [dec_field] in H.
    - (* KStr *) destruct j; cbn in H; inversion H; subst; cbn; rewrite ?seqb_refl, ?orb_true_r; reflexivity.
    - (* KTime *) destruct j; try discriminate; try (inversion H; subst; cbn; rewrite ?Z.eqb_refl, ?orb_true_r; reflexivity).
      destruct (rfc_of o s) eqn:E; [| discriminate]. inversion H; subst. cbn.
      rewrite Z.eqb_refl. apply orb_true_r.
    - (* KAud *) destruct j; try (inversion H; subst; reflexivity).
      + inversion H; subst. cbn. rewrite seqb_refl. reflexivity.
      + destruct (all_strs l) as [r |] eqn:E; [| discriminate]. inversion H; subst.
        destruct (all_strs_from l r E) as [Hl Hf]. cbn [is_empty]. apply orb_true_iff. right.
        rewrite Hl, Nat.eqb_refl. exact Hf.
    - (* KStrs *) destruct j; try discriminate; [inversion H; subst; reflexivity |].
      destruct (mapM _ l) as [r | |] eqn:E; try discriminate. cbn in H. inversion H; subst.
      destruct (mapM_strs_from l r E) as [Hl Hf]. apply orb_true_iff. right.
      rewrite Hl, Nat.eqb_refl. exact Hf.
    - (* KSDA *) destruct j; try discriminate; inversion H; subst; cbn; [reflexivity |].
      rewrite strs_eqb_refl. apply orb_true_r.
    - (* KBool *) destruct j; try discriminate; inversion H; subst; [| destruct b]; reflexivity.
    - (* KBoolS *) destruct j; try (inversion H; subst; reflexivity).
      + destruct b; inversion H; subst; reflexivity.
      + inversion H; subst. cbn. destruct (String.eqb s "true"); reflexivity.
    - (* KLocale *) destruct j; try discriminate; [inversion H; subst; reflexivity |].
      destruct (String.eqb s ""); [inversion H; subst; reflexivity |].
      destruct (lt_of o s) as [c | |] eqn:E; try discriminate; inversion H; subst; cbn.
      + rewrite ?E, seqb_refl. apply orb_true_r.
      + reflexivity.
    - (* KLocales *) destruct j; try discriminate; try (inversion H; subst; reflexivity).
      + inversion H; subst. apply orb_true_iff. right. apply parse_locales_from.
      + destruct (all_strs l) as [r |] eqn:E; [| discriminate]. inversion H; subst.
        apply orb_true_iff. right.
        eapply forallb_impl; [| apply (parse_locales_from r)].
        intros c Hc. apply (all_strs_exists l r c E Hc).
    - (* KActor *) destruct j; try discriminate; [inversion H; subst; reflexivity |].
      destruct (dec_actor (JObj f)) as [a | |] eqn:E; try discriminate. cbn in H. inversion H; subst.
      cbn [is_empty orb]. apply actor_from_dec, E.
    - (* KAddr *) destruct j; try discriminate; [inversion H; subst; reflexivity |].
      unfold dec_addr in H.
      destruct (dec_opt dec_str "" (lookup "formatted" f)) as [x1 | |] eqn:E1; try discriminate; cbn [bind] in H.
      destruct (dec_opt dec_str "" (lookup "street_address" f)) as [x2 | |] eqn:E2; try discriminate; cbn [bind] in H.
      destruct (dec_opt dec_str "" (lookup "locality" f)) as [x3 | |] eqn:E3; try discriminate; cbn [bind] in H.
      destruct (dec_opt dec_str "" (lookup "region" f)) as [x4 | |] eqn:E4; try discriminate; cbn [bind] in H.
      destruct (dec_opt dec_str "" (lookup "postal_code" f)) as [x5 | |] eqn:E5; try discriminate; cbn [bind] in H.
      destruct (dec_opt dec_str "" (lookup "country" f)) as [x6 | |] eqn:E6; try discriminate; cbn [bind] in H.
      inversion H; subst. cbn [is_empty orb a_formatted a_street a_locality a_region a_postal a_country].
      rewrite (str_from_dec _ _ E1), (str_from_dec _ _ E2), (str_from_dec _ _ E3),
              (str_from_dec _ _ E4), (str_from_dec _ _ E5), (str_from_dec _ _ E6). reflexivity.
    - (* KMap *) destruct j; try discriminate; inversion H; subst; [reflexivity |].
      apply orb_true_iff. right. apply obj_eqb_refl.
  Qed.

  Lemma is_empty_zero k : is_empty (zero_of k) = true.
  Proof. destruct k; reflexivity. Qed.

  Lemma fields_from_dec d sch : forall vs,
    mapM (dec_reg (rfc_of o) (lt_of o) (lp_of o) d) sch = Ok vs -> fields_from o sch vs d = true.
  Proof.
    induction sch as [| f s IH]; cbn; intros vs H; [inversion H; reflexivity |].
    destruct (dec_reg _ _ _ d f) as [v | |] eqn:Ev; try discriminate. cbn [bind] in H.
    destruct (mapM _ s) as [r | |]; try discriminate. cbn in H. inversion H; subst.
    cbn. rewrite (IH r eq_refl), andb_true_r.
    unfold dec_reg in Ev. destruct (lookup (fname f) d) as [j |].
    - apply from_doc_dec, Ev.
    - inversion Ev; subst. unfold from_doc. now rewrite is_empty_zero.
  Qed.

  Lemma fields_from_zero d sch : fields_from o sch (map (fun f => zero_of (fkind f)) sch) d = true.
  Proof.
    induction sch as [| f s IH]; [reflexivity |]. cbn. rewrite IH, andb_true_r.
    unfold from_doc. now rewrite is_empty_zero.
  Qed.

  (* spec holds on the model's answer: stand-alone decoders *)
  Theorem spec_model_decK k doc : spec (IDecK k doc o) (model (IDecK k doc o)) = true.
  Proof.
    cbn. destruct (dec_field_o o k doc) as [v | |] eqn:E; cbn; try reflexivity.
    apply from_doc_dec, E.
  Qed.

  (* spec holds on the model's answer: arbitrary documents fed to a claims type *)
  Theorem spec_model_dec ty doc : spec (IDec ty doc o) (model (IDec ty doc o)) = true.
  Proof.
    cbn [model]. destruct (decode_o o (schema_of ty) doc) as [[vs cl] | |] eqn:E; try reflexivity.
    cbn [spec]. unfold decode_o, decode in E. destruct doc; try discriminate.
    - inversion E; subst. cbn. apply fields_from_zero.
    - destruct (mapM _ (schema_of ty)) as [r | |] eqn:Em; try discriminate. cbn in E. inversion E; subst.
      cbn [andb]. rewrite obj_eqb_refl. cbn [andb]. rewrite (fields_from_dec _ _ _ Em). apply orb_true_r.
  Qed.
End Oracles.

(* ---------- round trips: spec holds on the model's answer ---------- *)
Lemma opt_json_eqb_refl x : option_eqb json_eqb x x = true.
Proof. destruct x; cbn; [apply json_eqb_refl | reflexivity]. Qed.

Lemma actor_eqb_refl : forall a, actor_eqb a a = true.
Proof.
  induction a as [act iss sub cl IH] using actor_ind'. cbn [actor_eqb].
  rewrite !seqb_refl, obj_eqb_refl. cbn. destruct act; [exact IH | reflexivity].
Qed.

Lemma addr_eqb_refl a : addr_eqb a a = true.
Proof. unfold addr_eqb. now rewrite !seqb_refl. Qed.

Lemma fval_eqb_refl v : fval_eqb v v = true.
Proof.
  destruct v as [s | z | [l |] | b | [c |] | [a |] | [a |] | m]; cbn; try reflexivity.
  - apply seqb_refl.
  - apply Z.eqb_refl.
  - apply strs_eqb_refl.
  - destruct b; reflexivity.
  - apply seqb_refl.
  - apply actor_eqb_refl.
  - apply addr_eqb_refl.
  - apply obj_eqb_refl.
Qed.

Lemma string_in_false x l : string_in x l = false -> ~ In x l.
Proof.
  unfold string_in. intros H Hin.
  assert (existsb (String.eqb x) l = true) as C
    by (apply existsb_exists; exists x; split; [exact Hin | apply seqb_refl]).
  congruence.
Qed.

Lemma fold_variant_refl names k : In k names -> fold_variant names k = true.
Proof.
  intros H. unfold fold_variant. apply existsb_exists. exists k. split; [exact H | apply seqb_refl].
Qed.

Lemma lookup_merge_other names reg cl k :
  NoDup (keys reg) -> (forall x, In x (keys reg) -> In x names) ->
  fold_variant names k = false -> lookup k (merge reg cl) = lookup k cl.
Proof.
  intros Hnd Hsub Hk. rewrite lookup_merge by exact Hnd.
  assert (Hv : fold_variant (keys reg) k = false) by (eapply fold_variant_subset; eauto).
  rewrite Hv. rewrite lookup_not_in; [reflexivity |].
  intro Hin. rewrite (fold_variant_refl (keys reg) k Hin) in Hv. discriminate.
Qed.

Lemma string_in_true x l : In x l -> string_in x l = true.
Proof.
  intros H. destruct (string_in x l) eqn:E; [reflexivity |]. exfalso. exact (string_in_false x l E H).
Qed.

(* what the merged object holds under a name outside [names] was in the custom map *)
Lemma merge_adds_nothing names reg cl k :
  NoDup (keys reg) -> (forall x, In x (keys reg) -> In x names) ->
  In k (keys (merge reg cl)) ->
  string_in k names || option_eqb json_eqb (lookup k cl) (lookup k (merge reg cl)) = true.
Proof.
  intros Hnd Hsub Hin. destruct (string_in k names) eqn:Es; [reflexivity |]. cbn [orb].
  apply string_in_false in Es.
  assert (Hr : lookup k reg = None) by (apply lookup_not_in; intro Hk; apply Es, Hsub, Hk).
  destruct (lookup k (merge reg cl)) as [v |] eqn:El.
  - rewrite lookup_merge in El by exact Hnd. rewrite Hr in El.
    destruct (fold_variant (keys reg) k); [discriminate |]. rewrite El. apply opt_json_eqb_refl.
  - exfalso. exact (lookup_none_not_in _ _ El Hin).
Qed.

Lemma keep_or_read_sim s oj s' : keep_or_read s oj = Ok s' -> String.eqb s "" || String.eqb s s' = true.
Proof.
  unfold keep_or_read. destruct (String.eqb s ""); [reflexivity |].
  intros H. inversion H; subst. apply seqb_refl.
Qed.

Lemma actor_sim_norm : forall a n, norm_actor a = Ok n -> actor_sim a n = true.
Proof.
  induction a as [act iss sub cl IH] using actor_ind'. intros n H.
  cbn [norm_actor] in H. rewrite enc_actor_eq in H.
  destruct (match act with
            | Some a' => bind (norm_actor a') (fun n => Ok (Some n))
            | None => dec_opt dec_actor_member None (lookup "act" cl)
            end) as [act' | |] eqn:Ea; try discriminate. cbn [bind] in H.
  destruct (keep_or_read iss (lookup "iss" cl)) as [i | |] eqn:Ei; try discriminate. cbn [bind] in H.
  destruct (keep_or_read sub (lookup "sub" cl)) as [s | |] eqn:Es; try discriminate. cbn [bind] in H.
  inversion H; subst n; clear H. cbn [actor_sim].
  repeat (apply andb_true_iff; split).
  - eapply keep_or_read_sim; eauto.
  - eapply keep_or_read_sim; eauto.
  - apply forallb_forall. intros [k j] Hin. cbn [fst snd].
    destruct (fold_variant actor_names k) eqn:Ek; [reflexivity |]. cbn [orb].
    rewrite (lookup_merge_other actor_names);
      [apply opt_json_eqb_refl | apply actor_pairs_nodup | intros x; apply actor_pairs_keys | exact Ek].
  - apply forallb_forall. intros [k j] Hin. cbn [fst snd].
    apply merge_adds_nothing; [apply actor_pairs_nodup | intros x; apply actor_pairs_keys |].
    unfold keys. change k with (fst (k, j)). apply in_map, Hin.
  - destruct act as [p |]; [| reflexivity].
    destruct (norm_actor p) as [q | |] eqn:Ep; try discriminate. cbn in Ea. inversion Ea; subst.
    apply IH. exact Ep.
Qed.

Lemma norm_actor_ok : forall a, actor_collision a = false -> exists n, norm_actor a = Ok n.
Proof.
  induction a as [act iss sub cl IH] using actor_ind'. intros Hc.
  cbn [actor_collision] in Hc.
  apply orb_false_iff in Hc as [Hc Hact]. apply orb_false_iff in Hc as [Hi Hs].
  cbn [norm_actor]. rewrite enc_actor_eq.
  assert (exists i, keep_or_read iss (lookup "iss" cl) = Ok i) as [i Ei].
  { unfold keep_or_read. destruct (String.eqb iss ""); [| eauto]. cbn in Hi.
    destruct (lookup "iss" cl); [discriminate | cbn; eauto]. }
  assert (exists s, keep_or_read sub (lookup "sub" cl) = Ok s) as [s Es].
  { unfold keep_or_read. destruct (String.eqb sub ""); [| eauto]. cbn in Hs.
    destruct (lookup "sub" cl); [discriminate | cbn; eauto]. }
  assert (exists x, match act with
                    | Some a' => bind (norm_actor a') (fun n => Ok (Some n))
                    | None => dec_opt dec_actor_member None (lookup "act" cl)
                    end = Ok x) as [x Ex].
  { destruct act as [p |].
    - destruct (IH Hact) as [n Hn]. rewrite Hn. cbn. eauto.
    - destruct (lookup "act" cl); [discriminate | cbn; eauto]. }
  rewrite Ex, Ei, Es. cbn. eauto.
Qed.

Lemma val_rt_norm v v' : norm_val v = Ok v' -> val_rt v v' = true.
Proof.
  destruct v as [s | z | l | b | [c |] | [a |] | a | m]; intros H; cbn in H;
    try (inversion H; subst; cbn [val_rt]; apply fval_eqb_refl).
  - inversion H; subst. destruct (String.eqb c "und") eqn:E; cbn [val_rt]; [exact E |].
    apply fval_eqb_refl.
  - destruct (norm_actor a) as [n | |] eqn:En; try discriminate. cbn in H. inversion H; subst.
    apply actor_sim_norm, En.
Qed.

Lemma simple_to_json k v j : simple_json v = Some j -> to_json k v = j.
Proof. destruct v; cbn; intros H; inversion H; reflexivity. Qed.

Section Round.
  Variable o : oracles.
  Let rfc := rfc_of o.
  Let lt := lt_of o.
  Let lp := lp_of o.

  Lemma fields_rt_norm ty claims d : forall sch vals vals',
    (forall f v, In (f, v) (combine sch vals) ->
       lookup (fname f) d = match marshal_field f v with Some j => Some j | None => lookup (fname f) claims end) ->
    List.length sch = List.length vals ->
    mapM (norm_field rfc lt lp claims) (combine sch vals) = Ok vals' ->
    fields_rt ty sch vals vals' d = true.
  Proof.
    induction sch as [| f s IH]; intros [| v r] vals' Hlk Hlen H; cbn in Hlen; try discriminate.
    - cbn in H. inversion H. reflexivity.
    - cbn [combine mapM] in H.
      destruct (norm_field rfc lt lp claims (f, v)) as [v' | |] eqn:Ev; try discriminate. cbn [bind] in H.
      destruct (mapM _ (combine s r)) as [r' | |] eqn:Er; try discriminate. cbn [bind] in H.
      inversion H; subst vals'. cbn [fields_rt].
      rewrite (IH r r'); [| intros; apply Hlk; now right | congruence | exact Er].
      rewrite andb_true_r.
      destruct (fomit f && is_empty v) eqn:Eo; [reflexivity |].
      assert (Hm : marshal_field f v = Some (to_json (fkind f) v)) by (unfold marshal_field; now rewrite Eo).
      cbn [norm_field] in Ev. rewrite Hm in Ev.
      rewrite (val_rt_norm v v' Ev). cbn [andb].
      destruct (simple_json v) as [j |] eqn:Es; [| reflexivity].
      rewrite (Hlk f v) by now left. rewrite Hm, (simple_to_json (fkind f) v j Es).
      apply json_eqb_refl.
  Qed.

  Lemma norm_fields_ok claims : forall sch vals,
    unset_collision sch vals claims = false -> any_actor_collision vals = false ->
    exists vs, mapM (norm_field rfc lt lp claims) (combine sch vals) = Ok vs.
  Proof.
    induction sch as [| f s IH]; intros [| v r] Hu Ha; cbn [combine mapM]; eauto.
    cbn [unset_collision] in Hu. apply orb_false_iff in Hu as [Hu1 Hu2].
    unfold any_actor_collision in Ha. cbn [existsb] in Ha. apply orb_false_iff in Ha as [Ha1 Ha2].
    destruct (IH r Hu2 Ha2) as [vs Hvs]. rewrite Hvs.
    assert (exists v', norm_field rfc lt lp claims (f, v) = Ok v') as [v' Hv'].
    { cbn [norm_field]. unfold marshal_field.
      destruct (fomit f && is_empty v) eqn:Eo.
      - cbn in Hu1. destruct (lookup (fname f) claims); [discriminate | cbn; eauto].
      - destruct v as [? | ? | ? | ? | [c |] | [a |] | ? | ?]; cbn; eauto.
        destruct (norm_actor_ok a Ha1) as [n Hn]. rewrite Hn. cbn. eauto. }
    rewrite Hv'. cbn. eauto.
  Qed.

  (* the assignment made by IntrospectionResponse.MarshalJSON only touches an unset member *)
  Fixpoint unset_at (n : string) (sch : list field) (vals : list fval) : bool :=
    match sch, vals with
    | f :: s, v :: r => if String.eqb (fname f) n then fomit f && is_empty v else unset_at n s r
    | _, _ => true
    end.

  Fixpoint kstr_at (n : string) (sch : list field) : bool :=
    match sch with
    | f :: s => if String.eqb (fname f) n
                then fomit f && match fkind f with KStr => true | _ => false end
                else kstr_at n s
    | [] => true
    end.

  Lemma unset_at_get n sch : forall vals,
    kstr_at n sch = true -> vals_wf lt sch vals = true -> get_str n sch vals = "" ->
    unset_at n sch vals = true.
  Proof.
    induction sch as [| f s IH]; intros [| v r] Hk Hw Hg; cbn in *; try reflexivity.
    apply andb_true_iff in Hw as [Hw1 Hw2].
    destruct (String.eqb (fname f) n); [| now apply IH].
    apply andb_true_iff in Hk as [Hk1 Hk2]. rewrite Hk1. cbn.
    unfold wf_field in Hw1. destruct (fkind f); try discriminate. destruct v; try discriminate.
    subst. reflexivity.
  Qed.

  Lemma set_val_wf n x sch : forall vals,
    kstr_at n sch = true -> vals_wf lt sch vals = true ->
    vals_wf lt sch (set_val n (VStr x) sch vals) = true.
  Proof.
    induction sch as [| f s IH]; intros [| v r] Hk Hw; cbn in *; try discriminate; try reflexivity.
    apply andb_true_iff in Hw as [Hw1 Hw2].
    destruct (String.eqb (fname f) n).
    - cbn. rewrite Hw2, andb_true_r. apply andb_true_iff in Hk as [_ Hk].
      unfold wf_field. destruct (fkind f); try discriminate. reflexivity.
    - cbn. rewrite Hw1. now apply IH.
  Qed.

  Lemma set_val_fields_rt ty n x d sch : forall vals vals',
    unset_at n sch vals = true ->
    fields_rt ty sch (set_val n x sch vals) vals' d = true -> fields_rt ty sch vals vals' d = true.
  Proof.
    induction sch as [| f s IH]; intros [| v r] vals' Hu H; cbn in *; try exact H.
    destruct (String.eqb (fname f) n).
    - destruct vals' as [| v' r']; [discriminate |]. cbn in *. rewrite Hu. cbn.
      apply andb_true_iff in H as [_ H]. exact H.
    - destruct vals' as [| v' r']; [discriminate |]. cbn in *.
      apply andb_true_iff in H as [H1 H2]. rewrite H1. cbn. eapply IH; eauto.
  Qed.

  Lemma set_val_collision n x claims sch : forall vals,
    unset_at n sch vals = true ->
    unset_collision sch vals claims = false ->
    unset_collision sch (set_val n x sch vals) claims = false.
  Proof.
    induction sch as [| f s IH]; intros [| v r] Hu H; cbn in *; try reflexivity.
    apply orb_false_iff in H as [H1 H2].
    destruct (String.eqb (fname f) n).
    - cbn. rewrite H2, orb_false_r. apply andb_true_iff in Hu as [Hf He]. rewrite Hf, He in H1.
      cbn in H1. destruct (lookup (fname f) claims); [discriminate |]. now rewrite andb_false_r.
    - cbn. rewrite H1. cbn. now apply IH.
  Qed.

  Lemma set_val_actor_collision n x sch : forall vals,
    any_actor_collision vals = false -> any_actor_collision (set_val n (VStr x) sch vals) = false.
  Proof.
    unfold any_actor_collision.
    induction sch as [| f s IH]; intros [| v r] H; cbn in *; try reflexivity; try exact H.
    apply orb_false_iff in H as [H1 H2].
    destruct (String.eqb (fname f) n); cbn; [exact H2 |]. rewrite H1. cbn. now apply IH.
  Qed.

  Lemma set_val_length n x sch : forall vals, List.length (set_val n x sch vals) = List.length vals.
  Proof.
    induction sch as [| f s IH]; intros [| v r]; cbn; try reflexivity.
    destruct (String.eqb (fname f) n); cbn; [reflexivity | now rewrite IH].
  Qed.

  Lemma pre_cases ty vals :
    pre ty vals = vals \/
    exists x, pre ty vals = set_val "username" (VStr x) (schema_of ty) vals /\
              get_str "username" (schema_of ty) vals = "" /\
              kstr_at "username" (schema_of ty) = true.
  Proof.
    destruct ty; try (left; reflexivity). unfold pre.
    destruct (String.eqb (get_str "username" (schema_of TIntro) vals) "") eqn:E; [| left; reflexivity].
    right. eexists. split; [reflexivity |]. split; [now apply seqb_eq | vm_compute; reflexivity].
  Qed.

  (* C12 round trip, on the property predicate: for EVERY value of every type
     (well-formed or not, colliding custom keys or not) the model's answer
     satisfies the predicate *)
  Lemma spec_model_round_from ty vals claims vs cl :
    decode_o o (schema_of ty) (JObj (encode_T ty vals claims)) = Ok (vs, cl) ->
    fields_from o (schema_of ty) vs (encode_T ty vals claims) = true.
  Proof.
    unfold decode_o, decode. intros H.
    destruct (mapM _ (schema_of ty)) as [r | |] eqn:Em; try discriminate. cbn in H. inversion H; subst.
    apply fields_from_dec, Em.
  Qed.

  Theorem spec_model_round ty vals claims :
    spec (IRound ty vals claims o) (model (IRound ty vals claims o)) = true.
  Proof.
    cbn [model spec]. apply andb_true_iff. split.
    2:{ destruct (decode_o o (schema_of ty) (JObj (encode_T ty vals claims))) as [[vs cl] | |] eqn:Ed;
          cbn [res_opt]; try reflexivity.
        rewrite (spec_model_round_from _ _ _ _ _ Ed). apply orb_true_r. }
    unfold spec_round.
    destruct (rt_guard o (schema_of ty) vals claims) eqn:Hg; [| reflexivity].
    unfold rt_guard in Hg. apply andb_true_iff in Hg as [Hg _]. apply andb_true_iff in Hg as [Hwf _].
    set (sch := schema_of ty) in *. unfold encode_T. fold sch.
    assert (Hpre : exists pv, pre ty vals = pv /\ vals_wf lt sch pv = true /\
              (forall vals' d, fields_rt ty sch pv vals' d = true -> fields_rt ty sch vals vals' d = true) /\
              (unset_collision sch vals claims = false -> unset_collision sch pv claims = false) /\
              (any_actor_collision vals = false -> any_actor_collision pv = false)).
    { destruct (pre_cases ty vals) as [E | [x [E [Hg Hk]]]]; fold sch in E |- *.
      - exists vals. rewrite E. repeat split; auto.
      - fold sch in Hg, Hk. exists (set_val "username" (VStr x) sch vals). split; [exact E |].
        assert (Hu : unset_at "username" sch vals = true) by (apply unset_at_get; assumption).
        split; [apply set_val_wf; assumption |]. split; [| split].
        + intros vals' d. apply set_val_fields_rt, Hu.
        + apply set_val_collision, Hu.
        + apply set_val_actor_collision. }
    destruct Hpre as [pv [Epv [Hwfp [Hrt [Hcol Hacol]]]]]. rewrite Epv.
    unfold decode_o. fold rfc lt lp.
    rewrite (roundtrip rfc lt lp sch pv claims (schema_nodup ty) (schema_fold_distinct ty) Hwfp). unfold norm.
    destruct (mapM (norm_field rfc lt lp claims) (combine sch pv)) as [vs' | |] eqn:Em; cbn [bind res_opt].
    - rewrite obj_eqb_refl. cbn [andb]. apply andb_true_iff. split; [apply andb_true_iff; split |].
      + apply Hrt. eapply fields_rt_norm; [| now apply (vals_wf_length lt) | exact Em].
        intros f v Hin. apply lookup_encode_reg; [apply schema_nodup | apply schema_fold_distinct | exact Hin].
      + apply forallb_forall. intros [k j] Hin. cbn [fst snd].
        destruct (fold_variant (map fname sch) k) eqn:Ek; [reflexivity |]. cbn [orb].
        rewrite lookup_encode_custom; [apply opt_json_eqb_refl | apply schema_nodup | exact Ek].
      + apply forallb_forall. intros [k j] Hin. cbn [fst snd]. unfold encode.
        apply merge_adds_nothing; [apply reg_pairs_nodup, schema_nodup | intros x; apply reg_pairs_keys |].
        unfold keys. change k with (fst (k, j)). apply in_map, Hin.
    - destruct (unset_collision sch vals claims) eqn:Eu; [reflexivity |].
      destruct (any_actor_collision vals) eqn:Ea; [reflexivity |].
      destruct (norm_fields_ok claims sch pv (Hcol eq_refl) (Hacol eq_refl)) as [vs Hvs]. congruence.
    - destruct (unset_collision sch vals claims) eqn:Eu; [reflexivity |].
      destruct (any_actor_collision vals) eqn:Ea; [reflexivity |].
      destruct (norm_fields_ok claims sch pv (Hcol eq_refl) (Hacol eq_refl)) as [vs Hvs]. congruence.
  Qed.
End Round.

(* ---------- statements as they appear in props/C12.v ---------- *)
Lemma case_variants_dropped ty vals claims k :
  fold_variant (keys (reg_pairs (schema_of ty) (pre ty vals))) k = true ->
  ~ In k (keys (reg_pairs (schema_of ty) (pre ty vals))) ->
  lookup k (encode_T ty vals claims) = None.
Proof.
  intros Hv Hn. unfold encode_T, encode.
  rewrite lookup_merge by (apply reg_pairs_nodup, schema_nodup).
  rewrite (lookup_not_in _ _ Hn), Hv. reflexivity.
Qed.

Lemma roundtrip_T rfc lt lp ty vals claims :
  decode_domain (schema_of ty) (encode_T ty vals claims) = true ->
  vals_wf lt (schema_of ty) (pre ty vals) = true ->
  decode rfc lt lp (schema_of ty) (JObj (encode_T ty vals claims))
  = norm rfc lt lp (schema_of ty) (pre ty vals) claims.
Proof.
  intros _ H. unfold encode_T. apply roundtrip; [apply schema_nodup | apply schema_fold_distinct | exact H].
Qed.

Lemma registered_wins_T ty vals claims f v j :
  In (f, v) (combine (schema_of ty) (pre ty vals)) -> marshal_field f v = Some j ->
  lookup (fname f) (encode_T ty vals claims) = Some j.
Proof. intros Hin Hm. unfold encode_T. eapply registered_wins; eauto. apply schema_nodup. Qed.

Lemma tolerant_forms rfc lt lp :
  (forall s, dec_field rfc lt lp KAud (JStr s) = Ok (VStrs (Some [s]))) /\
  (forall l, dec_field rfc lt lp KAud (JArr (map JStr l)) = Ok (VStrs (Some l))) /\
  (forall z, dec_field rfc lt lp KTime (JNum z "") = Ok (VTime z)) /\
  (forall s z, rfc s = Some z -> dec_field rfc lt lp KTime (JStr s) = Ok (VTime z)) /\
  (dec_field rfc lt lp KBoolS (JStr "true") = Ok (VBool true) /\
   dec_field rfc lt lp KBoolS (JBool true) = Ok (VBool true)) /\
  (forall l, l <> [] -> forallb space_free l = true ->
     dec_field rfc lt lp KLocales (JStr (join_sp l)) = dec_field rfc lt lp KLocales (JArr (map JStr l)) /\
     dec_field rfc lt lp KLocales (JArr (map JStr l)) = Ok (VStrs (Some (parse_locales lp l)))) /\
  (forall l, l <> [] -> forallb space_free l = true ->
     dec_field rfc lt lp KSDA (JStr (join_sp l)) = Ok (VStrs (Some l))).
Proof.
  repeat split; intros.
  - apply tol_aud_array.
  - now apply tol_time_rfc3339.
  - now apply tol_locales.
  - now apply tol_locales.
  - now apply tol_scope.
Qed.

Lemma other_forms_err_or_zero o k j :
  match dec_field_o o k j with
  | Panic => False
  | Err => True
  | Ok v => from_doc o k (Some j) v = true
  end.
Proof.
  destruct (dec_field_o o k j) as [v | |] eqn:E; [now apply from_doc_dec | exact I |].
  exfalso. revert E. apply dec_field_no_panic.
Qed.

Lemma decode_doc o ty doc :
  match decode_o o (schema_of ty) doc with
  | Panic => False
  | Err => True
  | Ok (vs, cl) => cl = match doc with JObj d => d | _ => [] end /\
                   fields_from o (schema_of ty) vs cl = true
  end.
Proof.
  destruct (decode_o o (schema_of ty) doc) as [[vs cl] | |] eqn:E; [| exact I |].
  - unfold decode_o, decode in E. destruct doc; try discriminate.
    + inversion E; subst. split; [reflexivity | apply fields_from_zero].
    + destruct (mapM _ (schema_of ty)) as [r | |] eqn:Em; try discriminate. cbn in E. inversion E; subst.
      split; [reflexivity | apply fields_from_dec, Em].
  - exfalso. revert E. apply decode_no_panic.
Qed.

Definition is_codec (i : input) : bool :=
  match i with ISeal _ _ _ _ _ _ | IOpen _ _ _ => false | _ => true end.

(* the extension cases (round 11) are proved in C12_Ext_spec_proofs.v, which
   closes this lemma into spec_model_codec *)
Lemma spec_model_codec_core i :
  (forall x, xspec x (xmodel x) = true) -> is_codec i = true -> spec i (model i) = true.
Proof.
  intros HX. destruct i; cbn [is_codec]; intros H; try discriminate.
  - apply spec_model_round.
  - apply spec_model_dec.
  - apply spec_model_decK.
  - reflexivity.
  - apply HX.
Qed.

(* ---------- delegation chains: parties may repeat ---------- *)
Lemma lookup_some_in k o v : lookup k o = Some v -> In (k, v) o.
Proof.
  induction o as [| [k' v'] r IH]; cbn [lookup]; [discriminate |].
  destruct (String.eqb k k') eqn:E.
  - intros H. inversion H; subst. apply seqb_eq in E. subst. left. reflexivity.
  - intros H. right. apply IH, H.
Qed.

Lemma plain_lookup_none c k :
  forallb (fun kv => negb (fold_variant actor_names (fst kv))) c = true ->
  In k actor_names -> lookup k c = None.
Proof.
  intros Hp Hk. destruct (lookup k c) as [v |] eqn:E; [| reflexivity].
  apply lookup_some_in in E. rewrite forallb_forall in Hp. specialize (Hp _ E). cbn [fst] in Hp.
  rewrite (fold_variant_refl actor_names k Hk) in Hp. discriminate.
Qed.

Lemma keep_or_read_none s : keep_or_read s None = Ok s.
Proof.
  unfold keep_or_read. destruct (String.eqb s "") eqn:E; [| reflexivity].
  apply seqb_eq in E. subst. reflexivity.
Qed.

Lemma norm_actor_plain : forall a, actor_plain a = true ->
  exists n, norm_actor a = Ok n /\ chain_ids n = chain_ids a.
Proof.
  induction a as [act iss sub cl IH] using actor_ind'. intros Hp.
  cbn [actor_plain] in Hp. apply andb_true_iff in Hp as [Hc Hact].
  cbn [norm_actor]. rewrite enc_actor_eq.
  rewrite (plain_lookup_none cl "iss" Hc) by (unfold actor_names; cbn; tauto).
  rewrite (plain_lookup_none cl "sub" Hc) by (unfold actor_names; cbn; tauto).
  rewrite (plain_lookup_none cl "act" Hc) by (unfold actor_names; cbn; tauto).
  rewrite !keep_or_read_none.
  destruct act as [p |].
  - destruct (IH Hact) as [n [Hn Hids]]. rewrite Hn. cbn [bind].
    eexists. split; [reflexivity |]. cbn [chain_ids]. rewrite Hids. reflexivity.
  - cbn [dec_opt bind]. eexists. split; reflexivity.
Qed.

(* Marshal writes every (finite) chain; Unmarshal gives back a chain of the same
   length with the same parties in the same order and every custom claim of
   every level - whether or not a party occurs more than once *)
Lemma actor_chain_lossless : forall a, actor_plain a = true ->
  exists a', dec_actor (enc_actor a) = Ok a' /\ chain_ids a' = chain_ids a /\ actor_sim a a' = true.
Proof.
  intros a Hp. destruct (norm_actor_plain a Hp) as [n [Hn Hids]].
  exists n. rewrite actor_roundtrip. repeat split; [exact Hn | exact Hids | apply actor_sim_norm, Hn].
Qed.

Definition ex_chain_aba : actor :=
  Actor (Some (Actor (Some (Actor None "https://issuer.example.com" "svc-a" []))
                     "https://issuer.example.com" "svc-b" [("role", JStr "broker")]))
        "https://issuer.example.com" "svc-a" [("role", JStr "front")].

Definition ids_eqb : list (string * string) -> list (string * string) -> bool :=
  list_eqb (fun p q => String.eqb (fst p) (fst q) && String.eqb (snd p) (snd q)).

Definition ex_chain_back : list (string * string) :=
  match dec_actor (enc_actor ex_chain_aba) with Ok a' => chain_ids a' | _ => [] end.

(* the first and the third actor are the same party; the decoded chain is
   svc-a, svc-b, svc-a again *)
Example actor_chain_repeats_nonvacuous :
  actor_plain ex_chain_aba = true /\
  List.nth_error (chain_ids ex_chain_aba) 0 = List.nth_error (chain_ids ex_chain_aba) 2 /\
  ids_eqb ex_chain_back (chain_ids ex_chain_aba) = true /\
  List.length ex_chain_back = 3.
Proof. vm_compute. repeat split. Qed.

(* ---------- non-vacuity ---------- *)
Definition ex_oracles : oracles :=
  O [("2023-01-02T03:04:05Z", Some 1672628645%Z)] [("de-CH", LOk "de-CH")] [("en", LOk "en")].

Definition ex_at_vals : list fval :=
  [VStr "https://issuer.example.com"; VStr "alice"; VStrs (Some ["api"; "web"]); VTime 1700003600;
   VTime 1700000000; VTime 0; VTime 0; VStr ""; VStr ""; VStrs None; VStr ""; VStr "web"; VStr "";
   VActor (Some (Actor (Some (Actor None "" "svc" [])) "" "admin" [("iss", JStr "x"); ("team", JStr "a")]));
   VStrs (Some ["openid"; "email"])].

Definition ex_at_claims : obj :=
  [("iss", JStr "https://evil.example"); ("nonce", JStr "from-custom"); ("role", JArr [JStr "r1"])].

Example roundtrip_nonvacuous :
  decode_domain (schema_of TAT) (encode_T TAT ex_at_vals ex_at_claims) = true /\
  lookup (bs [105;197;191;115]%N) (encode_T TAT ex_at_vals ((bs [105;197;191;115]%N, JStr "evil") :: ex_at_claims)) = None /\
  vals_wf (lt_of ex_oracles) (schema_of TAT) (pre TAT ex_at_vals) = true /\
  lookup "iss" (encode_T TAT ex_at_vals ex_at_claims) = Some (JStr "https://issuer.example.com") /\
  lookup "role" (encode_T TAT ex_at_vals ex_at_claims) = Some (JArr [JStr "r1"]) /\
  exists vs, decode_o ex_oracles (schema_of TAT) (JObj (encode_T TAT ex_at_vals ex_at_claims))
             = Ok (vs, encode_T TAT ex_at_vals ex_at_claims) /\
             nth 0 vs (VStr "") = VStr "https://issuer.example.com" /\
             nth 7 vs (VStr "") = VStr "from-custom".
Proof.
  split; [vm_compute; reflexivity |]. split; [vm_compute; reflexivity |].
  split; [vm_compute; reflexivity |]. split; [vm_compute; reflexivity |].
  split; [vm_compute; reflexivity |]. eexists. split; [vm_compute; reflexivity |].
  split; vm_compute; reflexivity.
Qed.

Example tolerant_nonvacuous :
  dec_field_o ex_oracles KTime (JStr "2023-01-02T03:04:05Z") = Ok (VTime 1672628645) /\
  dec_field_o ex_oracles KLocales (JStr "en xx") = Ok (VStrs (Some ["en"])) /\
  dec_field_o ex_oracles KAud (JArr [JStr "a"; JNum 1 ""]) = Err /\
  dec_aud_unfixed (JArr [JStr "a"; JNum 1 ""]) = Panic.
Proof. repeat split; vm_compute; reflexivity. Qed.
