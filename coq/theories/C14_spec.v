(* C14: case vocabulary, executable model runner (symbolic signature instance)
   and the property predicate evaluated on what the implementation answered. *)
From OIDC Require Import Lib.
From OIDC Require Export C14_Sig C14_Assertion C14_Request.

Inductive entry :=
| EVerify       (* op.VerifyJWTAssertion *)
| EClientAuth   (* op.ClientJWTAuth *)
| EPrivateKey   (* op.AuthorizePrivateJWTKey *)
| EGrant        (* op.JWTProfile handler, identity passed to ValidateJWTProfileScopes *)
| ERouter (legacy : bool) (ep : endpoint) (client_id : string) (owner : string).
    (* a POST carrying the assertion (client_assertion, or assertion for the jwt-bearer grant)
       to endpoint [ep] of the real router (Provider / LegacyServer) of ONE long-lived
       dynamic-issuer provider; [client_id] = the plain client_id form parameter sent along
       ("" = none); [owner] = the client the redeemed code / refresh token / token to revoke
       belongs to, resp. the audience of the introspected token ("" where nothing is redeemed);
       identity = the client the storage recorded the device authorization / issued the new
       token for (jwt-bearer: the subject of the issued token), resp. [owner] when the storage
       revoked / disclosed the token; v_issuer = the issuer of this request's host *)

Inductive input :=
| IAssert (e : entry) (helper : option hcall)
    (* Some h: [tok] is what a client helper of the library SENT (captured at the wire)
       for the call h; the n-th call on a long-lived helper instance is just another h *)
    (v : vcfg) (t : keytable) (cl : clienttable) (t0 t1 : Z) (tok : token claims)
| IRequest (via_authorize supported : bool) (t : keytable) (issuer : string)
    (outer : authreq) (tok : token reqobj).

Inductive observed :=
| OAssert (r : res (string * string))        (* authenticated identity, returned subject *)
| OReq (e : option err) (after : authreq) (cleared : bool)
| OAuthz (seen : option (authreq * bool))    (* what ValidateAuthRequest was handed *)
| OPanic.

Definition res_map {A B} (f : A -> B) (r : res A) : res B :=
  match r with Ok a => Ok (f a) | Err e => Err e end.

Definition model_assert (e : entry) (v : vcfg) (t : keytable) (cl : clienttable) (now : Z)
    (tok : token claims) : res (string * string) :=
  match e with
  | EVerify => res_map (fun c => (c_iss c, c_sub c)) (verify_assertion sym_verify v t now tok)
  | EClientAuth => res_map (fun id => (id, "")) (client_jwt_auth sym_verify v t now tok)
  | EPrivateKey => res_map (fun id => (id, "")) (authorize_private_jwt_key sym_verify v t cl now tok)
  | EGrant =>   (* the handler's error answer is not classified: every error is EOther *)
      match jwt_profile_grant sym_verify v t now tok with
      | Ok id => Ok (id, "")
      | Err _ => Err EOther
      end
  | ERouter legacy ep _ owner =>   (* HTTP error answers are not classified either *)
      match router_endpoint_auth sym_verify legacy ep owner v t cl now tok with
      | Ok id => Ok (id, "")
      | Err _ => Err EOther
      end
  end.

(* every entry point reaches the (nil) subject check through VerifyJWTAssertion; the
   drivers call the functions / handlers without a recovering server in between *)
Definition panics (v : vcfg) (t : keytable) (now : Z) (tok : token claims) : bool :=
  match verify_assertion sym_verify v t now tok with Err EPanicked => true | _ => false end.

Definition model (i : input) : observed :=
  match i with
  | IAssert e _ v t cl t0 _ tok =>
      if panics v t t0 tok then OPanic else OAssert (model_assert e v t cl t0 tok)
  | IRequest true sup t iss outer tok =>
      OAuthz (authorize_until_validation sym_verify sup t iss outer tok)
  | IRequest false _ t iss outer tok =>
      let '(e, a, c) := run_request_object sym_verify t iss outer tok in OReq e a c
  end.

(* ------------------------------------------------------------------ *)
(* The property (from the property text and the ground truth in the input). *)

(* the key storage holds for (client, kid) is the key that made the signature,
   and the signed bytes are the presented ones *)
Definition signed_by_named_client (t : keytable) (client : string) (d : sigdesc) : bool :=
  match lookup_key t client (sd_kid d) with
  | Some k => Nat.eqb k (sd_signer d) && sd_intact d
  | None => false
  end.

(* the claim conditions, each at the end of the bracket [t0,t1] that makes it weakest *)
Definition assertion_conditions (v : vcfg) (t : keytable) (t0 t1 : Z) (d : sigdesc) (c : claims) : bool :=
  signed_by_named_client t (c_iss c) d
  && string_in (v_issuer v) (c_aud c)
  && negb (Z.eqb (c_exp c) 0) && Z.ltb (t0 + v_offset v) (c_exp c * second)
  && negb (Z.eqb (c_iat c) 0) && Z.leb (c_iat c * second) (round_s (t1 + v_offset v))
  && (Z.eqb (v_max_age v) 0 || Z.leb (round_s (t0 - v_max_age v)) (c_iat c * second))
  && match v_sub v with
     | SubAny | SubOnly _ => true       (* a caller-supplied, non-nil check decides *)
     | SubIsIssuer | SubNil => String.eqb (c_sub c) (c_iss c)   (* the default; no check at all is not a custom check *)
     end.

Definition is_private_key_jwt (cl : clienttable) (id : string) : bool :=
  match lookup_client cl id with Some m => String.eqb m private_key_jwt | None => false end.

(* an assertion produced by a call [h] of one of the library's client helpers configured
   for this provider's issuer (what the helper writes into iss, sub, aud, iat and exp is
   the helper's business and NOT a premise here: only WHEN it was called, for which client
   [h_client h] and the lifetime it was asked for), for a key registered for that client, presented after the call and within that
   lifetime to a verifier with non-negative offset whose max age - whatever it is - covers
   the time since the call (1.5 s of slack: iat is cut to whole seconds, the bound is
   rounded) and whose configured subject check lets the subject the caller ASKED the helper
   for through (no delegation asked: sub = the client, passes the default and an accept-all
   check; oidc.JWTProfileDelegatedSubject(s): needs a custom check that allows s - "sub =
   iss unless a custom subject check is configured") *)
Definition must_accept (e : entry) (v : vcfg) (t : keytable) (cl : clienttable) (t0 t1 : Z)
    (h : hcall) (d : sigdesc) (c : claims) : bool :=
  sd_wf d && signed_by_named_client t (h_client h) d
  && subject_allowed (v_sub v) (h_client h) (asked_sub (h_sub h) (h_client h))
  && Z.leb 0 (v_offset v)
  && Z.leb second (h_t0 h) && Z.leb (h_t0 h) (h_t1 h) && Z.leb (h_t1 h) t0
  && (Z.eqb (v_max_age v) 0 || Z.leb (t1 - h_t0 h + second + half_second) (v_max_age v))
  && Z.leb (t1 + v_offset v + second) (h_t0 h + h_life h * second)
  && match e with
     | EPrivateKey => is_private_key_jwt cl (h_client h)
     | ERouter legacy ep _ owner =>
         match ep_auth legacy ep with
         | AKPk => is_private_key_jwt cl (h_client h)
         | AKLookup => match lookup_client cl (h_client h) with Some _ => true | None => false end
         | AKVerify => true
         end
         && (negb (ep_owned ep) || String.eqb (h_client h) owner)   (* it redeems what is its own *)
     | _ => true
     end.

Definition spec_assert (e : entry) (helper : option hcall) (v : vcfg) (t : keytable) (cl : clienttable)
    (t0 t1 : Z) (tok : token claims) (r : res (string * string)) : bool :=
  match r with
  | Ok (id, sub) =>
      match tok with
      | TJws d c =>
          assertion_conditions v t t0 t1 d c
          && String.eqb id (c_iss c)
          && match e with
             | EVerify => String.eqb sub (c_sub c)
             | EPrivateKey => is_private_key_jwt cl (c_iss c)
             | ERouter legacy ep _ _ =>
                 match ep_auth legacy ep with AKPk => is_private_key_jwt cl (c_iss c) | _ => true end
             | _ => true
             end
      | _ => false
      end
  | Err _ =>
      match helper, tok with
      | Some h, TJws d c => negb (must_accept e v t cl t0 t1 h d c)
      | _, _ => true
      end
  end.

Definition strs_eqb := list_eqb String.eqb.

Definition authreq_eqb (a b : authreq) : bool :=
  strs_eqb (ar_scopes a) (ar_scopes b)
  && String.eqb (ar_response_type a) (ar_response_type b)
  && String.eqb (ar_client_id a) (ar_client_id b)
  && String.eqb (ar_redirect_uri a) (ar_redirect_uri b)
  && String.eqb (ar_state a) (ar_state b)
  && String.eqb (ar_nonce a) (ar_nonce b)
  && String.eqb (ar_response_mode a) (ar_response_mode b)
  && String.eqb (ar_display a) (ar_display b)
  && strs_eqb (ar_prompt a) (ar_prompt b)
  && option_eqb N.eqb (ar_max_age a) (ar_max_age b)
  && strs_eqb (ar_ui_locales a) (ar_ui_locales b)
  && String.eqb (ar_id_token_hint a) (ar_id_token_hint b)
  && String.eqb (ar_login_hint a) (ar_login_hint b)
  && strs_eqb (ar_acr_values a) (ar_acr_values b)
  && String.eqb (ar_code_challenge a) (ar_code_challenge b)
  && String.eqb (ar_code_challenge_method a) (ar_code_challenge_method b).

(* signed by the requesting client, names it as issuer, targets this issuer, agrees
   with the outer client_id and response_type (weakest reading: absent agrees) *)
Definition request_legit (t : keytable) (issuer : string) (outer : authreq) (d : sigdesc)
    (ro : reqobj) : bool :=
  signed_by_named_client t (ar_client_id outer) d
  && String.eqb (ro_iss ro) (ar_client_id outer)
  && string_in issuer (ro_aud ro)
  && (String.eqb (ar_client_id (ro_req ro)) "" || String.eqb (ar_client_id (ro_req ro)) (ar_client_id outer))
  && (String.eqb (ar_response_type (ro_req ro)) ""
      || String.eqb (ar_response_type (ro_req ro)) (ar_response_type outer)).

(* a member that is PRESENT in the object (non-empty string / list after decoding, max_age
   given - also max_age = 0) takes the object's value; an absent one keeps the plain value *)
Definition from_s (o i a : string) : bool := if nonempty i then String.eqb a i else String.eqb a o.
Definition from_l (o i a : list string) : bool :=
  match i with [] => strs_eqb a o | _ => strs_eqb a i end.
Definition from_o (o i a : option N) : bool :=
  match i with Some _ => option_eqb N.eqb a i | None => option_eqb N.eqb a o end.
(* scope: the object's list or the plain one *)
Definition from_either (o i a : list string) : bool := strs_eqb a o || strs_eqb a i.

(* every parameter afterwards is the object's value where the object carries it, the plain
   one otherwise; client_id and response_type stay the plain ones *)
Definition fields_from (o i a : authreq) : bool :=
  from_either (ar_scopes o) (ar_scopes i) (ar_scopes a)
  && String.eqb (ar_response_type a) (ar_response_type o)
  && String.eqb (ar_client_id a) (ar_client_id o)
  && from_s (ar_redirect_uri o) (ar_redirect_uri i) (ar_redirect_uri a)
  && from_s (ar_state o) (ar_state i) (ar_state a)
  && from_s (ar_nonce o) (ar_nonce i) (ar_nonce a)
  && from_s (ar_response_mode o) (ar_response_mode i) (ar_response_mode a)
  && from_s (ar_display o) (ar_display i) (ar_display a)
  && from_l (ar_prompt o) (ar_prompt i) (ar_prompt a)
  && from_o (ar_max_age o) (ar_max_age i) (ar_max_age a)
  && from_l (ar_ui_locales o) (ar_ui_locales i) (ar_ui_locales a)
  && from_s (ar_id_token_hint o) (ar_id_token_hint i) (ar_id_token_hint a)
  && from_s (ar_login_hint o) (ar_login_hint i) (ar_login_hint a)
  && from_l (ar_acr_values o) (ar_acr_values i) (ar_acr_values a)
  && from_s (ar_code_challenge o) (ar_code_challenge i) (ar_code_challenge a)
  && from_s (ar_code_challenge_method o) (ar_code_challenge_method i) (ar_code_challenge_method a).

Definition override_ok (t : keytable) (issuer : string) (outer : authreq) (tok : token reqobj)
    (after : authreq) : bool :=
  match tok with
  | TJws d ro => request_legit t issuer outer d ro && fields_from outer (ro_req ro) after
  | _ => false
  end.

Definition spec (i : input) (o : observed) : bool :=
  match i, o with
  | IAssert e helper v t cl t0 t1 tok, OAssert r => spec_assert e helper v t cl t0 t1 tok r
  | IAssert _ _ v _ _ _ _ _, OPanic =>
      (* a call that does not return accepts nothing; it is tolerated only for a verifier
         that was configured without any subject check (nil) *)
      match v_sub v with SubNil => true | _ => false end
  | IRequest false _ t iss outer tok, OReq e after cleared =>
      match e with
      | Some _ => authreq_eqb after outer && negb cleared   (* rejected before anything is overridden *)
      | None => override_ok t iss outer tok after
      end
  | IRequest true sup t iss outer tok, OAuthz None => true
  | IRequest true sup t iss outer tok, OAuthz (Some (a, cleared)) =>
      (authreq_eqb a outer && negb cleared) || (sup && override_ok t iss outer tok a)
  | _, _ => false
  end.

(* ------------------------------------------------------------------ *)

Definition err_nat (e : err) : nat :=
  match e with
  | EOther => 1 | EParse => 2 | EAud => 3 | EExpired => 4 | EIatMissing => 5 | EIatFuture => 6
  | EIatOld => 7 | EAlg => 8 | ESig => 9 | ENoClient => 10 | EMethod => 11 | ENoCred => 12
  | EInvalidRequest => 13 | EPanicked => 14
  end.
Definition err_eqb (a b : err) : bool := Nat.eqb (err_nat a) (err_nat b).

Definition res_eqb {A} (eq : A -> A -> bool) (a b : res A) : bool :=
  match a, b with
  | Ok x, Ok y => eq x y
  | Err x, Err y => err_eqb x y
  | _, _ => false
  end.

Definition pair_eqb (a b : string * string) : bool :=
  String.eqb (fst a) (fst b) && String.eqb (snd a) (snd b).

Definition seen_eqb (a b : authreq * bool) : bool :=
  authreq_eqb (fst a) (fst b) && Bool.eqb (snd a) (snd b).

Definition obs_eqb (a b : observed) : bool :=
  match a, b with
  | OAssert x, OAssert y => res_eqb pair_eqb x y
  | OReq e1 a1 c1, OReq e2 a2 c2 => option_eqb err_eqb e1 e2 && authreq_eqb a1 a2 && Bool.eqb c1 c2
  | OAuthz x, OAuthz y => option_eqb seen_eqb x y
  | OPanic, OPanic => true
  | _, _ => false
  end.

Definition ep_nat (ep : endpoint) : nat :=
  match ep with EpDevice => 0 | EpCode => 1 | EpRefresh => 2 | EpRevoke => 3 | EpIntrospect => 4 | EpBearer => 5 end.

Definition entry_nat (e : entry) : nat :=
  match e with EVerify => 0 | EClientAuth => 1 | EPrivateKey => 2 | EGrant => 3
  | ERouter legacy ep c _ => 4 + ep_nat ep + (if legacy then 6 else 0) + (if String.eqb c "" then 0 else 12) end.

(* which guard of ParseRequestObject decides (all four answer invalid_request) *)
Definition request_guard (outer : authreq) (issuer : string) (tok : token reqobj) : nat :=
  match tok with
  | TJws d ro =>
      let inner := ro_req ro in
      if nonempty (ar_client_id inner) && negb (String.eqb (ar_client_id inner) (ar_client_id outer)) then 1
      else if nonempty (ar_response_type inner)
              && negb (String.eqb (ar_response_type inner) (ar_response_type outer)) then 2
      else if negb (String.eqb (ro_iss ro) (ar_client_id inner)) then 3
      else if negb (string_in issuer (ro_aud ro)) then 4
      else 5
  | _ => 0
  end.

(* decision-path class of the model run; 0 = rejected by the first guard (shape) *)
Definition path (i : input) (o : observed) : nat :=
  match i, o with
  | IAssert e _ _ _ _ _ _ (TJws _ _), OAssert (Ok _) => 70 + entry_nat e
  | IAssert e _ _ _ _ _ _ (TJws _ _), OAssert (Err x) => err_nat x
  | IAssert _ _ _ _ _ _ _ _, _ => 0
  | IRequest _ _ _ iss outer tok, OReq None a _ => if authreq_eqb a outer then 40 else 41
  | IRequest _ _ _ iss outer tok, OReq (Some x) _ _ =>
      match request_guard outer iss tok with 0 => 0 | 5 => 30 + err_nat x | g => 30 + g end
  | IRequest _ sup _ iss outer tok, OAuthz (Some (a, c)) =>
      if c then (if authreq_eqb a outer then 50 else 51) else 52
  | IRequest _ sup _ iss outer tok, OAuthz None =>
      if sup then match request_guard outer iss tok with 0 => 0 | g => 60 + g end else 59
  | _, _ => 0
  end.

Definition case_mismatches := run_mismatches model obs_eqb.
Definition case_violations := run_violations spec.
Definition case_paths := run_paths model path.
