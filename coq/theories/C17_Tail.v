(* C17 (round 11): what happens in the callback AFTER the state / PKCE checks and the
   token request: the ID token's time checks as set by the verifier options, and the
   UserinfoCallback wrapper.  Also the URLParamOpt constructors.

   Go                                                  Gallina
   rp.VerifierOption: WithIssuedAtOffset,               vopt, apply_vopt, new_verifier (NewIDTokenVerifier:
     WithIssuedAtMaxAge, WithAuthTimeMaxAge             Offset = 1 s, no max ages, then the options in order)
   rp.WithVerifierOpts(opts...)                         the [vo] of a case (given to the RP's constructor)
   rp.VerifyIDToken: oidc.CheckExpiration,              id_time_ok (durations and ages in seconds; the
     CheckIssuedAt, CheckAuthTime                       signature / iss / aud checks are C01's)
   rp.CodeExchange + verifyTokenResponse                exchange_ok: the endpoint answers with tokens and
                                                        (OIDC RP) an ID token is there and passes
   rp.UserinfoCallback(f) + rp.Userinfo                 userinfo_tail: GET userinfo with
                                                        "authorization: <token_type> <access_token>";
                                                        refuse unless 200 / JSON and sub = the ID token's sub
   rp.WithURLParam / WithPromptURLParam /               url_opt, url_opt_kv, extras
     WithResponseModeURLParam

   No proofs in this file. *)
From OIDC Require Import Lib.
From OIDC Require Export C17_RP C17_Construct.
Local Open Scope Z_scope.

(* ---- URLParamOpt ---- *)
Inductive url_opt :=
| UParam (k v : string)              (* rp.WithURLParam(k, v) *)
| UPrompt (l : list string)          (* rp.WithPromptURLParam(l...) *)
| UResponseMode (m : string).        (* rp.WithResponseModeURLParam(m) *)

Definition url_opt_kv (o : url_opt) : string * string :=
  match o with
  | UParam k v => (k, v)
  | UPrompt l => ("prompt", String.concat " " l)
  | UResponseMode m => ("response_mode", m)
  end.
Definition extras (l : list url_opt) : params := map url_opt_kv l.

(* ---- verifier options ---- *)
Inductive vopt :=
| WithIssuedAtOffset (d : Z)
| WithIssuedAtMaxAge (d : Z)
| WithAuthTimeMaxAge (d : Z).

Record verifier := Vf { v_offset : Z; v_maxage_iat : Z; v_maxage : Z }.
Definition verifier_init : verifier := Vf 1 0 0.
Definition apply_vopt (v : verifier) (o : vopt) : verifier :=
  match o with
  | WithIssuedAtOffset d => Vf d (v_maxage_iat v) (v_maxage v)
  | WithIssuedAtMaxAge d => Vf (v_offset v) d (v_maxage v)
  | WithAuthTimeMaxAge d => Vf (v_offset v) (v_maxage_iat v) d
  end.
Definition new_verifier (vo : list vopt) : verifier := fold_left apply_vopt vo verifier_init.

(* the time claims of the ID token, relative to the moment it is verified *)
Record idtok := IdTok {
  it_sub : string;
  it_exp_in : Z;             (* exp - now *)
  it_iat_age : option Z;     (* now - iat; None = no iat claim *)
  it_auth_age : option Z     (* now - auth_time; None = no auth_time claim *)
}.

(* CheckExpiration: now + offset before exp *)
Definition exp_ok (v : verifier) (t : idtok) : bool := v_offset v <? it_exp_in t.
(* CheckIssuedAt: present, not after now + offset, and (max age set) not before now - maxAgeIAT *)
Definition iat_ok (v : verifier) (t : idtok) : bool :=
  match it_iat_age t with
  | None => false
  | Some a => (- v_offset v <=? a) && ((v_maxage_iat v =? 0) || (a <=? v_maxage_iat v))
  end.
(* CheckAuthTime: nothing to do without a max age; otherwise present and not before now - maxAge *)
Definition auth_time_ok (v : verifier) (t : idtok) : bool :=
  (v_maxage v =? 0)
  || match it_auth_age t with None => false | Some a => a <=? v_maxage v end.
Definition id_time_ok (v : verifier) (t : idtok) : bool := exp_ok v t && iat_ok v t && auth_time_ok v t.

(* ---- the provider's answers ---- *)
Record tokresp := TokResp {
  tr_ok : bool;              (* the token endpoint answers 200 with an access token *)
  tr_access : string; tr_type : string;
  tr_id : option idtok       (* None = no id_token member *)
}.
Record uiresp := UiResp {
  ui_ok : bool;              (* 200 with a JSON object whose sub (if any) is a string *)
  ui_sub : string            (* its sub ("" = none) *)
}.

Definition oauth_only (s : setup) : bool := match s_ctor s with NewOAuth _ => true | NewOIDC _ => false end.

(* rp.CodeExchange succeeds *)
Definition exchange_ok (s : setup) (vo : list vopt) (tr : tokresp) : bool :=
  tr_ok tr
  && (oauth_only s
      || match tr_id tr with Some t => id_time_ok (new_verifier vo) t | None => false end).

Definition id_sub (tr : tokresp) : string := match tr_id tr with Some t => it_sub t | None => "" end.

(* outcome of a callback request: the handlers' event, the authorization headers of the
   userinfo requests, the subject of the userinfo handed to the application *)
Inductive tail_out :=
| TailOut (ev : event) (ui_reqs : list string) (info : option string).

(* wrap = the application's callback is wrapped in rp.UserinfoCallback *)
Definition userinfo_tail (wrap : bool) (tr : tokresp) (ui : uiresp) (ev : event) : tail_out :=
  match ev with
  | EvCb (HApp st) reqs cs =>
      if wrap then
        let hdr := (tr_type tr ++ " " ++ tr_access tr)%string in
        if ui_ok ui && String.eqb (ui_sub ui) (id_sub tr)
        then TailOut (EvCb (HApp st) reqs cs) [hdr] (Some (ui_sub ui))
        else TailOut (EvCb (HUnauth st) reqs cs) [hdr] None
      else TailOut ev [] None
  | _ => TailOut ev [] None
  end.

Definition tail_model (s : setup) (vo : list vopt) (wrap : bool) (tr : tokresp) (ui : uiresp)
           (j : jar) (q : params) : tail_out :=
  userinfo_tail wrap tr ui (callback (construct s) j q (exchange_ok s vo tr)).
