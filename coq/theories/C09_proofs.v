(* C09 proofs: totality (no Panic) of the four model layers and the central theorem. *)
From OIDC Require Import Lib C09_Json C09_Codec C09_Verifier C09_Handler C09_Client C09_Crypto C09_spec.

(* ---- induction principle for the nested AST ---- *)
Section JsonInd.
  Variable P : json -> Prop.
  Hypothesis Hnull : P JNull.
  Hypothesis Hbool : forall b, P (JBool b).
  Hypothesis Hnum : forall z p h, P (JNum z p h).
  Hypothesis Hstr : forall s, P (JStr s).
  Hypothesis Harr : forall l, Forall P l -> P (JArr l).
  Hypothesis Hobj : forall ms, Forall (fun kv => P (snd kv)) ms -> P (JObj ms).

  Fixpoint json_rect' (j : json) : P j :=
    match j with
    | JNull => Hnull
    | JBool b => Hbool b
    | JNum z p h => Hnum z p h
    | JStr s => Hstr s
    | JArr l => Harr l ((fix go (l : list json) : Forall P l :=
                           match l with
                           | [] => Forall_nil P
                           | x :: r => Forall_cons x (json_rect' x) (go r)
                           end) l)
    | JObj ms => Hobj ms ((fix go (ms : list (string * json)) : Forall (fun kv => P (snd kv)) ms :=
                             match ms with
                             | [] => Forall_nil _
                             | kv :: r => Forall_cons kv (json_rect' (snd kv)) (go r)
                             end) ms)
    end.
End JsonInd.

(* ---- layer (a) ---- *)
Lemma map_assert_checked_total l : map_res (assert_str true) l <> Panic.
Proof.
  induction l as [|x r IH]; cbn; [discriminate|].
  destruct x; cbn; try discriminate.
  destruct (map_res (assert_str true) r); try discriminate. now apply IH.
Qed.

Lemma audience_total j : decode_audience true j <> Panic.
Proof.
  unfold decode_audience. destruct (has_huge j); [discriminate|].
  destruct j; try discriminate. apply map_assert_checked_total.
Qed.

Lemma audience_unchecked_panics : decode_audience false (JArr [JStr "a"; JNum 1 true false]) = Panic.
Proof. reflexivity. Qed.

Lemma time_total f j : decode_time f j <> Panic.
Proof.
  unfold decode_time. destruct (has_huge j); [discriminate|].
  destruct j; try discriminate. destruct (f s); discriminate.
Qed.

Lemma bool_total j : decode_bool j <> Panic.
Proof. discriminate. Qed.

Lemma sda_total j : decode_sda j <> Panic.
Proof. destruct j; discriminate. Qed.

Lemma locale_total g j : decode_locale g j <> Panic.
Proof.
  destruct j; try discriminate. cbn.
  destruct (String.eqb s ""); [discriminate|]. destruct (g s <=? 1); discriminate.
Qed.

Lemma locales_total j : decode_locales j <> Panic.
Proof.
  unfold decode_locales. destruct (has_huge j); [discriminate|].
  destruct j; try discriminate.
  pose proof (map_assert_checked_total l) as H.
  destruct (map_res (assert_str true) l); try discriminate. now elim H.
Qed.

Lemma actor_total j : decode_actor j <> Panic.
Proof.
  induction j as [| | | |l _|ms IH] using json_rect'; try discriminate.
  cbn.
  match goal with |- ?F ms false <> Panic => assert (G : forall soft, F ms soft <> Panic); [|apply G] end.
  induction IH as [|[k v] r Hv _ IHr]; intro soft.
  - destruct soft; discriminate.
  - cbn in Hv. destruct (String.eqb k "act").
    + destruct (decode_actor v) eqn:E; [apply IHr | discriminate | now elim Hv].
    + destruct (String.eqb k "iss" || String.eqb k "sub"); apply IHr.
Qed.

Lemma actor_field_total j : actor_field j <> Panic.
Proof.
  unfold actor_field. pose proof (actor_total j) as H.
  destruct (decode_actor j); [destruct (has_huge j); discriminate | discriminate | now elim H].
Qed.

Lemma hard_not_panic {A} (r : result A) : r <> Panic -> hard r <> FPanic.
Proof. destruct r; cbn; intros H; try discriminate. now elim H. Qed.

Lemma field_total f g t j : decode_field f g true t j <> FPanic.
Proof.
  destruct t; unfold decode_field.
  - destruct (str_or_null j); discriminate.
  - destruct j; try discriminate.
  - destruct j; try discriminate.
    destruct (plain && negb huge && (lo <=? z)%Z && (z <=? hi)%Z); discriminate.
  - destruct j; try discriminate. destruct (forallb str_or_null l); discriminate.
  - apply hard_not_panic, audience_total.
  - apply hard_not_panic, time_total.
  - apply hard_not_panic, bool_total.
  - apply hard_not_panic, sda_total.
  - apply hard_not_panic, locale_total.
  - apply hard_not_panic, locales_total.
  - apply hard_not_panic, actor_field_total.
  - destruct j; try discriminate.
    destruct (forallb _ ms); discriminate.
  - destruct j; try discriminate. destruct (has_huge _); discriminate.
Qed.

Lemma members_total f g sc ms soft : decode_members f g true sc ms soft <> Panic.
Proof.
  revert soft; induction ms as [|[k v] r IH]; intro soft; cbn.
  - destruct soft; discriminate.
  - destruct (assoc k sc) as [t|]; [|apply IH].
    pose proof (field_total f g t v) as H.
    destruct (decode_field f g true t v); try apply IH; try discriminate. now elim H.
Qed.

Lemma struct_total f g sc multi j : decode_struct f g true sc multi j <> Panic.
Proof.
  destruct j; try discriminate. cbn.
  pose proof (members_total f g sc ms false) as H.
  destruct (decode_members f g true sc ms false); try discriminate.
  - destruct (multi && _); discriminate.
  - now elim H.
Qed.

Lemma device_authz_total f g j : decode_device_authz f g true j <> Panic.
Proof. unfold decode_device_authz. destruct (is_null j); [discriminate | apply struct_total]. Qed.

Lemma device_authz_indirect_panics f g : decode_device_authz f g false JNull = Panic.
Proof. reflexivity. Qed.

Lemma decode_total t d j : decode t d j <> KPanic.
Proof.
  assert (C : forall A (r : result A), r <> Panic -> cls_of r <> KPanic).
  { intros A r H; destruct r; cbn; try discriminate. now elim H. }
  destruct d; unfold decode; apply C;
    first [apply audience_total | apply time_total | apply locale_total | apply locales_total
          | apply bool_total | apply sda_total | apply actor_field_total | apply struct_total | apply device_authz_total].
Qed.

(* ---- layer (b) ---- *)
Lemma parse_guard_never_nil f g k t : parse_token f g true true k t <> POk None /\ parse_token f g true true k t <> PPanic.
Proof.
  unfold parse_token.
  destruct (negb (t_segments t =? 3)); [split; discriminate|].
  destruct (negb (t_b64ok t)); [split; discriminate|].
  destruct (t_payload t) as [|j]; [split; discriminate|].
  destruct j; cbn; try (split; discriminate).
  pose proof (members_total f g (fst (vschema k)) ms false) as H.
  destruct (decode_members f g true (fst (vschema k)) ms false); try (split; discriminate).
  - destruct (snd (vschema k) && _); split; discriminate.
  - now elim H.
Qed.

Lemma verify_total f g k t : verify f g true true k t <> VPanic.
Proof.
  unfold verify. destruct (parse_guard_never_nil f g k t) as [H1 H2].
  destruct (parse_token f g true true k t) as [| |[c|]]; try discriminate.
  - now elim H2.
  - now elim H1.
Qed.

Lemma verify_unguarded_panics f g :
  verify f g false true VRpIDToken {| t_segments := 3; t_b64ok := true; t_payload := PJson JNull |} = VPanic.
Proof. reflexivity. Qed.

Lemma hint_caller_total c h : hint_caller true c h <> HPanic /\ hint_caller true c h <> HDouble.
Proof.
  unfold hint_caller, verify_hint.
  destruct (h_issuer_ok h), (h_sig_ok h), (h_exp h), (h_iat h); cbn; split; discriminate.
Qed.

Lemma hint_nil_claims_panics :
  hint_caller false HEndSession {| h_issuer_ok := true; h_sig_ok := true; h_exp := TFuture; h_iat := TAbsent |} = HPanic.
Proof. reflexivity. Qed.

(* ---- layer (c) ---- *)
Lemma run_single cs : forallb returns cs = true -> single (run cs) = true.
Proof.
  induction cs as [|c r IH]; cbn; [reflexivity|].
  destruct c as [|st e ret|ok|f fatal ret]; cbn; [exact IH| | |].
  - destruct ret; [reflexivity | discriminate].
  - destruct ok; [exact IH | discriminate].
  - destruct ret; [|discriminate]. destruct f; [|exact IH]. destruct fatal; reflexivity.
Qed.

(* what follows a failed, returning check is never executed *)
Lemma run_stops pre st c post :
  forallb passes pre = true -> run (pre ++ CFail st c true :: post) = OResp st c.
Proof.
  induction pre as [|x r IH]; cbn; [reflexivity|].
  destruct x as [| |ok|f fatal ret]; cbn; [exact IH | discriminate | |].
  - destruct ok; [exact IH | discriminate].
  - destruct f; [discriminate | exact IH].
Qed.

(* the same for a failed storage call *)
Lemma run_stops_store pre post :
  forallb passes pre = true -> run (pre ++ CStore true true true :: post) = OFault.
Proof.
  induction pre as [|x r IH]; cbn; [reflexivity|].
  destruct x as [| |ok|f fatal ret]; cbn; [exact IH | discriminate | |].
  - destruct ok; [exact IH | discriminate].
  - destruct f; [discriminate | exact IH].
Qed.

Lemma xchecks_from_return i k l : forallb snd l = true -> forallb returns (xchecks_from i k l) = true.
Proof.
  revert i; induction l as [|[fatal r] t IH]; intros i H; cbn in *; [reflexivity|].
  apply andb_true_iff in H as [H1 H2]. rewrite H1. now apply IH.
Qed.

Lemma xchecks_return x : forallb returns (xchecks true x) = true.
Proof.
  apply xchecks_from_return. destruct x as [e ep k]. destruct e, ep; reflexivity.
Qed.

Lemma xhandler_single x : single (xhandler true x) = true.
Proof. apply run_single, xchecks_return. Qed.

Lemma cchecks_return x : forallb returns (cchecks true x) = true.
Proof. destruct x as [e p st v]. destruct e, p, st, v; reflexivity. Qed.

Lemma chandler_single x : single (chandler true x) = true.
Proof. apply run_single, cchecks_return. Qed.

Lemma chandler_nil_challenge_panics :
  chandler false {| c_entry := ViaLegacy; c_public := false; c_stored := false; c_verifier := VRight |} = OPanic.
Proof. reflexivity. Qed.

Lemma xhandler_unfixed_continues :
  xhandler false {| x_entry := ViaProvider; x_ep := XRevokeRT; x_fault := 2 |} = OContinued.
Proof. reflexivity. Qed.

Lemma chk_returns b st c : returns (chk b st c) = true.
Proof. destruct b; reflexivity. Qed.

Lemma parse_step_returns a b c : returns (parse_step true a b c) = true.
Proof. unfold parse_step. destruct a, b, c; reflexivity. Qed.

Lemma checks_return s : forallb returns (checks true s) = true.
Proof.
  destruct s as [e ep fo b key cid flt].
  unfold checks, prechecks, legacy_fn, legacy_server, ws_client, client_id_from_request.
  destruct e, ep; cbn [sh_entry sh_ep sh_form_ok sh_basic sh_key sh_client_id sh_fault forallb app returns andb];
    rewrite ?chk_returns, ?parse_step_returns; try reflexivity;
    destruct key; reflexivity.
Qed.

Lemma handler_single s : single (handler true s) = true.
Proof. apply run_single, checks_return. Qed.

Lemma handler_unfixed_panics :
  handler false {| sh_entry := ViaProvider; sh_ep := ECode; sh_form_ok := true; sh_basic := BBadId;
                   sh_key := true; sh_client_id := false; sh_fault := false |} = OPanic.
Proof. reflexivity. Qed.

(* ---- layer (d) ---- *)
Lemma read_body_false a : read_body false a = Ok tt.
Proof. unfold read_body. destruct (a_clen a); reflexivity. Qed.

Lemma presize_panics f g :
  http_request_from f g true true HDiscover {| a_ok := false; a_body := BInvalid; a_clen := CLHuge |} = Panic.
Proof. reflexivity. Qed.

Lemma http_request_guarded f g h a :
  http_request f g true h a <> Panic /\ http_request f g true h a <> Ok None.
Proof.
  unfold http_request, http_request_from. rewrite read_body_false.
  destruct (negb (a_ok a)); [split; discriminate|].
  destruct (a_body a) as [|j|j]; [split; discriminate| |split; discriminate].
  destruct (is_null j); [split; discriminate|].
  pose proof (struct_total f g (fst (hschema h)) (snd (hschema h)) j) as H.
  destruct (decode_struct f g true (fst (hschema h)) (snd (hschema h)) j); try (split; discriminate).
  now elim H.
Qed.

Lemma call_total f g h a e : call f g true h a e <> CPanic.
Proof.
  unfold call. destruct (http_request_guarded f g h a) as [H1 H2].
  destruct (http_request f g true h a) as [[j|]| |].
  - destruct h; cbn; try discriminate.
    + destruct (String.eqb _ e); discriminate.
    + destruct (String.eqb _ e); discriminate.
  - now elim H2.
  - destruct h; discriminate.
  - now elim H1.
Qed.

Lemma call_returns f g h a e : call f g true h a e <> CHang.
Proof.
  unfold call. destruct h; try discriminate;
    destruct (http_request f g true _ a) as [[j|]| |]; cbn; try discriminate;
    destruct (String.eqb _ e); discriminate.
Qed.

(* success only on a 200 answer whose body is a JSON document *)
Lemma call_ok_well_formed f g h a e :
  call f g true h a e = CRetOk -> negb (a_ok a) || well_formed (a_body a) = true.
Proof.
  unfold call, http_request, http_request_from. rewrite read_body_false. destruct h; try discriminate;
    (destruct (a_ok a); cbn; [|discriminate]; destruct (a_body a); cbn; [discriminate|reflexivity|discriminate]).
Qed.

Lemma poll_total f g iv tok : poll f g true iv tok <> CPanic.
Proof.
  unfold poll. destruct (iv <=? 0)%Z; [discriminate|]. destruct (max_wait <? iv)%Z; [discriminate|].
  destruct (http_request_guarded f g HDeviceToken tok) as [H1 _].
  destruct (http_request f g true HDeviceToken tok); try discriminate. now elim H1.
Qed.

Lemma device_flow_total f g dev tok : device_flow f g true dev tok <> CPanic.
Proof.
  unfold device_flow. destruct (http_request_guarded f g HDeviceAuthz dev) as [H1 H2].
  destruct (http_request f g true HDeviceAuthz dev) as [[j|]| |]; try discriminate.
  - apply poll_total.
  - now elim H2.
  - now elim H1.
Qed.

Lemma poll_returns f g iv tok : poll f g true iv tok <> CHang.
Proof.
  unfold poll. destruct (iv <=? 0)%Z; [discriminate|]. destruct (max_wait <? iv)%Z; [discriminate|].
  destruct (http_request f g true HDeviceToken tok); discriminate.
Qed.

Lemma device_flow_returns f g dev tok : device_flow f g true dev tok <> CHang.
Proof.
  unfold device_flow. destruct (http_request f g true HDeviceAuthz dev) as [[j|]| |]; try discriminate.
  apply poll_returns.
Qed.

Lemma device_flow_ticker_panics f g :
  device_flow f g false {| a_ok := true; a_body := BJson (JObj [("device_code", JStr "d")]); a_clen := CLHonest |}
                        {| a_ok := true; a_body := BJson (JObj []); a_clen := CLHonest |} = CPanic.
Proof. reflexivity. Qed.

Lemma decrypt_total t : decrypt_aes true t <> Panic.
Proof.
  unfold decrypt_aes. destruct (ot_other t); [discriminate|].
  destruct (ot_chars t mod 4 =? 1)%N; [discriminate|].
  destruct (decoded_len (ot_chars t) <? 16)%N; discriminate.
Qed.

Lemma decrypt_encoded_check_panics :
  decrypt_aes false {| ot_chars := 4; ot_crlf := 18; ot_other := false |} = Panic.
Proof. reflexivity. Qed.

Lemma call_unguarded_panics f g :
  call f g false HDiscover {| a_ok := true; a_body := BJson JNull; a_clen := CLHonest |} "https://op" = CPanic.
Proof. reflexivity. Qed.

(* ---- layer (e): header values ---- *)
Lemma has_prefix_length p : forall s, has_prefix p s = true -> String.length p <= String.length s.
Proof.
  induction p as [|a p IH]; intros s H; cbn in *; [lia|].
  destruct s as [|b s]; [discriminate|]. apply andb_true_iff in H as [_ H]. apply IH in H. cbn. lia.
Qed.

Lemma find_bound sep : forall s i, find sep s = Some i -> i + String.length sep <= String.length s.
Proof.
  induction s as [|b s IH]; intros i H; cbn [find] in H.
  - destruct (has_prefix sep EmptyString) eqn:E; [|discriminate].
    inversion H; subst. apply has_prefix_length in E. cbn in *. lia.
  - destruct (has_prefix sep (String b s)) eqn:E.
    + inversion H; subst. apply has_prefix_length in E. lia.
    + destruct (find sep s) as [j|] eqn:F; [|discriminate]. inversion H; subst.
      specialize (IH j eq_refl). cbn. lia.
Qed.

Lemma get_access_token_total lower h : get_access_token lower false h <> Panic.
Proof.
  unfold get_access_token. destruct (String.eqb h ""); [discriminate|].
  destruct (split "Bearer " h) as [|x [|y [|z l]]]; discriminate.
Qed.

(* the case-insensitive variant is safe exactly under the assumption it silently makes *)
Lemma get_access_token_ci_safe lower h :
  (forall s, String.length (lower s) = String.length s) -> get_access_token lower true h <> Panic.
Proof.
  intro L. unfold get_access_token. destruct (String.eqb h ""); [discriminate|].
  destruct (count "bearer " (lower h) =? 1); [|discriminate].
  destruct (find "bearer " (lower h)) as [i|] eqn:F; [|discriminate].
  apply find_bound in F. rewrite L in F. cbn [String.length] in F. unfold slice_from.
  destruct (i + 7 <=? String.length h) eqn:E; [discriminate|].
  apply Nat.leb_gt in E. lia.
Qed.

Lemma has_prefix_split p : forall s, has_prefix p s = true -> s = String.append p (drop (String.length p) s).
Proof.
  induction p as [|a p IH]; intros s H; cbn in *; [reflexivity|].
  destruct s as [|b s]; [discriminate|]. apply andb_true_iff in H as [E H].
  apply Ascii.eqb_eq in E. subst b. cbn. f_equal. now apply IH.
Qed.

Lemma find_split sep : forall s i, find sep s = Some i ->
  s = String.append (take i s) (String.append sep (drop (i + String.length sep) s)).
Proof.
  induction s as [|b s IH]; intros i H; cbn [find] in H.
  - destruct (has_prefix sep EmptyString) eqn:E; [|discriminate]. inversion H; subst. cbn [take String.append plus].
    now apply has_prefix_split.
  - destruct (has_prefix sep (String b s)) eqn:E.
    + inversion H; subst. cbn [take String.append plus]. now apply has_prefix_split.
    + destruct (find sep s) as [j|] eqn:F; [|discriminate]. inversion H; subst.
      cbn [take String.append plus drop]. f_equal. now apply IH.
Qed.

Lemma split_fuel_nonempty f sep s : split_fuel f sep s <> [].
Proof. destruct f; cbn; [discriminate|]. destruct (find sep s); discriminate. Qed.

Lemma split_two f sep s a t : split_fuel f sep s = [a; t] ->
  exists i, find sep s = Some i /\ a = take i s /\ t = drop (i + String.length sep) s.
Proof.
  destruct f as [|f]; cbn; [discriminate|].
  destruct (find sep s) as [i|] eqn:F; [|discriminate].
  intro H. inversion H as [[Ha Hr]]. exists i. split; [reflexivity|]. split; [reflexivity|].
  destruct f as [|f]; cbn in Hr; [now inversion Hr|].
  destruct (find sep (drop (i + String.length sep) s)) as [j|]; [|now inversion Hr].
  inversion Hr as [[H1 H2]]. now elim (split_fuel_nonempty f sep (drop (j + String.length sep) (drop (i + String.length sep) s))).
Qed.

(* the token handed on is what follows the scheme in the header: header = before ++ "Bearer " ++ token *)
Lemma get_access_token_suffix lower h t :
  get_access_token lower false h = Ok t -> exists before, h = String.append before (String.append "Bearer " t).
Proof.
  unfold get_access_token. destruct (String.eqb h ""); [discriminate|].
  destruct (split "Bearer " h) as [|a [|t' [|z l]]] eqn:S; try discriminate.
  intro H. inversion H; subst t'. unfold split in S. apply split_two in S as (i & F & _ & Ht).
  exists (take i h). rewrite Ht. now apply find_split.
Qed.

Definition ff := ascii_of_nat 255.
Definition bearer_ci_witness : string := String ff (String ff (String ff (String ff " Bearer abc"))).

Lemma get_access_token_ci_panics : get_access_token lower_ff true bearer_ci_witness = Panic.
Proof. vm_compute. reflexivity. Qed.

Lemma bearer_userinfo_single lower ok h : single (bearer_userinfo lower ok false h) = true.
Proof.
  unfold bearer_userinfo. pose proof (get_access_token_total lower h) as H.
  destruct (get_access_token lower false h) as [t| |]; [|reflexivity|now elim H].
  destruct (ok t); reflexivity.
Qed.

Lemma bearer_userinfo_ci_panics ok : bearer_userinfo lower_ff ok true bearer_ci_witness = OPanic.
Proof. unfold bearer_userinfo. now rewrite get_access_token_ci_panics. Qed.

(* ---- layer (c'): client authentication by assertion ---- *)
Lemma ahandler_single a : single (ahandler all_return a) = true.
Proof. destruct a as [e ep p t k b]. destruct e, ep, p, t, k, b; reflexivity. Qed.

(* the first failing check of every authentication routine returns: nothing after it runs *)
Lemma verify_assertion_stops s a st c pre post :
  verifies a = false -> forallb passes pre = true ->
  run (pre ++ verify_assertion all_return s a st c ++ post) = OResp st c.
Proof.
  intros V P. unfold verify_assertion. rewrite V. cbn [app all_return]. now apply run_stops.
Qed.

(* each of the three returns is needed: drop one and some generated request panics *)
Lemma every_assertion_return_needed s : exists a, ashape_wf a = true /\ ahandler (all_but s) a = OPanic.
Proof.
  destruct s.
  - exists {| au_entry := ViaLegacy; au_ep := ERefresh; au_pkjwt := true; au_type := ATJwt; au_assert := AKeyFail; au_basic := true |}.
    split; reflexivity.
  - exists {| au_entry := ViaProvider; au_ep := EIntrospect; au_pkjwt := false; au_type := ATAbsent; au_assert := APreFail; au_basic := false |}.
    split; reflexivity.
  - exists {| au_entry := ViaProvider; au_ep := ERevoke; au_pkjwt := true; au_type := ATJwt; au_assert := APreFail; au_basic := false |}.
    split; reflexivity.
Qed.

(* ---- layer (c''): request objects ---- *)
Lemma ro_handler_total r : ro_handler true r = HRefused \/ ro_handler true r = HAccepted.
Proof.
  destruct r as [e po em su pa c1 c2 c3 c4 sg]. unfold ro_handler, ro_checks. cbn.
  destruct em, su, pa, c1, c2, c3, c4, sg; cbn; auto.
Qed.

Lemma ro_accept_iff r :
  ro_handler true r = HAccepted <->
  ro_empty r || (ro_supported r && ro_parses r && ro_cid_ok r && ro_rt_ok r && ro_iss_ok r && ro_aud_ok r && ro_sig_ok r) = true.
Proof.
  destruct r as [e po em su pa c1 c2 c3 c4 sg]. unfold ro_handler, ro_checks. cbn.
  destruct em, su, pa, c1, c2, c3, c4, sg; cbn; split; intro H; try reflexivity; discriminate.
Qed.

Lemma ro_typed_nil_panics :
  ro_handler false {| ro_entry := ViaProvider; ro_post := false; ro_empty := false; ro_supported := true; ro_parses := true; ro_cid_ok := true;
                      ro_rt_ok := true; ro_iss_ok := true; ro_aud_ok := true; ro_sig_ok := false |} = HPanic.
Proof. reflexivity. Qed.

(* ---- layer (c3): native redirect URIs ---- *)
Lemma loop_match_total regs : loop_match true regs = HRefused \/ loop_match true regs = HAccepted.
Proof.
  induction regs as [|k r IH]; cbn; [now left|]. destruct k as [|l s]; [exact IH|].
  destruct (l && s); [now right | exact IH].
Qed.

Lemma loop_match_iff regs : loop_match true regs = HAccepted <-> existsb reg_matches regs = true.
Proof.
  induction regs as [|k r IH]; cbn; [split; discriminate|]. destruct k as [|l s]; cbn; [exact IH|].
  destruct (l && s); cbn; [split; reflexivity | exact IH].
Qed.

Lemma native_redirect_total n : native_redirect true n = HRefused \/ native_redirect true n = HAccepted.
Proof.
  unfold native_redirect. destruct (n_listed n).
  - destruct (n_dev n || (negb (n_loopback n) && n_https n) || n_loopback n || n_custom n); auto.
  - destruct (negb (n_loopback n)); [now left | apply loop_match_total].
Qed.

Lemma native_unlisted_accept_iff n :
  n_listed n = false ->
  (native_redirect true n = HAccepted <-> n_loopback n && existsb reg_matches (n_regs n) = true).
Proof.
  intro L. unfold native_redirect. rewrite L. destruct (n_loopback n); cbn.
  - apply loop_match_iff.
  - split; discriminate.
Qed.

Lemma native_unguarded_panics :
  native_redirect false {| n_entry := ViaProvider; n_listed := false; n_dev := false; n_loopback := true; n_https := false;
                           n_custom := false; n_regs := [RgHttp true false; RgNil] |} = HPanic.
Proof. reflexivity. Qed.

(* ---- layer (c''): credentials by value ---- *)
Lemma escape_char_facts (a : ascii) :
  (unreserved a = true ->
     Ascii.eqb a "%"%char = false /\ Ascii.eqb a "+"%char = false /\ Ascii.eqb a ":"%char = false) /\
  (unreserved a = false ->
     let n := nat_of_ascii a in
     hexval (hexdigit (n / 16)) = Some (n / 16) /\ hexval (hexdigit (n mod 16)) = Some (n mod 16) /\
     ascii_of_nat (16 * (n / 16) + n mod 16) = a /\
     Ascii.eqb (hexdigit (n / 16)) ":"%char = false /\ Ascii.eqb (hexdigit (n mod 16)) ":"%char = false).
Proof.
  destruct a as [[] [] [] [] [] [] [] []]; vm_compute; split; intro H; try discriminate H; repeat split.
Qed.

Lemma unescape_query_escape (s : string) : unescape true (query_escape s) = Ok s.
Proof.
  induction s as [|a r IH]; [reflexivity|].
  cbn [query_escape]. destruct (escape_char_facts a) as [U N].
  destruct (unreserved a) eqn:E.
  - destruct (U eq_refl) as (P & Q & _). cbn [unescape]. rewrite P, IH, Q. reflexivity.
  - destruct (Ascii.eqb a " "%char) eqn:S.
    + apply Ascii.eqb_eq in S. subst a. cbn [unescape]. rewrite IH. reflexivity.
    + destruct (N eq_refl) as (H1 & H2 & H3 & _). cbn zeta in H1, H2, H3.
      cbn [unescape]. rewrite Ascii.eqb_refl, H1, H2, IH, H3. reflexivity.
Qed.

Lemma cut_colon_query_escape (s x : string) :
  cut_colon (String.append (query_escape s) (String ":"%char x)) = Some (query_escape s, x).
Proof.
  induction s as [|a r IH]; [reflexivity|].
  cbn [query_escape]. destruct (escape_char_facts a) as [U N].
  destruct (unreserved a) eqn:E.
  - destruct (U eq_refl) as (_ & _ & C). cbn [String.append cut_colon]. rewrite C, IH. reflexivity.
  - destruct (Ascii.eqb a " "%char) eqn:S.
    + cbn [String.append cut_colon]. rewrite IH. reflexivity.
    + destruct (N eq_refl) as (_ & _ & _ & C1 & C2). cbn zeta in C1, C2.
      cbn [String.append cut_colon]. rewrite C1, C2, IH. reflexivity.
Qed.

Lemma basic_decode_conforming (i x : string) :
  basic_decode true true (basic_payload i x) = Some (i, x).
Proof.
  unfold basic_decode, basic_payload. rewrite cut_colon_query_escape, !unescape_query_escape. reflexivity.
Qed.

Lemma cred_conforming_accepted (k : kshape) :
  kshape_wf k = true -> k_sent k = SBasic (basic_payload (k_id k) (k_secret k)) ->
  cred_handler true true k = HAccepted.
Proof.
  intros W S. unfold cred_handler, cred_accepts. rewrite S, basic_decode_conforming.
  unfold matches. rewrite !String.eqb_refl.
  unfold kshape_wf in W. apply andb_prop in W as [_ W]. rewrite W. reflexivity.
Qed.

Lemma matches_eq qk i x : matches qk i x = true -> i = k_id qk /\ x = k_secret qk /\ x <> "".
Proof.
  unfold matches. intro H. apply andb_prop in H as [H E]. apply andb_prop in H as [I X].
  apply String.eqb_eq in I. apply String.eqb_eq in X. repeat split; try assumption.
  intro Z. subst x. rewrite Z in E. discriminate E.
Qed.

Lemma cred_accepted_only_registered (k : kshape) :
  cred_handler true true k = HAccepted ->
  match k_sent k with
  | SBasic p => exists i x, cut_colon p = Some (i, x) /\
                            unescape true i = Ok (k_id k) /\ unescape true x = Ok (k_secret k) /\ k_secret k <> ""
  | SPost i x => i = k_id k /\ (post_mode (k_entry k) (k_ep k) = PIdOnly \/ (x = k_secret k /\ x <> ""))
  end.
Proof.
  unfold cred_handler, cred_accepts. destruct (k_sent k) as [p|i x].
  - unfold basic_decode. destruct (cut_colon p) as [[i x]|] eqn:C; [|discriminate].
    destruct (unescape true i) as [i'| |] eqn:UI; try discriminate.
    destruct (unescape true x) as [x'| |] eqn:UX; try discriminate.
    destruct (matches k i' x') eqn:M; [|discriminate]. intros _.
    apply matches_eq in M as (I & X & NE). exists i, x. rewrite UI, UX, <- I, <- X.
    split; [reflexivity|]. split; [reflexivity|]. split; [reflexivity|]. exact NE.
  - destruct (post_mode (k_entry k) (k_ep k)).
    + destruct (matches k i x) eqn:M; [|discriminate]. intros _.
      apply matches_eq in M as (I & X & NE). split; [assumption|]. right. split; assumption.
    + destruct (String.eqb i (k_id k)) eqn:I; [|discriminate]. intros _.
      apply String.eqb_eq in I. split; [assumption|]. left. reflexivity.
    + discriminate.
Qed.

Lemma cred_handler_total qi qs (k : kshape) :
  cred_handler qi qs k = HRefused \/ cred_handler qi qs k = HAccepted.
Proof. unfold cred_handler. destruct (cred_accepts qi qs k); [right|left]; reflexivity. Qed.

Lemma cred_bad_escape_refused (k : kshape) (p : string) :
  k_sent k = SBasic p -> basic_decode true true p = None -> cred_handler true true k = HRefused.
Proof. intros S D. unfold cred_handler, cred_accepts. rewrite S, D. reflexivity. Qed.

Definition k_witness : kshape :=
  {| k_entry := ViaProvider; k_ep := EClientCred; k_id := "svc"; k_secret := "a b";
     k_sent := SBasic (basic_payload "svc" "a b") |}.

Lemma cred_path_unescape_refuses_conforming :
  kshape_wf k_witness = true /\ k_sent k_witness = SBasic "svc:a+b" /\
  cred_handler true true k_witness = HAccepted /\ cred_handler true false k_witness = HRefused.
Proof. repeat split; reflexivity. Qed.

Example cred_conforming_nonvacuous :
  kshape_wf k_witness = true /\ k_sent k_witness = SBasic (basic_payload (k_id k_witness) (k_secret k_witness)) /\
  model (ICred k_witness) = OHint HAccepted /\
  model (ICred {| k_entry := ViaLegacy; k_ep := ERevoke; k_id := "svc"; k_secret := "a+b"; k_sent := SBasic "svc:a+b" |}) = OHint HRefused /\
  model (ICred {| k_entry := ViaProvider; k_ep := ECode; k_id := "svc"; k_secret := "s"; k_sent := SBasic "svc:%zz" |}) = OHint HRefused.
Proof. repeat split; reflexivity. Qed.

(* ---- layer (g): RegisterServer over a partial Server ---- *)
Lemma walk_reached S ms tr :
  reached_outside S ms tr = match walk S ms tr with Some _ => true | None => false end.
Proof.
  revert tr. induction ms as [|m ms IH]; intros [|ok tr]; try reflexivity.
  cbn [reached_outside walk]. destruct (in_set S m); cbn [negb orb]; [|reflexivity].
  destruct ok; cbn [andb]; [apply IH|reflexivity].
Qed.

Lemma unimpl_answer_error m rp :
  exists st c, unimpl_answer m rp = UAns st c false /\ (st = 404 \/ st = 400).
Proof.
  unfold unimpl_answer. destruct (is_grant_method m); [do 2 eexists; split; [reflexivity|right; reflexivity]|].
  destruct m; try (do 2 eexists; split; [reflexivity|left; reflexivity]).
  destruct rp; do 2 eexists; (split; [reflexivity|]); [right|left]; reflexivity.
Qed.

Lemma web_server_total u : exists st c t, web_server u = UAns st c t.
Proof.
  unfold web_server. destruct (walk _ _ _) as [m|].
  - destruct (unimpl_answer_error m (u_request_param u)) as (st & c & E & _). rewrite E. eauto.
  - unfold u_full. eauto.
Qed.

Lemma web_server_unimplemented u m :
  walk (u_set u) (calls (u_route u)) (u_trace u) = Some m ->
  web_server u = unimpl_answer m (u_request_param u) /\ in_set (u_set u) m = false /\ In m (calls (u_route u)) /\
  success (web_server u) = false /\ has_token (web_server u) = false.
Proof.
  intro W. unfold web_server. rewrite W.
  assert (A : in_set (u_set u) m = false /\ In m (calls (u_route u))).
  { revert W. generalize (u_trace u). induction (calls (u_route u)) as [|x ms IH]; intros [|ok tr]; try discriminate.
    cbn [walk]. destruct (in_set (u_set u) x) eqn:E.
    - destruct ok; [|discriminate]. intro W. destruct (IH _ W) as [A B]. split; [exact A|right; exact B].
    - intro W. injection W as <-. split; [exact E|left; reflexivity]. }
  destruct A as [A B]. repeat split; try assumption;
    destruct (unimpl_answer_error m (u_request_param u)) as (st & c & E & [->| ->]); rewrite E; reflexivity.
Qed.

Lemma walk_all_inside S ms tr : (forall m, In m ms -> in_set S m = true) -> walk S ms tr = None.
Proof.
  revert tr. induction ms as [|m ms IH]; intros [|ok tr] H; try reflexivity.
  cbn [walk]. rewrite (H m (or_introl eq_refl)). destruct ok; [|reflexivity].
  apply IH. intros x I. apply H. right. exact I.
Qed.

Lemma web_server_inside u :
  (forall m, In m (calls (u_route u)) -> in_set (u_set u) m = true) -> web_server u = u_full u.
Proof. intro H. unfold web_server. rewrite (walk_all_inside _ _ _ H). reflexivity. Qed.

Lemma in_set_all m : in_set all_methods m = true.
Proof. destruct m; reflexivity. Qed.

Lemma web_server_full_set u : u_set u = all_methods -> web_server u = u_full u.
Proof. intro E. apply web_server_inside. intros m _. rewrite E. apply in_set_all. Qed.

(* an un-reached outside method means the trace stopped before it *)
Lemma walk_none_outside S ms tr :
  walk S ms tr = None -> (exists m, In m ms /\ in_set S m = false) ->
  all_true tr && (List.length tr =? List.length ms) = false.
Proof.
  revert tr. induction ms as [|m ms IH]; intros tr W [x [I O]]; [destruct I|].
  destruct tr as [|ok tr]; [reflexivity|].
  cbn [walk] in W. destruct (in_set S m) eqn:E; [|discriminate].
  destruct ok; [|reflexivity].
  destruct I as [->|I]; [rewrite E in O; discriminate|].
  specialize (IH tr W (ex_intro _ x (conj I O))).
  cbn [all_true forallb List.length]. cbn [all_true] in IH. cbn [andb]. exact IH.
Qed.

Lemma web_server_outside_never_succeeds u :
  ushape_wf u = true -> (exists m, In m (calls (u_route u)) /\ in_set (u_set u) m = false) ->
  success (web_server u) = false /\ has_token (web_server u) = false.
Proof.
  intros W O. destruct (walk (u_set u) (calls (u_route u)) (u_trace u)) as [m|] eqn:K.
  - destruct (web_server_unimplemented u m K) as (_ & _ & _ & A & B). split; assumption.
  - unfold web_server. rewrite K.
    pose proof (walk_none_outside _ _ _ K O) as N.
    unfold ushape_wf in W. apply andb_prop in W as [_ W]. rewrite N, orb_false_r in W.
    apply negb_true_iff in W. apply orb_false_elim in W as [A B]. split; [exact A|exact B].
Qed.

Definition u_witness (S : list smethod) : ushape :=
  {| u_set := S; u_route := UToken GCode; u_request_param := false; u_trace := [true; true];
     u_full_status := 200; u_full_code := ENoCode; u_full_token := true |}.

Example web_server_nonvacuous :
  ushape_wf (u_witness all_methods) = true /\ web_server (u_witness all_methods) = UAns 200 ENoCode true /\
  ushape_wf (u_witness [MVerifyClient]) = true /\ web_server (u_witness [MVerifyClient]) = UAns 400 EUnsupportedGrantType false /\
  web_server (u_witness [MCodeExchange]) = UAns 404 EServerError false /\
  web_server (u_witness []) = UAns 404 EServerError false.
Proof. repeat split; reflexivity. Qed.

(* ---- central theorem ---- *)
Lemma spec_model i : spec i (model i) = true.
Proof.
  destruct i as [d m j t|k tok t|s|x|hc he hh|cx|be bh bo|au|ro|nn|e c q|h a e t|dev tok t|o|n amount dash|kk|uu]; cbn.
  - pose proof (decode_total t d j) as H. destruct (decode t d j); try reflexivity. now elim H.
  - pose proof (verify_total (time_of t) (lang_of t) k tok) as H.
    destruct (verify _ _ true true k tok); try reflexivity. now elim H.
  - apply handler_single.
  - apply xhandler_single.
  - pose proof (hint_caller_total hc hh) as H. destruct (hint_caller true hc hh); try reflexivity; now elim H.
  - apply chandler_single.
  - apply bearer_userinfo_single.
  - apply ahandler_single.
  - destruct (ro_handler_total ro) as [H|H]; rewrite H; reflexivity.
  - destruct (native_redirect_total nn) as [H|H]; rewrite H; reflexivity.
  - reflexivity.
  - pose proof (call_total (time_of t) (lang_of t) h a e) as H.
    pose proof (call_ok_well_formed (time_of t) (lang_of t) h a e) as W.
    pose proof (call_returns (time_of t) (lang_of t) h a e) as R.
    destruct (call _ _ true h a e); try reflexivity; [now apply W | now elim H | now elim R].
  - pose proof (device_flow_total (time_of t) (lang_of t) dev tok) as H.
    pose proof (device_flow_returns (time_of t) (lang_of t) dev tok) as R.
    destruct (device_flow _ _ true dev tok); try reflexivity; [now elim H | now elim R].
  - unfold decrypt_aes. destruct (ot_other o); [reflexivity|].
    destruct (ot_chars o mod 4 =? 1)%N; [reflexivity|]. destruct (decoded_len (ot_chars o) <? 16)%N; reflexivity.
  - destruct ((n <=? 0)%Z || (amount <=? 0)%Z); reflexivity.
  - destruct (cred_handler_total true true kk) as [H|H]; rewrite H; reflexivity.
  - rewrite walk_reached. unfold web_server. destruct (walk _ _ _) as [m|]; [|reflexivity].
    destruct (unimpl_answer_error m (u_request_param uu)) as (st & c & E & [->| ->]); rewrite E; reflexivity.
Qed.

Example spec_model_nonvacuous :
  wf (IHandler {| sh_entry := Direct; sh_ep := ERefresh; sh_form_ok := false; sh_basic := BBadSecret;
                  sh_key := true; sh_client_id := true; sh_fault := true |}) = true
  /\ model (IHandler {| sh_entry := Direct; sh_ep := ERefresh; sh_form_ok := false; sh_basic := BBadSecret;
                        sh_key := true; sh_client_id := true; sh_fault := true |}) = OHandler (OResp 400 EInvalidRequest).
Proof. split; reflexivity. Qed.

(* ---- the statements of props/C09.v ---- *)
Lemma decoders_total :
  forall (rfc3339_ok : string -> bool) (lang_class : string -> nat) (j : json),
    decode_audience true j <> Panic /\ decode_time rfc3339_ok j <> Panic /\
    decode_locale lang_class j <> Panic /\ decode_locales j <> Panic /\
    decode_bool j <> Panic /\ decode_sda j <> Panic /\ actor_field j <> Panic /\
    forall sc multi, decode_struct rfc3339_ok lang_class true sc multi j <> Panic.
Proof.
  intros f g j. repeat split;
    first [apply audience_total | apply time_total | apply locale_total | apply locales_total
          | apply bool_total | apply sda_total | apply actor_field_total | intros; apply struct_total].
Qed.

Lemma audience_unchecked_refuted : exists j, decode_audience false j = Panic.
Proof. eexists. exact audience_unchecked_panics. Qed.

Lemma verifiers_unguarded_refuted :
  forall (rfc3339_ok : string -> bool) (lang_class : string -> nat),
    exists k t, verify rfc3339_ok lang_class false true k t = VPanic.
Proof. intros f g. do 2 eexists. apply verify_unguarded_panics. Qed.

Lemma handlers_total :
  (forall s : shape, match handler true s with OResp _ _ | OGrant | OFault => True | _ => False end) /\
  (forall x : xshape, match xhandler true x with OResp _ _ | OGrant | OFault => True | _ => False end) /\
  (forall x : cshape, match chandler true x with OResp _ _ | OGrant | OFault => True | _ => False end).
Proof.
  split; [|split].
  - intro s. pose proof (handler_single s) as H. destruct (handler true s); cbn in H; try discriminate; exact I.
  - intro x. pose proof (xhandler_single x) as H. destruct (xhandler true x); cbn in H; try discriminate; exact I.
  - intro x. pose proof (chandler_single x) as H. destruct (chandler true x); cbn in H; try discriminate; exact I.
Qed.

Lemma code_nil_challenge_refuted : exists x, chandler false x = OPanic.
Proof. eexists. exact chandler_nil_challenge_panics. Qed.

Lemma client_success_only_on_documents :
  forall (rfc3339_ok : string -> bool) (lang_class : string -> nat) h a e,
    call rfc3339_ok lang_class true h a e = CRetOk -> a_ok a = true /\ exists j, a_body a = BJson j.
Proof.
  intros f g h a e H. pose proof (call_ok_well_formed f g h a e H) as W.
  unfold call, http_request, http_request_from in H. rewrite read_body_false in H. destruct (a_ok a) eqn:E.
  - split; [reflexivity|]. cbn in W. destruct (a_body a); try discriminate. now eexists.
  - destruct h; discriminate.
Qed.

Lemma error_then_stop :
  (forall s : shape, forallb returns (checks true s) = true) /\
  (forall x : xshape, forallb returns (xchecks true x) = true) /\
  (forall pre st c post, forallb passes pre = true -> run (pre ++ CFail st c true :: post) = OResp st c) /\
  (forall pre post, forallb passes pre = true -> run (pre ++ CStore true true true :: post) = OFault).
Proof. repeat split; [exact checks_return | exact xchecks_return | exact run_stops | exact run_stops_store]. Qed.

Lemma revoke_unfixed_refuted : exists x, xhandler false x = OContinued.
Proof. eexists. exact xhandler_unfixed_continues. Qed.

Lemma handlers_unfixed_refuted : exists s, handler false s = OPanic.
Proof. eexists. exact handler_unfixed_panics. Qed.

Lemma client_unguarded_refuted :
  forall (rfc3339_ok : string -> bool) (lang_class : string -> nat),
    exists h a e, call rfc3339_ok lang_class false h a e = CPanic.
Proof. intros f g. do 3 eexists. apply call_unguarded_panics. Qed.

Lemma client_total :
  forall (rfc3339_ok : string -> bool) (lang_class : string -> nat),
    (forall h a expect, call rfc3339_ok lang_class true h a expect <> CPanic) /\
    (forall dev tok, device_flow rfc3339_ok lang_class true dev tok <> CPanic).
Proof. intros f g; split; intros; [apply call_total | apply device_flow_total]. Qed.

Lemma device_ticker_refuted :
  forall (rfc3339_ok : string -> bool) (lang_class : string -> nat),
    exists dev tok, device_flow rfc3339_ok lang_class false dev tok = CPanic.
Proof. intros f g. do 2 eexists. apply device_flow_ticker_panics. Qed.

Lemma opaque_encoded_check_refuted : exists t, decrypt_aes false t = Panic.
Proof. eexists. exact decrypt_encoded_check_panics. Qed.

Lemma decoders_device_authz :
  forall (rfc3339_ok : string -> bool) (lang_class : string -> nat) (j : json),
    decode_device_authz rfc3339_ok lang_class true j <> Panic.
Proof. exact device_authz_total. Qed.

Lemma device_authz_indirect_refuted :
  forall (rfc3339_ok : string -> bool) (lang_class : string -> nat),
    exists j, decode_device_authz rfc3339_ok lang_class false j = Panic.
Proof. intros f g. eexists. apply device_authz_indirect_panics. Qed.

Lemma hints_total : forall c h, hint_caller true c h <> HPanic.
Proof. intros c h. apply hint_caller_total. Qed.

Lemma hint_nil_claims_refuted : exists c h, hint_caller false c h = HPanic.
Proof. do 2 eexists. exact hint_nil_claims_panics. Qed.

Lemma presize_refuted :
  forall (rfc3339_ok : string -> bool) (lang_class : string -> nat),
    exists h a, http_request_from rfc3339_ok lang_class true true h a = Panic.
Proof. intros f g. do 2 eexists. apply presize_panics. Qed.

Lemma bearer_total :
  forall (lower : string -> string) (token_ok : string -> bool) (h : string),
    get_access_token lower false h <> Panic /\
    match bearer_userinfo lower token_ok false h with OResp _ _ | OGrant => True | _ => False end.
Proof.
  intros lower ok h. split; [apply get_access_token_total|].
  unfold bearer_userinfo. pose proof (get_access_token_total lower h) as H.
  destruct (get_access_token lower false h) as [t| |]; [|exact I|now elim H].
  destruct (ok t); exact I.
Qed.

Lemma bearer_ci_refuted : exists h, get_access_token lower_ff true h = Panic.
Proof. eexists. exact get_access_token_ci_panics. Qed.

Lemma client_auth_total :
  forall a : ashape, match ahandler all_return a with OResp _ _ | OGrant => True | _ => False end.
Proof.
  intro a. destruct a as [e ep p t k b]. destruct e, ep, p, t, k, b; exact I.
Qed.

Lemma client_returns :
  forall (rfc3339_ok : string -> bool) (lang_class : string -> nat),
    (forall h a expect, call rfc3339_ok lang_class true h a expect <> CHang) /\
    (forall dev tok, device_flow rfc3339_ok lang_class true dev tok <> CHang).
Proof. intros f g; split; intros; [apply call_returns | apply device_flow_returns]. Qed.

Lemma native_unguarded_refuted : exists n, native_redirect false n = HPanic.
Proof. eexists. exact native_unguarded_panics. Qed.

Lemma credentials_total :
  forall k : kshape, cred_handler true true k = HRefused \/ cred_handler true true k = HAccepted.
Proof. intro k. apply cred_handler_total. Qed.

Lemma basic_path_unescape_refuted :
  exists k, kshape_wf k = true /\ k_sent k = SBasic (basic_payload (k_id k) (k_secret k)) /\
            cred_handler true false k = HRefused.
Proof. exists k_witness. repeat split; reflexivity. Qed.
