(* C20: case vocabulary, model runner and property predicate. *)
From OIDC Require Import Lib.
From OIDC Require Export C20_Effects.

(* first binding wins; unlisted locations hold 0 (nil) *)
Fixpoint heap_of (l : list (loc * val)) : heap :=
  match l with
  | [] => fun _ => 0
  | (k, v) :: r => fun x => if loc_eqb x k then v else heap_of r x
  end.

Inductive input :=
| ISnap (h0 : list (loc * val)) (o : op)
    (* snapshot every location listed in h0, run o, snapshot again *)
| IOrder (h0 : list (loc * val)) (l : list (nat * op)) (probes : list (nat * op))
    (* an interleaving l of tagged operation groups, then one probe per group;
       "alone": only the probe's own group is run before the probe *)
| IRace (mix : nat).
    (* thorough tier: concurrent mix number [mix] under the race detector *)

Inductive observed :=
| OChanged (ch : list (loc * val))   (* listed locations whose snapshot changed, with the new value id *)
| OOrder (alone together : list (list val))
| ORace (reports : nat)
| OPanic.

Definition changed (h h' : heap) (univ : list loc) : list (loc * val) :=
  flat_map (fun l => if h' l =? h l then [] else [(l, h' l)]) univ.

Definition of_tag (k : nat) (l : list (nat * op)) : list op :=
  map snd (filter (fun p => fst p =? k) l).

Definition model (i : input) : observed :=
  match i with
  | ISnap h0 o =>
      let h := heap_of h0 in OChanged (changed h (apply o h) (map fst h0))
  | IOrder h0 l probes =>
      let h := heap_of h0 in
      let hf := run_ops (map snd l) h in
      OOrder (map (fun p => result (snd p) (run_ops (of_tag (fst p) l) h)) probes)
             (map (fun p => result (snd p) hf) probes)
  | IRace _ => ORace 0
  end.

(* The property, on what the implementation did (the model is not consulted):
   - no operation changes a package variable, a caller-supplied object or a
     storage-owned object (changes of the instance's own fields are its business);
   - every probe behaves the same whether or not the other groups were constructed / used, and a request
     with per-request data is answered with its own data (not with data an earlier request - of this or
     an earlier run in the process - left behind in some shared place);
   - the race detector reports nothing. *)
(* a request that carries per-request data (a request on a handler value, a request of any class to a provider) is
   answered with ITS OWN data: r is part of the input, the expected value is not taken from the model *)
Definition own_answer (p : nat * op) (res : list val) : bool :=
  match snd p with
  | ProvAns _ _ _ r | HandlerReq _ _ _ r => list_eqb Nat.eqb res [S r]
  | _ => true
  end.
Definition own_answers (probes : list (nat * op)) (results : list (list val)) : bool :=
  forallb (fun pr => own_answer (fst pr) (snd pr)) (combine probes results).

Definition spec (i : input) (o : observed) : bool :=
  match i, o with
  | ISnap _ _, OChanged ch => forallb (fun p => negb (is_shared_state (fst p))) ch
  | IOrder _ _ probes, OOrder a t => list_eqb (list_eqb Nat.eqb) a t && own_answers probes t
  | IRace _, ORace n => n =? 0
  | _, _ => false
  end.

(* groups are built on different instances / storages (they may share clients,
   option slices, configs and of course the package defaults) *)
Definition separate (a b : op) : bool :=
  forallb (fun j => negb (existsb (Nat.eqb j) (tids a))) (tids b).
(* what isolation really needs (weaker, computed from the table): the other groups write
   nothing this group's writes or results depend on.  Requests on ONE instance qualify, and so
   do instances that share mutex-protected state nobody's result depends on. *)
Definition disjb (a b : list loc) : bool := forallb (fun x => negb (existsb (loc_eqb x) b)) a.
Definition wf (i : input) : bool :=
  match i with
  | IOrder _ l probes =>
      forallb (fun p => forallb (fun q => (fst p =? fst q) || disjb (writes (snd q)) (deps (snd p))) l) (l ++ probes)
  | _ => true
  end.

Definition pair_eqb (a b : loc * val) : bool := loc_eqb (fst a) (fst b) && (snd a =? snd b).
Definition obs_eqb (a b : observed) : bool :=
  match a, b with
  | OChanged x, OChanged y => list_eqb pair_eqb x y
  | OOrder a1 t1, OOrder a2 t2 => list_eqb (list_eqb Nat.eqb) a1 a2 && list_eqb (list_eqb Nat.eqb) t1 t2
  | ORace n, ORace m => n =? m
  | OPanic, OPanic => true
  | _, _ => false
  end.

(* decision-path class (0 only for an interleaving input outside [wf]; the driver generates none) *)
Definition op_class (o : op) : nat :=
  match o with
  | NewProvider _ _ [] => 1 | NewProvider _ _ _ => 2 | NewLegacyServer _ _ => 3
  | NewRPOIDC _ _ _ _ => 4 | NewRPOAuth _ _ _ => 5 | NewRS _ _ _ _ => 6 | NewTE _ _ _ _ => 7 | NewKeySet _ _ _ => 8
  | ProvReq _ _ _ => 9 | DevGetAudience _ => 10 | RPCall _ _ _ => 11 | RSIntrospect _ _ => 12
  | TEExchange _ _ => 13 | KSVerify _ _ => 14 | ClientCall _ _ => 15 | HandlerReq _ _ _ _ => 16 | FindKey _ => 17 | ClientReq _ _ _ _ _ => 18 | HelperCall _ _ => 19 | ProvAns _ _ _ _ => 20
  end.
Definition path (i : input) (o : observed) : nat :=
  match i with
  | ISnap _ op => op_class op
  | IOrder _ l _ => if wf i then 20 + Nat.min 9 (List.length l) else 0   (* 0: groups not on separate instances *)
  | IRace _ => 40
  end.

Definition case_mismatches := run_mismatches model obs_eqb.
Definition case_violations := run_violations spec.
Definition case_paths := run_paths model path.
