(* C14: proofs.  The statements quantify over every signature-verification
   function [verify] (a premise of the closed theorems, never an axiom). *)
From OIDC Require Import Lib C14_spec.
From Coq Require Import ZifyBool ZifyNat ZifyN.
Ltac Zify.zify_post_hook ::= Z.div_mod_to_equations.
Local Open Scope Z_scope.

(* ---------------------------------------------------------------- basics *)

Lemma string_in_In x l : string_in x l = true <-> In x l.
Proof.
  unfold string_in. rewrite existsb_exists. split.
  - intros [y [Hy He]]. apply String.eqb_eq in He. now subst.
  - intro H. exists x. split; [assumption | apply String.eqb_refl].
Qed.

Lemma round_s_mono a b : a <= b -> round_s a <= round_s b.
Proof. unfold round_s, second, half_second. lia. Qed.

Lemma round_s_floor i x : i * second <= x -> i * second <= round_s x.
Proof. unfold round_s, second, half_second. lia. Qed.

Lemma round_s_below i x : x < i * second -> round_s x <= i * second.
Proof. unfold round_s, second, half_second. lia. Qed.

(* ---------------------------------------------------------------- signature layer *)

Definition sig_ok (verify : keyid -> sigdesc -> bool) (t : keytable) (client : string) (d : sigdesc) : Prop :=
  sd_wf d = true /\ In (sd_alg d) accepted_algs
  /\ exists k, lookup_key t client (sd_kid d) = Some k /\ verify k d = true.

Lemma check_signature_iff verify t client d :
  check_signature verify t client d = None <-> sig_ok verify t client d.
Proof.
  unfold check_signature, sig_ok. destruct (sd_wf d); cbn [negb].
  2:{ split; [discriminate | intros [H _]; discriminate]. }
  destruct (string_in (sd_alg d) accepted_algs) eqn:Ha; cbn [negb].
  2:{ split; [discriminate|]. intros (_ & H & _). apply string_in_In in H. congruence. }
  destruct (lookup_key t client (sd_kid d)) as [k|] eqn:Hk.
  - destruct (verify k d) eqn:Hv.
    + split; [|reflexivity]. intros _. split; [reflexivity|]. split; [now apply string_in_In|].
      exists k. now split.
    + split; [discriminate|]. intros (_ & _ & k' & Hk' & Hv'). inversion Hk'; subst. congruence.
  - split; [discriminate|]. intros (_ & _ & k' & Hk' & _). discriminate.
Qed.

(* ---------------------------------------------------------------- assertions *)

Definition time_ok (v : vcfg) (now : Z) (c : claims) : Prop :=
  c_exp c <> 0 /\ now + v_offset v < c_exp c * second
  /\ c_iat c <> 0 /\ c_iat c * second <= round_s (now + v_offset v)
  /\ (v_max_age v <> 0 -> round_s (now - v_max_age v) <= c_iat c * second).

Lemma time_iff v now c :
  (check_expiration now (v_offset v) (c_exp c) = true
   /\ check_issued_at now (v_max_age v) (v_offset v) (c_iat c) = None) <-> time_ok v now c.
Proof.
  unfold check_expiration, check_issued_at, time_ok.
  generalize (round_s (now + v_offset v)) (round_s (now - v_max_age v)). intros r1 r2.
  destruct (Z.eqb_spec (c_exp c) 0) as [He|He].
  { split; [intros [H _]; discriminate | intros [H _]; contradiction]. }
  destruct (Z.ltb_spec (now + v_offset v) (c_exp c * second)) as [Hx|Hx].
  2:{ split; [intros [H _]; discriminate | intros (_ & H & _); lia]. }
  destruct (Z.eqb_spec (c_iat c) 0) as [Hi|Hi].
  { split; [intros [_ H]; discriminate | intros (_ & _ & H & _); contradiction]. }
  destruct (Z.ltb_spec r1 (c_iat c * second)) as [Hf|Hf].
  { split; [intros [_ H]; discriminate | intros (_ & _ & _ & H & _); lia]. }
  destruct (Z.eqb_spec (v_max_age v) 0) as [Hm|Hm].
  { split; [|intros _; split; reflexivity]. intros _. repeat split; try assumption. intro; contradiction. }
  destruct (Z.ltb_spec (c_iat c * second) r2) as [Ho|Ho].
  { split; [intros [_ H]; discriminate | intros (_ & _ & _ & _ & H)]. specialize (H Hm). lia. }
  split; [|intros _; split; reflexivity]. intros _. repeat split; try assumption. intros _. lia.
Qed.

(* what the configured subject check demands; no check at all (nil) is never passed *)
Definition subject_ok (s : subcheck) (c : claims) : Prop :=
  match s with
  | SubIsIssuer => c_sub c = c_iss c
  | SubAny => True
  | SubOnly x => c_sub c = x
  | SubNil => False
  end.

Lemma check_subject_iff s c : check_subject s c = None <-> subject_ok s c.
Proof.
  destruct s as [| |x|]; cbn [check_subject subject_ok].
  - destruct (String.eqb_spec (c_iss c) (c_sub c)) as [He|He].
    + split; [intros _; now symmetry | reflexivity].
    + split; [discriminate | intro H; elim He; now symmetry].
  - split; [intros _; exact I | reflexivity].
  - destruct (String.eqb_spec (c_sub c) x) as [He|He]; split; try discriminate; try reflexivity; try (intros _; assumption).
    intro H. contradiction.
  - split; [discriminate | intros []].
Qed.

Lemma subject_ok_default s c : subject_ok s c -> (s = SubIsIssuer -> c_sub c = c_iss c) /\ s <> SubNil.
Proof. destruct s; cbn; intro H; split; try discriminate; try (intros _; exact H); try contradiction; intro; discriminate. Qed.

Lemma subject_allowed_ok s c : subject_allowed s (c_iss c) (c_sub c) = true <-> subject_ok s c.
Proof.
  destruct s as [| |x|]; cbn [subject_allowed subject_ok].
  - apply String.eqb_eq.
  - split; [intros _; exact I | reflexivity].
  - apply String.eqb_eq.
  - split; [discriminate | intros []].
Qed.

Lemma verify_assertion_iff verify v t now tok c :
  verify_assertion verify v t now tok = Ok c <->
  exists d, tok = TJws d c
    /\ In (v_issuer v) (c_aud c)
    /\ time_ok v now c
    /\ subject_ok (v_sub v) c
    /\ sig_ok verify t (c_iss c) d.
Proof.
  split.
  - destruct tok as [| | |d c0]; cbn [verify_assertion]; try discriminate.
    destruct (string_in (v_issuer v) (c_aud c0)) eqn:Ha; cbn [negb]; [|discriminate].
    destruct (check_expiration now (v_offset v) (c_exp c0)) eqn:He; cbn [negb]; [|discriminate].
    destruct (check_issued_at now (v_max_age v) (v_offset v) (c_iat c0)) eqn:Hi; [discriminate|].
    destruct (check_subject (v_sub v) c0) eqn:Hs; [discriminate|].
    destruct (check_signature verify t (c_iss c0) d) eqn:Hg; [discriminate|].
    intro H. injection H as <-. exists d. split; [reflexivity|].
    split; [now apply string_in_In|]. split; [apply time_iff; now split|].
    split; [now apply check_subject_iff | now apply check_signature_iff].
  - intros (d & -> & Ha & Ht & Hs & Hg). cbn [verify_assertion].
    apply string_in_In in Ha. rewrite Ha. cbn [negb].
    apply time_iff in Ht. destruct Ht as [He Hi]. rewrite He, Hi. cbn [negb].
    apply check_subject_iff in Hs. rewrite Hs.
    apply check_signature_iff in Hg. rewrite Hg. reflexivity.
Qed.

(* the only way not to return: the subject check is nil *)
Lemma verify_assertion_panics verify v t now tok :
  verify_assertion verify v t now tok = Err EPanicked -> v_sub v = SubNil.
Proof.
  destruct tok as [| | |d c]; cbn [verify_assertion]; try discriminate.
  destruct (string_in (v_issuer v) (c_aud c)); cbn [negb]; [|discriminate].
  destruct (check_expiration now (v_offset v) (c_exp c)); cbn [negb]; [|discriminate].
  unfold check_issued_at.
  destruct (Z.eqb (c_iat c) 0); [discriminate|].
  destruct (Z.ltb (round_s (now + v_offset v)) (c_iat c * second)); [discriminate|].
  assert (Hrest : match check_subject (v_sub v) c with
                  | Some e => Err e
                  | None => match check_signature verify t (c_iss c) d with Some e => Err e | None => Ok c end
                  end = Err EPanicked -> v_sub v = SubNil).
  { destruct (v_sub v) as [| |x|]; cbn [check_subject]; try reflexivity.
    - destruct (String.eqb (c_iss c) (c_sub c)); [|discriminate].
      unfold check_signature. destruct (sd_wf d); cbn [negb]; [|discriminate].
      destruct (string_in (sd_alg d) accepted_algs); cbn [negb]; [|discriminate].
      destruct (lookup_key t (c_iss c) (sd_kid d)) as [k|]; [|discriminate]. destruct (verify k d); discriminate.
    - unfold check_signature. destruct (sd_wf d); cbn [negb]; [|discriminate].
      destruct (string_in (sd_alg d) accepted_algs); cbn [negb]; [|discriminate].
      destruct (lookup_key t (c_iss c) (sd_kid d)) as [k|]; [|discriminate]. destruct (verify k d); discriminate.
    - destruct (String.eqb (c_sub c) x); [|discriminate].
      unfold check_signature. destruct (sd_wf d); cbn [negb]; [|discriminate].
      destruct (string_in (sd_alg d) accepted_algs); cbn [negb]; [|discriminate].
      destruct (lookup_key t (c_iss c) (sd_kid d)) as [k|]; [|discriminate]. destruct (verify k d); discriminate. }
  destruct (Z.eqb (v_max_age v) 0); [exact Hrest|].
  destruct (Z.ltb (c_iat c * second) (round_s (now - v_max_age v))); [discriminate | exact Hrest].
Qed.

Lemma client_jwt_auth_iff verify v t now tok id :
  client_jwt_auth verify v t now tok = Ok id <->
  exists c, verify_assertion verify v t now tok = Ok c /\ id = c_iss c.
Proof.
  unfold client_jwt_auth. destruct tok as [| | |d c0].
  - cbn. split; [discriminate | intros (c & H & _); discriminate].
  - cbn. split; [discriminate | intros (c & H & _); discriminate].
  - cbn. split; [discriminate | intros (c & H & _); discriminate].
  - destruct (verify_assertion verify v t now (TJws d c0)) as [c|e].
    + split; [intro H; injection H as <-; now exists c | intros (c' & H & ->); now injection H as <-].
    + split; [discriminate | intros (c' & H & _); discriminate].
Qed.

Lemma jwt_profile_grant_iff verify v t now tok id :
  jwt_profile_grant verify v t now tok = Ok id <->
  exists c, verify_assertion verify v t now tok = Ok c /\ id = c_iss c.
Proof.
  unfold jwt_profile_grant. destruct (verify_assertion verify v t now tok) as [c|e].
  - split; [intro H; injection H as <-; now exists c | intros (c' & H & ->); now injection H as <-].
  - split; [discriminate | intros (c' & H & _); discriminate].
Qed.

Lemma authorize_private_jwt_key_iff verify v t cl now tok id :
  authorize_private_jwt_key verify v t cl now tok = Ok id <->
  exists c, verify_assertion verify v t now tok = Ok c /\ id = c_iss c
            /\ lookup_client cl id = Some private_key_jwt.
Proof.
  unfold authorize_private_jwt_key. destruct (verify_assertion verify v t now tok) as [c|e].
  2:{ split; [discriminate | intros (c' & H & _); discriminate]. }
  destruct (lookup_client cl (c_iss c)) as [m|] eqn:Hl.
  2:{ split; [discriminate|]. intros (c' & H & -> & Hm). injection H as <-. congruence. }
  destruct (String.eqb m private_key_jwt) eqn:Hm.
  - apply String.eqb_eq in Hm. subst m. split.
    + intro H. injection H as <-. exists c. now repeat split.
    + intros (c' & H & -> & _). now injection H as <-.
  - split; [discriminate|]. intros (c' & H & -> & Hm'). injection H as <-.
    rewrite Hl in Hm'. injection Hm' as ->. rewrite String.eqb_refl in Hm. discriminate.
Qed.

Lemma provider_router_auth_iff verify v t cl now tok id :
  provider_router_auth verify v t cl now tok = Ok id <->
  exists c, verify_assertion verify v t now tok = Ok c /\ id = c_iss c
            /\ exists m, lookup_client cl id = Some m.
Proof.
  unfold provider_router_auth. destruct (client_jwt_auth verify v t now tok) as [i|x] eqn:Hc.
  - apply client_jwt_auth_iff in Hc. destruct Hc as (c & Hc & ->).
    destruct (lookup_client cl (c_iss c)) as [m|] eqn:Hl.
    + split; [intro H; injection H as <-; exists c; repeat split; try assumption; now exists m|].
      intros (c' & H & -> & _). rewrite Hc in H. now injection H as <-.
    + split; [discriminate|]. intros (c' & H & -> & m & Hm). rewrite Hc in H. injection H as <-. congruence.
  - split; [discriminate|]. intros (c' & H & -> & _).
    assert (Hx : client_jwt_auth verify v t now tok = Ok (c_iss c')) by (apply client_jwt_auth_iff; now exists c').
    congruence.
Qed.

Definition kind_extra (k : authkind) (cl : clienttable) (id : string) : Prop :=
  match k with
  | AKVerify => True
  | AKLookup => exists m, lookup_client cl id = Some m
  | AKPk => lookup_client cl id = Some private_key_jwt
  end.

Lemma auth_by_iff verify k v t cl now tok id :
  auth_by verify k v t cl now tok = Ok id <->
  exists c, verify_assertion verify v t now tok = Ok c /\ id = c_iss c /\ kind_extra k cl id.
Proof.
  destruct k; cbn [auth_by kind_extra].
  - rewrite jwt_profile_grant_iff. split; [intros (c & H & ->); now exists c | intros (c & H & -> & _); now exists c].
  - apply provider_router_auth_iff.
  - apply authorize_private_jwt_key_iff.
Qed.

Lemma router_endpoint_auth_iff verify legacy ep owner v t cl now tok id :
  router_endpoint_auth verify legacy ep owner v t cl now tok = Ok id <->
  exists c, verify_assertion verify v t now tok = Ok c /\ id = c_iss c
            /\ kind_extra (ep_auth legacy ep) cl id /\ (ep_owned ep = true -> id = owner).
Proof.
  unfold router_endpoint_auth.
  destruct (auth_by verify (ep_auth legacy ep) v t cl now tok) as [i|x] eqn:Ha.
  - apply auth_by_iff in Ha. destruct Ha as (c & Hc & -> & Hk).
    destruct (ep_owned ep); cbn [andb].
    + destruct (String.eqb_spec (c_iss c) owner) as [He|He]; cbn [negb].
      * split; [intro H; injection H as <-; exists c; now repeat split|].
        intros (c' & H & -> & _). rewrite Hc in H. now injection H as <-.
      * split; [discriminate|]. intros (c' & H & -> & _ & Ho). rewrite Hc in H. injection H as <-.
        elim He. now apply Ho.
    + split; [intro H; injection H as <-; exists c; repeat split; try assumption; discriminate|].
      intros (c' & H & -> & _). rewrite Hc in H. now injection H as <-.
  - split; [discriminate|]. intros (c' & H & -> & Hk & _).
    assert (Hx : auth_by verify (ep_auth legacy ep) v t cl now tok = Ok (c_iss c'))
      by (apply auth_by_iff; now exists c').
    congruence.
Qed.

(* one verifier serving a sequence: step n is decided by step n alone *)
Lemma sequence_independent verify t pre s post :
  nth (List.length pre) (verify_sequence verify t (pre ++ s :: post)) (Err EOther)
  = verify_assertion verify (fst (fst s)) t (snd (fst s)) (snd s).
Proof.
  unfold verify_sequence. rewrite map_app. rewrite app_nth2; rewrite map_length; [|apply Nat.le_refl].
  rewrite Nat.sub_diag. reflexivity.
Qed.

(* soundness, written out *)
Lemma assertion_sound verify v t now tok c :
  verify_assertion verify v t now tok = Ok c ->
  exists d, tok = TJws d c
    /\ (exists k, lookup_key t (c_iss c) (sd_kid d) = Some k /\ verify k d = true)
    /\ In (sd_alg d) accepted_algs
    /\ In (v_issuer v) (c_aud c)
    /\ c_exp c <> 0 /\ now + v_offset v < c_exp c * second
    /\ c_iat c <> 0 /\ c_iat c * second <= round_s (now + v_offset v)
    /\ (v_max_age v <> 0 -> round_s (now - v_max_age v) <= c_iat c * second)
    /\ (v_sub v = SubIsIssuer -> c_sub c = c_iss c)
    /\ v_sub v <> SubNil.
Proof.
  intro H. apply verify_assertion_iff in H. destruct H as (d & -> & Ha & Ht & Hs & (Hw & Hal & Hk)).
  apply subject_ok_default in Hs. destruct Hs as [Hs1 Hs2].
  exists d. unfold time_ok in Ht. tauto.
Qed.

Lemma nil_subject_check verify v t now tok :
  (verify_assertion verify v t now tok = Err EPanicked -> v_sub v = SubNil)
  /\ (v_sub v = SubNil -> forall c, verify_assertion verify v t now tok <> Ok c).
Proof.
  split; [apply verify_assertion_panics|].
  intros Hn c H. apply assertion_sound in H. destruct H as (d & _ & _ & _ & _ & _ & _ & _ & _ & _ & _ & Hnn).
  contradiction.
Qed.

Lemma assertion_sound_symbolic v t now tok c :
  verify_assertion sym_verify v t now tok = Ok c ->
  exists d, tok = TJws d c /\ lookup_key t (c_iss c) (sd_kid d) = Some (sd_signer d) /\ sd_intact d = true.
Proof.
  intro H. apply assertion_sound in H. destruct H as (d & -> & (k & Hk & Hv) & _).
  exists d. unfold sym_verify in Hv. apply andb_true_iff in Hv. destruct Hv as [Hv Hi].
  apply Nat.eqb_eq in Hv. subst k. now repeat split.
Qed.

Lemma assertion_identity verify v t cl now tok id :
  (client_jwt_auth verify v t now tok = Ok id \/ jwt_profile_grant verify v t now tok = Ok id
   \/ authorize_private_jwt_key verify v t cl now tok = Ok id
   \/ provider_router_auth verify v t cl now tok = Ok id) ->
  exists c, verify_assertion verify v t now tok = Ok c /\ id = c_iss c.
Proof.
  intros [H|[H|[H|H]]].
  - now apply client_jwt_auth_iff in H.
  - now apply jwt_profile_grant_iff in H.
  - apply authorize_private_jwt_key_iff in H. destruct H as (c & H1 & H2 & _). now exists c.
  - apply provider_router_auth_iff in H. destruct H as (c & H1 & H2 & _). now exists c.
Qed.

(* every endpoint of both routers: the identity a request acts under is the issuer of an
   assertion that [verify_assertion] accepted for THIS request's verifier configuration;
   what it redeems belongs to exactly that client; code exchange, refresh and everything on
   the LegacyServer router behind VerifyClient need a private_key_jwt registration *)
Lemma router_endpoint verify legacy ep owner v t cl now tok id :
  router_endpoint_auth verify legacy ep owner v t cl now tok = Ok id ->
  (exists c, verify_assertion verify v t now tok = Ok c /\ id = c_iss c)
  /\ (ep_owned ep = true -> id = owner)
  /\ (ep_auth legacy ep = AKPk -> lookup_client cl id = Some private_key_jwt)
  /\ (ep_auth legacy ep = AKLookup -> exists m, lookup_client cl id = Some m).
Proof.
  intro H. apply router_endpoint_auth_iff in H. destruct H as (c & Hc & -> & Hk & Ho).
  split; [now exists c|]. split; [exact Ho|].
  split; intro He; rewrite He in Hk; exact Hk.
Qed.

Lemma client_auth verify v t cl now tok id :
  authorize_private_jwt_key verify v t cl now tok = Ok id ->
  (exists c, verify_assertion verify v t now tok = Ok c /\ id = c_iss c)
  /\ lookup_client cl id = Some private_key_jwt.
Proof.
  intro H. apply authorize_private_jwt_key_iff in H. destruct H as (c & H1 & H2 & H3).
  split; [now exists c | assumption].
Qed.

Lemma subject_ok_self s client auds iat e :
  (s = SubIsIssuer \/ s = SubAny) -> subject_ok s (mkClaims client client auds iat e).
Proof. intros [-> | ->]; cbn; [reflexivity | exact I]. Qed.

(* interop: what the client helpers build *)
Lemma interop verify v t now tb client kid key alg auds e :
  (v_sub v = SubIsIssuer \/ v_sub v = SubAny) ->
  (forall d, sd_intact d = true -> verify (sd_signer d) d = true) ->
  lookup_key t client kid = Some key ->
  In alg accepted_algs -> In (v_issuer v) auds ->
  0 <= v_offset v -> (v_max_age v = 0 \/ 3600 * second <= v_max_age v) ->
  second <= tb -> tb <= now ->
  now + v_offset v < e * second -> e <= tb / second + 3600 ->
  let c := mkClaims client client auds (tb / second) e in
  verify_assertion verify v t now (TJws (mkSig true alg kid key true) c) = Ok c.
Proof.
  intros Hsub Hv Hk Hal Ha Ho Hm Htb Hnow He He2 c. subst c. apply verify_assertion_iff.
  exists (mkSig true alg kid key true). split; [reflexivity|]. split; [exact Ha|].
  split.
  - unfold time_ok. cbn [c_exp c_iat].
    split; [unfold second in *; lia|]. split; [exact He|].
    split; [unfold second in *; lia|].
    split; [apply round_s_floor; unfold second in *; lia|].
    intro Hm0. apply round_s_below. unfold second in *. lia.
  - split; [now apply subject_ok_self|]. unfold sig_ok. cbn [sd_wf sd_alg sd_kid c_iss].
    split; [reflexivity|]. split; [exact Hal|]. exists key. split; [exact Hk|].
    apply (Hv (mkSig true alg kid key true)). reflexivity.
Qed.

(* the same for EVERY max age that covers the real age of the assertion: what a helper
   call writes for its own clock reading [tb] is accepted at [now] by a verifier whose max
   age is 0 or at least (now - tb) + 1.5 s, as long as the asked lifetime has not run out *)
Lemma interop_fresh verify v t now tb client kid key alg auds life :
  (v_sub v = SubIsIssuer \/ v_sub v = SubAny) ->
  (forall d, sd_intact d = true -> verify (sd_signer d) d = true) ->
  lookup_key t client kid = Some key ->
  In alg accepted_algs -> In (v_issuer v) auds ->
  0 <= v_offset v ->
  (v_max_age v = 0 \/ now - tb + second + half_second <= v_max_age v) ->
  second <= tb -> tb <= now ->
  now + v_offset v < (tb / second + life) * second ->
  verify_assertion verify v t now (helper_token client auds life alg kid key tb)
  = Ok (helper_claims client auds life tb).
Proof.
  intros Hsub Hv Hk Hal Ha Ho Hm Htb Hnow He. unfold helper_token. apply verify_assertion_iff.
  exists (mkSig true alg kid key true). split; [reflexivity|]. split; [exact Ha|].
  split.
  - unfold time_ok, helper_claims. cbn [c_exp c_iat].
    assert (Hf := round_s_floor (tb / second) (now + v_offset v)).
    assert (Hr : round_s (now - v_max_age v) <= now - v_max_age v + half_second)
      by (unfold round_s, second, half_second; lia).
    generalize dependent (round_s (now + v_offset v)). generalize dependent (round_s (now - v_max_age v)).
    intros r2 Hr r1 Hf. unfold second, half_second in *.
    repeat split; lia.
  - split; [now apply subject_ok_self|]. unfold sig_ok, helper_claims. cbn [sd_wf sd_alg sd_kid c_iss].
    split; [reflexivity|]. split; [exact Hal|]. exists key. split; [exact Hk|].
    apply (Hv (mkSig true alg kid key true)). reflexivity.
Qed.

(* one helper instance called any number of times, each assertion presented (to any
   verifier configuration of that step) soon enough after ITS call: all are accepted -
   what call n sends does not depend on the calls before it *)
Definition helper_step_ok (life : Z) (issuer_in : vcfg -> Prop) (s : vcfg * Z * Z) : Prop :=
  let '(v, now, tb) := s in
  issuer_in v /\ (v_sub v = SubIsIssuer \/ v_sub v = SubAny) /\ 0 <= v_offset v
  /\ (v_max_age v = 0 \/ now - tb + second + half_second <= v_max_age v)
  /\ second <= tb /\ tb <= now /\ now + v_offset v < (tb / second + life) * second.

Lemma helper_sequence_accepted verify t client kid key alg auds life (calls : list (vcfg * Z * Z)) :
  (forall d, sd_intact d = true -> verify (sd_signer d) d = true) ->
  lookup_key t client kid = Some key -> In alg accepted_algs ->
  Forall (helper_step_ok life (fun v => In (v_issuer v) auds)) calls ->
  verify_sequence verify t
    (combine (map fst calls) (helper_sequence client auds life alg kid key (map snd calls)))
  = map (fun s => Ok (helper_claims client auds life (snd s))) calls.
Proof.
  intros Hv Hk Hal Hall. unfold verify_sequence, helper_sequence.
  induction Hall as [|[[v now] tb] calls Hs Hall IH]; [reflexivity|].
  cbn [map combine fst snd]. rewrite IH. f_equal.
  destruct Hs as (Ha & Hsub & Ho & Hm & Htb & Hnow & He).
  now apply interop_fresh.
Qed.

(* ---------------------------------------------------------------- subject check: options, delegation *)

(* op.SubjectCheck(f) REPLACES the check: of several options the last one is in force,
   whatever came before (the built-in default included); no option = the default *)
Lemma subject_options_last before s : subject_options (before ++ [s]) = s.
Proof. unfold subject_options. apply last_last. Qed.

Lemma subject_option_replaces before s :
  subject_options (before ++ [s]) = s /\ subject_options [] = SubIsIssuer.
Proof. split; [apply subject_options_last | reflexivity]. Qed.

(* the configured check - and nothing else - decides about the subject of an accepted assertion *)
Lemma assertion_subject_decided verify v t now tok c :
  verify_assertion verify v t now tok = Ok c -> subject_allowed (v_sub v) (c_iss c) (c_sub c) = true.
Proof.
  intro H. apply verify_assertion_iff in H. destruct H as (d & _ & _ & _ & Hs & _).
  now apply subject_allowed_ok.
Qed.

Lemma helper_claims_opt_none client auds life tb :
  helper_claims_opt client None auds life tb = helper_claims client auds life tb.
Proof. reflexivity. Qed.

(* a helper call with the delegated-subject option, everything else as in [interop_fresh]:
   accepted exactly when the verifier's configured subject check allows the asked subject *)
Lemma interop_delegated verify v t now tb client dsub kid key alg auds life :
  (forall d, sd_intact d = true -> verify (sd_signer d) d = true) ->
  lookup_key t client kid = Some key ->
  In alg accepted_algs -> In (v_issuer v) auds ->
  0 <= v_offset v ->
  (v_max_age v = 0 \/ now - tb + second + half_second <= v_max_age v) ->
  second <= tb -> tb <= now ->
  now + v_offset v < (tb / second + life) * second ->
  (verify_assertion verify v t now (helper_token_opt client dsub auds life alg kid key tb)
   = Ok (helper_claims_opt client dsub auds life tb)
   <-> subject_allowed (v_sub v) client (asked_sub dsub client) = true).
Proof.
  intros Hv Hk Hal Ha Ho Hm Htb Hnow He. split.
  - intro H. apply assertion_subject_decided in H. exact H.
  - intro Hsub. unfold helper_token_opt. apply verify_assertion_iff.
    exists (mkSig true alg kid key true). split; [reflexivity|]. split; [exact Ha|].
    split.
    + unfold time_ok, helper_claims_opt. cbn [c_exp c_iat].
      assert (Hf := round_s_floor (tb / second) (now + v_offset v)).
      assert (Hr : round_s (now - v_max_age v) <= now - v_max_age v + half_second)
        by (unfold round_s, second, half_second; lia).
      generalize dependent (round_s (now + v_offset v)). generalize dependent (round_s (now - v_max_age v)).
      intros r2 Hr r1 Hf. unfold second, half_second in *.
      repeat split; lia.
    + split; [apply subject_allowed_ok; exact Hsub|].
      unfold sig_ok, helper_claims_opt. cbn [sd_wf sd_alg sd_kid c_iss].
      split; [reflexivity|]. split; [exact Hal|]. exists key. split; [exact Hk|].
      apply (Hv (mkSig true alg kid key true)). reflexivity.
Qed.

(* ---------------------------------------------------------------- request objects *)

Definition no_empty_client (t : keytable) : bool :=
  forallb (fun r => nonempty (fst (fst r))) t.

Lemma no_empty_client_lookup t kid : no_empty_client t = true -> lookup_key t "" kid = None.
Proof.
  induction t as [|[[c k] key] r IH]; cbn; [reflexivity|].
  intro H. apply andb_true_iff in H. destruct H as [H1 H2]. unfold nonempty in H1.
  destruct (String.eqb c "") eqn:Hc; [discriminate|]. cbn. now apply IH.
Qed.

Lemma parse_request_object_iff verify t issuer outer tok a :
  parse_request_object verify t issuer outer tok = Ok a <->
  exists d ro, tok = TJws d ro
    /\ (ar_client_id (ro_req ro) = "" \/ ar_client_id (ro_req ro) = ar_client_id outer)
    /\ (ar_response_type (ro_req ro) = "" \/ ar_response_type (ro_req ro) = ar_response_type outer)
    /\ ro_iss ro = ar_client_id (ro_req ro)
    /\ In issuer (ro_aud ro)
    /\ sig_ok verify t (ro_iss ro) d
    /\ a = copy_request_object outer (ro_req ro).
Proof.
  split.
  - destruct tok as [| | |d ro]; cbn [parse_request_object]; try discriminate.
    unfold nonempty.
    destruct (String.eqb (ar_client_id (ro_req ro)) "") eqn:Hc0;
    destruct (String.eqb (ar_client_id (ro_req ro)) (ar_client_id outer)) eqn:Hc1; cbn [negb andb];
    try discriminate;
    (destruct (String.eqb (ar_response_type (ro_req ro)) "") eqn:Hr0;
     destruct (String.eqb (ar_response_type (ro_req ro)) (ar_response_type outer)) eqn:Hr1; cbn [negb andb];
     try discriminate;
     (destruct (String.eqb (ro_iss ro) (ar_client_id (ro_req ro))) eqn:Hi; cbn [negb]; [|discriminate];
      destruct (string_in issuer (ro_aud ro)) eqn:Ha; cbn [negb]; [|discriminate];
      destruct (check_signature verify t (ro_iss ro) d) eqn:Hg; [discriminate|];
      intro H; injection H as <-; exists d, ro;
      rewrite ?String.eqb_eq in *;
      split; [reflexivity|]; split; [tauto|]; split; [tauto|]; split; [assumption|];
      split; [now apply string_in_In|]; split; [now apply check_signature_iff | reflexivity])).
  - intros (d & ro & -> & Hc & Hr & Hi & Ha & Hg & ->). cbn [parse_request_object].
    assert (H1 : nonempty (ar_client_id (ro_req ro))
                 && negb (String.eqb (ar_client_id (ro_req ro)) (ar_client_id outer)) = false).
    { unfold nonempty. destruct Hc as [Hc|Hc]; rewrite Hc.
      - reflexivity.
      - rewrite String.eqb_refl. apply andb_false_r. }
    assert (H2 : nonempty (ar_response_type (ro_req ro))
                 && negb (String.eqb (ar_response_type (ro_req ro)) (ar_response_type outer)) = false).
    { unfold nonempty. destruct Hr as [Hr|Hr]; rewrite Hr.
      - reflexivity.
      - rewrite String.eqb_refl. apply andb_false_r. }
    rewrite H1, H2. rewrite Hi at 1. rewrite String.eqb_refl. cbn [negb].
    apply string_in_In in Ha. rewrite Ha. cbn [negb].
    apply check_signature_iff in Hg. rewrite Hg. reflexivity.
Qed.

(* under the storage contract (no key under the empty client id) the object's
   issuer and inner client_id ARE the requesting client *)
Lemma request_object_sound verify t issuer outer tok a :
  no_empty_client t = true ->
  parse_request_object verify t issuer outer tok = Ok a ->
  exists d ro, tok = TJws d ro
    /\ (exists k, lookup_key t (ar_client_id outer) (sd_kid d) = Some k /\ verify k d = true)
    /\ In (sd_alg d) accepted_algs
    /\ ro_iss ro = ar_client_id outer
    /\ ar_client_id (ro_req ro) = ar_client_id outer
    /\ In issuer (ro_aud ro)
    /\ (ar_response_type (ro_req ro) = "" \/ ar_response_type (ro_req ro) = ar_response_type outer)
    /\ a = copy_request_object outer (ro_req ro).
Proof.
  intros Hne H. apply parse_request_object_iff in H.
  destruct H as (d & ro & -> & Hc & Hr & Hi & Ha & (Hw & Hal & (k & Hk & Hv)) & ->).
  exists d, ro. split; [reflexivity|].
  assert (Hcid : ar_client_id (ro_req ro) = ar_client_id outer).
  { destruct Hc as [Hc|Hc]; [|assumption]. rewrite Hc in Hi. rewrite Hi in Hk.
    rewrite (no_empty_client_lookup t (sd_kid d) Hne) in Hk. discriminate. }
  assert (Hiss : ro_iss ro = ar_client_id outer) by congruence.
  rewrite Hiss in Hk. split; [now exists k|]. tauto.
Qed.

Lemma request_object_complete verify t issuer outer d ro :
  ro_iss ro = ar_client_id outer ->
  ar_client_id (ro_req ro) = ar_client_id outer ->
  (ar_response_type (ro_req ro) = "" \/ ar_response_type (ro_req ro) = ar_response_type outer) ->
  In issuer (ro_aud ro) ->
  sd_wf d = true -> In (sd_alg d) accepted_algs ->
  (exists k, lookup_key t (ar_client_id outer) (sd_kid d) = Some k /\ verify k d = true) ->
  run_request_object verify t issuer outer (TJws d ro)
  = (None, copy_request_object outer (ro_req ro), true).
Proof.
  intros Hi Hc Hr Ha Hw Hal Hk. unfold run_request_object.
  assert (H : parse_request_object verify t issuer outer (TJws d ro) = Ok (copy_request_object outer (ro_req ro))).
  { apply parse_request_object_iff. exists d, ro. split; [reflexivity|].
    split; [now right|]. split; [assumption|]. split; [congruence|]. split; [assumption|].
    split; [|reflexivity]. unfold sig_ok. rewrite Hi. tauto. }
  now rewrite H.
Qed.

Lemma request_object_rejected_untouched verify t issuer outer tok :
  (exists a, parse_request_object verify t issuer outer tok = Ok a)
  \/ (exists e, run_request_object verify t issuer outer tok = (Some e, outer, false)).
Proof.
  unfold run_request_object. destruct (parse_request_object verify t issuer outer tok) as [a|e].
  - left. now exists a.
  - right. now exists e.
Qed.

Lemma copy_keeps_client outer inner :
  ar_client_id (copy_request_object outer inner) = ar_client_id outer
  /\ ar_response_type (copy_request_object outer inner) = ar_response_type outer.
Proof. split; reflexivity. Qed.

(* ---------------------------------------------------------------- spec (model) *)

Lemma strs_eqb_refl l : strs_eqb l l = true.
Proof. apply (list_eqb_spec String.eqb); [intros; apply String.eqb_eq | reflexivity]. Qed.

Lemma optn_eqb_refl o : option_eqb N.eqb o o = true.
Proof. destruct o; cbn; [apply N.eqb_refl | reflexivity]. Qed.

Lemma authreq_eqb_refl a : authreq_eqb a a = true.
Proof.
  unfold authreq_eqb. rewrite !strs_eqb_refl, !String.eqb_refl, optn_eqb_refl. reflexivity.
Qed.

Lemma from_s_pick o i : from_s o i (pick i o) = true.
Proof. unfold from_s, pick. destruct (nonempty i); apply String.eqb_refl. Qed.

Lemma from_l_pickl o i : from_l o i (pickl i o) = true.
Proof. unfold from_l, pickl. destruct i; apply strs_eqb_refl. Qed.

Lemma from_o_picko o i : from_o o i (picko i o) = true.
Proof. unfold from_o, picko. destruct i; apply optn_eqb_refl. Qed.

Lemma fields_from_copy outer inner : fields_from outer inner (copy_request_object outer inner) = true.
Proof.
  unfold fields_from, copy_request_object.
  cbn [ar_scopes ar_response_type ar_client_id ar_redirect_uri ar_state ar_nonce ar_response_mode
       ar_display ar_prompt ar_max_age ar_ui_locales ar_id_token_hint ar_login_hint ar_acr_values
       ar_code_challenge ar_code_challenge_method].
  rewrite !from_s_pick, !from_l_pickl, from_o_picko, !String.eqb_refl.
  unfold from_either. destruct (string_in "openid" (ar_scopes outer)).
  - unfold pickl. destruct (ar_scopes inner); rewrite strs_eqb_refl; [reflexivity | now rewrite orb_true_r].
  - rewrite strs_eqb_refl. reflexivity.
Qed.

Lemma signed_by_named_iff t client d :
  signed_by_named_client t client d = true <->
  exists k, lookup_key t client (sd_kid d) = Some k /\ sym_verify k d = true.
Proof.
  unfold signed_by_named_client, sym_verify. destruct (lookup_key t client (sd_kid d)) as [k|].
  - split; [intro H; now exists k | intros (k' & H & H'); now injection H as <-].
  - split; [discriminate | intros (k' & H & _); discriminate].
Qed.

Lemma override_ok_model t issuer outer tok a :
  no_empty_client t = true ->
  parse_request_object sym_verify t issuer outer tok = Ok a ->
  override_ok t issuer outer tok a = true.
Proof.
  intros Hne H. apply (request_object_sound _ _ _ _ _ _ Hne) in H.
  destruct H as (d & ro & -> & Hk & _ & Hi & Hc & Ha & Hr & ->).
  unfold override_ok, request_legit. rewrite fields_from_copy.
  apply signed_by_named_iff in Hk. rewrite Hk, Hi, Hc, !String.eqb_refl.
  apply string_in_In in Ha. rewrite Ha. rewrite orb_true_r. cbn [andb].
  destruct Hr as [Hr|Hr]; rewrite Hr; rewrite ?String.eqb_refl, ?orb_true_r; reflexivity.
Qed.

Definition entry_extra (e : entry) (cl : clienttable) (c : claims) (sub : string) : Prop :=
  match e with
  | EVerify => sub = c_sub c
  | EPrivateKey => sub = "" /\ lookup_client cl (c_iss c) = Some private_key_jwt
  | ERouter legacy ep _ owner =>
      sub = "" /\ kind_extra (ep_auth legacy ep) cl (c_iss c) /\ (ep_owned ep = true -> c_iss c = owner)
  | _ => sub = ""
  end.

Lemma model_assert_ok_iff e v t cl now tok id sub :
  model_assert e v t cl now tok = Ok (id, sub) <->
  exists c, verify_assertion sym_verify v t now tok = Ok c /\ id = c_iss c /\ entry_extra e cl c sub.
Proof.
  destruct e; unfold model_assert, entry_extra, res_map.
  - destruct (verify_assertion sym_verify v t now tok) as [c|x].
    + split; [intro H; injection H as <- <-; now exists c|].
      intros (c' & H & -> & ->). now injection H as <-.
    + split; [discriminate | intros (c' & H & _); discriminate].
  - destruct (client_jwt_auth sym_verify v t now tok) as [i|x] eqn:Hc.
    + apply client_jwt_auth_iff in Hc. destruct Hc as (c & Hc & ->).
      split; [intro H; injection H as <- <-; now exists c|].
      intros (c' & H & -> & ->). rewrite Hc in H. now injection H as <-.
    + split; [discriminate|]. intros (c' & H & -> & _).
      assert (Hx : client_jwt_auth sym_verify v t now tok = Ok (c_iss c')) by (apply client_jwt_auth_iff; now exists c').
      congruence.
  - destruct (authorize_private_jwt_key sym_verify v t cl now tok) as [i|x] eqn:Hc.
    + apply authorize_private_jwt_key_iff in Hc. destruct Hc as (c & Hc & -> & Hm).
      split; [intro H; injection H as <- <-; now exists c|].
      intros (c' & H & -> & -> & _). rewrite Hc in H. now injection H as <-.
    + split; [discriminate|]. intros (c' & H & -> & _ & Hm).
      assert (Hx : authorize_private_jwt_key sym_verify v t cl now tok = Ok (c_iss c'))
        by (apply authorize_private_jwt_key_iff; now exists c').
      congruence.
  - destruct (jwt_profile_grant sym_verify v t now tok) as [i|x] eqn:Hc.
    + apply jwt_profile_grant_iff in Hc. destruct Hc as (c & Hc & ->).
      split; [intro H; injection H as <- <-; now exists c|].
      intros (c' & H & -> & ->). rewrite Hc in H. now injection H as <-.
    + split; [discriminate|]. intros (c' & H & -> & _).
      assert (Hx : jwt_profile_grant sym_verify v t now tok = Ok (c_iss c')) by (apply jwt_profile_grant_iff; now exists c').
      congruence.
  - destruct (router_endpoint_auth sym_verify legacy ep owner v t cl now tok) as [i|x] eqn:Hc.
    + apply router_endpoint_auth_iff in Hc. destruct Hc as (c & Hc & -> & Hk & Ho).
      split; [intro H; injection H as <- <-; exists c; now repeat split|].
      intros (c' & H & -> & -> & _). rewrite Hc in H. now injection H as <-.
    + split; [discriminate|]. intros (c' & H & -> & _ & Hk & Ho).
      assert (Hx : router_endpoint_auth sym_verify legacy ep owner v t cl now tok = Ok (c_iss c'))
        by (apply router_endpoint_auth_iff; exists c'; now repeat split).
      congruence.
Qed.

Definition entry_need (e : entry) (cl : clienttable) (c : claims) : Prop :=
  match e with
  | EPrivateKey => lookup_client cl (c_iss c) = Some private_key_jwt
  | ERouter legacy ep _ owner =>
      kind_extra (ep_auth legacy ep) cl (c_iss c) /\ (ep_owned ep = true -> c_iss c = owner)
  | _ => True
  end.

Lemma is_pkjwt_iff cl id : is_private_key_jwt cl id = true <-> lookup_client cl id = Some private_key_jwt.
Proof.
  unfold is_private_key_jwt. destruct (lookup_client cl id) as [m|].
  - rewrite String.eqb_eq. split; [now intros -> | intro H; now injection H].
  - split; discriminate.
Qed.

(* the guard of the main theorem: what a call [h] of a client helper is assumed to send
   (accepted algorithm - see Fxx-C14-1 -, iss = the client the helper was configured with, sub = the subject the caller asked for
   (oidc.JWTProfileDelegatedSubject) resp. iss when none was asked, the configured issuer in aud, and
   FRESH claims: iat = a clock reading inside the bracket of THAT call, cut to seconds,
   exp at least the asked lifetime after the start of the call - i.e. [helper_claims]
   for a clock reading of the call, see [helper_claims_built_ok]); the correspondence run
   checks the real helpers, called repeatedly on long-lived instances, against it
   through [spec] *)
Definition helper_built_ok (v : vcfg) (h : hcall) (d : sigdesc) (c : claims) : bool :=
  string_in (sd_alg d) accepted_algs && String.eqb (c_iss c) (h_client h)
  && String.eqb (c_sub c) (asked_sub (h_sub h) (h_client h))
  && string_in (v_issuer v) (c_aud c)
  && Z.leb (h_t0 h / second) (c_iat c) && Z.leb (c_iat c) (h_t1 h / second)
  && Z.leb (h_t0 h / second + h_life h) (c_exp c).

Definition helper_alg_accepted (i : input) : bool :=
  match i with
  | IAssert _ (Some h) v _ _ _ _ (TJws d c) => helper_built_ok v h d c
  | _ => true
  end.

Lemma helper_claims_built_ok v h client auds life alg kid key tb :
  In alg accepted_algs -> In (v_issuer v) auds ->
  h_t0 h <= tb -> tb <= h_t1 h -> h_life h = life -> h_client h = client ->
  helper_built_ok v h (mkSig true alg kid key true) (helper_claims_opt client (h_sub h) auds life tb) = true.
Proof.
  intros Hal Ha H0 H1 Hl Hc. unfold helper_built_ok, helper_claims_opt. cbn [sd_alg c_sub c_iss c_aud c_iat c_exp].
  apply string_in_In in Hal. apply string_in_In in Ha. rewrite Hc, Hal, Ha, !String.eqb_refl. cbn [andb].
  unfold second in *. repeat (apply andb_true_iff; split); lia.
Qed.

Definition wf (i : input) : bool :=
  match i with
  | IAssert _ _ _ _ _ t0 t1 _ => Z.leb t0 t1
  | IRequest _ _ t _ _ _ => no_empty_client t
  end.

Lemma assert_conditions_model v t t0 t1 d c :
  t0 <= t1 ->
  verify_assertion sym_verify v t t0 (TJws d c) = Ok c ->
  assertion_conditions v t t0 t1 d c = true.
Proof.
  intros Ht H. apply verify_assertion_iff in H.
  destruct H as (d' & Heq & Ha & (He0 & He & Hi0 & Hi & Hm) & Hs & (_ & _ & Hk)).
  injection Heq as <-. unfold assertion_conditions.
  apply signed_by_named_iff in Hk. rewrite Hk. apply string_in_In in Ha. rewrite Ha. cbn [andb].
  assert (Hr := round_s_mono (t0 + v_offset v) (t1 + v_offset v)).
  generalize dependent (round_s (t0 + v_offset v)). generalize dependent (round_s (t1 + v_offset v)).
  generalize dependent (round_s (t0 - v_max_age v)). intros r3 Hm r2 r1 Hi Hr.
  assert (Hsub : match v_sub v with
                 | SubAny | SubOnly _ => true
                 | SubIsIssuer | SubNil => String.eqb (c_sub c) (c_iss c)
                 end = true).
  { destruct (v_sub v); cbn [subject_ok] in Hs; try reflexivity; [now apply String.eqb_eq | contradiction]. }
  rewrite Hsub. rewrite andb_true_r.
  repeat (apply andb_true_iff; split); lia.
Qed.

Lemma must_accept_model e v t cl t0 t1 h d c :
  t0 <= t1 -> helper_built_ok v h d c = true ->
  must_accept e v t cl t0 t1 h d c = true ->
  verify_assertion sym_verify v t t0 (TJws d c) = Ok c
  /\ entry_need e cl c.
Proof.
  intros Ht Hb H.
  assert (Hiss : h_client h = c_iss c).
  { unfold helper_built_ok in Hb. repeat (apply andb_true_iff in Hb; destruct Hb as [Hb ?]).
    match goal with Hi : String.eqb (c_iss c) (h_client h) = true |- _ => apply String.eqb_eq in Hi; now symmetry end. }
  unfold must_accept in H. unfold helper_built_ok in Hb. rewrite Hiss in H, Hb.
  repeat (apply andb_true_iff in Hb; destruct Hb as [Hb ?]).
  rename Hb into Hal.
  repeat (apply andb_true_iff in H; destruct H as [H ?]).
  rename H into Hw.
  split.
  - apply verify_assertion_iff. exists d. split; [reflexivity|].
    split; [now apply string_in_In|]. split.
    + unfold time_ok.
      match goal with Hm : (Z.eqb (v_max_age v) 0 || _)%bool = true |- _ => rename Hm into Hmax end.
      assert (Hf := round_s_floor (c_iat c) (t0 + v_offset v)).
      assert (Hr : round_s (t0 - v_max_age v) <= t0 - v_max_age v + half_second)
        by (unfold round_s, second, half_second; lia).
      generalize dependent (round_s (t0 + v_offset v)). generalize dependent (round_s (t0 - v_max_age v)).
      intros r2 Hr r1 Hf. unfold second, half_second in *.
      repeat split; lia.
    + split.
      { match goal with Hsc : subject_allowed _ _ _ = true |- _ => rename Hsc into Hsubcfg end.
        match goal with Hsb : String.eqb (c_sub c) _ = true |- _ => apply String.eqb_eq in Hsb; rewrite <- Hsb in Hsubcfg end.
        now apply subject_allowed_ok. }
      unfold sig_ok. split; [assumption|]. split; [now apply string_in_In|].
      now apply signed_by_named_iff.
  - match goal with He : match e with EVerify => _ | _ => _ end = true |- _ => rename He into Hent end.
    destruct e as [| | | |legacy ep cid owner]; cbn [entry_need]; try exact I.
    + now apply is_pkjwt_iff.
    + apply andb_true_iff in Hent. destruct Hent as [Hk Ho]. split.
      * destruct (ep_auth legacy ep); cbn [kind_extra]; [exact I | | now apply is_pkjwt_iff].
        destruct (lookup_client cl (c_iss c)) as [m|]; [now exists m | discriminate].
      * intro Hown. rewrite Hown in Ho. cbn [negb orb] in Ho. now apply String.eqb_eq.
Qed.

Lemma spec_assert_model e helper v t cl t0 t1 tok :
  t0 <= t1 ->
  (forall h d c, helper = Some h -> tok = TJws d c -> helper_built_ok v h d c = true) ->
  spec_assert e helper v t cl t0 t1 tok (model_assert e v t cl t0 tok) = true.
Proof.
  intros Ht Hg. unfold spec_assert.
  destruct (model_assert e v t cl t0 tok) as [[id sub]|x] eqn:Hm.
  - apply model_assert_ok_iff in Hm. destruct Hm as (c & Hv & -> & Hx).
    destruct (proj1 (verify_assertion_iff _ _ _ _ _ _) Hv) as (d & -> & _).
    rewrite (assert_conditions_model v t t0 t1 d c Ht Hv), String.eqb_refl. cbn [andb].
    destruct e as [| | | |legacy ep cid owner]; cbn [entry_extra] in Hx.
    + subst sub. apply String.eqb_refl.
    + reflexivity.
    + destruct Hx as [_ Hx]. now apply is_pkjwt_iff.
    + reflexivity.
    + destruct Hx as (_ & Hx & _). destruct (ep_auth legacy ep); try reflexivity. now apply is_pkjwt_iff.
  - destruct helper as [h|]; [|reflexivity]. destruct tok as [| | |d c]; try reflexivity.
    destruct (must_accept e v t cl t0 t1 h d c) eqn:Hma; [|reflexivity]. exfalso.
    destruct (must_accept_model e v t cl t0 t1 h d c Ht (Hg h d c eq_refl eq_refl) Hma) as [Hv Hp].
    assert (Hok : exists sub, model_assert e v t cl t0 (TJws d c) = Ok (c_iss c, sub)).
    { destruct e as [| | | |legacy ep cid owner]; cbn [entry_need] in Hp.
      - exists (c_sub c). apply model_assert_ok_iff. exists c. now repeat split.
      - exists "". apply model_assert_ok_iff. exists c. now repeat split.
      - exists "". apply model_assert_ok_iff. exists c. now repeat split.
      - exists "". apply model_assert_ok_iff. exists c. now repeat split.
      - exists "". apply model_assert_ok_iff. exists c. destruct Hp as [Hk Ho].
        split; [assumption|]. split; [reflexivity|]. cbn [entry_extra]. now repeat split. }
    destruct Hok as (sub & Hok). congruence.
Qed.

Lemma spec_model i : wf i = true -> helper_alg_accepted i = true -> spec i (model i) = true.
Proof.
  destruct i as [e helper v t cl t0 t1 tok | via sup t iss outer tok]; cbn [wf helper_alg_accepted]; intros Hwf Hh.
  - cbn [model]. destruct (panics v t t0 tok) eqn:Hp; cbn [spec].
    + unfold panics in Hp.
      destruct (verify_assertion sym_verify v t t0 tok) as [c|x] eqn:Hv; [discriminate|].
      destruct x; try discriminate. apply verify_assertion_panics in Hv. now rewrite Hv.
    + apply spec_assert_model; [lia|].
      intros h d c -> ->. exact Hh.
  - destruct via; cbn [model spec].
    + unfold authorize_until_validation. destruct sup.
      * unfold run_request_object.
        destruct (parse_request_object sym_verify t iss outer tok) as [a|x] eqn:Hp; [|reflexivity].
        destruct (String.eqb (ar_client_id a) ""); [reflexivity|].
        destruct (String.eqb (ar_redirect_uri a) ""); [reflexivity|].
        rewrite (override_ok_model _ _ _ _ _ Hwf Hp). apply orb_true_r.
      * destruct (String.eqb (ar_client_id outer) ""); [reflexivity|].
        destruct (String.eqb (ar_redirect_uri outer) ""); [reflexivity|].
        now rewrite authreq_eqb_refl.
    + unfold run_request_object.
      destruct (parse_request_object sym_verify t iss outer tok) as [a|x] eqn:Hp.
      * now apply override_ok_model.
      * now rewrite authreq_eqb_refl.
Qed.

(* the recorded finding: a helper-built assertion for a registered Ed25519 key *)
Definition eddsa_witness : input :=
  IAssert EVerify (Some (mkH (1000 * second + 1) (1000 * second + 2) 3600 "c" None))
    (mkV "https://op" (3600 * second) second SubIsIssuer CtorStorage)
    [("c", "k", 0%nat)] [] (1000 * second + 5) (1000 * second + 7)
    (TJws (mkSig true "EdDSA" "k" 0%nat true) (mkClaims "c" "c" ["https://op"] 1000 4600)).

Lemma eddsa_refuted : wf eddsa_witness = true /\ spec eddsa_witness (model eddsa_witness) = false.
Proof. split; vm_compute; reflexivity. Qed.

Lemma eddsa_refuted_ex : exists i, wf i = true /\ spec i (model i) = false.
Proof. exists eddsa_witness. exact eddsa_refuted. Qed.

(* ---------------------------------------------------------------- non-vacuity *)

Definition nv_table : keytable := [("c-alpha", "a1", 0%nat); ("c-beta", "b1", 1%nat)].
Definition nv_v := mkV "https://op" (3600 * second) second SubIsIssuer CtorKeySet.
Definition nv_claims := mkClaims "c-alpha" "c-alpha" ["https://op"] 1000 4600.
Definition nv_tok := TJws (mkSig true "RS256" "a1" 0%nat true) nv_claims.

Example assertion_sound_nonvacuous :
  verify_assertion sym_verify nv_v nv_table (1000 * second + 5) nv_tok = Ok nv_claims
  /\ authorize_private_jwt_key sym_verify nv_v nv_table [("c-alpha", private_key_jwt)] (1000 * second + 5) nv_tok
     = Ok "c-alpha"
  /\ (* signed by the other client's key: rejected *)
     verify_assertion sym_verify nv_v nv_table (1000 * second + 5)
       (TJws (mkSig true "RS256" "a1" 1%nat true) nv_claims) = Err ESig.
Proof. repeat split; vm_compute; reflexivity. Qed.

Definition nv_outer := mkAR ["openid"] "code" "c-alpha" "https://rp/cb" "s" "n" "" "" [] None [] "" "" [] "" "".
Definition nv_inner := mkAR ["openid"; "email"] "code" "c-alpha" "https://rp/cb2" "" "" "" "" [] (Some 5%N) [] "" "" [] "" "".

Example request_object_nonvacuous :
  no_empty_client nv_table = true
  /\ run_request_object sym_verify nv_table "https://op" nv_outer
       (TJws (mkSig true "ES256" "a1" 0%nat true) (mkRO "c-alpha" ["https://op"] nv_inner))
     = (None, mkAR ["openid"; "email"] "code" "c-alpha" "https://rp/cb2" "s" "n" "" "" [] (Some 5%N) [] "" "" [] "" "", true)
  /\ run_request_object sym_verify nv_table "https://op" nv_outer
       (TJws (mkSig true "ES256" "b1" 1%nat true) (mkRO "c-alpha" ["https://op"] nv_inner))
     = (Some ESig, nv_outer, false).
Proof. repeat split; vm_compute; reflexivity. Qed.

Example interop_nonvacuous :
  exists v t now tb client kid key alg auds e,
    lookup_key t client kid = Some key /\ In alg accepted_algs /\ In (v_issuer v) auds
    /\ 0 <= v_offset v /\ (v_max_age v = 0 \/ 3600 * second <= v_max_age v)
    /\ second <= tb /\ tb <= now /\ now + v_offset v < e * second /\ e <= tb / second + 3600.
Proof.
  exists nv_v, nv_table, (1000 * second + 5), (1000 * second + 1), "c-alpha", "a1", 0%nat, "RS256", ["https://op"], 4600.
  vm_compute. repeat split; try discriminate; try (now left); right; discriminate.
Qed.

Example interop_fresh_nonvacuous :
  (* two calls on one instance, 3 s apart, each presented 5 ns after it was built to a
     verifier that allows 2 s: both accepted; the FIRST assertion sent again at the time
     of the second call is too old for that verifier *)
  let v := mkV "https://op" (2 * second) second SubIsIssuer CtorStorage in
  let tb1 := 1000 * second + 1 in let tb2 := 1003 * second + 1 in
  verify_sequence sym_verify nv_table
    (combine [(v, tb1 + 5); (v, tb2 + 5)]
       (helper_sequence "c-alpha" ["https://op"] 3600 "RS256" "a1" 0%nat [tb1; tb2]))
  = [Ok (helper_claims "c-alpha" ["https://op"] 3600 tb1); Ok (helper_claims "c-alpha" ["https://op"] 3600 tb2)]
  /\ verify_assertion sym_verify v nv_table (tb2 + 5)
       (helper_token "c-alpha" ["https://op"] 3600 "RS256" "a1" 0%nat tb1) = Err EIatOld
  /\ Forall (helper_step_ok 3600 (fun v => In (v_issuer v) ["https://op"])) [(v, tb1 + 5, tb1); (v, tb2 + 5, tb2)].
Proof.
  cbv zeta. split; [vm_compute; reflexivity|]. split; [vm_compute; reflexivity|].
  constructor; [|constructor; [|constructor]];
    (split; [left; reflexivity|]); (split; [left; reflexivity|]); (split; [vm_compute; discriminate|]);
    (split; [right; vm_compute; discriminate|]); (split; [vm_compute; discriminate|]);
    (split; vm_compute; [discriminate | reflexivity]).
Qed.

(* a verifier without any subject check (nil) accepts nothing: an otherwise valid
   assertion - with sub = iss or with a foreign sub - makes the call panic; the same foreign
   sub is refused by the default check and accepted only under a caller-supplied check *)
Example nil_subject_check_nonvacuous :
  let vnil := mkV "https://op" (3600 * second) second SubNil CtorLiteral in
  let foreign := TJws (mkSig true "RS256" "a1" 0%nat true) (mkClaims "c-alpha" "someone" ["https://op"] 1000 4600) in
  verify_assertion sym_verify vnil nv_table (1000 * second + 5) nv_tok = Err EPanicked
  /\ verify_assertion sym_verify vnil nv_table (1000 * second + 5) foreign = Err EPanicked
  /\ verify_assertion sym_verify nv_v nv_table (1000 * second + 5) foreign = Err EOther
  /\ verify_assertion sym_verify (mkV "https://op" (3600 * second) second (SubOnly "someone") CtorLiteral)
       nv_table (1000 * second + 5) foreign = Ok (mkClaims "c-alpha" "someone" ["https://op"] 1000 4600)
  /\ model (IAssert EVerify None vnil nv_table [] (1000 * second + 5) (1000 * second + 6) foreign) = OPanic.
Proof. cbv zeta. repeat split; vm_compute; reflexivity. Qed.

(* max_age = 0 inside an accepted object is present and overrides a plain max_age *)
Example request_object_zero_max_age :
  run_request_object sym_verify nv_table "https://op"
    (mkAR ["openid"] "code" "c-alpha" "https://rp/cb" "s" "n" "" "" [] (Some 3600%N) [] "" "" [] "" "")
    (TJws (mkSig true "ES256" "a1" 0%nat true)
       (mkRO "c-alpha" ["https://op"] (mkAR [] "code" "c-alpha" "" "" "" "" "" [] (Some 0%N) [] "" "" [] "" "")))
  = (None, mkAR ["openid"] "code" "c-alpha" "https://rp/cb" "s" "n" "" "" [] (Some 0%N) [] "" "" [] "" "", true)
  /\ spec (IRequest false true nv_table "https://op"
            (mkAR ["openid"] "code" "c-alpha" "https://rp/cb" "s" "n" "" "" [] (Some 3600%N) [] "" "" [] "" "")
            (TJws (mkSig true "ES256" "a1" 0%nat true)
               (mkRO "c-alpha" ["https://op"] (mkAR [] "code" "c-alpha" "" "" "" "" "" [] (Some 0%N) [] "" "" [] "" ""))))
          (OReq None (mkAR ["openid"] "code" "c-alpha" "https://rp/cb" "s" "n" "" "" [] (Some 3600%N) [] "" "" [] "" "") true)
     = false.
Proof. split; vm_compute; reflexivity. Qed.

(* delegation: the helper is asked for sub = "user-1" (oidc.JWTProfileDelegatedSubject).  A
   verifier built with op.SubjectCheck(accept-all) - also passed after another SubjectCheck
   option - or with a check that allows exactly "user-1" accepts it; the default check and a
   check that allows only "user-2" refuse it; [spec] flags a refusal by the accept-all
   verifier (what a SubjectCheck option that keeps the default in force produces) and does
   not flag the refusal by the default verifier. *)
Example delegated_nonvacuous :
  let tb := 1000 * second + 1 in let now := 1000 * second + 5 in
  let tok := helper_token_opt "c-alpha" (Some "user-1") ["https://op"] 3600 "RS256" "a1" 0%nat tb in
  let c := helper_claims_opt "c-alpha" (Some "user-1") ["https://op"] 3600 tb in
  let vwith s := mkV "https://op" (3600 * second) second s CtorStorage in
  let h := mkH tb (tb + 1) 3600 "c-alpha" (Some "user-1") in
  verify_assertion sym_verify (vwith (subject_options [SubAny])) nv_table now tok = Ok c
  /\ verify_assertion sym_verify (vwith (subject_options [SubIsIssuer; SubOnly "x"; SubAny])) nv_table now tok = Ok c
  /\ verify_assertion sym_verify (vwith (SubOnly "user-1")) nv_table now tok = Ok c
  /\ verify_assertion sym_verify (vwith (subject_options [])) nv_table now tok = Err EOther
  /\ verify_assertion sym_verify (vwith (subject_options [SubAny; SubOnly "user-2"])) nv_table now tok = Err EOther
  /\ spec (IAssert EVerify (Some h) (vwith SubAny) nv_table [] now (now + 1) tok) (OAssert (Err EOther)) = false
  /\ spec (IAssert EVerify (Some h) (vwith SubIsIssuer) nv_table [] now (now + 1) tok) (OAssert (Err EOther)) = true
  /\ helper_built_ok (vwith SubAny) h (mkSig true "RS256" "a1" 0%nat true) c = true.
Proof. cbv zeta. repeat split; vm_compute; reflexivity. Qed.
