(* Proofs for C16: the device grant over all histories. *)
From OIDC Require Import Lib Base64 C16_UserCode C16_UserCode_proofs C16_Device C16_spec.

(* ---- small facts --------------------------------------------------------- *)
Lemma strs_eqb_refl l : strs_eqb l l = true.
Proof. apply (list_eqb_spec String.eqb); [intros; apply String.eqb_eq | reflexivity]. Qed.

Lemma strs_eqb_eq a b : strs_eqb a b = true -> a = b.
Proof. apply (list_eqb_spec String.eqb). intros; apply String.eqb_eq. Qed.

Lemma string_in_In x l : string_in x l = true <-> In x l.
Proof.
  unfold string_in. rewrite existsb_exists. split.
  - intros [y [H1 H2]]. apply String.eqb_eq in H2. now subst.
  - intro H. exists x. split; [exact H | apply String.eqb_refl].
Qed.

Lemma scopes_within_incl a b : scopes_within a b = true <-> (forall s, In s a -> In s b).
Proof.
  unfold scopes_within. rewrite forallb_forall. split; intros H s Hs.
  - apply string_in_In. now apply H.
  - apply string_in_In. now apply H.
Qed.

(* the spec's scope comparison decides equality as sets *)
Lemma same_scopes_iff a b : same_scopes a b = true <-> (forall s, In s a <-> In s b).
Proof.
  unfold same_scopes. rewrite andb_true_iff, !scopes_within_incl. split.
  - intros [H1 H2] s. split; [apply H1 | apply H2].
  - intro H. split; intros s; apply H.
Qed.

Lemma same_scopes_refl a : same_scopes a a = true.
Proof. apply same_scopes_iff. reflexivity. Qed.

Lemma find_client_some cl id c : find_client cl id = Some c -> In c cl /\ c_id c = id.
Proof.
  unfold find_client. intro H. apply find_some in H as [H1 H2]. split; [exact H1|].
  now apply String.eqb_eq.
Qed.

Lemma find_dev_some st dc d : find_dev st dc = Some d -> In d st /\ d_code d = dc.
Proof.
  unfold find_dev. intro H. apply find_some in H as [H1 H2]. split; [exact H1|].
  now apply String.eqb_eq.
Qed.

Lemma clients_ok_in cl c : forallb client_ok cl = true -> In c cl -> client_ok c = true.
Proof. intros H Hin. rewrite forallb_forall in H. now apply H. Qed.

Lemma secret_matches_eq a b : secret_matches a b = true -> String.eqb a b = true.
Proof. unfold secret_matches. intro H. now apply andb_true_iff in H as [_ H]. Qed.

Lemma secret_matches_refl a : a <> "" -> secret_matches a a = true.
Proof.
  intro H. unfold secret_matches. rewrite String.eqb_refl.
  destruct (String.eqb_spec a ""); [contradiction | reflexivity].
Qed.

(* ---- who a request is taken to be ---------------------------------------- *)
Lemma prov_client_claimed cl cr id a : prov_client cl cr = inl (id, a) -> id = claimed cr.
Proof.
  unfold prov_client, claimed. destruct (cr_basic cr) as [[i s]|].
  - destruct (secret_ok cl i s); [|discriminate]. now inversion 1.
  - destruct (String.eqb (cr_id cr) ""); [discriminate|]. now inversion 1.
Qed.

Lemma legacy_client_claimed cl cr c :
  legacy_client cl cr = inl c -> find_client cl (claimed cr) = Some c /\ c_id c = claimed cr.
Proof.
  unfold legacy_client, claimed.
  destruct (cr_basic cr) as [[i s]|]; cbn.
  - destruct (String.eqb i ""); [discriminate|].
    destruct (find_client cl i) as [c'|] eqn:Hf; [|discriminate].
    intro H. assert (c' = c) as ->.
    { destruct (c_auth c'); try (now inversion H);
        destruct (secret_matches (c_secret c') s); now inversion H. }
    split; [reflexivity | now apply find_client_some in Hf].
  - destruct (String.eqb (cr_id cr) ""); [discriminate|].
    destruct (find_client cl (cr_id cr)) as [c'|] eqn:Hf; [|discriminate].
    intro H. assert (c' = c) as ->.
    { destruct (c_auth c'); try (now inversion H);
        destruct (secret_matches (c_secret c') (cr_secret cr)); now inversion H. }
    split; [reflexivity | now apply find_client_some in Hf].
Qed.

Lemma legacy_client_proves cl cr c : legacy_client cl cr = inl c -> proves_identity c cr = true.
Proof.
  unfold legacy_client, proves_identity, presented_secret, is_public.
  destruct (cr_basic cr) as [[i s]|]; cbn.
  - destruct (String.eqb i ""); [discriminate|].
    destruct (find_client cl i) as [c'|]; [|discriminate].
    destruct (c_auth c') eqn:Ha; try discriminate;
      try (destruct (secret_matches (c_secret c') s) eqn:Hs; [|discriminate]; apply secret_matches_eq in Hs);
      inversion 1; subst; rewrite Ha; cbn; try reflexivity; exact Hs.
  - destruct (String.eqb (cr_id cr) ""); [discriminate|].
    destruct (find_client cl (cr_id cr)) as [c'|]; [|discriminate].
    destruct (c_auth c') eqn:Ha; try discriminate;
      try (destruct (secret_matches (c_secret c') (cr_secret cr)) eqn:Hs; [|discriminate]; apply secret_matches_eq in Hs);
      inversion 1; subst; rewrite Ha; cbn; try reflexivity; exact Hs.
Qed.

Lemma client_ok_inv c : client_ok c = true -> c_id c <> "".
Proof.
  unfold client_ok. intros H E. rewrite E in H. discriminate.
Qed.

Lemma client_ok_secret c : client_ok c = true -> c_auth c <> ANone -> c_secret c <> "".
Proof.
  unfold client_ok. intros H Ha E. apply andb_true_iff in H as [_ H].
  destruct (c_auth c); try contradiction; rewrite E in H; discriminate.
Qed.

(* the Provider router: authenticated = Basic header with the registered secret *)
Lemma prov_client_proves cl cr id a c :
  prov_client cl cr = inl (id, a) -> find_client cl id = Some c ->
  prov_authenticated c a = true -> proves_identity c cr = true.
Proof.
  intros H Hf Ha.
  unfold prov_client, secret_ok in H. unfold proves_identity, presented_secret, is_public.
  unfold prov_authenticated in Ha.
  destruct (cr_basic cr) as [[i s]|].
  - destruct (find_client cl i) as [c'|] eqn:Hf'; [|discriminate].
    destruct (secret_matches (c_secret c') s) eqn:Hs; [|discriminate]. apply secret_matches_eq in Hs.
    inversion H; subst. rewrite Hf in Hf'. inversion Hf'; subst. rewrite Hs. apply orb_true_r.
  - destruct (String.eqb (cr_id cr) ""); [discriminate|]. inversion H; subst.
    destruct (c_auth c); try discriminate. reflexivity.
Qed.

(* presenting the registered credentials the way each router reads them: a
   public client by its bare client_id, a client with a secret by HTTP Basic
   (whatever the form fields say next to the header) *)
Definition presents (c : client) (cr : creds) : bool :=
  match c_auth c, cr_basic cr with
  | ANone, None => String.eqb (cr_id cr) (c_id c) && String.eqb (cr_secret cr) ""
  | ABasic, Some (id, s) | APost, Some (id, s) => String.eqb id (c_id c) && String.eqb s (c_secret c)
  | _, _ => false
  end.

Lemma canonical_presents c cr : canonical c cr = true -> presents c cr = true.
Proof.
  unfold canonical, presents. destruct (c_auth c), (cr_basic cr) as [[i s]|]; try discriminate;
    intro H; try exact H; now apply andb_true_iff in H as [H _].
Qed.

(* the registered presentation is accepted by both routers *)
Lemma presents_claimed c cr : presents c cr = true -> claimed cr = c_id c.
Proof.
  unfold presents, claimed. destruct (c_auth c), (cr_basic cr) as [[i s]|]; try discriminate;
    intro H; repeat (apply andb_true_iff in H as [H ?]); now apply String.eqb_eq.
Qed.

Lemma canonical_claimed c cr : canonical c cr = true -> claimed cr = c_id c.
Proof. intro H. apply presents_claimed. now apply canonical_presents. Qed.

Lemma presents_prov cl c cr :
  find_client cl (claimed cr) = Some c -> presents c cr = true -> client_ok c = true ->
  exists a, prov_client cl cr = inl (c_id c, a) /\ prov_authenticated c a = true.
Proof.
  intros Hf Hc Hok. pose proof (presents_claimed _ _ Hc) as Hcl. rewrite Hcl in Hf.
  pose proof (client_ok_inv _ Hok) as Hid. pose proof (client_ok_secret _ Hok) as Hsec.
  unfold presents in Hc. unfold prov_client, secret_ok, prov_authenticated.
  destruct (c_auth c), (cr_basic cr) as [[i s]|]; try discriminate.
  - apply andb_true_iff in Hc as [Hc H0]. apply String.eqb_eq in Hc, H0. subst i s.
    rewrite Hf, secret_matches_refl by (apply Hsec; discriminate). eauto.
  - apply andb_true_iff in Hc as [Hc H0]. apply String.eqb_eq in Hc, H0. subst i s.
    rewrite Hf, secret_matches_refl by (apply Hsec; discriminate). eauto.
  - apply andb_true_iff in Hc as [Hc ?]. apply String.eqb_eq in Hc. rewrite Hc.
    destruct (String.eqb_spec (c_id c) ""); [contradiction | eauto].
Qed.

Lemma presents_legacy cl c cr :
  find_client cl (claimed cr) = Some c -> presents c cr = true -> client_ok c = true ->
  legacy_client cl cr = inl c.
Proof.
  intros Hf Hc Hok. pose proof (presents_claimed _ _ Hc) as Hcl.
  pose proof (client_ok_inv _ Hok) as Hid. pose proof (client_ok_secret _ Hok) as Hsec.
  unfold legacy_client. unfold claimed in Hf, Hcl. unfold presents in Hc.
  destruct (c_auth c) eqn:Ha, (cr_basic cr) as [[i s]|]; try discriminate.
  - apply andb_true_iff in Hc as [Hc H0]. apply String.eqb_eq in H0. subst i s.
    destruct (String.eqb_spec (c_id c) ""); [contradiction|]. rewrite Hf, Ha.
    now rewrite secret_matches_refl by (apply Hsec; discriminate).
  - apply andb_true_iff in Hc as [Hc H0]. apply String.eqb_eq in H0. subst i s.
    destruct (String.eqb_spec (c_id c) ""); [contradiction|]. rewrite Hf, Ha.
    now rewrite secret_matches_refl by (apply Hsec; discriminate).
  - rewrite Hcl. destruct (String.eqb_spec (c_id c) ""); [contradiction|].
    rewrite Hcl in Hf. now rewrite Hf, Ha.
Qed.

(* ---- CheckDeviceAuthorizationState --------------------------------------- *)
Lemma check_state_ok st cid dc now f d :
  check_state st cid dc now f = inl d ->
  f = FNone /\ find_dev st dc = Some d /\ d_client d = cid /\ d_denied d = false /\ d_done d = true.
Proof.
  unfold check_state, get_dev. destruct f as [|e0]; [|destruct (is_deadline e0); discriminate].
  destruct (find_dev st dc) as [d'|]; [|discriminate].
  destruct (String.eqb_spec (d_client d') cid); [|discriminate].
  destruct (d_denied d') eqn:Hden; [discriminate|].
  destruct (d_done d') eqn:Hdone.
  - inversion 1; subst. repeat split; assumption.
  - destruct (now >? d_expires d')%Z; discriminate.
Qed.

Lemma check_state_refusal st cid dc now f e :
  check_state st cid dc now f = inr e -> promised st cid dc now f e = true.
Proof.
  unfold check_state, get_dev, promised. destruct f as [|e0].
  - destruct (find_dev st dc) as [d|]; [|reflexivity].
    destruct (String.eqb (d_client d) cid); [|reflexivity]. cbn [negb].
    destruct (d_denied d); [now inversion 1|].
    destruct (d_done d); [discriminate|].
    destruct (now >? d_expires d)%Z; now inversion 1.
  - destruct (is_deadline e0); [now inversion 1 | reflexivity].
Qed.

(* a token answer, taken apart *)
Lemma poll_tokens_inv g cl st r cr dc now f host fwd t :
  poll g cl st r cr dc now f host fwd = RTokens t ->
  exists d c,
    find_dev st dc = Some d /\ find_client cl (claimed cr) = Some c /\
    d_client d = claimed cr /\
    d_done d = true /\ d_denied d = false /\
    f = FNone /\
    RTokens t = tokens_for (request_issuer g host fwd) c d /\
    proves_identity c cr = true.
Proof.
  unfold poll. destruct r.
  - destruct (prov_client cl cr) as [[id a]|e] eqn:Hp; [|discriminate].
    pose proof (prov_client_claimed _ _ _ _ Hp) as Hid. subst id.
    destruct (check_state st (claimed cr) dc now f) as [d|e] eqn:Hc; [|discriminate].
    destruct (find_client cl (claimed cr)) as [c|] eqn:Hf; [|discriminate].
    destruct (prov_authenticated c a) eqn:Ha; [|discriminate].
    destruct (check_state_ok _ _ _ _ _ _ Hc) as [Hfn [Hfd [Hcl [Hden Hdone]]]].
    intro H. exists d, c.
    repeat split; try assumption; try reflexivity; [now symmetry|].
    eapply prov_client_proves; eauto.
  - destruct (legacy_client cl cr) as [c|e] eqn:Hl; [|discriminate].
    destruct (negb (c_dev c)); [discriminate|].
    destruct (String.eqb dc ""); [discriminate|].
    destruct (legacy_client_claimed _ _ _ Hl) as [Hf Hid].
    destruct (check_state st (c_id c) dc now f) as [d|e] eqn:Hc; [|discriminate].
    destruct (check_state_ok _ _ _ _ _ _ Hc) as [Hfn [Hfd [Hcl [Hden Hdone]]]].
    intro H. exists d, c. rewrite Hid in *.
    repeat split; try assumption; try reflexivity; [now symmetry|].
    eapply legacy_client_proves; eauto.
Qed.

(* a canonical poll by a registered device client: refusals come from the
   state check only, on both routers *)
Lemma poll_presents g cl st r cr dc now f host fwd c :
  find_client cl (claimed cr) = Some c -> presents c cr = true -> c_dev c = true ->
  client_ok c = true -> dc <> "" ->
  poll g cl st r cr dc now f host fwd =
    match check_state st (c_id c) dc now f with
    | inr e => RErr e
    | inl d => tokens_for (request_issuer g host fwd) c d
    end.
Proof.
  intros Hf Hc Hdev Hok Hdc. unfold poll. destruct r.
  - destruct (presents_prov _ _ _ Hf Hc Hok) as [a [Hp Ha]]. rewrite Hp.
    destruct (check_state st (c_id c) dc now f); [|reflexivity].
    rewrite <- (presents_claimed _ _ Hc), Hf. now rewrite Ha.
  - rewrite (presents_legacy _ _ _ Hf Hc Hok). rewrite Hdev. cbn [negb].
    destruct (String.eqb_spec dc ""); [contradiction | reflexivity].
Qed.

Lemma poll_canonical g cl st r cr dc now f host fwd c :
  find_client cl (claimed cr) = Some c -> canonical c cr = true -> c_dev c = true ->
  client_ok c = true -> dc <> "" ->
  poll g cl st r cr dc now f host fwd =
    match check_state st (c_id c) dc now f with
    | inr e => RErr e
    | inl d => tokens_for (request_issuer g host fwd) c d
    end.
Proof. intros Hf Hc. apply poll_presents; [exact Hf | now apply canonical_presents]. Qed.

(* ---- one step: the model's answer satisfies the property predicate and the
        ground truth it induces is the model's storage ------------------------ *)
Lemma create_sound g st cid scopes now life rnd host fwd :
  prefix_free (g_charset g) = true -> 16 <= List.length rnd ->
  forall st' x, create g st cid scopes now life rnd host fwd = (st', x) ->
  (exists e, x = RErr e /\ st' = st) \/
  (exists dc uc, x = RDevice dc uc (verification_uri g host fwd) (verification_uri g host fwd ++ "?user_code=" ++ uc)%string life (g_interval g)
     /\ st' = mkDev dc uc cid scopes (now + ns_of_s life)%Z false false "" :: st
     /\ has_user st uc = false
     /\ device_code_ok dc = true /\ user_code_ok (g_charset g) (g_amount g) (g_dash g) uc = true
     /\ exists rest rest', new_device_code rnd = Some (dc, rest) /\
          new_user_code (g_charset g) (g_amount g) (g_dash g) rest = Some uc /\ rest' = rest).
Proof.
  intros Hpf Hlen st' x. unfold create.
  destruct (new_device_code rnd) as [[dc rest]|] eqn:Hd.
  - destruct (new_user_code (g_charset g) (g_amount g) (g_dash g) rest) as [uc|] eqn:Hu.
    + unfold store_dev. cbn [d_user]. destruct (has_user st uc) eqn:Hh.
      * inversion 1; subst. left. eauto.
      * inversion 1; subst. right. exists dc, uc. repeat split; try assumption.
        -- eapply new_device_code_shape; eauto.
        -- eapply new_user_code_ok; eauto.
        -- eauto.
    + inversion 1; subst. left. eauto.
  - exfalso. unfold new_device_code in Hd.
    do 16 (destruct rnd as [|? rnd]; [cbn in Hlen; lia|]). discriminate.
Qed.

Lemma is_prefix_app a b : is_prefix a (a ++ b)%string = true.
Proof. unfold is_prefix. now rewrite strip_prefix_app. Qed.

Lemma authz_sound g cl st r cr scopes now life rnd host fwd :
  prefix_free (g_charset g) = true -> 16 <= List.length rnd ->
  let o := OpAuthz r cr scopes now life rnd host fwd in
  let sx := authz g cl st r cr scopes now life rnd host fwd in
  step_ok g cl st o (snd sx) = true /\ gt_next st o (snd sx) = fst sx.
Proof.
  intros Hpf Hlen o sx.
  assert (Hc : forall cid, cid = claimed cr ->
     step_ok g cl st o (snd (create g st cid scopes now life rnd host fwd)) = true /\
     gt_next st o (snd (create g st cid scopes now life rnd host fwd)) = fst (create g st cid scopes now life rnd host fwd)).
  { intros cid ->. destruct (create g st (claimed cr) scopes now life rnd host fwd) as [st' x] eqn:Hcr.
    destruct (create_sound g st _ _ _ _ _ _ _ Hpf Hlen _ _ Hcr) as [[e [-> ->]]|[dc [uc [-> [-> [_ [Hdc [Huc _]]]]]]]].
    - split; reflexivity.
    - cbn [snd fst]. split; [|reflexivity]. cbn [step_ok o]. unfold device_fields_ok.
      rewrite Hdc, Huc.
      assert (Hv : expected_verification_uri g host fwd = verification_uri g host fwd) by reflexivity.
      rewrite Hv, String.eqb_refl, !Z.eqb_refl.
      destruct (all_chars unreserved uc).
      + now rewrite String.eqb_refl.
      + rewrite <- string_app_assoc. now rewrite is_prefix_app. }
  subst sx. unfold authz. destruct r.
  - destruct (prov_client cl cr) as [[id a]|e] eqn:Hp; [|split; reflexivity].
    destruct (find_client cl id); [|split; reflexivity].
    destruct (c_dev c); [|split; reflexivity].
    apply Hc. eapply prov_client_claimed; eauto.
  - destruct (legacy_client cl cr) as [c|e] eqn:Hl; [|split; reflexivity].
    destruct (c_dev c); [|split; reflexivity].
    apply Hc. now destruct (legacy_client_claimed _ _ _ Hl).
Qed.

Lemma poll_no_other g cl st r cr dc now f host fwd x :
  poll g cl st r cr dc now f host fwd = x ->
  match x with RTokens _ | RErr _ => True | _ => False end.
Proof.
  intro Hp. unfold poll, tokens_for in Hp.
  destruct x; try exact I; exfalso;
    destruct r; repeat (match type of Hp with context [match ?x with _ => _ end] => destruct x end; try discriminate).
Qed.

Lemma poll_sound g cl st r cr dc now f host fwd :
  forallb client_ok cl = true ->
  step_ok g cl st (OpPoll r cr dc now f host fwd) (poll g cl st r cr dc now f host fwd) = true.
Proof.
  intro Hcl. pose proof (poll_no_other g cl st r cr dc now f host fwd _ eq_refl) as Hno.
  destruct (poll g cl st r cr dc now f host fwd) as [| t | code | | |] eqn:Hp; try contradiction.
  - cbn [step_ok]. unfold tokens_justified.
    destruct (poll_tokens_inv _ _ _ _ _ _ _ _ _ _ _ Hp)
      as [d [c [Hfd [Hfc [Hcl' [Hdone [Hden [-> [Ht Hpr]]]]]]]]].
    unfold tokens_for in Ht. inversion Ht; subst t. cbn [t_sub t_client t_scopes t_granted t_id t_at_iss t_refresh].
    rewrite Hfd, Hfc, Hcl', !String.eqb_refl, Hdone, Hden, !same_scopes_refl, Hpr.
    unfold expected_issuer. cbn [andb negb].
    destruct (string_in "offline_access" (d_scopes d)); cbn [andb negb orb]; rewrite ?orb_true_r;
    destruct (string_in "openid" (d_scopes d)); destruct (c_jwt c); now rewrite ?String.eqb_refl.
  - cbn [step_ok]. unfold refusal_ok.
    destruct (find_client cl (claimed cr)) as [c|] eqn:Hfc; [|reflexivity].
    destruct (canonical c cr) eqn:Hcan; [|reflexivity].
    destruct (c_dev c) eqn:Hdev; [|reflexivity].
    destruct (String.eqb_spec dc "") as [|Hdc]; [reflexivity|]. cbn [andb negb].
    assert (Hok : client_ok c = true) by (eapply clients_ok_in; eauto; now apply find_client_some in Hfc).
    rewrite (poll_canonical g _ _ _ _ _ _ _ host fwd _ Hfc Hcan Hdev Hok Hdc) in Hp.
    destruct (check_state st (c_id c) dc now f) as [d|e] eqn:Hcs.
    + unfold tokens_for in Hp. discriminate.
    + inversion Hp; subst. now apply check_state_refusal.
Qed.

Lemma step_sound g cl st o :
  forallb client_ok cl = true -> prefix_free (g_charset g) = true -> op_ok o = true ->
  step_ok g cl st o (snd (step g cl st o)) = true /\
  gt_next st o (snd (step g cl st o)) = fst (step g cl st o).
Proof.
  intros Hcl Hpf Hop. destruct o as [r cr scopes now life rnd host fwd | uc sub | uc | r cr dc now f host' fwd']; cbn [step].
  - apply authz_sound; [exact Hpf|]. cbn in Hop. now apply Nat.leb_le.
  - split; reflexivity.
  - split; reflexivity.
  - cbn [snd fst]. split; [now apply poll_sound|].
    cbn [gt_next]. destruct (poll g cl st r cr dc now f host' fwd'); reflexivity.
Qed.

Lemma check_run g cl : forallb client_ok cl = true -> prefix_free (g_charset g) = true ->
  forall ops st, forallb op_ok ops = true -> check g cl st ops (run g cl st ops) = true.
Proof.
  intros Hcl Hpf. induction ops as [|o ops IH]; intros st Hops; [reflexivity|].
  cbn [forallb] in Hops. apply andb_true_iff in Hops as [Ho Hops].
  cbn [run]. destruct (step_sound g cl st o Hcl Hpf Ho) as [H1 H2].
  destruct (step g cl st o) as [st' x]. cbn [fst snd] in *. cbn [check].
  rewrite H1, H2. now apply IH.
Qed.

(* the central theorem: on every well-formed input the model's answer
   satisfies the property predicate *)
Lemma spec_model_hist g cl ops : wf (IHist g cl ops) = true -> spec (IHist g cl ops) (model (IHist g cl ops)) = true.
Proof.
  cbn [wf model spec]; intro H.
  apply andb_true_iff in H as [H H3]. apply andb_true_iff in H as [H1 H2].
  now apply check_run.
Qed.

Lemma spec_model_usercode cs n dash rnd :
  wf (IUserCode cs n dash rnd) = true -> spec (IUserCode cs n dash rnd) (model (IUserCode cs n dash rnd)) = true.
Proof.
  cbn [wf model spec]; intro H.
  destruct (new_user_code cs n dash rnd) as [s|] eqn:Hu; [|reflexivity].
  rewrite (new_user_code_ok _ _ _ _ _ H Hu). apply orb_true_r.
Qed.

(* the ground truth a history induces is the model's storage *)
Lemma gt_run_final g cl : forallb client_ok cl = true -> prefix_free (g_charset g) = true ->
  forall ops st, forallb op_ok ops = true -> gt_run st ops (run g cl st ops) = final g cl st ops.
Proof.
  intros Hcl Hpf. induction ops as [|o ops IH]; intros st Hops; [reflexivity|].
  cbn [forallb] in Hops. apply andb_true_iff in Hops as [Ho Hops].
  cbn [run final]. destruct (step_sound g cl st o Hcl Hpf Ho) as [_ H2].
  destruct (step g cl st o) as [st' x]. cbn [fst snd] in *. cbn [gt_run].
  rewrite H2. now apply IH.
Qed.

(* ======================================================================== *)
(* Histories as traces (newest event first) and what every reachable state
   remembers about its past. *)
Section Traces.
  Variable g : cfg.
  Variable cl : list client.

  Inductive reach : list (op * resp) -> store -> Prop :=
  | reach_nil : reach [] []
  | reach_step tr st o : reach tr st ->
      reach ((o, snd (step g cl st o)) :: tr) (fst (step g cl st o)).

  (* [run] produces exactly the reachable traces *)
  Lemma run_reach ops : forall tr st, reach tr st ->
    reach (rev (combine ops (run g cl st ops)) ++ tr) (final g cl st ops).
  Proof.
    induction ops as [|o ops IH]; intros tr st H; [exact H|].
    cbn [run final]. pose proof (reach_step _ _ o H) as Hs.
    destruct (step g cl st o) as [st' x]. cbn [fst snd] in *.
    cbn [combine rev]. rewrite <- app_assoc. cbn [app]. now apply IH.
  Qed.

  (* events of the past *)
  Definition issued_ev (tr : list (op * resp)) (dc uc cid : string) (scopes : list string) (exp : Z) : Prop :=
    exists r cr now life rnd host fwd vu vuc e i,
      In (OpAuthz r cr scopes now life rnd host fwd, RDevice dc uc vu vuc e i) tr /\
      claimed cr = cid /\ exp = (now + ns_of_s life)%Z.
  Definition approved_ev (tr : list (op * resp)) (uc sub : string) : Prop :=
    In (OpApprove uc sub, RAck true) tr.
  Definition denied_ev (tr : list (op * resp)) (uc : string) : Prop :=
    In (OpDeny uc, RAck true) tr.

  Record inv (tr : list (op * resp)) (st : store) : Prop := {
    inv_issued : forall d, In d st ->
      issued_ev tr (d_code d) (d_user d) (d_client d) (d_scopes d) (d_expires d);
    inv_done : forall d, In d st -> d_done d = true -> approved_ev tr (d_user d) (d_subject d);
    inv_den : forall d, In d st -> d_denied d = true -> denied_ev tr (d_user d);
    inv_denied : forall uc, denied_ev tr uc ->
      has_user st uc = true /\ forall d, In d st -> d_user d = uc -> d_denied d = true;
    inv_approved : forall uc sub, approved_ev tr uc sub ->
      has_user st uc = true /\ forall d, In d st -> d_user d = uc -> d_done d = true }.

  Lemma issued_mono tr e dc uc cid sc ex : issued_ev tr dc uc cid sc ex -> issued_ev (e :: tr) dc uc cid sc ex.
  Proof.
    intros [r [cr [now [life [rnd [host [fwd [vu [vuc [e0 [i [H1 H2]]]]]]]]]]]].
    exists r, cr, now, life, rnd, host, fwd, vu, vuc, e0, i. split; [now right | exact H2].
  Qed.

  Lemma has_user_in st uc : has_user st uc = true <-> exists d, In d st /\ d_user d = uc.
  Proof.
    unfold has_user. rewrite existsb_exists. split; intros [d [H1 H2]]; exists d; split; auto;
      now apply String.eqb_eq.
  Qed.

  Lemma in_on_user uc f st d' : In d' (on_user uc f st) ->
    exists d, In d st /\ d' = (if String.eqb (d_user d) uc then f d else d).
  Proof. unfold on_user. rewrite in_map_iff. intros [d [H1 H2]]. exists d. split; auto. Qed.

  Lemma has_user_on_user uc f st u : (forall d, d_user (f d) = d_user d) ->
    has_user (on_user uc f st) u = has_user st u.
  Proof.
    intro Hf. unfold has_user, on_user. induction st as [|d st IH]; [reflexivity|].
    cbn [map existsb]. rewrite IH. f_equal.
    destruct (String.eqb (d_user d) uc); [now rewrite Hf | reflexivity].
  Qed.

  (* an event list extended by something that is neither an approval nor a denial *)
  Lemma inv_quiet tr st o x : inv tr st ->
    (forall uc, (o, x) <> (OpDeny uc, RAck true)) ->
    (forall uc sub, (o, x) <> (OpApprove uc sub, RAck true)) ->
    inv ((o, x) :: tr) st.
  Proof.
    intros [I1 I2 I3 I4 I5] Hd Ha. constructor.
    - intros d Hin. apply issued_mono. now apply I1.
    - intros d Hin Hdone. right. now apply I2.
    - intros d Hin Hden. right. now apply I3.
    - intros uc [E|Hin]; [exfalso; eapply Hd; eauto | now apply I4].
    - intros uc sub [E|Hin]; [exfalso; eapply Ha; eauto | eapply I5; eauto].
  Qed.

  Lemma inv_create tr st r cr scopes now life rnd host fwd dc uc vu vuc e i :
    inv tr st -> has_user st uc = false ->
    inv ((OpAuthz r cr scopes now life rnd host fwd, RDevice dc uc vu vuc e i) :: tr)
        (mkDev dc uc (claimed cr) scopes (now + ns_of_s life)%Z false false "" :: st).
  Proof.
    intros [I1 I2 I3 I4 I5] Hnew. constructor.
    - intros d [<-|Hin]; [|apply issued_mono; now apply I1]. cbn.
      exists r, cr, now, life, rnd, host, fwd, vu, vuc, e, i. split; [now left | split; reflexivity].
    - intros d [<-|Hin]; [discriminate|]. intro. right. now apply I2.
    - intros d [<-|Hin]; [discriminate|]. intro. right. now apply I3.
    - intros u [E|Hin]; [discriminate|]. destruct (I4 u Hin) as [Hh Hall]. split.
      + unfold has_user in *. cbn [existsb]. rewrite Hh. apply orb_true_r.
      + intros d [<-|Hd] Hu; [|now apply Hall]. cbn in Hu. subst u. congruence.
    - intros u sub [E|Hin]; [discriminate|]. destruct (I5 u sub Hin) as [Hh Hall]. split.
      + unfold has_user in *. cbn [existsb]. rewrite Hh. apply orb_true_r.
      + intros d [<-|Hd] Hu; [|now apply Hall]. cbn in Hu. subst u. congruence.
  Qed.

  Lemma inv_approve tr st uc sub : inv tr st ->
    inv ((OpApprove uc sub, RAck (has_user st uc)) :: tr) (on_user uc (approve_dev sub) st).
  Proof.
    intros [I1 I2 I3 I4 I5]. constructor.
    - intros d' Hin. apply in_on_user in Hin as [d [Hin ->]]. apply issued_mono.
      destruct (String.eqb (d_user d) uc); cbn; now apply I1.
    - intros d' Hin Hdone. apply in_on_user in Hin as [d [Hin ->]].
      destruct (String.eqb_spec (d_user d) uc) as [E|E].
      + cbn. left. rewrite E. f_equal. f_equal. apply (proj2 (has_user_in st uc)). eauto.
      + right. now apply I2.
    - intros d' Hin Hden. apply in_on_user in Hin as [d [Hin ->]]. right.
      destruct (String.eqb (d_user d) uc); cbn in *; now apply I3.
    - intros u [E|Hin]; [discriminate|]. destruct (I4 u Hin) as [Hh Hall]. split.
      + now rewrite has_user_on_user.
      + intros d' Hd Hu. apply in_on_user in Hd as [d [Hd ->]].
        destruct (String.eqb (d_user d) uc); cbn in *; now apply Hall.
    - intros u s [E|Hin].
      + inversion E; subst. split.
        * rewrite has_user_on_user by reflexivity. congruence.
        * intros d' Hd Hu. apply in_on_user in Hd as [d [Hd ->]].
          destruct (String.eqb_spec (d_user d) u); [cbn; congruence | contradiction].
      + destruct (I5 u s Hin) as [Hh Hall]. split.
        * now rewrite has_user_on_user.
        * intros d' Hd Hu. apply in_on_user in Hd as [d [Hd ->]].
          destruct (String.eqb (d_user d) uc); [reflexivity | now apply Hall].
  Qed.

  Lemma inv_deny tr st uc : inv tr st ->
    inv ((OpDeny uc, RAck (has_user st uc)) :: tr) (on_user uc deny_dev st).
  Proof.
    intros [I1 I2 I3 I4 I5]. constructor.
    - intros d' Hin. apply in_on_user in Hin as [d [Hin ->]]. apply issued_mono.
      destruct (String.eqb (d_user d) uc); cbn; now apply I1.
    - intros d' Hin Hdone. apply in_on_user in Hin as [d [Hin ->]]. right.
      destruct (String.eqb (d_user d) uc); cbn in *; now apply I2.
    - intros d' Hin Hden. apply in_on_user in Hin as [d [Hin ->]].
      destruct (String.eqb_spec (d_user d) uc) as [E|E].
      + cbn. left. rewrite E. f_equal. f_equal. apply (proj2 (has_user_in st uc)). eauto.
      + right. now apply I3.
    - intros u [E|Hin].
      + inversion E; subst. split.
        * rewrite has_user_on_user by reflexivity. congruence.
        * intros d' Hd Hu. apply in_on_user in Hd as [d [Hd ->]].
          destruct (String.eqb_spec (d_user d) u); [cbn; congruence | contradiction].
      + destruct (I4 u Hin) as [Hh Hall]. split.
        * now rewrite has_user_on_user.
        * intros d' Hd Hu. apply in_on_user in Hd as [d [Hd ->]].
          destruct (String.eqb (d_user d) uc); [reflexivity | now apply Hall].
    - intros u s [E|Hin]; [discriminate|]. destruct (I5 u s Hin) as [Hh Hall]. split.
      + now rewrite has_user_on_user.
      + intros d' Hd Hu. apply in_on_user in Hd as [d [Hd ->]].
        destruct (String.eqb (d_user d) uc); cbn in *; now apply Hall.
  Qed.

  Lemma create_inv tr st r cr scopes now life rnd host fwd :
    inv tr st ->
    let sx := create g st (claimed cr) scopes now life rnd host fwd in
    inv ((OpAuthz r cr scopes now life rnd host fwd, snd sx) :: tr) (fst sx).
  Proof.
    intros HI sx. subst sx. unfold create.
    destruct (new_device_code rnd) as [[dc rest]|]; cbn [fst snd].
    - destruct (new_user_code (g_charset g) (g_amount g) (g_dash g) rest) as [uc|]; cbn [fst snd].
      + unfold store_dev. cbn [d_user]. destruct (has_user st uc) eqn:Hh; cbn [fst snd].
        * apply inv_quiet; [exact HI | discriminate | discriminate].
        * now apply inv_create.
      + apply inv_quiet; [exact HI | discriminate | discriminate].
    - apply inv_quiet; [exact HI | discriminate | discriminate].
  Qed.

  Lemma reach_inv tr st : reach tr st -> inv tr st.
  Proof.
    induction 1 as [|tr st o Hr IH].
    - constructor; try (intros ? []); intros; contradiction.
    - destruct o as [r cr scopes now life rnd host fwd | uc sub | uc | r cr dc now f host' fwd']; cbn [step].
      + unfold authz. destruct r.
        * destruct (prov_client cl cr) as [[id a]|e] eqn:Hp; cbn [fst snd];
            [|apply inv_quiet; [exact IH | discriminate | discriminate]].
          destruct (find_client cl id); cbn [fst snd];
            [|apply inv_quiet; [exact IH | discriminate | discriminate]].
          destruct (c_dev c); cbn [fst snd];
            [|apply inv_quiet; [exact IH | discriminate | discriminate]].
          rewrite (prov_client_claimed _ _ _ _ Hp). now apply create_inv.
        * destruct (legacy_client cl cr) as [c|e] eqn:Hl; cbn [fst snd];
            [|apply inv_quiet; [exact IH | discriminate | discriminate]].
          destruct (c_dev c); cbn [fst snd];
            [|apply inv_quiet; [exact IH | discriminate | discriminate]].
          destruct (legacy_client_claimed _ _ _ Hl) as [_ ->]. now apply create_inv.
      + cbn [fst snd]. now apply inv_approve.
      + cbn [fst snd]. now apply inv_deny.
      + cbn [fst snd]. apply inv_quiet; [exact IH | discriminate | discriminate].
  Qed.
End Traces.

(* ======================================================================== *)
(* The property theorems over all histories. *)

Lemma tokens_only_after_approval g cl tr st : reach g cl tr st ->
  forall r cr dc now f host fwd t,
  poll g cl st r cr dc now f host fwd = RTokens t ->
  exists uc exp,
    issued_ev tr dc uc (claimed cr) (t_scopes t) exp /\ approved_ev tr uc (t_sub t) /\
    ~ denied_ev tr uc /\ f = FNone.
Proof.
  intros Hr r cr dc now f host fwd t Hp.
  pose proof (reach_inv _ _ _ _ Hr) as [I1 I2 I3 I4 I5].
  destruct (poll_tokens_inv _ _ _ _ _ _ _ _ _ _ _ Hp)
    as [d [c [Hfd [Hfc [Hcl [Hdone [Hden [-> [Ht Hpr]]]]]]]]].
  unfold tokens_for in Ht. inversion Ht; subst t. cbn [t_sub t_scopes].
  apply find_dev_some in Hfd as [Hin Hdc].
  exists (d_user d), (d_expires d). repeat split.
  - rewrite <- Hdc, <- Hcl. now apply I1.
  - now apply I2.
  - intro Hd. destruct (I4 _ Hd) as [_ Hall]. rewrite (Hall d Hin eq_refl) in Hden. discriminate.
Qed.

Lemma only_to_initiator g cl tr st : reach g cl tr st ->
  forall r cr dc now f host fwd t,
  poll g cl st r cr dc now f host fwd = RTokens t ->
  t_client t = claimed cr /\
  (exists uc exp, issued_ev tr dc uc (claimed cr) (t_scopes t) exp) /\
  exists c, find_client cl (claimed cr) = Some c /\ proves_identity c cr = true.
Proof.
  intros Hr r cr dc now f host fwd t Hp.
  destruct (tokens_only_after_approval _ _ _ _ Hr _ _ _ _ _ _ _ _ Hp) as [uc [ex [Hi _]]].
  destruct (poll_tokens_inv _ _ _ _ _ _ _ _ _ _ _ Hp)
    as [d [c [Hfd [Hfc [Hcl' [Hdone [Hden [-> [Ht Hpr]]]]]]]]].
  unfold tokens_for in Ht. inversion Ht; subst t. cbn [t_client t_scopes] in *.
  split; [exact Hcl'|]. split; [eauto|]. exists c. split; [exact Hfc | exact Hpr].
Qed.

(* "the issued tokens carry the approving user's subject and the requested
   scopes": everything a token answer carries is determined by the issuance of
   that device code, by its approval and by THIS token request - the scope of
   the answer and the scopes recorded with the access token are the list asked
   for at issuance, element by element (nothing dropped, added, reordered or
   merged); the ID token exists iff openid was asked for and names the approving
   subject; ID token and JWT access token name the issuer of this very request *)
Lemma tokens_carry g cl tr st : reach g cl tr st ->
  forall r cr dc now f host fwd t,
  poll g cl st r cr dc now f host fwd = RTokens t ->
  exists uc exp requested c,
    issued_ev tr dc uc (claimed cr) requested exp /\ approved_ev tr uc (t_sub t) /\
    find_client cl (claimed cr) = Some c /\
    t_scopes t = requested /\ t_granted t = requested /\
    (forall s, In s requested <-> In s (t_scopes t)) /\
    t_id t = (if string_in "openid" requested then Some (t_sub t, request_issuer g host fwd) else None) /\
    t_at_iss t = (if c_jwt c then Some (request_issuer g host fwd) else None) /\
    t_refresh t = (string_in "offline_access" requested && c_refresh c).
Proof.
  intros Hr r cr dc now f host fwd t Hp.
  destruct (tokens_only_after_approval _ _ _ _ Hr _ _ _ _ _ _ _ _ Hp) as [uc [ex [Hi [Ha _]]]].
  destruct (poll_tokens_inv _ _ _ _ _ _ _ _ _ _ _ Hp)
    as [d [c [Hfd [Hfc [Hcl' [Hdone [Hden [-> [Ht Hpr]]]]]]]]].
  unfold tokens_for in Ht. inversion Ht; subst t. cbn [t_sub t_client t_scopes t_granted t_id t_at_iss t_refresh] in *.
  exists uc, ex, (d_scopes d), c. repeat split; try assumption; try reflexivity; auto.
Qed.

Lemma poll_answers g cl tr st : reach g cl tr st ->
  forall r cr dc now f host fwd c,
  find_client cl (claimed cr) = Some c -> canonical c cr = true -> c_dev c = true ->
  client_ok c = true -> dc <> "" ->
  let x := poll g cl st r cr dc now f host fwd in
  (forall e, f = FFail e -> is_deadline e = true -> x = RErr "slow_down") /\
  (f = FNone ->
     ((forall uc cid sc ex, issued_ev tr dc uc cid sc ex -> cid <> c_id c) ->
        x = RErr "access_denied") /\
     (forall d, find_dev st dc = Some d -> d_client d = c_id c ->
        (denied_ev tr (d_user d) -> x = RErr "access_denied") /\
        (~ denied_ev tr (d_user d) -> (exists sub, approved_ev tr (d_user d) sub) ->
           approved_ev tr (d_user d) (d_subject d) /\
           exists t, x = RTokens t /\ t_sub t = d_subject d /\ t_client t = c_id c /\
                     t_scopes t = d_scopes d /\ t_granted t = d_scopes d) /\
        (~ denied_ev tr (d_user d) -> (forall sub, ~ approved_ev tr (d_user d) sub) ->
           x = RErr (if (now >? d_expires d)%Z then "expired_token" else "authorization_pending")))).
Proof.
  intros Hr r cr dc now f host fwd c Hfc Hcan Hdev Hok Hdc x. subst x.
  pose proof (reach_inv _ _ _ _ Hr) as [I1 I2 I3 I4 I5].
  rewrite (poll_canonical g _ _ _ _ _ _ _ host fwd _ Hfc Hcan Hdev Hok Hdc).
  split; [intros e -> He; cbn [check_state]; now rewrite He|]. intros ->. unfold check_state, get_dev. split.
  - intro Hno. destruct (find_dev st dc) as [d|] eqn:Hfd; [|reflexivity].
    apply find_dev_some in Hfd as [Hin Hcode].
    pose proof (I1 d Hin) as Hi. rewrite Hcode in Hi. apply Hno in Hi.
    destruct (String.eqb_spec (d_client d) (c_id c)); [contradiction | reflexivity].
  - intros d Hfd Hown. rewrite Hfd, Hown, String.eqb_refl.
    apply find_dev_some in Hfd as [Hin Hcode].
    split; [|split].
    + intro Hd. destruct (I4 _ Hd) as [_ Hall]. now rewrite (Hall d Hin eq_refl).
    + intros Hnd [sub Ha].
      destruct (d_denied d) eqn:Hden; [exfalso; apply Hnd; now apply I3|].
      destruct (I5 _ _ Ha) as [_ Hall]. rewrite (Hall d Hin eq_refl).
      split; [apply I2; [exact Hin | now apply Hall]|].
      unfold tokens_for. rewrite Hown. eexists. split; [reflexivity|]. cbn. repeat split; reflexivity.
    + intros Hnd Hna.
      destruct (d_denied d) eqn:Hden; [exfalso; apply Hnd; now apply I3|].
      destruct (d_done d) eqn:Hdone; [exfalso; eapply Hna; now apply I2|].
      destruct (now >? d_expires d)%Z; reflexivity.
Qed.

Lemma response_fields g cl st r cr scopes now life rnd host fwd st' dc uc vu vuc e i :
  authz g cl st r cr scopes now life rnd host fwd = (st', RDevice dc uc vu vuc e i) ->
  device_code_ok dc = true /\
  (exists rs, List.length rs = g_amount g /\ Forall (fun x => In x (g_charset g)) rs /\
              uc = toks_str (layout (g_dash g) 0 rs)) /\
  vu = verification_uri g host fwd /\ vuc = (vu ++ "?user_code=" ++ uc)%string /\
  e = life /\ i = g_interval g /\
  st' = mkDev dc uc (claimed cr) scopes (now + ns_of_s life)%Z false false "" :: st.
Proof.
  assert (Hc : forall cid, cid = claimed cr ->
    create g st cid scopes now life rnd host fwd = (st', RDevice dc uc vu vuc e i) ->
    device_code_ok dc = true /\
    (exists rs, List.length rs = g_amount g /\ Forall (fun x => In x (g_charset g)) rs /\
                uc = toks_str (layout (g_dash g) 0 rs)) /\
    vu = verification_uri g host fwd /\ vuc = (vu ++ "?user_code=" ++ uc)%string /\
    e = life /\ i = g_interval g /\
    st' = mkDev dc uc (claimed cr) scopes (now + ns_of_s life)%Z false false "" :: st).
  { intros cid ->. unfold create.
    destruct (new_device_code rnd) as [[dc' rest]|] eqn:Hd; [|discriminate].
    destruct (new_user_code (g_charset g) (g_amount g) (g_dash g) rest) as [uc'|] eqn:Hu; [|discriminate].
    unfold store_dev. cbn [d_user]. destruct (has_user st uc'); [discriminate|].
    unfold verification_uri. inversion 1; subst.
    split; [eapply new_device_code_shape; eauto|]. split.
    - unfold new_user_code in Hu.
      destruct (user_code_toks (g_charset g) (g_amount g) (g_dash g) rest) as [ts|] eqn:Ht; [|discriminate].
      inversion Hu; subst.
      destruct (user_code_toks_layout _ _ _ _ _ Ht) as [_ [_ [rs [H1 [H2 ->]]]]]. eauto.
    - repeat split; reflexivity. }
  unfold authz. destruct r.
  - destruct (prov_client cl cr) as [[id a]|] eqn:Hp; [|discriminate].
    destruct (find_client cl id); [|discriminate]. destruct (c_dev c); [|discriminate].
    apply Hc. eapply prov_client_claimed; eauto.
  - destruct (legacy_client cl cr) as [c|] eqn:Hl; [|discriminate].
    destruct (c_dev c); [|discriminate]. apply Hc. now destruct (legacy_client_claimed _ _ _ Hl).
Qed.

Lemma response_fields_full g cl st r cr scopes now life rnd host fwd st' dc uc vu vuc e i :
  authz g cl st r cr scopes now life rnd host fwd = (st', RDevice dc uc vu vuc e i) ->
  device_code_ok dc = true /\
  (exists rs, List.length rs = g_amount g /\ Forall (fun x => In x (g_charset g)) rs /\
              uc = toks_str (layout (g_dash g) 0 rs)) /\
  vu = match g_form g with
       | FormPath p => (request_origin g host fwd ++ p)%string
       | FormURL u => u
       end /\
  is_prefix (request_origin g host fwd) (request_issuer g host fwd) = true /\
  vuc = (vu ++ "?user_code=" ++ uc)%string /\
  e = life /\ i = g_interval g /\
  st' = mkDev dc uc (claimed cr) scopes (now + ns_of_s life)%Z false false "" :: st.
Proof.
  intro H. destruct (response_fields _ _ _ _ _ _ _ _ _ _ _ _ _ _ _ _ _ _ H)
    as [H1 [H2 [H3 [H4 [H5 [H6 H7]]]]]].
  split; [exact H1|]. split; [exact H2|]. split.
  { rewrite H3. unfold verification_uri. destruct (g_form g); reflexivity. }
  split; [unfold request_issuer; apply is_prefix_app|].
  split; [exact H4|]. split; [exact H5|]. split; [exact H6 | exact H7].
Qed.

(* every history run by [run] is a reachable trace *)
Lemma histories_reach g cl ops :
  reach g cl (rev (combine ops (run g cl [] ops))) (final g cl [] ops).
Proof.
  pose proof (run_reach g cl ops [] [] (reach_nil g cl)) as H. now rewrite app_nil_r in H.
Qed.

(* ---- non-vacuity: a history in which every promised answer occurs ---------- *)
Definition ex_cfg := mkCfg (IStatic "https://op.example.com" "/oidc") (FormPath "/device") ["B"; "C"; "D"; "F"] 4 2 5%Z.
Definition ex_clients :=
  [mkClient "web" "s3cr3t" ABasic true true false; mkClient "native" "" ANone true false true].
Definition ex_web := mkCreds (Some ("web", "s3cr3t")) "" "".
Definition ex_native := mkCreds None "native" "".
Definition ex_rnd : list nat := [1;2;3;4;5;6;7;8;9;10;11;12;13;14;15;16; 0;1;2;3].
Definition ex_dc := "AQIDBAUGBwgJCgsMDQ4PEA".
Definition ex_ops :=
  [ OpAuthz RProvider ex_web ["openid"; "profile"] 1000%Z 300%Z ex_rnd "other.example" None;
    OpPoll RLegacy ex_web ex_dc 2000%Z FNone "op.example.com" None;
    OpPoll RProvider ex_native ex_dc 2000%Z FNone "op.example.com" None;
    OpPoll RProvider ex_web ex_dc 2000%Z (FFail (EOidc "server_error" (Some (EWrap EDeadline)))) "op.example.com" None;
    OpApprove "BC-DF" "alice";
    OpPoll RLegacy ex_web ex_dc 3000%Z FNone "a.example" (Some "b.example");
    OpDeny "BC-DF";
    OpPoll RProvider ex_web ex_dc 4000%Z FNone "op.example.com" None ].

Example history_nonvacuous :
  wf (IHist ex_cfg ex_clients ex_ops) = true /\
  run ex_cfg ex_clients [] ex_ops =
  [ RDevice ex_dc "BC-DF" "https://op.example.com/device"
      "https://op.example.com/device?user_code=BC-DF" 300%Z 5%Z;
    RErr "authorization_pending"; RErr "access_denied"; RErr "slow_down"; RAck true;
    RTokens (mkTokens "alice" "web" ["openid"; "profile"] ["openid"; "profile"]
               (Some ("alice", "https://op.example.com/oidc")) None false);
    RAck true; RErr "access_denied" ].
Proof. split; vm_compute; reflexivity. Qed.

Example canonical_nonvacuous :
  canonical (mkClient "web" "s3cr3t" ABasic true true false) ex_web = true /\
  canonical (mkClient "native" "" ANone true false true) ex_native = true.
Proof. split; reflexivity. Qed.

Example expired_nonvacuous :
  run ex_cfg ex_clients []
    [ OpAuthz RLegacy ex_native ["openid"] 1000%Z (-300)%Z ex_rnd "op.example.com" None;
      OpPoll RProvider ex_native ex_dc 2000%Z FNone "op.example.com" None ]
  = [ RDevice ex_dc "BC-DF" "https://op.example.com/device"
        "https://op.example.com/device?user_code=BC-DF" (-300)%Z 5%Z;
      RErr "expired_token" ].
Proof. vm_compute. reflexivity. Qed.

(* a provider with a request-derived issuer: two device authorizations under
   different hosts, each answered on the issuer of its own request; the issuer's
   path is replaced by the form path *)
Definition ex_rnd2 : list nat := [16;15;14;13;12;11;10;9;8;7;6;5;4;3;2;1; 3;2;1;0].
Example dynamic_issuer_nonvacuous :
  let g := mkCfg (IForwarded false "/oidc") (FormPath "/device") ["B"; "C"; "D"; "F"] 4 2 5%Z in
  request_issuer g "a.example" None = "https://a.example/oidc" /\
  run g ex_clients []
    [ OpAuthz RLegacy ex_native [] 1000%Z 300%Z ex_rnd "a.example" None;
      OpAuthz RProvider ex_native [] 2000%Z 300%Z ex_rnd2 "a.example" (Some "b.example:8443") ]
  = [ RDevice ex_dc "BC-DF" "https://a.example/device" "https://a.example/device?user_code=BC-DF" 300%Z 5%Z;
      RDevice "EA8ODQwLCgkIBwYFBAMCAQ" "FD-CB" "https://b.example:8443/device"
        "https://b.example:8443/device?user_code=FD-CB" 300%Z 5%Z ].
Proof. split; vm_compute; reflexivity. Qed.

(* repeated scopes (start, middle, end) and a request-derived issuer: the tokens
   carry the list as requested, and ID token and JWT access token name the issuer
   of the TOKEN request (b.example:8443), not the one the flow was started under *)
Example repeated_scopes_nonvacuous :
  let g := mkCfg (IForwarded false "/oidc") (FormPath "/device") ["B"; "C"; "D"; "F"] 4 2 5%Z in
  let sc := ["openid"; "profile"; "openid"; "email"; "offline_access"; "email"] in
  run g ex_clients []
    [ OpAuthz RLegacy ex_native sc 1000%Z 300%Z ex_rnd "a.example" None;
      OpApprove "BC-DF" "bob";
      OpPoll RProvider ex_native ex_dc 2000%Z FNone "a.example" (Some "b.example:8443") ]
  = [ RDevice ex_dc "BC-DF" "https://a.example/device" "https://a.example/device?user_code=BC-DF" 300%Z 5%Z;
      RAck true;
      RTokens (mkTokens "bob" "native" sc sc (Some ("bob", "https://b.example:8443/oidc"))
                 (Some "https://b.example:8443/oidc") false) ] /\
  same_scopes ["openid"; "profile"; "email"; "offline_access"] sc = true /\
  same_scopes ["openid"; "profile"] sc = false.
Proof. repeat split; vm_compute; reflexivity. Qed.
