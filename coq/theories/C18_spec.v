(* C18: case vocabulary, model runner, property predicate. *)
From OIDC Require Export Lib C18_Url C18_Session.

Record tables := {
  t_pm : list (string * string * pres);        (* path.Match glob uri *)
  t_up : list (string * option purl) }.        (* url.Parse *)

Fixpoint pm_of (t : list (string * string * pres)) (g u : string) : pres :=
  match t with
  | [] => PNoMatch
  | (g', u', r) :: rest => if String.eqb g g' && String.eqb u u' then r else pm_of rest g u
  end.

Fixpoint up_of (t : list (string * option purl)) (u : string) : option purl :=
  match t with
  | [] => None
  | (u', r) :: rest => if String.eqb u u' then r else up_of rest u
  end.

(* one end-session request: the router it is sent to, the issuer the provider derives
   for it (static, or from Host / Forwarded), the key ids the storage publishes while it is
   served (keys rotate between requests), and what it carries, in the order of http.Request.Form
   (ParseForm: the values of the BODY first, then those of the QUERY): r_toks = the values of
   id_token_hint (TNone = an empty value), r_form = EVERY other parameter as sent - the known
   ones (client_id, post_logout_redirect_uri, state), possibly repeated with differing values, and
   any other name (logout_hint, ui_locales, unknown names). *)
Record ereq := { r_router : router; r_issuer : string; r_keys : list string; r_toks : list tok;
                 r_form : list (string * string); r_fault : efault }.

(* the schema decoder fills a string field with the LAST value of its name ("" if absent) *)
Definition form_last (k : string) (f : list (string * string)) : string := last (values_of k f) "".

Definition r_tok (x : ereq) : tok := last (r_toks x) TNone.
Definition r_client (x : ereq) : string := form_last "client_id" (r_form x).
Definition r_uri (x : ereq) : string := form_last "post_logout_redirect_uri" (r_form x).
Definition r_state (x : ereq) : string := form_last "state" (r_form x).

(* the request as the validator sees it, when hints are verified with key set [keys] and
   supported algorithms [algs] *)
Definition to_esreq (keys : keyset) (algs : list string) (x : ereq) : esreq :=
  {| e_hint := classify keys algs (r_issuer x) (r_keys x) (r_tok x); e_client := r_client x; e_uri := r_uri x;
     e_state := r_state x; e_fault := r_fault x |}.

(* MODEL side: the hint verifier uses what the Provider fields hold after all options ran *)
Definition model_esreq (opts : list popt) (x : ereq) : esreq :=
  to_esreq (v_hint_keys (configure opts)) (v_hint_algs (configure opts)) x.

(* PROPERTY side: "validly signed" is judged against the key set the configuration designates
   for id_token_hints - the provider's own published keys unless a WithIDTokenHintKeySet says
   otherwise (the last one counts); options about ACCESS TOKENS designate nothing for hints. *)
Fixpoint last_hint_keys (opts : list popt) : option keyset :=
  match opts with
  | [] => None
  | o :: rest =>
      match last_hint_keys rest with
      | Some k => Some k
      | None => match o with OptHintKeys k => Some k | _ => None end
      end
  end.

Fixpoint last_hint_algs (opts : list popt) : option (list string) :=
  match opts with
  | [] => None
  | o :: rest =>
      match last_hint_algs rest with
      | Some a => Some a
      | None => match o with OptHintAlgs a => Some a | _ => None end
      end
  end.

Definition designated_keys (opts : list popt) : keyset :=
  match last_hint_keys opts with Some k => k | None => ks_storage end.

Definition designated_algs (opts : list popt) : list string :=
  match last_hint_algs opts with Some a => a | None => [] end.

Definition spec_esreq (opts : list popt) (x : ereq) : esreq :=
  to_esreq (designated_keys opts) (designated_algs opts) x.

(* a sequence of requests to ONE provider instance built with the options [opts] *)
Inductive input :=
| IEnd (default_uri : string) (ts : tsfr) (opts : list popt) (cs : list lclient) (t : tables) (reqs : list ereq).

(* ONoProvider: op.NewProvider refused the configuration (no endpoint exists) *)
Inductive observed := OEnd (xs : list eout) | ONoProvider.

(* each answer depends on its own request only *)
Definition model (i : input) : observed :=
  match i with
  | IEnd d ts opts cs t reqs =>
      OEnd (map (fun x => end_session (pm_of (t_pm t)) (up_of (t_up t)) d ts cs (r_router x) (model_esreq opts x)) reqs)
  end.

(* ------------------------------------------------------------------ property *)
Section Spec.
  Variable pmatch : string -> string -> pres.
  Variable uparse : string -> option purl.
  Variable default_uri : string.
  Variable ts : tsfr.
  Variable cs : list lclient.

  Definition hint_sub (h : hint) : string := match h with HGood _ s _ => s | _ => "" end.

  (* the client the request is proven / claimed to come from; None: hint not acceptable *)
  Definition proven_client (q : esreq) : option string :=
    match e_hint q with
    | HNone => Some (e_client q)
    | HGood _ _ azp => Some azp
    | HBad => None
    end.

  Definition contradicts (q : esreq) : bool :=
    match e_hint q with
    | HGood _ _ azp => negb (String.eqb (e_client q) "") && negb (String.eqb (e_client q) azp)
    | _ => false
    end.

  (* registered exactly or via an opted-in glob *)
  Definition registered_post (c : lclient) (u : string) : bool :=
    string_in u (l_post c) ||
    match l_globs c with
    | None => false
    | Some gs => existsb (fun g => match pmatch g u with PMatch => true | _ => false end) gs
    end.

  (* loc is u itself, or u with the state appended: decoding loc's query gives, under the name
     "state", exactly u's own values (if it has any) with the supplied state added - the state of
     THIS request, once, and nobody else's *)
  Definition reaches (u state loc : string) : bool :=
    if String.eqb state "" then String.eqb loc u
    else match uparse u with
         | None => false
         | Some p =>
           match drop_prefix (p_pre p +++ "?") loc with
           | None => false
           | Some rest =>
               let '(qs, fr) := cut "#" rest in
               option_eqb String.eqb fr (p_frag p) &&
               match parse_query qs with
               | Some pairs =>
                   list_eqb String.eqb (values_of "state" pairs)
                            (values_of "state" (p_le p) ++ state :: values_of "state" (p_gt p))
               | None => false
               end
           end
         end.

  (* an expired but otherwise valid hint (and a valid one) must be accepted when
     nothing else is wrong *)
  Definition must_accept (q : esreq) : bool :=
    match ts with TS_Err => false | _ =>
    match e_hint q, e_fault q with
    | HGood _ _ azp, EF_None =>
        negb (contradicts q) &&
        (if String.eqb azp "" then
           (String.eqb (e_state q) "" || match uparse default_uri with Some _ => true | None => false end)
         else match find_lclient cs azp with
              | None => false
              | Some c =>
                  let target := if String.eqb (e_uri q) "" then Some default_uri
                                else if string_in (e_uri q) (l_post c) then Some (e_uri q) else None in
                  match target with
                  | None => false
                  | Some t => String.eqb (e_state q) "" || match uparse t with Some _ => true | None => false end
                  end
              end)
    | _, _ => false
    end end.

  (* a URI the storage itself chose through the optional TerminateSessionFromRequest *)
  Definition storage_choice (loc : string) : bool :=
    match ts with TS_Fixed l => String.eqb loc l | _ => false end.

  Definition spec_out (q : esreq) (x : eout) : bool :=
    match x with
    | EPanic => false
    | ERedirect loc (user, sc) =>
        match proven_client q with
        | None => false
        | Some pc =>
            negb (contradicts q)
            && (storage_choice loc || reaches default_uri (e_state q) loc
                || (negb (String.eqb (e_uri q) "") &&
                    match find_lclient cs pc with
                    | Some c => registered_post c (e_uri q) && reaches (e_uri q) (e_state q) loc
                    | None => false
                    end))
            && String.eqb user (hint_sub (e_hint q)) && String.eqb sc pc
        end
    | _ => negb (must_accept q)
    end.
End Spec.

Fixpoint spec_list (f : ereq -> eout -> bool) (reqs : list ereq) (outs : list eout) : bool :=
  match reqs, outs with
  | [], [] => true
  | x :: reqs', o :: outs' => f x o && spec_list f reqs' outs'
  | _, _ => false
  end.

Definition spec (i : input) (o : observed) : bool :=
  match i, o with
  | IEnd d ts opts cs t reqs, OEnd outs =>
      spec_list (fun x => spec_out (pm_of (t_pm t)) (up_of (t_up t)) d ts cs (spec_esreq opts x)) reqs outs
  | _, ONoProvider => true   (* nobody is redirected and no session is terminated *)
  end.

Definition pair_eqb (a b : string * string) : bool :=
  String.eqb (fst a) (fst b) && String.eqb (snd a) (snd b).

Definition eout_eqb (a b : eout) : bool :=
  match a, b with
  | EPage s c t, EPage s' c' t' => N.eqb s s' && String.eqb c c' && option_eqb pair_eqb t t'
  | ERedirect l t, ERedirect l' t' => String.eqb l l' && pair_eqb t t'
  | EPanic, EPanic | EOther, EOther => true
  | _, _ => false
  end.

Definition obs_eqb (a b : observed) : bool :=
  match a, b with OEnd x, OEnd y => list_eqb eout_eqb x y | ONoProvider, ONoProvider => true | _, _ => false end.

(* decision-path class of one answer; 0 = hint rejected at the first guard *)
Definition path1 (q : esreq) (x : eout) : nat :=
  match x with
  | ERedirect _ _ =>
      1 + (if String.eqb (e_state q) "" then 0 else 1)
        + (if String.eqb (e_uri q) "" then 0 else 2)
        + (match e_hint q with HNone => 0 | HGood false _ _ => 4 | _ => 8 end)
  | EPage _ c term =>
      match e_hint q with
      | HBad => 0
      | _ => 13 + (if String.eqb c "server_error" then 1 else 0)
                + (match term with Some _ => 2 | None => 0 end)
                + (if contradicts q then 4 else 0)
      end
  | _ => 20
  end.

Fixpoint path_list (opts : list popt) (reqs : list ereq) (outs : list eout) : nat :=
  match reqs, outs with
  | x :: reqs', o :: outs' => path1 (spec_esreq opts x) o + path_list opts reqs' outs'
  | _, _ => 0
  end.

Definition path (i : input) (o : observed) : nat :=
  match i, o with IEnd _ _ opts _ _ reqs, OEnd outs => path_list opts reqs outs | _, ONoProvider => 0 end.

Definition case_mismatches := run_mismatches model obs_eqb.
Definition case_violations := run_violations spec.
Definition case_paths := run_paths model path.
