(* C16: case vocabulary, model runner and the property predicate.
   The predicate walks a history with the GROUND TRUTH (which device code was
   handed to which client with which user code, what the user did with that
   user code) and judges every answer of the implementation; it never calls
   the model. *)
From OIDC Require Import Lib Base64.
From OIDC Require Export C16_UserCode C16_Device C16_Client C16_Overlap.

Inductive input :=
| IHist (g : cfg) (cl : list client) (ops : list op)
| IUserCode (charset : list string) (n dash : nat) (rnd : list nat)
    (* op.NewUserCode(charset, n, dash) with crypto/rand.Reader pinned to rnd *)
| ILoop (g : cfg) (cl : list client) (pre : list op) (p : rparty) (iv budget : Z) (rounds : list round)
    (* after the history [pre]: rp.DeviceAccessToken(ctx, p_dc p, iv ms, rp) under a
       caller deadline of [budget] ms against the provider, while the user acts
       between the polls as [rounds] says *)
| IOverlap (g : cfg) (cl : list client) (polls : list op) (evs : list sev).
    (* a history with OVERLAPPING requests: the polls of [polls] are held inside the
       storage lookup from their SArrive to their SServe event while everything in
       between runs; observed: the answers in the order in which they were given
       (operations and served polls, in event order) *)

Inductive observed :=
| OHist (rs : list resp)
| OUserCode (r : option string)
| OLoop (rs : list resp) (polls : nat) (res : loop_result)
    (* the answers to [pre], the number of token requests the provider received
       from the loop, what the loop returned *)
| OPanic.

Definition model (i : input) : observed :=
  match i with
  | IHist g cl ops => OHist (run g cl [] ops)
  | IUserCode cs n dash rnd => OUserCode (new_user_code cs n dash rnd)
  | ILoop g cl pre p iv budget rounds =>
      let (n, x) := poll_loop g cl p budget (final g cl [] pre) iv 0 rounds in
      OLoop (run g cl [] pre) n x
  | IOverlap g cl polls evs => OHist (run_sched g cl [] [] polls evs)
  end.

(* ---- ground truth helpers ---------------------------------------------- *)
(* the client a request claims to be, and the secret it presents *)
Definition claimed (cr : creds) : string :=
  match cr_basic cr with Some (id, _) => id | None => cr_id cr end.
Definition presented_secret (cr : creds) : string :=
  match cr_basic cr with Some (_, s) => s | None => cr_secret cr end.

Definition is_public (c : client) : bool :=
  match c_auth c with ANone => true | _ => false end.

(* the request proves to come from c: public clients by naming themselves,
   the others by the registered secret *)
Definition proves_identity (c : client) (cr : creds) : bool :=
  is_public c || String.eqb (c_secret c) (presented_secret cr).

(* the canonical way for c to present itself (public: bare client_id;
   confidential: HTTP Basic with the right secret) - the requests for which
   the property promises a definite answer *)
Definition canonical (c : client) (cr : creds) : bool :=
  match c_auth c with
  | ANone => match cr_basic cr with
             | None => String.eqb (cr_id cr) (c_id c) && String.eqb (cr_secret cr) ""
             | Some _ => false
             end
  | ABasic | APost =>
      match cr_basic cr with
      | Some (id, s) => String.eqb id (c_id c) && String.eqb s (c_secret c) && String.eqb (cr_secret cr) ""
      | None => false
      end
  | APkjwt => false
  end.

Definition unreserved (a : ascii) : bool :=
  urlsafe_char a || (nat_of_ascii a =? 46) || (nat_of_ascii a =? 126).

Definition strs_eqb := list_eqb String.eqb.

(* Device authorization response fields *)
(* "a verification URI on the provider's issuer": scheme and host of the issuer
   derived from THIS request, followed by the configured form path; when the
   operator configures the (deprecated) absolute form URL, that URL *)
Definition expected_verification_uri (g : cfg) (host : string) (fwd : option string) : string :=
  match g_form g with
  | FormPath p => (request_origin g host fwd ++ p)%string
  | FormURL u => u
  end.

Definition device_fields_ok (g : cfg) (host : string) (fwd : option string) (life : Z)
    (dc uc vuri vuric : string) (e i : Z) : bool :=
  device_code_ok dc
  && user_code_ok (g_charset g) (g_amount g) (g_dash g) uc
  && String.eqb vuri (expected_verification_uri g host fwd)
  && (if all_chars unreserved uc
      then String.eqb vuric (vuri ++ "?user_code=" ++ uc)%string
      else is_prefix (vuri ++ "?user_code=")%string vuric)
  && (e =? life)%Z && (i =? g_interval g)%Z.

(* "the requested scopes": as a SET - every requested scope is granted, nothing
   is granted that was not requested; order and repetitions carry no meaning
   (RFC 6749 3.3: "the order does not matter") *)
Definition scopes_within (a b : list string) : bool := forallb (fun s => string_in s b) a.
Definition same_scopes (a b : list string) : bool := scopes_within a b && scopes_within b a.

(* "carry the approving user's subject": a subject names a user only relative to
   the issuer that asserts it (OIDC Core 2: sub is unique within the issuer), so
   a token that is a JWT (the ID token, a JWT access token) has to name the
   provider's issuer - the issuer of THIS token request, as for the verification
   URI - next to the subject *)
Definition expected_issuer (g : cfg) (host : string) (fwd : option string) : string :=
  request_issuer g host fwd.

(* what a token answer needs *)
Definition tokens_justified (g : cfg) (cl : list client) (gt : store) (cr : creds) (dc : string) (f : fault)
    (host : string) (fwd : option string) (t : tokens) : bool :=
  match find_dev gt dc, find_client cl (claimed cr) with
  | Some d, Some c =>
      String.eqb (d_client d) (claimed cr)          (* the code was handed to this client *)
      && String.eqb (t_client t) (d_client d)
      && proves_identity c cr
      && d_done d && negb (d_denied d)              (* the user approved it and did not deny it *)
      && String.eqb (t_sub t) (d_subject d)         (* ... as this subject *)
      && same_scopes (t_scopes t) (d_scopes d)      (* the requested scopes: in the answer ... *)
      && same_scopes (t_granted t) (d_scopes d)     (* ... and recorded with the access token *)
      (* an ID token IS the grant of the scope openid (OIDC Core 3.1.2.1: openid asks
         for the identity assertion): one that comes along although openid was not
         among the requested scopes - a scope that merely CONTAINS the text does not
         count - carries more than the requested scopes *)
      && match t_id t with
         | None => true
         | Some (s, i) => String.eqb s (d_subject d) && String.eqb i (expected_issuer g host fwd)
                          && string_in "openid" (d_scopes d)
         end
      && match t_at_iss t with
         | None => true
         | Some i => String.eqb i (expected_issuer g host fwd)
         end
      (* a refresh token IS the grant of offline access (OIDC Core 11: the scope
         offline_access "requests that an OAuth 2.0 Refresh Token be issued"): one
         that comes along although offline_access was not requested carries a
         scope beyond the requested ones *)
      && (negb (t_refresh t) || string_in "offline_access" (d_scopes d))
      && match f with FNone => true | _ => false end
  | _, _ => false
  end.

(* what a refusal must be, where the property promises a definite answer:
   client [cid] presents device code [dc] at time [now] *)
Definition promised (gt : store) (cid dc : string) (now : Z) (f : fault) (code : string) : bool :=
  match f with
  | FFail e =>
      (* storage time-out - whatever shape the storage gives that error, as long as
         its cause is the deadline: slow_down; another storage failure: any refusal *)
      if is_deadline e then String.eqb code "slow_down" else true
  | FNone =>
      match find_dev gt dc with
      | None => true                                    (* unknown code: any refusal *)
      | Some d =>
          if negb (String.eqb (d_client d) cid) then true          (* another client's code *)
          else if d_denied d then String.eqb code "access_denied"
          else if d_done d then
            (* approved: tokens are due; only an expired code may still be refused *)
            (now >? d_expires d)%Z && String.eqb code "expired_token"
          else if (now >? d_expires d)%Z then String.eqb code "expired_token"
          else String.eqb code "authorization_pending"
      end
  end.

(* definite answers are promised to a registered client with the device grant
   that presents itself canonically and sends a device code *)
Definition refusal_ok (cl : list client) (gt : store) (cr : creds) (dc : string) (now : Z) (f : fault)
    (code : string) : bool :=
  match find_client cl (claimed cr) with
  | None => true
  | Some c =>
      if canonical c cr && c_dev c && negb (String.eqb dc "")
      then promised gt (c_id c) dc now f code
      else true
  end.

Definition step_ok (g : cfg) (cl : list client) (gt : store) (o : op) (x : resp) : bool :=
  match o, x with
  | OpAuthz _ _ _ _ life _ host fwd, RDevice dc uc vu vuc e i =>
      device_fields_ok g host fwd life dc uc vu vuc e i
  | OpAuthz _ _ _ _ _ _ _ _, RErr _ => true
  | OpApprove _ _, RAck _ => true
  | OpDeny _, RAck _ => true
  | OpPoll _ cr dc _ f host fwd, RTokens t =>
      tokens_justified g cl gt cr dc f host fwd t
  | OpPoll _ cr dc now f _ _, RErr code => refusal_ok cl gt cr dc now f code
  | _, _ => false
  end.

(* how the ground truth evolves: issuances are taken from what the
   implementation answered, user decisions from the history *)
Definition gt_next (gt : store) (o : op) (x : resp) : store :=
  match o, x with
  | OpAuthz _ cr scopes now life _ _ _, RDevice dc uc _ _ _ _ =>
      mkDev dc uc (claimed cr) scopes (now + ns_of_s life)%Z false false "" :: gt
  | OpApprove uc sub, _ => on_user uc (approve_dev sub) gt
  | OpDeny uc, _ => on_user uc deny_dev gt
  | _, _ => gt
  end.

Fixpoint check (g : cfg) (cl : list client) (gt : store) (ops : list op) (rs : list resp) : bool :=
  match ops, rs with
  | [], [] => true
  | o :: ops', x :: rs' => step_ok g cl gt o x && check g cl (gt_next gt o x) ops' rs'
  | _, _ => false
  end.

(* ---- the relying party's poll loop ---------------------------------------- *)
(* ground truth after a history *)
Fixpoint gt_run (gt : store) (ops : list op) (rs : list resp) : store :=
  match ops, rs with
  | o :: ops', x :: rs' => gt_run (gt_next gt o x) ops' rs'
  | _, _ => gt
  end.

(* the relying party is configured with the registered credentials of c *)
Definition rp_registered (c : client) (p : rparty) : bool :=
  String.eqb (p_id p) (c_id c) &&
  match c_auth c with
  | ANone => String.eqb (p_secret p) ""
  | ABasic | APost => String.eqb (p_secret p) (c_secret c)
  | APkjwt => false
  end.

(* what the property promises for ONE poll of client cid for dc, from the ground
   truth alone (the clauses of [promised]): tokens are due; tokens or
   expired_token (approved and expired: the text is silent); a definite refusal;
   an interim answer - authorization_pending, or slow_down on a storage
   time-out -; or just "refused" *)
Inductive verdict :=
| VTokens | VTokensOrExpired | VRefuse (code : string) | VInterim (slow : bool) | VUnspecified.

Definition verdict_of (gt : store) (cid dc : string) (now : Z) (f : fault) : verdict :=
  match f with
  | FFail e => if is_deadline e then VInterim true else VUnspecified
  | FNone =>
      match find_dev gt dc with
      | None => VUnspecified
      | Some d =>
          if negb (String.eqb (d_client d) cid) then VUnspecified
          else if d_denied d then VRefuse "access_denied"
          else if d_done d then (if (now >? d_expires d)%Z then VTokensOrExpired else VTokens)
          else if (now >? d_expires d)%Z then VRefuse "expired_token"
          else VInterim false
      end
  end.

Definition is_tokens (x : loop_result) : bool := match x with LTokens _ => true | _ => false end.
Definition is_timeout (x : loop_result) : bool := match x with LTimeout => true | _ => false end.
Definition is_err (code : string) (x : loop_result) : bool :=
  match x with LErr c => String.eqb c code | _ => false end.

(* The grant as the initiating client experiences it (RFC 8628 3.4, 3.5):
   authorization_pending and slow_down are not results but "ask again" - the
   next poll falls due one interval later, every slow_down adding 5 s to the
   interval -; so the loop of the client that started the flow ends with the
   first definite answer that falls due before the caller's deadline: the
   tokens once the user approved, access_denied after denial, expired_token
   after expiry; and it may give up (time-out) only when no further poll falls
   due before the deadline. [n] = polls still unaccounted for. *)
Fixpoint loop_ok (cid dc : string) (budget : Z) (gt : store) (iv t : Z) (rounds : list round)
    (n : nat) (res : loop_result) : bool :=
  match rounds with
  | [] => (n =? 0) && is_timeout res
  | r :: rest =>
      let t' := (t + iv)%Z in
      if (budget <=? t')%Z then (n =? 0) && is_timeout res
      else
        match n with
        | 0 => false        (* the last answer was interim and a poll was due: the client gave up *)
        | S n' =>
            let gt' := users gt (r_before r) in
            match verdict_of gt' cid dc (r_now r) (r_fault r) with
            | VInterim slow => loop_ok cid dc budget gt' (if slow then iv + backoff_ms else iv)%Z t' rest n' res
            | VTokens => (n' =? 0) && is_tokens res
            | VTokensOrExpired => (n' =? 0) && (is_tokens res || is_err "expired_token" res)
            | VRefuse c => (n' =? 0) && is_err c res
            | VUnspecified => true
            end
        end
  end.

(* tokens returned after n polls must be justified by the ground truth at the
   n-th poll *)
Fixpoint tokens_at (g : cfg) (cl : list client) (p : rparty) (gt : store) (rounds : list round)
    (n : nat) (t : tokens) : bool :=
  match rounds, n with
  | r :: rest, S n' =>
      let gt' := users gt (r_before r) in
      match n' with
      | 0 => tokens_justified g cl gt' (rp_creds (p_id p) (p_secret p)) (p_dc p) (r_fault r) (p_host p) (p_fwd p) t
      | S _ => tokens_at g cl p gt' rest n' t
      end
  | _, _ => false
  end.

Definition loop_spec (g : cfg) (cl : list client) (gt : store) (p : rparty) (iv budget : Z)
    (rounds : list round) (n : nat) (res : loop_result) : bool :=
  match res with
  | LOther => false
  | LTokens t => tokens_at g cl p gt rounds n t
  | _ => true
  end
  && match find_client cl (p_id p) with
     | Some c =>
         if rp_registered c p && c_dev c && negb (String.eqb (p_dc p) "")
         then loop_ok (c_id c) (p_dc p) budget gt iv 0 rounds n res
         else true
     | None => true
     end.

Definition spec (i : input) (o : observed) : bool :=
  match i, o with
  | IHist g cl ops, OHist rs => check g cl [] ops rs
  | IOverlap g cl polls evs, OHist rs =>
      (* every request is judged where it took effect - at its storage lookup -, by
         the same clauses as in a sequential history: what else is in flight at that
         moment gives nobody a claim to tokens and takes nobody's claim away *)
      check g cl [] (lin polls evs) rs
  | ILoop g cl pre p iv budget rounds, OLoop rs n res =>
      check g cl [] pre rs && loop_spec g cl (gt_run [] pre rs) p iv budget rounds n res
  | IUserCode cs n dash _, OUserCode r =>
      (* never a panic; for a non-empty alphabet and n >= 1 a code, when one is
         produced, has the configured format (nothing is said about the rest) *)
      match r with
      | None => true
      | Some s => (List.length cs =? 0) || (n =? 0) || user_code_ok cs n dash s
      end
  | _, _ => false
  end.

(* ---- input guard -------------------------------------------------------- *)
(* a registered client has an id, and one that authenticates with a secret has
   a non-empty one *)
Definition client_ok (c : client) : bool :=
  negb (String.eqb (c_id c) "") &&
  match c_auth c with
  | ANone => true
  | _ => negb (String.eqb (c_secret c) "")
  end.

Definition op_ok (o : op) : bool :=
  match o with
  | OpAuthz _ _ _ _ _ rnd _ _ => 16 <=? List.length rnd
  | _ => true
  end.

Definition wf (i : input) : bool :=
  match i with
  | IHist g cl ops => forallb client_ok cl && prefix_free (g_charset g) && forallb op_ok ops
  | IUserCode cs _ _ _ => prefix_free cs
  | ILoop g cl pre _ iv budget rounds =>
      forallb client_ok cl && prefix_free (g_charset g) && forallb op_ok pre
      (* a positive interval, and a script that reaches the caller's deadline *)
      && (0 <? iv)%Z && (budget <=? iv * Z.of_nat (List.length rounds))%Z
  | IOverlap g cl polls evs =>
      forallb client_ok cl && prefix_free (g_charset g) && forallb op_ok (lin polls evs)
      && forallb is_poll polls && sched_ok (List.length polls) [] [] evs
  end.

(* ---- comparison of answers ---------------------------------------------- *)
Definition resp_eqb (a b : resp) : bool :=
  match a, b with
  | RDevice d1 u1 v1 w1 e1 i1, RDevice d2 u2 v2 w2 e2 i2 =>
      String.eqb d1 d2 && String.eqb u1 u2 && String.eqb v1 v2 && String.eqb w1 w2
      && (e1 =? e2)%Z && (i1 =? i2)%Z
  | RTokens t1, RTokens t2 =>
      String.eqb (t_sub t1) (t_sub t2) && String.eqb (t_client t1) (t_client t2)
      && strs_eqb (t_scopes t1) (t_scopes t2) && strs_eqb (t_granted t1) (t_granted t2)
      && option_eqb (fun a b => String.eqb (fst a) (fst b) && String.eqb (snd a) (snd b)) (t_id t1) (t_id t2)
      && option_eqb String.eqb (t_at_iss t1) (t_at_iss t2)
      && Bool.eqb (t_refresh t1) (t_refresh t2)
  | RErr a1, RErr a2 => String.eqb a1 a2
  | RAck a1, RAck a2 => Bool.eqb a1 a2
  | RPanic, RPanic => true
  | ROther, ROther => true
  | _, _ => false
  end.

Definition loop_result_eqb (a b : loop_result) : bool :=
  match a, b with
  | LTokens t1, LTokens t2 => resp_eqb (RTokens t1) (RTokens t2)
  | LErr c1, LErr c2 => String.eqb c1 c2
  | LTimeout, LTimeout => true
  | LOther, LOther => true
  | _, _ => false
  end.

Definition obs_eqb (a b : observed) : bool :=
  match a, b with
  | OHist r1, OHist r2 => list_eqb resp_eqb r1 r2
  | OLoop r1 n1 x1, OLoop r2 n2 x2 => list_eqb resp_eqb r1 r2 && (n1 =? n2) && loop_result_eqb x1 x2
  | OUserCode r1, OUserCode r2 => option_eqb String.eqb r1 r2
  | OPanic, OPanic => true
  | _, _ => false
  end.

(* ---- decision-path class: which kinds of answers the model run contains -- *)
Definition resp_bit (x : resp) : nat :=
  match x with
  | RTokens _ => 1
  | RErr c =>
      if String.eqb c "authorization_pending" then 2
      else if String.eqb c "access_denied" then 4
      else if String.eqb c "expired_token" then 8
      else if String.eqb c "slow_down" then 16
      else 32
  | _ => 0
  end.

Fixpoint bits_or (seen : list nat) (rs : list resp) : nat :=
  match rs with
  | [] => 0
  | x :: r => let b := resp_bit x in
              if existsb (Nat.eqb b) seen then bits_or seen r else b + bits_or (b :: seen) r
  end.

Definition has_device (rs : list resp) : bool :=
  existsb (fun x => match x with RDevice _ _ _ _ _ _ => true | _ => false end) rs.

Definition path (i : input) (o : observed) : nat :=
  match i, o with
  | IHist _ _ _, OHist rs => if has_device rs then 1 + bits_or [0] rs else 0
  | IUserCode _ n dash _, OUserCode (Some _) =>
      100 + (if dash =? 0 then 0 else if n <=? dash then 1 else 2)
  | IOverlap _ _ _ evs, OHist rs =>
      if has_device rs
      then 300 + bits_or [0] rs
           + (if existsb (fun e => match e with SArrive _ => true | _ => false end) evs then 64 else 0)
      else 0
  | ILoop _ _ _ _ _ _ _, OLoop rs n res =>
      (* what the loop returned x how many polls it took *)
      if has_device rs
      then 200 + 4 * (if n <=? 5 then n else 5)
           + match res with LTokens _ => 0 | LErr _ => 1 | LTimeout => 2 | LOther => 3 end
      else 0
  | _, _ => 0
  end.

Definition case_mismatches := run_mismatches model obs_eqb.
Definition case_violations := run_violations spec.
Definition case_paths := run_paths model path.
