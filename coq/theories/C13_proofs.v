(* C13: invariants of the remoteKeySet machine, for every event list. *)
From OIDC Require Import Lib C13_RemoteKeys.
Local Arguments Nat.ltb : simpl never.

(* ---------- lists ---------- *)
Lemma upd_length {A} (l : list A) n f : List.length (upd l n f) = List.length l.
Proof. revert n; induction l as [|x l IH]; intros [|n]; cbn; auto. Qed.

Lemma nth_error_upd {A} (l : list A) n f m :
  nth_error (upd l n f) m = if Nat.eqb n m then option_map f (nth_error l m) else nth_error l m.
Proof.
  revert n m; induction l as [|x l IH]; intros [|n] [|m]; cbn; auto.
  destruct (Nat.eqb n m); reflexivity.
Qed.

Lemma nth_error_upd_same {A} (l : list A) n f x :
  nth_error l n = Some x -> nth_error (upd l n f) n = Some (f x).
Proof. intro H. rewrite nth_error_upd, Nat.eqb_refl, H. reflexivity. Qed.

Lemma nth_error_upd_other {A} (l : list A) n f m :
  n <> m -> nth_error (upd l n f) m = nth_error l m.
Proof. intro H. rewrite nth_error_upd. destruct (Nat.eqb_spec n m); [contradiction|reflexivity]. Qed.

Lemma nth_error_snoc_inv {A} (l : list A) x m y :
  nth_error (l ++ [x]) m = Some y ->
  nth_error l m = Some y \/ (m = List.length l /\ y = x).
Proof.
  intro H. destruct (Nat.lt_ge_cases m (List.length l)) as [Hlt|Hge].
  - left. rewrite nth_error_app1 in H; assumption.
  - right. rewrite nth_error_app2 in H by assumption.
    destruct (m - List.length l) as [|k] eqn:E; cbn in H.
    + inversion H; subst. split; [lia|reflexivity].
    + destruct k; discriminate.
Qed.

Lemma nth_error_snoc_old {A} (l : list A) x m y :
  nth_error l m = Some y -> nth_error (l ++ [x]) m = Some y.
Proof.
  intro H. rewrite nth_error_app1; [assumption|]. apply nth_error_Some. congruence.
Qed.

Lemma nth_error_snoc_new {A} (l : list A) x : nth_error (l ++ [x]) (List.length l) = Some x.
Proof. rewrite nth_error_app2 by lia. rewrite Nat.sub_diag. reflexivity. Qed.

(* ---------- FindMatchingKey only returns published keys ---------- *)
Lemma fmk_go_in kid alg keys : forall valid,
  match fmk_go kid alg keys valid with
  | inl k => In k keys
  | inr v => forall x, In x v -> In x valid \/ In x keys
  end.
Proof.
  induction keys as [|a r IH]; intro valid; cbn.
  - auto.
  - destruct (negb (use_ok a)).
    { specialize (IH valid). destruct (fmk_go kid alg r valid); [auto|].
      intros x Hx. destruct (IH x Hx); auto. }
    destruct (negb (alg_fits (k_kty a) alg)).
    { specialize (IH valid). destruct (fmk_go kid alg r valid); [auto|].
      intros x Hx. destruct (IH x Hx); auto. }
    destruct (String.eqb (k_kid a) kid && negb (String.eqb kid "")); [auto|].
    destruct (String.eqb (k_kid a) "" || String.eqb kid "").
    { specialize (IH (valid ++ [a])). destruct (fmk_go kid alg r (valid ++ [a])); [auto|].
      intros x Hx. destruct (IH x Hx) as [H|H]; [|auto].
      apply in_app_or in H. destruct H as [H|[H|[]]]; [auto|subst; auto]. }
    specialize (IH valid). destruct (fmk_go kid alg r valid); [auto|].
    intros x Hx. destruct (IH x Hx); auto.
Qed.

Lemma find_matching_key_in kid alg ks k :
  find_matching_key kid alg ks = inl k -> In k ks.
Proof.
  unfold find_matching_key. pose proof (fmk_go_in kid alg ks []) as H.
  destruct (fmk_go kid alg ks []) as [k'|v].
  - intro E; inversion E; subst; assumption.
  - destruct v as [|k' [|? ?]]; intro E; try discriminate.
    inversion E; subst. destruct (H k (or_introl eq_refl)) as [[]|]; assumption.
Qed.

(* ---------- generations only grow ---------- *)
Definition gens_le (gs gs' : list gen) : Prop :=
  List.length gs <= List.length gs' /\
  forall g gn, nth_error gs g = Some gn ->
    exists gn', nth_error gs' g = Some gn' /\ g_owner gn' = g_owner gn /\
                (forall r, g_ans gn = Some r -> g_ans gn' = Some r).

Lemma gens_le_refl gs : gens_le gs gs.
Proof. split; [lia|]. intros g gn H. exists gn; auto. Qed.

Lemma gens_le_trans a b c : gens_le a b -> gens_le b c -> gens_le a c.
Proof.
  intros [L1 H1] [L2 H2]. split; [lia|]. intros g gn H.
  destruct (H1 g gn H) as (gn' & E1 & O1 & A1). destruct (H2 g gn' E1) as (gn'' & E2 & O2 & A2).
  exists gn''. repeat split; [assumption|congruence|auto].
Qed.

Lemma gens_le_snoc gs x : gens_le gs (gs ++ [x]).
Proof.
  split; [rewrite app_length; lia|]. intros g gn H. exists gn.
  split; [apply nth_error_snoc_old; assumption|auto].
Qed.

Lemma served_mono gs gs' ks : gens_le gs gs' -> served gs ks -> served gs' ks.
Proof.
  intros [_ H] (g & gn & r & E & A & P). destruct (H g gn E) as (gn' & E' & _ & A').
  exists g, gn', r. auto.
Qed.

Lemma res_of_mono gs gs' g res : gens_le gs gs' -> res_of gs g = Some res -> res_of gs' g = Some res.
Proof.
  intros [_ H] R. unfold res_of in *. destruct (nth_error gs g) as [gn|] eqn:E; [|discriminate].
  destruct (H g gn E) as (gn' & E' & _ & A'). rewrite E'.
  destruct (g_ans gn) as [r|] eqn:Ea; [|discriminate]. rewrite (A' r eq_refl). assumption.
Qed.

Section Proofs.
  Variable verify : jwk -> token -> bool.
  Notation step := (step verify).
  Notation exec := (exec verify).
  Notation cached_try := (cached_try verify).
  Notation remote_result := (remote_result verify).

  Lemma step_gens_le w e : gens_le (w_gens w) (w_gens (step w e)).
  Proof.
    destruct e as [tok|t|t|t|g r|g]; cbn.
    - apply gens_le_refl.
    - destruct (nth_error (w_callers w) t) as [c|]; [|apply gens_le_refl].
      unfold run_caller. destruct (c_pc c); cbn; try apply gens_le_refl.
      + destruct (w_inflight w); cbn; [apply gens_le_refl|].
        split; [rewrite app_length; lia|]. intros g gn H. exists gn.
        split; [apply nth_error_snoc_old; assumption|auto].
      + destruct (res_of (w_gens w) g); apply gens_le_refl.
    - destruct (nth_error (w_callers w) t) as [c|]; [|apply gens_le_refl].
      destruct (c_pc c); try apply gens_le_refl. destruct (c_cancelled c); apply gens_le_refl.
    - destruct (t <? List.length (w_callers w)); apply gens_le_refl.
    - destruct (nth_error (w_gens w) g) as [gn|] eqn:E; [|apply gens_le_refl].
      destruct (g_ans gn) eqn:Ea; [apply gens_le_refl|]. cbn.
      split; [rewrite upd_length; lia|]. intros g' gn' H.
      destruct (Nat.eq_dec g g') as [->|Hne].
      + rewrite (nth_error_upd_same _ _ _ _ H). eexists; split; [reflexivity|]. cbn.
        split; [reflexivity|]. intros r0 Hr. congruence.
      + rewrite nth_error_upd_other by assumption. exists gn'; auto.
    - destruct (nth_error (w_gens w) g) as [gn|] eqn:E; [|apply gens_le_refl].
      destruct (g_ans gn) eqn:Ea; [|apply gens_le_refl].
      destruct (g_committed gn) eqn:Ec; [apply gens_le_refl|]. cbn.
      split; [rewrite upd_length; lia|]. intros g' gn' H.
      destruct (Nat.eq_dec g g') as [->|Hne].
      + rewrite (nth_error_upd_same _ _ _ _ H). eexists; split; [reflexivity|]. cbn. auto.
      + rewrite nth_error_upd_other by assumption. exists gn'; auto.
  Qed.

  Lemma step_skip w e : w_skip (step w e) = w_skip w.
  Proof.
    destruct e as [tok|t|t|t|g r|g]; cbn; try reflexivity.
    - destruct (nth_error (w_callers w) t) as [c|]; [|reflexivity].
      unfold run_caller. destruct (c_pc c); cbn; try reflexivity.
      + destruct (w_inflight w); reflexivity.
      + destruct (res_of (w_gens w) g); reflexivity.
    - destruct (nth_error (w_callers w) t) as [c|]; [|reflexivity].
      destruct (c_pc c); try reflexivity. destruct (c_cancelled c); reflexivity.
    - destruct (t <? List.length (w_callers w)); reflexivity.
    - destruct (nth_error (w_gens w) g) as [gn|]; [|reflexivity]. destruct (g_ans gn); reflexivity.
    - destruct (nth_error (w_gens w) g) as [gn|]; [|reflexivity].
      destruct (g_ans gn); [|reflexivity]. destruct (g_committed gn); reflexivity.
  Qed.

  (* ---------- what is always true of one caller ---------- *)
  Definition caller_ok (gs : list gen) (skip : bool) (c : caller) : Prop :=
    c_joins c <= 1 /\
    (forall ks, c_read c = Some ks -> ks = [] \/ served gs ks) /\
    match c_pc c with
    | PCached => c_read c = None /\ c_gen c = None /\ c_joins c = 0
    | PLocked => c_gen c = None /\ c_joins c = 0 /\
                 exists ks, c_read c = Some ks /\ cached_try skip ks (c_tok c) = None
    | PWaiting g => c_gen c = Some g /\ g < List.length gs /\ c_joins c = 1
    | PDone r =>
        (c_gen c = None /\ c_joins c = 0 /\ exists ks, c_read c = Some ks /\ cached_try skip ks (c_tok c) = Some r)
        \/ (exists g, c_gen c = Some g /\ g < List.length gs /\ c_joins c = 1 /\
              ((r = RCtx /\ c_cancelled c = true)
               \/ exists res, res_of gs g = Some res /\ r = remote_result res (c_tok c)))
    end.

  Lemma caller_ok_mono gs gs' skip c : gens_le gs gs' -> caller_ok gs skip c -> caller_ok gs' skip c.
  Proof.
    intros L (J & R & P). pose proof L as [Ll _]. split; [assumption|]. split.
    - intros ks Hk. destruct (R ks Hk); [auto|right; eapply served_mono; eauto].
    - destruct (c_pc c); auto.
      + destruct P as (A & B & C). repeat split; [assumption|lia|assumption].
      + destruct P as [P|(g & A & B & C & D)]; [left; assumption|right].
        exists g. repeat split; [assumption|lia|assumption|].
        destruct D as [D|(res & D1 & D2)]; [left; assumption|right].
        exists res. split; [eapply res_of_mono; eauto|assumption].
  Qed.

  Lemma caller_ok_cancel gs skip c : caller_ok gs skip c ->
    caller_ok gs skip (mkCaller (c_tok c) (c_pc c) true (c_read c) (c_gen c) (c_joins c)).
  Proof.
    intros (J & R & P). unfold caller_ok; cbn. split; [assumption|]. split; [assumption|].
    destruct (c_pc c); auto.
    destruct P as [P|(g & A & B & C & D)]; [left; assumption|right].
    exists g. repeat split; try assumption.
    destruct D as [[D _]|D]; [left; auto|right; assumption].
  Qed.

  (* ---------- the invariant ---------- *)
  Definition inv_callers (w : world) : Prop :=
    forall t c, nth_error (w_callers w) t = Some c -> caller_ok (w_gens w) (w_skip w) c.
  Definition inv_cache (w : world) : Prop :=
    w_cache w = [] \/ served (w_gens w) (w_cache w).
  Definition inv_flight (w : world) : Prop :=
    (forall g gn, nth_error (w_gens w) g = Some gn -> g_committed gn = false -> w_inflight w = Some g) /\
    (forall g, w_inflight w = Some g -> exists gn, nth_error (w_gens w) g = Some gn /\ g_committed gn = false) /\
    (forall g gn, nth_error (w_gens w) g = Some gn -> g_committed gn = true -> g_ans gn <> None).
  Definition inv_count (w : world) : Prop :=
    w_fetches w = List.length (w_gens w) /\ w_fetches w <= sumj (w_callers w).
  Definition Inv (w : world) : Prop := inv_callers w /\ inv_cache w /\ inv_flight w /\ inv_count w.

  Lemma Inv_init skip : Inv (init skip).
  Proof.
    unfold Inv, inv_callers, inv_cache, inv_flight, inv_count; cbn.
    split; [intros t c H; destruct t; discriminate|]. split; [auto|].
    split; [|split; [reflexivity|lia]].
    split; [intros g gn H; destruct g; discriminate|].
    split; [intros g H; discriminate|intros g gn H; destruct g; discriminate].
  Qed.

  Lemma callers_upd_ok gs skip cs t f :
    (forall t c, nth_error cs t = Some c -> caller_ok gs skip c) ->
    (forall c, nth_error cs t = Some c -> caller_ok gs skip (f c)) ->
    forall t' c', nth_error (upd cs t f) t' = Some c' -> caller_ok gs skip c'.
  Proof.
    intros H Hf t' c' E. rewrite nth_error_upd in E. destruct (Nat.eqb_spec t t') as [->|].
    - destruct (nth_error cs t') as [c0|] eqn:E'; cbn in E; [|discriminate].
      inversion E; subst. apply Hf. reflexivity.
    - eapply H; eassumption.
  Qed.

  Lemma step_inv_callers w e : Inv w -> inv_callers (step w e).
  Proof.
    intros (HA & HB & (HC1 & HC2 & HC3) & HD).
    assert (HA' : forall t c, nth_error (w_callers w) t = Some c ->
                    caller_ok (w_gens (step w e)) (w_skip w) c).
    { intros t c H. eapply caller_ok_mono; [apply step_gens_le|]. eapply HA; eauto. }
    unfold inv_callers. rewrite step_skip.
    destruct e as [tok|t|t|t|g r|g]; cbn in *.
    - (* Arrive *)
      intros t c H. apply nth_error_snoc_inv in H. destruct H as [H|[-> ->]]; [eauto|].
      unfold caller_ok; cbn. repeat split; auto. intros ks E; discriminate.
    - (* Run *)
      destruct (nth_error (w_callers w) t) as [c|] eqn:Ec; [|exact HA'].
      pose proof (HA t c Ec) as (J & R & P).
      unfold run_caller in *. destruct (c_pc c) as [| |g|r] eqn:Epc; cbn in *.
      + (* PCached *)
        apply callers_upd_ok; [exact HA'|]. intros c0 E0. rewrite Ec in E0; inversion E0; subst c0.
        destruct P as (P1 & P2 & P3).
        unfold caller_ok; cbn. split; [lia|]. split.
        { intros ks E; inversion E; subst. exact HB. }
        destruct (cached_try (w_skip w) (w_cache w) (c_tok c)) as [r|] eqn:Et.
        * left. repeat split; auto. exists (w_cache w); auto.
        * repeat split; auto. exists (w_cache w); auto.
      + (* PLocked *)
        destruct P as (P1 & P2 & P3).
        destruct (w_inflight w) as [g|] eqn:Ei; cbn in *.
        * apply callers_upd_ok; [exact HA'|]. intros c0 E0. rewrite Ec in E0; inversion E0; subst c0.
          destruct (HC2 g eq_refl) as (gn & Eg & _).
          unfold caller_ok; cbn. split; [lia|]. split; [exact R|].
          repeat split; [|lia]. apply nth_error_Some. congruence.
        * apply callers_upd_ok; [exact HA'|]. intros c0 E0. rewrite Ec in E0; inversion E0; subst c0.
          unfold caller_ok; cbn. split; [lia|]. split.
          { intros ks E. destruct (R ks E); [auto|right].
            eapply served_mono; [|eassumption]. apply gens_le_snoc. }
          repeat split; [|lia]. rewrite app_length; cbn; lia.
      + (* PWaiting *)
        destruct P as (P1 & P2 & P3).
        destruct (res_of (w_gens w) g) as [res|] eqn:Er; cbn in *; [|exact HA'].
        apply callers_upd_ok; [exact HA'|]. intros c0 E0. rewrite Ec in E0; inversion E0; subst c0.
        unfold caller_ok, set_pc; cbn. split; [lia|]. split; [exact R|].
        right. exists g. repeat split; auto. right. exists res; auto.
      + exact HA'.
    - (* RunCtx *)
      destruct (nth_error (w_callers w) t) as [c|] eqn:Ec; [|exact HA'].
      pose proof (HA t c Ec) as (J & R & P).
      destruct (c_pc c) as [| |g|r] eqn:Epc; try exact HA'.
      destruct (c_cancelled c) eqn:Ecan; [|exact HA']. cbn.
      apply callers_upd_ok; [exact HA'|]. intros c0 E0. rewrite Ec in E0; inversion E0; subst c0.
      destruct P as (P1 & P2 & P3).
      unfold caller_ok, set_pc; cbn. split; [lia|]. split; [exact R|].
      right. exists g. repeat split; auto.
    - (* Cancel *)
      destruct (t <? List.length (w_callers w)); cbn; [|exact HA'].
      apply callers_upd_ok; [exact HA'|]. intros c0 E0. apply caller_ok_cancel. eauto.
    - (* FetchReturns *)
      destruct (nth_error (w_gens w) g) as [gn|] eqn:Eg; [|exact HA'].
      destruct (g_ans gn); exact HA'.
    - (* Commit *)
      destruct (nth_error (w_gens w) g) as [gn|] eqn:Eg; [|exact HA'].
      destruct (g_ans gn); [|exact HA']. destruct (g_committed gn); exact HA'.
  Qed.

  Lemma step_inv_cache w e : Inv w -> inv_cache (step w e).
  Proof.
    intros (HA & HB & HC & HD). unfold inv_cache.
    assert (HB' : w_cache w = [] \/ served (w_gens (step w e)) (w_cache w)).
    { destruct HB; [auto|right]. eapply served_mono; [apply step_gens_le|assumption]. }
    destruct e as [tok|t|t|t|g r|g]; cbn in *; try exact HB'.
    - destruct (nth_error (w_callers w) t) as [c|]; [|exact HB'].
      unfold run_caller in *. destruct (c_pc c); cbn in *; try exact HB'.
      + destruct (w_inflight w); exact HB'.
      + destruct (res_of (w_gens w) g); exact HB'.
    - destruct (nth_error (w_callers w) t) as [c|]; [|exact HB'].
      destruct (c_pc c); try exact HB'. destruct (c_cancelled c); exact HB'.
    - destruct (t <? List.length (w_callers w)); exact HB'.
    - destruct (nth_error (w_gens w) g) as [gn|]; [|exact HB']. destruct (g_ans gn); exact HB'.
    - destruct (nth_error (w_gens w) g) as [gn|] eqn:Eg; [|exact HB'].
      destruct (g_ans gn) as [r|] eqn:Ea; [|exact HB'].
      destruct (g_committed gn) eqn:Ecm; [exact HB'|]. cbn in *.
      destruct (parse r) as [ks|] eqn:Ep; [|exact HB'].
      right. exists g. eexists. exists r. split; [apply nth_error_upd_same; eassumption|]. cbn. auto.
  Qed.

  Lemma step_inv_flight w e : Inv w -> inv_flight (step w e).
  Proof.
    intros (HA & HB & (HC1 & HC2 & HC3) & HD). unfold inv_flight.
    destruct e as [tok|t|t|t|g r|g]; cbn.
    - auto.
    - destruct (nth_error (w_callers w) t) as [c|]; [|auto].
      unfold run_caller. destruct (c_pc c); cbn; auto.
      + destruct (w_inflight w) as [g|] eqn:Ei; cbn; [rewrite Ei; auto|].
        split; [|split].
        * intros g gn H Hc. apply nth_error_snoc_inv in H. destruct H as [H|[-> _]]; [|reflexivity].
          specialize (HC1 g gn H Hc). congruence.
        * intros g E; inversion E; subst. eexists; split; [apply nth_error_snoc_new|reflexivity].
        * intros g gn H Hc. apply nth_error_snoc_inv in H. destruct H as [H|[_ ->]]; [eauto|discriminate].
      + destruct (res_of (w_gens w) g); cbn; auto.
    - destruct (nth_error (w_callers w) t) as [c|]; [|auto].
      destruct (c_pc c); auto. destruct (c_cancelled c); cbn; auto.
    - destruct (t <? List.length (w_callers w)); cbn; auto.
    - destruct (nth_error (w_gens w) g) as [gn|] eqn:Eg; [|auto].
      destruct (g_ans gn) eqn:Ea; [auto|]. cbn. split; [|split].
      + intros g' gn' H Hc. rewrite nth_error_upd in H. destruct (Nat.eqb_spec g g') as [->|].
        * rewrite Eg in H; cbn in H; inversion H; subst; cbn in Hc. eauto.
        * eauto.
      + intros g' E. destruct (HC2 g' E) as (gn' & E' & Hc). destruct (Nat.eq_dec g g') as [->|Hne].
        * eexists; split; [apply nth_error_upd_same; eassumption|]. cbn. congruence.
        * exists gn'. rewrite nth_error_upd_other by assumption. auto.
      + intros g' gn' H Hc. rewrite nth_error_upd in H. destruct (Nat.eqb_spec g g') as [->|].
        * rewrite Eg in H; cbn in H; inversion H; subst; cbn. discriminate.
        * eauto.
    - destruct (nth_error (w_gens w) g) as [gn|] eqn:Eg; [|auto].
      destruct (g_ans gn) as [r|] eqn:Ea; [|auto].
      destruct (g_committed gn) eqn:Ecm; [auto|]. cbn.
      pose proof (HC1 g gn Eg Ecm) as Hin. split; [|split].
      + intros g' gn' H Hc. rewrite nth_error_upd in H. destruct (Nat.eqb_spec g g') as [->|Hne].
        * rewrite Eg in H; cbn in H; inversion H; subst; cbn in Hc. discriminate.
        * specialize (HC1 g' gn' H Hc). congruence.
      + intros g' E; discriminate.
      + intros g' gn' H Hc. rewrite nth_error_upd in H. destruct (Nat.eqb_spec g g') as [->|Hne].
        * rewrite Eg in H; cbn in H; inversion H; subst; cbn. congruence.
        * eauto.
  Qed.

  Lemma sumj_app a b : sumj (a ++ b) = sumj a + sumj b.
  Proof. induction a; cbn; lia. Qed.

  Lemma sumj_upd l n f c :
    nth_error l n = Some c -> sumj (upd l n f) + c_joins c = sumj l + c_joins (f c).
  Proof.
    revert n; induction l as [|x l IH]; intros [|n] H; cbn in *; try discriminate.
    - inversion H; subst. lia.
    - specialize (IH n H). lia.
  Qed.

  Lemma sumj_le l : (forall t c, nth_error l t = Some c -> c_joins c <= 1) -> sumj l <= List.length l.
  Proof.
    induction l as [|x l IH]; intro H; cbn; [lia|].
    pose proof (H 0 x eq_refl). assert (sumj l <= List.length l).
    { apply IH. intros t c E. apply (H (S t) c E). }
    lia.
  Qed.

  Lemma step_inv_count w e : Inv w -> inv_count (step w e).
  Proof.
    intros (HA & HB & HC & (HD1 & HD2)). unfold inv_count.
    destruct e as [tok|t|t|t|g r|g]; cbn.
    - rewrite sumj_app; cbn. lia.
    - destruct (nth_error (w_callers w) t) as [c|] eqn:Ec; [|auto].
      unfold run_caller. destruct (c_pc c); cbn; auto.
      + pose proof (sumj_upd (w_callers w) t
          (fun c0 => mkCaller (c_tok c0)
             match C13_RemoteKeys.cached_try verify (w_skip w) (w_cache w) (c_tok c) with
             | Some r => PDone r | None => PLocked end
             (c_cancelled c0) (Some (w_cache w)) None (c_joins c0)) c Ec) as S. cbn in S. lia.
      + destruct (w_inflight w) as [g|]; cbn.
        * pose proof (sumj_upd (w_callers w) t
            (fun c0 => mkCaller (c_tok c0) (PWaiting g) (c_cancelled c0) (c_read c0) (Some g) (S (c_joins c0))) c Ec) as S.
          cbn in S. lia.
        * pose proof (sumj_upd (w_callers w) t
            (fun c0 => mkCaller (c_tok c0) (PWaiting (List.length (w_gens w))) (c_cancelled c0) (c_read c0)
                         (Some (List.length (w_gens w))) (S (c_joins c0))) c Ec) as S.
          cbn in S. rewrite app_length; cbn. lia.
      + destruct (res_of (w_gens w) g); cbn; auto.
        pose proof (sumj_upd (w_callers w) t (set_pc (PDone (remote_result o (c_tok c)))) c Ec) as S.
        cbn in S. lia.
    - destruct (nth_error (w_callers w) t) as [c|] eqn:Ec; [|auto].
      destruct (c_pc c); auto. destruct (c_cancelled c); cbn; auto.
      pose proof (sumj_upd (w_callers w) t (set_pc (PDone RCtx)) c Ec) as S. cbn in S. lia.
    - destruct (t <? List.length (w_callers w)) eqn:El; cbn; auto.
      apply Nat.ltb_lt in El. destruct (nth_error (w_callers w) t) as [c|] eqn:Ec.
      + pose proof (sumj_upd (w_callers w) t
          (fun c0 => mkCaller (c_tok c0) (c_pc c0) true (c_read c0) (c_gen c0) (c_joins c0)) c Ec) as S.
        cbn in S. lia.
      + apply nth_error_None in Ec. lia.
    - destruct (nth_error (w_gens w) g) as [gn|]; [|auto].
      destruct (g_ans gn); cbn; auto. rewrite upd_length. auto.
    - destruct (nth_error (w_gens w) g) as [gn|]; [|auto].
      destruct (g_ans gn); [|auto]. destruct (g_committed gn); cbn; auto. rewrite upd_length. auto.
  Qed.

  Lemma step_Inv w e : Inv w -> Inv (step w e).
  Proof.
    intro H. split; [apply step_inv_callers; assumption|].
    split; [apply step_inv_cache; assumption|].
    split; [apply step_inv_flight; assumption|apply step_inv_count; assumption].
  Qed.

  Lemma exec_Inv w evs : Inv w -> Inv (exec w evs).
  Proof.
    revert w; induction evs as [|e evs IH]; intros w H; cbn; [assumption|].
    apply IH. apply step_Inv. assumption.
  Qed.

  Lemma reach_Inv skip evs : Inv (exec (init skip) evs).
  Proof. apply exec_Inv, Inv_init. Qed.

  Lemma exec_cons w e evs : exec w (e :: evs) = exec (step w e) evs.
  Proof. reflexivity. Qed.

  Lemma exec_skip w evs : w_skip (exec w evs) = w_skip w.
  Proof.
    revert w; induction evs as [|e evs IH]; intro w; [reflexivity|].
    rewrite exec_cons, IH. apply step_skip.
  Qed.

  Lemma exec_app w a b : exec w (a ++ b) = exec (exec w a) b.
  Proof. unfold C13_RemoteKeys.exec. apply fold_left_app. Qed.
End Proofs.
