(* C13: concrete schedules showing that the theorems' hypotheses are met non-trivially. *)
From OIDC Require Import Lib C13_RemoteKeys C13_spec.

Definition xkA := mkJwk "a" KEc "sig" 1.
Definition xkB := mkJwk "b" KOkp "sig" 2.
Definition xtA := mkTok "a" "ES256" 1.
Definition xtB := mkTok "b" "EdDSA" 2.
Definition xgood1 := Http true (Doc [Some xkA]).
Definition xgood2 := Http true (Doc [None; Some xkA; Some xkB]).

(* two callers share one download, both accepted *)
Definition xs_share : list event :=
  [Arrive xtA; Arrive xtA; Run 0; Run 1; Run 0; Run 1; FetchReturns 0 xgood1; Run 1; Commit 0; Run 0].
Example accept_nonvacuous :
  let w := exec sym_verify (init false) xs_share in
  pc_of w 0 = Some (PDone (ROk xkA)) /\ pc_of w 1 = Some (PDone (ROk xkA)) /\ w_fetches w = 1.
Proof. vm_compute. auto. Qed.

(* rotation: cached {A}; a token of the new key B refreshes and verifies; A still served from cache *)
Definition xs_rotate : list event :=
  xs_share ++ [Arrive xtB; Run 2; Run 2; Arrive xtA; Run 3; FetchReturns 1 xgood2; Commit 1; Run 2].
Example rotation_nonvacuous :
  let w := exec sym_verify (init false) xs_rotate in
  pc_of w 2 = Some (PDone (ROk xkB)) /\ pc_of w 3 = Some (PDone (ROk xkA)) /\ w_fetches w = 2.
Proof. vm_compute. auto. Qed.

(* a failed download: the waiter fails, the cache keeps A, A's token still verifies without a fetch *)
Definition xs_fail : list event :=
  xs_share ++ [Arrive xtB; Run 2; Run 2; FetchReturns 1 (Http false (Doc [Some xkB])); Run 2; Commit 1; Arrive xtA; Run 3].
Example failure_nonvacuous :
  let w := exec sym_verify (init false) xs_fail in
  pc_of w 2 = Some (PDone RFetch) /\ w_cache w = [xkA] /\ pc_of w 3 = Some (PDone (ROk xkA)) /\ w_fetches w = 2.
Proof. vm_compute. auto. Qed.

(* unknown kid: one refresh, then rejected *)
Example unknown_kid_nonvacuous :
  let w := exec sym_verify (init false)
             (xs_share ++ [Arrive (mkTok "zz" "ES256" 1); Run 2; Run 2; FetchReturns 1 xgood1; Commit 1; Run 2; Run 2; Run 2]) in
  pc_of w 2 = Some (PDone RNoKey) /\ w_fetches w = 2.
Proof. vm_compute. auto. Qed.

(* the owner of the download is cancelled; the joiner is still accepted *)
Definition xs_cancel : list event :=
  [Arrive xtA; Arrive xtA; Run 0; Run 1; Run 0; Run 1; Cancel 0; RunCtx 0; FetchReturns 0 xgood1; Commit 0; Run 1].
Example cancel_nonvacuous :
  let w := exec sym_verify (init false) xs_cancel in
  pc_of w 0 = Some (PDone RCtx) /\ pc_of w 1 = Some (PDone (ROk xkA)) /\
  drop_cancels 0 xs_cancel <> xs_cancel.
Proof. vm_compute. repeat split; auto. discriminate. Qed.

(* the property predicate accepts the model's own answer on a script touching every clause *)
Example spec_model_nonvacuous :
  let sc := Script false [MArrive xtA; MArrive xtA; MCancel 0; MRelease xgood1; MArrive xtB;
                          MRelease (Http false (Doc [Some xkB])); MArrive xtA; MArrive xtB; MRelease xgood2] in
  spec sc (model sc) = true.
Proof. vm_compute. reflexivity. Qed.

(* an expired deadline is the caller's own context dying: same clauses *)
Example spec_model_expire_nonvacuous :
  let sc := Script false [MArrive xtA; MArrive xtA; MArrive xtA; MExpire 0; MExpire 2; MRelease xgood1] in
  spec sc (model sc) = true /\
  spec sc (OScript [mkSnap 1 false [SPending] [] true; mkSnap 1 false [SPending; SPending] [] true;
                    mkSnap 1 false [SPending; SPending; SPending] [] true;
                    mkSnap 1 false [SErr ECtx; SErr EFetch; SErr EFetch] [] true;
                    mkSnap 1 false [SErr ECtx; SErr EFetch; SErr EFetch] [] true;
                    mkSnap 1 false [SErr ECtx; SErr EFetch; SErr EFetch] [] true]) = false.
Proof. vm_compute. auto. Qed.

(* recovery: a failed download, then the endpoint recovers and serves a rotated key *)
Example spec_recovery_nonvacuous :
  let sc := Script false [MArrive xtA; MRelease (Http true (BadDoc BadTruncated)); MArrive xtB; MRelease xgood2; MArrive xtB] in
  spec sc (model sc) = true /\
  (* the stale error of the earlier download handed to the later call: rejected *)
  spec sc (OScript [mkSnap 1 false [SPending] [] true; mkSnap 1 true [SErr EFetch] [] true;
                    mkSnap 1 false [SErr EFetch; SErr EFetch] [] true;
                    mkSnap 1 false [SErr EFetch; SErr EFetch] [] true;
                    mkSnap 1 false [SErr EFetch; SErr EFetch; SErr EFetch] [] true]) = false.
Proof. vm_compute. auto. Qed.

(* one kid, two key types (RFC 7517 4.5), the non-fitting type listed first: the served signer verifies *)
Example spec_same_kid_two_types_nonvacuous :
  let c := [mkJwk "a" KRsa "sig" 9; xkA; mkJwk "" KOkp "sig" 7] in
  let body := Http true (Doc (map Some c)) in
  let sc := Script false [MArrive xtA; MRelease body; MArrive xtA] in
  spec sc (model sc) = true /\
  model sc = OScript [mkSnap 1 false [SPending] [] true; mkSnap 1 true [SOk] c true;
                      mkSnap 1 false [SOk; SOk] c true] /\
  spec sc (OScript [mkSnap 1 false [SPending] [] true; mkSnap 1 true [SErr ESig] c true;
                    mkSnap 1 false [SErr ESig; SErr ESig] c true]) = false.
Proof. vm_compute. auto. Qed.

(* keys published WITHOUT kid, tokens WITH kid, then a rotation: the new key's token refreshes and
   verifies (the retired key's token is still answered by the cache); turning it away on arrival
   without a download is rejected *)
Example spec_kidless_rotation_nonvacuous :
  let kO := mkJwk "" KEc "sig" 1 in let kN := mkJwk "" KEc "sig" 3 in
  let tO := mkTok "x" "ES256" 1 in let tN := mkTok "x" "ES256" 3 in
  let sc := Script false [MRotate [kO]; MArrive tO; MRelease (Http true (Doc [Some kO])); MRotate [kN];
                          MArrive tN; MArrive tO; MRelease (Http true (Doc [Some kN]))] in
  spec sc (model sc) = true /\
  model sc = OScript [mkSnap 0 false [] [] true; mkSnap 1 false [SPending] [] true; mkSnap 1 true [SOk] [kO] true;
                      mkSnap 1 false [SOk] [kO] true; mkSnap 2 false [SOk; SPending] [kO] true;
                      mkSnap 2 false [SOk; SPending; SOk] [kO] true; mkSnap 2 true [SOk; SOk; SOk] [kN] true] /\
  spec sc (OScript [mkSnap 0 false [] [] true; mkSnap 1 false [SPending] [] true; mkSnap 1 true [SOk] [kO] true;
                    mkSnap 1 false [SOk] [kO] true; mkSnap 1 false [SOk; SErr ESig] [kO] true;
                    mkSnap 1 false [SOk; SErr ESig; SOk] [kO] true; mkSnap 1 false [SOk; SErr ESig; SOk] [kO] true]) = false.
Proof. vm_compute. auto. Qed.

(* and rejects what the unrepaired code did (F13): B fails when A is cancelled *)
Example spec_rejects_F13 :
  spec (Script false [MArrive xtA; MArrive xtA; MCancel 0; MRelease xgood1])
       (OScript [mkSnap 1 false [SPending] [] true; mkSnap 1 false [SPending; SPending] [] true;
                 mkSnap 1 false [SErr ECtx; SErr EFetch] [] true; mkSnap 1 false [SErr ECtx; SErr EFetch] [] true]) = false.
Proof. vm_compute. reflexivity. Qed.

(* a JWKS outage after a warm cache: the refresh an unknown kid triggers is answered 200 with an
   EMPTY body (then blank, null, {} ... - all BadDoc), the endpoint then fails with 5xx: the
   cached key keeps verifying without a download.  Taking the empty body for a download of zero
   keys (cache emptied, the cached key's token sent to the endpoint that is down) is rejected,
   whether the verif hook or only the callers' answers show it. *)
Example spec_outage_nonvacuous :
  let tU := mkTok "zz" "ES256" 5 in
  let sc := Script false [MRotate [xkA]; MArrive xtA; MRelease xgood1; MArrive tU;
                          MRelease (Http true (BadDoc BadEmpty)); MArrive xtA; MArrive tU;
                          MRelease (Http false (BadDoc BadNoKeys)); MArrive xtA] in
  spec sc (model sc) = true /\
  model sc = OScript [mkSnap 0 false [] [] true; mkSnap 1 false [SPending] [] true; mkSnap 1 true [SOk] [xkA] true;
                      mkSnap 2 false [SOk; SPending] [xkA] true; mkSnap 2 true [SOk; SErr EFetch] [xkA] true;
                      mkSnap 2 false [SOk; SErr EFetch; SOk] [xkA] true;
                      mkSnap 3 false [SOk; SErr EFetch; SOk; SPending] [xkA] true;
                      mkSnap 3 true [SOk; SErr EFetch; SOk; SErr EFetch] [xkA] true;
                      mkSnap 3 false [SOk; SErr EFetch; SOk; SErr EFetch; SOk] [xkA] true] /\
  (* the hook shows the emptied cache *)
  spec sc (OScript [mkSnap 0 false [] [] true; mkSnap 1 false [SPending] [] true; mkSnap 1 true [SOk] [xkA] true;
                    mkSnap 2 false [SOk; SPending] [xkA] true; mkSnap 2 true [SOk; SErr ENoKey] [] true;
                    mkSnap 3 false [SOk; SErr ENoKey; SPending] [] true;
                    mkSnap 3 false [SOk; SErr ENoKey; SPending; SPending] [] true;
                    mkSnap 3 true [SOk; SErr ENoKey; SErr EFetch; SErr EFetch] [] true;
                    mkSnap 4 false [SOk; SErr ENoKey; SErr EFetch; SErr EFetch; SPending] [] true]) = false /\
  (* without looking at the cache: the cached key's token has to wait for a download *)
  spec sc (OScript [mkSnap 0 false [] [] true; mkSnap 1 false [SPending] [] true; mkSnap 1 true [SOk] [xkA] true;
                    mkSnap 2 false [SOk; SPending] [xkA] true; mkSnap 2 true [SOk; SErr ENoKey] [xkA] true;
                    mkSnap 3 false [SOk; SErr ENoKey; SPending] [xkA] true;
                    mkSnap 3 false [SOk; SErr ENoKey; SPending; SPending] [xkA] true;
                    mkSnap 3 true [SOk; SErr ENoKey; SErr EFetch; SErr EFetch] [xkA] true;
                    mkSnap 4 false [SOk; SErr ENoKey; SErr EFetch; SErr EFetch; SPending] [xkA] true]) = false.
Proof. vm_compute. auto. Qed.

(* key ids are compared byte for byte: a kid that differs from a published one by case only is
   an unknown kid - one refresh, then rejected; accepting it is refused by the predicate although
   the signer's key is served; and when both spellings are published each token gets its own key *)
Example spec_near_kid_nonvacuous :
  let kU := mkJwk "A" KEc "sig" 4 in
  let tNear := mkTok "A" "ES256" 1 in      (* signed by the key published as "a" *)
  let sc := Script false [MRotate [xkA]; MArrive xtA; MRelease xgood1; MArrive tNear; MRelease xgood1] in
  let sc2 := Script false [MRotate [xkA; kU]; MArrive (mkTok "A" "ES256" 4);
                           MRelease (Http true (Doc [Some xkA; Some kU])); MArrive xtA] in
  spec sc (model sc) = true /\
  model sc = OScript [mkSnap 0 false [] [] true; mkSnap 1 false [SPending] [] true; mkSnap 1 true [SOk] [xkA] true;
                      mkSnap 2 false [SOk; SPending] [xkA] true; mkSnap 2 true [SOk; SErr ENoKey] [xkA] true] /\
  spec sc (OScript [mkSnap 0 false [] [] true; mkSnap 1 false [SPending] [] true; mkSnap 1 true [SOk] [xkA] true;
                    mkSnap 1 false [SOk; SOk] [xkA] true; mkSnap 1 false [SOk; SOk] [xkA] true]) = false /\
  spec sc (OScript [mkSnap 0 false [] [] true; mkSnap 1 false [SPending] [] true; mkSnap 1 true [SOk] [xkA] true;
                    mkSnap 2 false [SOk; SPending] [xkA] true; mkSnap 2 true [SOk; SOk] [xkA] true]) = false /\
  spec sc2 (model sc2) = true /\
  spec sc2 (OScript [mkSnap 0 false [] [] true; mkSnap 1 false [SPending] [] true;
                     mkSnap 1 true [SErr ESig] [xkA; kU] true; mkSnap 1 false [SErr ESig; SOk] [xkA; kU] true]) = false.
Proof. vm_compute. auto 10. Qed.

(* a verification that rewrites an entry of the cached list (here: its kid) is seen *)
Example spec_cache_entry_rewritten_nonvacuous :
  let sc := Script false [MRotate [xkA]; MArrive xtA; MRelease xgood1; MArrive xtA] in
  spec sc (model sc) = true /\
  spec sc (OScript [mkSnap 0 false [] [] true; mkSnap 1 false [SPending] [] true; mkSnap 1 true [SOk] [xkA] true;
                    mkSnap 1 false [SOk; SOk] [mkJwk "A" KEc "sig" 1] true]) = false.
Proof. vm_compute. auto. Qed.

(* two key sets for one jwks_uri string behind different http clients: the neighbour's download
   (key B only) is not this key set's; inheriting the neighbour's cache - B's token accepted, the
   own endpoint's key A refused - is rejected *)
Example spec_neighbour_nonvacuous :
  let sc := Script false [MNeighbour [xkB]; MRotate [xkA]; MArrive xtB; MArrive xtA; MRelease xgood1] in
  spec sc (model sc) = true /\
  model sc = OScript [mkSnap 0 false [] [] true; mkSnap 0 false [] [] true; mkSnap 1 false [SPending] [] true;
                      mkSnap 1 false [SPending; SPending] [] true; mkSnap 1 true [SErr ENoKey; SOk] [xkA] true] /\
  spec sc (OScript [mkSnap 0 false [] [xkB] true; mkSnap 0 false [] [xkB] true; mkSnap 0 false [SOk] [xkB] true;
                    mkSnap 1 false [SOk; SPending] [xkB] true; mkSnap 1 true [SOk; SOk] [xkA] true]) = false /\
  spec sc (OScript [mkSnap 0 false [] [] true; mkSnap 0 false [] [] true; mkSnap 0 false [SOk] [] true;
                    mkSnap 1 false [SOk; SPending] [] true; mkSnap 1 true [SOk; SOk] [xkA] true]) = false.
Proof. vm_compute. auto. Qed.
