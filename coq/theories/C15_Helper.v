(* C15, round 11: the CLIENT side of token exchange and the request VIEW the provider hands to
   its storage.

   Go                                                           Gallina
   pkg/oidc/grants/tokenexchange  NewTokenExchangeRequest,      new_request, apply_opt
     WithActorToken / WithAudience / WithGrantType /
     WithRequestedTokenType / WithResource / WithScope
   pkg/client/rp  DelegationTokenRequest                        dispatch (CallDelegation ..)
   pkg/client/tokenexchange  ExchangeToken (both required       dispatch (CallClient ..)
     parameters checked before anything is sent)
   client.CallTokenExchangeEndpoint -> httphelper.FormRequest   encode (what the schema encoder
     with client.Encoder                                          writes for the two request structs)
   op.ParseTokenExchangeRequest (schema decoder)                parse
   op.CreateTokenExchangeRequest -> tokenExchangeRequest and    read_full, exch_views
     its getters GetExchangeSubject, ...TokenType,
     ...TokenIDOrToken, ...TokenClaims (subject and actor),
     GetResourses, GetAudience, GetScopes,
     GetRequestedTokenType, GetClientID, GetSubject

   Token strings are the presented-token descriptions of C08_OP (ptok / tokstr). *)
From OIDC Require Import Lib.
From OIDC Require Export C08_OP.

(* ---------------------------------------------------------------- space-delimited lists *)

Definition is_space (c : ascii) : bool := Ascii.eqb c " "%char.

(* strings.Split(s, " ") *)
Fixpoint split_sp (s : string) : list string :=
  match s with
  | EmptyString => [EmptyString]
  | String c r =>
      if is_space c then EmptyString :: split_sp r
      else match split_sp r with
           | h :: t => String c h :: t
           | [] => [String c EmptyString]
           end
  end.
(* strings.Join(l, " ") *)
Fixpoint join_sp (l : list string) : string :=
  match l with
  | [] => EmptyString
  | [x] => x
  | x :: r => String.append x (String " "%char (join_sp r))
  end.
(* the scope words of a parameter value.  oidc.SpaceDelimitedArray.UnmarshalText splits at every
   space; an empty word is no scope (RFC 6749: scope-token = 1*NQCHAR) - the observation drops
   empty words on both sides (ExchangeToken without scopes sends "scope=", which the provider
   decodes to one empty word). *)
Definition words (s : string) : list string := filter nonempty (split_sp s).

Fixpoint last_opt {A} (l : list A) : option A :=
  match l with
  | [] => None
  | [x] => Some x
  | _ :: r => last_opt r
  end.

(* ---------------------------------------------------------------- the caller's side *)

(* grant_type on the wire: the token-exchange URN, or a value that names no grant of the provider *)
Inductive gtype := GExchange | GOther.

(* tokenexchange.TokenExchangeOption *)
Inductive hopt :=
| WActor (t : ptok) (typ : ttype)        (* WithActorToken(token, tokenType) *)
| WAudience (l : list string)            (* WithAudience *)
| WGrant (g : gtype)                     (* WithGrantType *)
| WRequested (typ : ttype)               (* WithRequestedTokenType *)
| WResource (l : list string)            (* WithResource *)
| WScope (l : list string).              (* WithScope *)

(* the request value a helper builds (grants/tokenexchange.TokenExchangeRequest, resp. the
   oidc.TokenExchangeRequest literal of ExchangeToken) *)
Record treq := TReq { q_grant : gtype; q_subj : ptok; q_styp : ttype; q_actor : option (ptok * ttype);
                      q_resource : list string; q_audience : list string; q_scope : list string;
                      q_requested : ttype }.

Definition apply_opt (q : treq) (o : hopt) : treq :=
  match o with
  | WActor t typ => TReq (q_grant q) (q_subj q) (q_styp q) (Some (t, typ)) (q_resource q) (q_audience q) (q_scope q) (q_requested q)
  | WAudience l => TReq (q_grant q) (q_subj q) (q_styp q) (q_actor q) (q_resource q) l (q_scope q) (q_requested q)
  | WGrant g => TReq g (q_subj q) (q_styp q) (q_actor q) (q_resource q) (q_audience q) (q_scope q) (q_requested q)
  | WRequested typ => TReq (q_grant q) (q_subj q) (q_styp q) (q_actor q) (q_resource q) (q_audience q) (q_scope q) typ
  | WResource l => TReq (q_grant q) (q_subj q) (q_styp q) (q_actor q) l (q_audience q) (q_scope q) (q_requested q)
  | WScope l => TReq (q_grant q) (q_subj q) (q_styp q) (q_actor q) (q_resource q) (q_audience q) l (q_requested q)
  end.

(* NewTokenExchangeRequest: grant type token-exchange, requested type access_token, then the
   options in the order given *)
Definition new_request (subj : ptok) (styp : ttype) (opts : list hopt) : treq :=
  fold_left apply_opt opts (TReq GExchange subj styp None [] [] [] TAccess).

(* a call of one of the library's client helpers *)
Inductive hcall :=
(* tokenexchange.NewTokenExchangeRequest(subj, styp, opts...), sent with client.CallTokenExchangeEndpoint *)
| CallGrants (subj : ptok) (styp : ttype) (opts : list hopt)
(* rp.DelegationTokenRequest(subj, opts...), sent the same way *)
| CallDelegation (subj : ptok) (opts : list hopt)
(* tokenexchange.ExchangeToken(ctx, te, subj, styp, actor, actorType, resource, audience, scopes, requested) *)
| CallClient (subj : ptok) (styp : ttype) (actor : option (ptok * ttype))
             (resource audience scope : list string) (requested : ttype).

(* the form a request is sent as, read at the HTTP transport.  w_scope: the VALUES of the scope
   parameter, in order (none if the parameter is absent) *)
Record wire := Wire { w_ep : bool;      (* sent to the token endpoint the exchanger was configured with *)
                      w_grant : gtype; w_subj : ptok; w_styp : ttype; w_actor : option (ptok * ttype);
                      w_resource : list string; w_audience : list string; w_scope : list string;
                      w_requested : ttype }.

(* the schema encoder: a []string field is written as one value per element (nothing for an
   empty list); an oidc.SpaceDelimitedArray field as ONE value, the elements joined by spaces
   (also for an empty list: "scope=").  spaced: the scope field is a SpaceDelimitedArray
   (oidc.TokenExchangeRequest).  In grants/tokenexchange.TokenExchangeRequest it is a []string
   which WithScope fills with ONE element, the scopes joined by spaces (nothing for an empty
   list; fix of Fxx-C15-1 - before it the field held the scopes one by one and the form carried
   one scope parameter per scope) - so the form carries one scope parameter, or none. *)
Definition encode (spaced : bool) (q : treq) : wire :=
  Wire true (q_grant q) (q_subj q) (q_styp q) (q_actor q) (q_resource q) (q_audience q)
       (if spaced then [join_sp (q_scope q)]
        else match q_scope q with [] => [] | _ => [join_sp (q_scope q)] end)
       (q_requested q).

(* what a helper sends; None: it refuses before anything is sent (ExchangeToken: "empty
   subject_token_type") *)
Definition dispatch (call : hcall) : option wire :=
  match call with
  | CallGrants subj styp opts => Some (encode false (new_request subj styp opts))
  | CallDelegation subj opts => Some (encode false (new_request subj TAccess opts))
  | CallClient subj styp actor res aud sc req =>
      match styp with
      | TAbsent => None
      | _ => Some (encode true (TReq GExchange subj styp actor res aud sc req))
      end
  end.

(* ---------------------------------------------------------------- the provider's side *)

(* op.ParseTokenExchangeRequest: the schema decoder fills oidc.TokenExchangeRequest.  []string /
   Audience fields take every non-empty value; the SpaceDelimitedArray field takes the LAST value
   of the parameter and splits it at spaces. *)
Definition parse (w : wire) : treq :=
  TReq (w_grant w) (w_subj w) (w_styp w) (w_actor w)
       (filter nonempty (w_resource w)) (filter nonempty (w_audience w))
       (match last_opt (w_scope w) with Some v => words v | None => [] end)
       (w_requested w).

(* the token-exchange operation the provider performs for a parsed request *)
Definition op_of (r : router) (c : cred) (q : treq) : gop ptok :=
  Exchange r c (q_subj q) (q_styp q) (q_actor q) (q_requested q) (q_scope q) (q_audience q).

(* ---------------------------------------------------------------- the request view *)

(* GetExchange{Subject,Actor}TokenIDOrToken: a storage id (access tokens), or the token itself *)
Inductive vid := VSid (s : sid) | VSelf.
(* one token of the request as the getters show it: GetExchangeSubject / GetExchangeActor, the
   declared type, id-or-token, and the token's claims (None: no claims map; Some s: a claims
   map whose sub is s) *)
Record tview := TView { v_sub : string; v_typ : ttype; v_id : vid; v_claims : option string }.
Record view := View { vw_subject : string;            (* GetSubject *)
                      vw_client : string;             (* GetClientID *)
                      vw_subj : tview;
                      vw_actor : option tview;        (* None: all four actor getters are empty *)
                      vw_resource : list string;      (* GetResourses *)
                      vw_audience : list string;      (* GetAudience *)
                      vw_scopes : list string;        (* GetScopes *)
                      vw_requested : ttype }.         (* GetRequestedTokenType *)

Definition claims_of (typ : ttype) (t : tokstr) : option string :=
  match typ, t with
  | (TAccess | TId), Jwt _ _ _ _ sub _ => Some sub
  | _, _ => None
  end.

(* GetTokenIDAndSubjectFromToken, all four results: the id the storage's liveness test is asked
   about (as C08_OP.read_x) and the view of the token *)
Definition read_full (g : store) (actor : bool) (typ : ttype) (t : tokstr) : option (sid * tview) :=
  match read_native g typ t with
  | Some (id, sub) => Some (id, TView sub typ (match typ with TAccess => VSid id | _ => VSelf end) (claims_of typ t))
  | None =>
      if supported typ && p_verifier (policy g) then
        match t with
        | Ext c sub => if ext_accepts c actor then Some (Junk, TView sub typ VSelf None) else None
        | _ => None
        end
      else None
  end.

(* The views the storage gets of ONE token-exchange request: at the entry of
   ValidateTokenExchangeRequest (before the storage policy touches the request), and at the hooks
   after it (CreateTokenExchangeRequest, then the claims / userinfo setters at token creation) -
   where subject, scopes and requested type are what the policy decided.  Same guards, in the
   same order, as C08_OP.exchange; res: the resource parameter. *)
Definition exch_views (cl : list client) (r : router) (g : store) (c : cred) (subj : tokstr) (styp : ttype)
    (actor : option (tokstr * ttype)) (req : ttype) (scopes aud res : list string) : option view * option view :=
  let absent_first := match r, styp with Prov, TAbsent => true | _, _ => false end in
  if absent_first then (None, None) else
  match (match r with Prov => auth_exch_prov cl c | Leg => auth_exch_leg cl c end) with
  | None => (None, None)
  | Some k =>
      if negb (c_exchange k) then (None, None) else
      match req with TUnknown => (None, None) | _ =>
      match read_full g false styp subj with
      | None => (None, None)
      | Some (sid_, sv) =>
          match (match actor with
                 | None => Some (NoId, None, TAbsent)
                 | Some (ta, atyp) => match read_full g true atyp ta with
                                      | Some (aid, av) => Some (aid, Some av, atyp)
                                      | None => None
                                      end
                 end) with
          | None => (None, None)
          | Some (aid, av, atyp) =>
              let asub := match av with Some v => v_sub v | None => "" end in
              let actor_given := nonempty asub || match aid with NoId => false | _ => true end in
              let v1 := View (v_sub sv) (c_id k) sv av res aud scopes req in
              if negb (x_live g styp sid_) then (Some v1, None)
              else if actor_given && negb (x_live g atyp aid) then (Some v1, None)
              else if string_in "veto" scopes then (Some v1, None)
              else (Some v1, Some (View (decided_subject (policy g) (v_sub sv)) (c_id k) sv av res aud
                                        (decided_scopes (policy g) scopes) (effective_type (policy g) req)))
          end
      end end
  end.

(* ---------------------------------------------------------------- equality on observations *)

Definition extcls_eqb (a b : extcls) : bool :=
  match a, b with ESubj, ESubj | EActor, EActor | EBoth, EBoth | ENone, ENone => true | _, _ => false end.
Definition ptok_eqb (a b : ptok) : bool :=
  match a, b with
  | POpq i s, POpq j t => sid_eqb i j && String.eqb s t
  | POpqNoColon, POpqNoColon => true
  | PJwt i sg e j s z, PJwt i' sg' e' j' s' z' =>
      (i =? i') && Bool.eqb sg sg' && Bool.eqb e e' && sid_eqb j j' && String.eqb s s' && String.eqb z z'
  | PRaw i, PRaw j => sid_eqb i j
  | PExt c s, PExt d t => extcls_eqb c d && String.eqb s t
  | PJwtX i e j s z, PJwtX i' e' j' s' z' =>
      (i =? i') && Bool.eqb e e' && sid_eqb j j' && String.eqb s s' && String.eqb z z'
  | _, _ => false
  end.
Definition gtype_eqb (a b : gtype) : bool :=
  match a, b with GExchange, GExchange | GOther, GOther => true | _, _ => false end.
Definition ptyp_eqb (a b : ptok * ttype) : bool := ptok_eqb (fst a) (fst b) && ttype_eqb (snd a) (snd b).
Definition wire_eqb (a b : wire) : bool :=
  Bool.eqb (w_ep a) (w_ep b) && gtype_eqb (w_grant a) (w_grant b) && ptok_eqb (w_subj a) (w_subj b) && ttype_eqb (w_styp a) (w_styp b)
  && option_eqb ptyp_eqb (w_actor a) (w_actor b) && strs_eqb (w_resource a) (w_resource b)
  && strs_eqb (w_audience a) (w_audience b) && strs_eqb (w_scope a) (w_scope b)
  && ttype_eqb (w_requested a) (w_requested b).
Definition vid_eqb (a b : vid) : bool :=
  match a, b with VSid i, VSid j => sid_eqb i j | VSelf, VSelf => true | _, _ => false end.
Definition tview_eqb (a b : tview) : bool :=
  String.eqb (v_sub a) (v_sub b) && ttype_eqb (v_typ a) (v_typ b) && vid_eqb (v_id a) (v_id b)
  && option_eqb String.eqb (v_claims a) (v_claims b).
Definition view_eqb (a b : view) : bool :=
  String.eqb (vw_subject a) (vw_subject b) && String.eqb (vw_client a) (vw_client b)
  && tview_eqb (vw_subj a) (vw_subj b) && option_eqb tview_eqb (vw_actor a) (vw_actor b)
  && strs_eqb (vw_resource a) (vw_resource b) && strs_eqb (vw_audience a) (vw_audience b)
  && strs_eqb (vw_scopes a) (vw_scopes b) && ttype_eqb (vw_requested a) (vw_requested b).
