(* C16: user codes and device codes as pure functions of a finite random byte
   stream.  Go: pkg/op/device.go NewUserCode, NewDeviceCode; crypto/rand.Int.
   A rune of the alphabet is represented by its UTF-8 encoding (a string). *)
From OIDC Require Import Lib Base64.

Fixpoint take_n {A} (k : nat) (l : list A) : option (list A * list A) :=
  match k with
  | 0 => Some ([], l)
  | S k' => match l with
            | [] => None
            | x :: r => match take_n k' r with
                        | Some (a, b) => Some (x :: a, b)
                        | None => None
                        end
            end
  end.

(* ---- crypto/rand.Int(reader, max) with max = m >= 1 ------------------- *)
Definition be_value (l : list N) : N := fold_left (fun acc b => (acc * 256 + b)%N) l 0%N.

Definition mask_first (b : N) (l : list N) : list N :=
  match l with
  | [] => []
  | x :: r => N.land x (2 ^ b - 1)%N :: r
  end.

(* one iteration per k bytes; io.ReadFull failing (stream exhausted) is the error *)
Fixpoint rand_int_loop (fuel : nat) (m : N) (k : nat) (b : N) (l : list nat) : option (N * list nat) :=
  match fuel with
  | 0 => None
  | S f => match take_n k l with
           | None => None
           | Some (chunk, rest) =>
               let v := be_value (mask_first b (map N.of_nat chunk)) in
               if (v <? m)%N then Some (v, rest) else rand_int_loop f m k b rest
           end
  end.

Definition rand_int (m : N) (l : list nat) : option (N * list nat) :=
  let bitlen := N.size (m - 1)%N in
  if (bitlen =? 0)%N then Some (0%N, l)
  else
    let k := N.to_nat ((bitlen + 7) / 8)%N in
    let b := if (bitlen mod 8 =? 0)%N then 8%N else (bitlen mod 8)%N in
    rand_int_loop (S (List.length l)) m k b l.

(* ---- NewUserCode ------------------------------------------------------- *)
Inductive tok := Dash | Rune (s : string).

(* Go: dashInterval != 0 && i != 0 && i%dashInterval == 0 *)
Definition dash_before (dash i : nat) : bool :=
  negb (dash =? 0) && negb (i =? 0) && (i mod dash =? 0).

Definition sep (dash i : nat) : list tok := if dash_before dash i then [Dash] else [].

Fixpoint user_code_loop (charset : list string) (m : N) (dash k i : nat) (l : list nat)
  : option (list tok) :=
  match k with
  | 0 => Some []
  | S k' =>
      match rand_int m l with
      | None => None
      | Some (v, rest) =>
          match user_code_loop charset m dash k' (S i) rest with
          | None => None
          | Some ts => Some (sep dash i ++ Rune (nth (N.to_nat v) charset "") :: ts)
          end
      end
  end.

(* The FIXED code (F17): an empty alphabet or a length below 1 is an error
   (the unfixed code panics for an empty alphabet with n >= 1 and for n = 0
   with dash > 0). *)
Definition user_code_toks (charset : list string) (n dash : nat) (l : list nat)
  : option (list tok) :=
  if (List.length charset =? 0) || (n =? 0) then None
  else user_code_loop charset (N.of_nat (List.length charset)) dash n 0 l.

Definition tok_str (t : tok) : string := match t with Dash => "-" | Rune s => s end.

Fixpoint toks_str (ts : list tok) : string :=
  match ts with
  | [] => ""
  | t :: r => (tok_str t ++ toks_str r)%string
  end.

Definition new_user_code (charset : list string) (n dash : nat) (l : list nat) : option string :=
  match user_code_toks charset n dash l with
  | Some ts => Some (toks_str ts)
  | None => None
  end.

(* NewDeviceCode(16): base64.RawURLEncoding of the next 16 bytes. crypto/rand.Read
   cannot fail recoverably (Go 1.24: fatal), so a shorter stream has no model. *)
Definition new_device_code (l : list nat) : option (string * list nat) :=
  match take_n 16 l with
  | Some (b, rest) => Some (b64_encode b, rest)
  | None => None
  end.

(* ---- the FORMAT, as the property states it ----------------------------- *)
(* runes r_0 .. r_{n-1}; a dash exactly before each index that is a positive
   multiple of [dash]; none if dash = 0 *)
Fixpoint layout (dash i : nat) (rs : list string) : list tok :=
  match rs with
  | [] => []
  | r :: rs' => sep dash i ++ Rune r :: layout dash (S i) rs'
  end.

Definition is_rune (t : tok) : bool := match t with Rune _ => true | Dash => false end.

(* decidable form on the string: parse left to right *)
Fixpoint strip_prefix (p s : string) : option string :=
  match p with
  | EmptyString => Some s
  | String a p' =>
      match s with
      | EmptyString => None
      | String b s' => if Ascii.eqb a b then strip_prefix p' s' else None
      end
  end.

Definition is_prefix (p s : string) : bool :=
  match strip_prefix p s with Some _ => true | None => false end.

Fixpoint strip_rune (charset : list string) (s : string) : option string :=
  match charset with
  | [] => None
  | c :: r => match strip_prefix c s with
              | Some rest => Some rest
              | None => strip_rune r s
              end
  end.

Fixpoint code_ok_loop (charset : list string) (dash k i : nat) (s : string) : bool :=
  match k with
  | 0 => String.eqb s ""
  | S k' =>
      match (if dash_before dash i then strip_prefix "-" s else Some s) with
      | None => false
      | Some s1 =>
          match strip_rune charset s1 with
          | None => false
          | Some s2 => code_ok_loop charset dash k' (S i) s2
          end
      end
  end.

Definition user_code_ok (charset : list string) (n dash : nat) (s : string) : bool :=
  negb (List.length charset =? 0) && negb (n =? 0) && code_ok_loop charset dash n 0 s.

(* alphabets whose rune encodings are prefix-free (true of UTF-8) *)
Definition prefix_free (charset : list string) : bool :=
  forallb (fun a => forallb (fun b => implb (is_prefix a b) (String.eqb a b)) charset) charset.

(* device code shape: 22 characters of the URL-safe base64 alphabet *)
Definition urlsafe_char (a : ascii) : bool :=
  match dec_char a with Some _ => true | None => false end.

Fixpoint all_chars (p : ascii -> bool) (s : string) : bool :=
  match s with
  | EmptyString => true
  | String a r => p a && all_chars p r
  end.

Definition device_code_ok (s : string) : bool :=
  (String.length s =? 22) && all_chars urlsafe_char s.
