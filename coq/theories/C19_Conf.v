(* C19 (round 11): the discovery document as a function of an ARBITRARY op.Configuration.
   Model only; proofs are in C19_Conf_proofs.v.

   Go side (pkg/op)                                   Gallina
   -----------------------------------------------------------------------------
   op.Configuration (every method answer independent) conf  (fields k_...)
   IssuerFromContext(ctx)                             k_issuer
   op.DiscoverStorage.SignatureAlgorithms             k_sigalgs (None = error)
   CreateDiscoveryConfig(ctx, config, storage)        conf_doc V1 cf
   createDiscoveryConfigV2(ctx, config, storage, eps)
     through LegacyServer.Discovery                   conf_doc (V2 es) cf
   GrantTypes                                         cd_grants
   AuthMethodsTokenEndpoint / ...Introspection... /
     ...Revocation...                                 cd_token_methods / cd_intro_methods / cd_revoke_methods
   TokenSigAlgorithms / IntrospectionSigAlgorithms /
     RevocationSigAlgorithms / RequestObjectSig...    cd_token_algs / cd_intro_algs / cd_revoke_algs / cd_reqobj_algs
   SigAlgorithms(ctx, storage)                        cd_id_algs
   CodeChallengeMethods                               cd_pkce
   Scopes / SupportedClaims (not a *Provider: defaults),
     ResponseTypes, SubjectTypes                      default_scopes / default_claims / response_types / subject_types
   Endpoint.Absolute                                  ep_abs (ep_absolute of C19_Discovery, "" for nil)
   AuthCallbackURL(o) / LegacyServer.AuthCallbackURL  callback_url *)
From OIDC Require Import Lib C19_Discovery.

(* the nine endpoints a Configuration answers (op.Endpoints has the same nine fields) *)
Record eps9 := mkEps9 {
  n_auth : ep; n_token : ep; n_intro : ep; n_userinfo : ep; n_revoke : ep;
  n_endsession : ep; n_keys : ep; n_device : ep; n_iframe : ep }.

Definition eps9_list (e : eps9) : list ep :=
  [n_auth e; n_token e; n_intro e; n_userinfo e; n_revoke e; n_endsession e; n_keys e; n_device e; n_iframe e].

Record conf := mkConf {
  k_issuer : string;                       (* IssuerFromContext(ctx): the issuer of THIS request *)
  k_eps : eps9;                            (* AuthorizationEndpoint() ... CheckSessionIframe() *)
  k_post : bool; k_s256 : bool; k_pkjwt : bool;
  k_refresh : bool; k_te : bool; k_bearer : bool; k_cc : bool; k_dev : bool;
  k_ipk : bool;                            (* IntrospectionAuthMethodPrivateKeyJWTSupported *)
  k_rpk : bool;                            (* RevocationAuthMethodPrivateKeyJWTSupported *)
  k_reqobj : bool; k_bcl : bool; k_bcls : bool;
  k_token_algs : list string; k_intro_algs : list string;
  k_revoke_algs : list string; k_reqobj_algs : list string;
  k_sigalgs : option (list string);        (* storage.SignatureAlgorithms; None = it failed *)
  k_locales : list string }.

(* which function builds the document: V1 asks the Configuration for the endpoints,
   V2 (LegacyServer) takes them from its own op.Endpoints value and never asks the Configuration *)
Inductive variant := V1 | V2 (es : eps9).

Definition m_none := "none".
Definition m_basic := "client_secret_basic".
Definition m_post := "client_secret_post".
Definition m_pkjwt := "private_key_jwt".
Definition known_methods := [m_none; m_basic; m_post; m_pkjwt].

Definition default_scopes := ["openid"; "profile"; "email"; "phone"; "address"; "offline_access"].
Definition default_claims :=
  ["sub"; "aud"; "exp"; "iat"; "iss"; "auth_time"; "nonce"; "acr"; "amr"; "c_hash"; "at_hash"; "act"; "scopes";
   "client_id"; "azp"; "preferred_username"; "name"; "family_name"; "given_name"; "locale"; "email";
   "email_verified"; "phone_number"; "phone_number_verified"].
Definition response_types := ["code"; "id_token"; "id_token token"].
Definition subject_types := ["public"].

Definition opt (b : bool) (s : string) : list string := if b then [s] else [].
Definition gated (b : bool) (l : list string) : list string := if b then l else [].

(* Endpoint.Absolute(issuer): "" for the nil receiver *)
Definition ep_abs (issuer : string) (e : ep) : string :=
  match ep_absolute issuer e with Some u => u | None => EmptyString end.

Definition cd_grants (cf : conf) : list string :=
  [s_code; s_implicit] ++ opt (k_refresh cf) s_refresh ++ opt (k_cc cf) s_cc ++ opt (k_te cf) s_te
  ++ opt (k_bearer cf) s_bearer ++ opt (k_dev cf) s_device.

Definition cd_token_methods (cf : conf) : list string :=
  [m_none; m_basic] ++ opt (k_post cf) m_post ++ opt (k_pkjwt cf) m_pkjwt.
(* the introspection / revocation METHOD lists follow the token endpoint's flag (discovery.go:200, 221),
   their ALGORITHM lists the endpoint's own flag (discovery.go:190, 207) *)
Definition cd_intro_methods (cf : conf) : list string := [m_basic] ++ opt (k_pkjwt cf) m_pkjwt.
Definition cd_revoke_methods (cf : conf) : list string :=
  [m_none; m_basic] ++ opt (k_post cf) m_post ++ opt (k_pkjwt cf) m_pkjwt.

Definition cd_token_algs (cf : conf) := gated (k_pkjwt cf) (k_token_algs cf).
Definition cd_intro_algs (cf : conf) := gated (k_ipk cf) (k_intro_algs cf).
Definition cd_revoke_algs (cf : conf) := gated (k_rpk cf) (k_revoke_algs cf).
Definition cd_reqobj_algs (cf : conf) := gated (k_reqobj cf) (k_reqobj_algs cf).
Definition cd_id_algs (cf : conf) : list string := match k_sigalgs cf with Some l => l | None => [] end.
Definition cd_pkce (cf : conf) : list string := opt (k_s256 cf) "S256".

(* the nine endpoint members in the order of eps9_list; V2 has no check_session_iframe *)
Definition cd_endpoints (v : variant) (cf : conf) : list string :=
  match v with
  | V1 => map (ep_abs (k_issuer cf)) (eps9_list (k_eps cf))
  | V2 es => map (ep_abs (k_issuer cf))
               [n_auth es; n_token es; n_intro es; n_userinfo es; n_revoke es; n_endsession es; n_keys es; n_device es]
             ++ [EmptyString]
  end.

Definition auth_ep (v : variant) (cf : conf) : ep :=
  match v with V1 => n_auth (k_eps cf) | V2 es => n_auth es end.

(* AuthCallbackURL: Authorization.Absolute(issuer) + "/callback" + "?id=" + requestID *)
Definition callback_url (issuer : string) (e : ep) (id : string) : string :=
  (ep_abs issuer e ++ callback_suffix ++ "?id=" ++ id)%string.

Record ddoc := mkDoc {
  d_issuer : string; d_endpoints : list string;
  d_scopes : list string; d_response_types : list string; d_grants : list string; d_subject_types : list string;
  d_id_algs : list string; d_reqobj_algs : list string;
  d_token_methods : list string; d_token_algs : list string;
  d_intro_algs : list string; d_intro_methods : list string;
  d_revoke_algs : list string; d_revoke_methods : list string;
  d_claims : list string; d_pkce : list string; d_locales : list string;
  d_reqparam : bool; d_bcl : bool; d_bcls : bool;
  d_callback : string }.                   (* not a member of the document: what AuthCallbackURL answers for the case's request id *)

Definition conf_doc (v : variant) (cf : conf) (id : string) : ddoc :=
  mkDoc (k_issuer cf) (cd_endpoints v cf)
        default_scopes response_types (cd_grants cf) subject_types
        (cd_id_algs cf) (cd_reqobj_algs cf)
        (cd_token_methods cf) (cd_token_algs cf)
        (cd_intro_algs cf) (cd_intro_methods cf)
        (cd_revoke_algs cf) (cd_revoke_methods cf)
        default_claims (cd_pkce cf) (k_locales cf)
        (k_reqobj cf) (k_bcl cf) (k_bcls cf)
        (callback_url (k_issuer cf) (auth_ep v cf) id).

Definition sl_eqb := list_eqb String.eqb.

Definition ddoc_eqb (a b : ddoc) : bool :=
  String.eqb (d_issuer a) (d_issuer b) && sl_eqb (d_endpoints a) (d_endpoints b)
  && sl_eqb (d_scopes a) (d_scopes b) && sl_eqb (d_response_types a) (d_response_types b)
  && sl_eqb (d_grants a) (d_grants b) && sl_eqb (d_subject_types a) (d_subject_types b)
  && sl_eqb (d_id_algs a) (d_id_algs b) && sl_eqb (d_reqobj_algs a) (d_reqobj_algs b)
  && sl_eqb (d_token_methods a) (d_token_methods b) && sl_eqb (d_token_algs a) (d_token_algs b)
  && sl_eqb (d_intro_algs a) (d_intro_algs b) && sl_eqb (d_intro_methods a) (d_intro_methods b)
  && sl_eqb (d_revoke_algs a) (d_revoke_algs b) && sl_eqb (d_revoke_methods a) (d_revoke_methods b)
  && sl_eqb (d_claims a) (d_claims b) && sl_eqb (d_pkce a) (d_pkce b) && sl_eqb (d_locales a) (d_locales b)
  && Bool.eqb (d_reqparam a) (d_reqparam b) && Bool.eqb (d_bcl a) (d_bcl b) && Bool.eqb (d_bcls a) (d_bcls b)
  && String.eqb (d_callback a) (d_callback b).
