(* C15, round 11: proofs about the client helpers, the wire form and the request views. *)
From OIDC Require Import Lib C08_OP C15_Helper.
From OIDC Require C08_spec C08_proofs.
From OIDC Require Import C15_spec C15_proofs.
Import C08_spec C08_proofs.
(* after the imports the names spec / check / spec_run / model / path / input are C08's: the C15 ones are qualified *)

(* ---------------------------------------------------------------- space-delimited lists *)

(* a scope / audience / resource word as a caller passes it: non-empty, no space *)
Fixpoint nospace (s : string) : bool :=
  match s with EmptyString => true | String c r => negb (is_space c) && nospace r end.
Definition word (s : string) : bool := nonempty s && nospace s.
Definition wordlist (l : list string) : bool := forallb word l.

Lemma split_sp_nonnil s : split_sp s <> [].
Proof. destruct s as [|c r]; cbn; [discriminate|]. destruct (is_space c); [discriminate|]. destruct (split_sp r); discriminate. Qed.

Lemma split_nospace x : nospace x = true -> split_sp x = [x].
Proof.
  induction x as [|c r IH]; cbn; [reflexivity|]. intro H. apply andb_true_iff in H as [H1 H2].
  destruct (is_space c); [discriminate|]. now rewrite (IH H2).
Qed.

Lemma split_app_space x s : nospace x = true ->
  split_sp (String.append x (String " "%char s)) = x :: split_sp s.
Proof.
  induction x as [|c r IH]; cbn [String.append nospace]; intro H.
  - cbn. reflexivity.
  - apply andb_true_iff in H as [H1 H2]. cbn [split_sp]. destruct (is_space c); [discriminate|].
    now rewrite (IH H2).
Qed.

Lemma split_join l : l <> [] -> forallb nospace l = true -> split_sp (join_sp l) = l.
Proof.
  induction l as [|x r IH]; [congruence|]. intros _ H. cbn in H. apply andb_true_iff in H as [H1 H2].
  destruct r as [|y r']; [cbn; now apply split_nospace|].
  change (join_sp (x :: y :: r')) with (String.append x (String " "%char (join_sp (y :: r')))).
  rewrite (split_app_space _ _ H1). f_equal. apply IH; [discriminate|exact H2].
Qed.

Lemma word_nospace x : word x = true -> nospace x = true.
Proof. unfold word. intro H. now apply andb_true_iff in H. Qed.
Lemma wordlist_nospace l : wordlist l = true -> forallb nospace l = true.
Proof.
  unfold wordlist. induction l as [|x r IH]; cbn; [reflexivity|]. intro H. apply andb_true_iff in H as [H1 H2].
  now rewrite (word_nospace _ H1), (IH H2).
Qed.
Lemma filter_words l : wordlist l = true -> filter nonempty l = l.
Proof.
  unfold wordlist. induction l as [|x r IH]; cbn; [reflexivity|]. intro H. apply andb_true_iff in H as [H1 H2].
  unfold word in H1. apply andb_true_iff in H1 as [H1 _]. now rewrite H1, (IH H2).
Qed.

(* ROUND TRIP of a space-delimited list: the words of the joined list are the list
   (SpaceDelimitedArray: encoder = strings.Join, decoder = strings.Split) - also for the empty list *)
Lemma words_join l : wordlist l = true -> words (join_sp l) = l.
Proof.
  intro W. destruct l as [|x r]; [reflexivity|]. unfold words.
  rewrite split_join; [now apply filter_words|discriminate|now apply wordlist_nospace].
Qed.
Lemma words_word x : word x = true -> words x = [x].
Proof. intro W. pose proof (words_join [x]) as H. cbn [join_sp] in H. apply H. cbn. now rewrite W. Qed.
Lemma flat_words l : wordlist l = true -> flat_map words l = l.
Proof.
  unfold wordlist. induction l as [|x r IH]; cbn; [reflexivity|]. intro H. apply andb_true_iff in H as [H1 H2].
  now rewrite (words_word _ H1), (IH H2).
Qed.

(* ---------------------------------------------------------------- options: the last of a kind counts *)

Definition sel_grant (o : hopt) := match o with WGrant g => Some g | _ => None end.
Definition sel_actor (o : hopt) := match o with WActor t typ => Some (t, typ) | _ => None end.
Definition sel_resource (o : hopt) := match o with WResource l => Some l | _ => None end.
Definition sel_audience (o : hopt) := match o with WAudience l => Some l | _ => None end.
Definition sel_scope (o : hopt) := match o with WScope l => Some l | _ => None end.
Definition sel_requested (o : hopt) := match o with WRequested t => Some t | _ => None end.

Lemma last_of_app {A} (f : hopt -> option A) a o :
  last_of f (a ++ [o]) = match f o with Some x => Some x | None => last_of f a end.
Proof.
  induction a as [|p a IH]; cbn; [now destruct (f o)|]. rewrite IH. destruct (f o); reflexivity.
Qed.

(* the request after the options, field by field, from ANY starting request *)
Definition after_opts (q : treq) (opts : list hopt) : treq :=
  TReq (or_default (last_of sel_grant opts) (q_grant q)) (q_subj q) (q_styp q)
       (match last_of sel_actor opts with Some a => Some a | None => q_actor q end)
       (or_default (last_of sel_resource opts) (q_resource q))
       (or_default (last_of sel_audience opts) (q_audience q))
       (or_default (last_of sel_scope opts) (q_scope q))
       (or_default (last_of sel_requested opts) (q_requested q)).

Lemma fold_opts opts : forall q, fold_left apply_opt opts q = after_opts q opts.
Proof.
  induction opts as [|o opts IH] using rev_ind; intro q; [now destruct q|].
  rewrite fold_left_app. cbn [fold_left]. rewrite IH. unfold after_opts. rewrite !last_of_app.
  destruct o; cbn; reflexivity.
Qed.

(* NewTokenExchangeRequest builds what the caller asked for *)
Lemma build_is_intent subj styp opts : new_request subj styp opts = intent_opts subj styp opts.
Proof.
  unfold new_request. rewrite fold_opts. unfold after_opts, intent_opts.
  cbn [q_grant q_subj q_styp q_actor q_resource q_audience q_scope q_requested].
  change (fun o : hopt => match o with WActor t typ => Some (t, typ) | _ => None end) with sel_actor.
  destruct (last_of sel_actor opts); reflexivity.
Qed.

(* ---------------------------------------------------------------- well-formed calls *)

Definition wf_req (q : treq) : bool :=
  wordlist (q_resource q) && wordlist (q_audience q) && wordlist (q_scope q).
Definition wf_call (call : hcall) : bool :=
  match intent call with Some q => wf_req q | None => true end.

Lemma dispatch_none call : intent call = None <-> dispatch call = None.
Proof. destruct call as [s t o|s o|s t a r au sc rq]; cbn; try (split; discriminate). destruct t; split; congruence. Qed.

(* reflexivity of the comparison functions *)
Lemma sid_eqb_refl i : sid_eqb i i = true.
Proof. destruct i; cbn; try reflexivity; apply Nat.eqb_refl. Qed.
Lemma ttype_eqb_refl t : ttype_eqb t t = true.
Proof. now destruct t. Qed.
Lemma ptok_eqb_refl t : ptok_eqb t t = true.
Proof.
  destruct t; cbn; rewrite ?sid_eqb_refl, ?String.eqb_refl, ?Nat.eqb_refl, ?Bool.eqb_reflx; try reflexivity.
  now destruct cls.
Qed.
Lemma actor_eqb_refl (a : option (ptok * ttype)) : option_eqb ptyp_eqb a a = true.
Proof. destruct a as [[t ty]|]; [|reflexivity]. cbn. unfold ptyp_eqb. cbn. now rewrite ptok_eqb_refl, ttype_eqb_refl. Qed.
Lemma vid_eqb_refl v : vid_eqb v v = true.
Proof. destruct v; cbn; [apply sid_eqb_refl|reflexivity]. Qed.
Lemma tview_eqb_refl v : tview_eqb v v = true.
Proof.
  unfold tview_eqb. rewrite String.eqb_refl, ttype_eqb_refl, vid_eqb_refl. cbn.
  destruct (v_claims v); cbn; [apply String.eqb_refl|reflexivity].
Qed.
Lemma view_eqb_refl v : view_eqb v v = true.
Proof.
  unfold view_eqb. rewrite !String.eqb_refl, tview_eqb_refl, !strs_eqb_refl, ttype_eqb_refl. cbn.
  destruct (vw_actor v); cbn; [now rewrite tview_eqb_refl|reflexivity].
Qed.

Lemma parse_encode b q : wf_req q = true -> parse (encode b q) = q.
Proof.
  destruct q as [g s t a res aud sc rq]. unfold wf_req. cbn [q_resource q_audience q_scope].
  intros W. apply andb_true_iff in W as [W W3]. apply andb_true_iff in W as [W1 W2].
  unfold parse, encode. cbn [w_grant w_subj w_styp w_actor w_resource w_audience w_scope w_requested
    q_grant q_subj q_styp q_actor q_resource q_audience q_scope q_requested].
  rewrite (filter_words _ W1), (filter_words _ W2). f_equal.
  destruct b.
  - cbn [last_opt]. now apply words_join.
  - destruct sc as [|x r]; [reflexivity|]. cbn [last_opt]. now apply words_join.
Qed.

Lemma faithful_encode b q : wf_req q = true -> C15_spec.wire_faithful q (encode b q) = true.
Proof.
  destruct q as [g s t a res aud sc rq]. unfold wf_req. cbn [q_resource q_audience q_scope].
  intros W. apply andb_true_iff in W as [W W3]. apply andb_true_iff in W as [W1 W2].
  unfold C15_spec.wire_faithful, encode. cbn [w_ep w_grant w_subj w_styp w_actor w_resource w_audience w_scope w_requested
    q_grant q_subj q_styp q_actor q_resource q_audience q_scope q_requested].
  rewrite ptok_eqb_refl, !ttype_eqb_refl, actor_eqb_refl, !strs_eqb_refl.
  assert (G : gtype_eqb g g = true) by now destruct g. rewrite G.
  assert (F : flat_map words (if b then [join_sp sc] else match sc with [] => [] | _ => [join_sp sc] end) = sc).
  { destruct b; [cbn; rewrite app_nil_r; now apply words_join|].
    destruct sc as [|x r]; [reflexivity|].
    change (words (join_sp (x :: r)) ++ [] = x :: r). rewrite app_nil_r. now apply words_join. }
  rewrite F, strs_eqb_refl. reflexivity.
Qed.

(* ROUND TRIP helper -> wire -> provider: what the provider's decoder makes of the form a helper
   sends is the request the caller asked for - every parameter, subject and actor in their own
   slots, every list complete and in order *)
Lemma helper_roundtrip call q : C15_spec.intent call = Some q -> wf_req q = true ->
  exists w, dispatch call = Some w /\ parse w = q /\ C15_spec.wire_faithful q w = true.
Proof.
  intros I W. destruct call as [s t o|s o|s t a r au sc rq].
  - cbn in I. injection I as <-.
    exists (encode false (intent_opts s t o)). cbn [dispatch]. rewrite build_is_intent.
    split; [reflexivity|]. split; [now apply parse_encode|now apply faithful_encode].
  - cbn in I. injection I as <-.
    exists (encode false (intent_opts s TAccess o)). cbn [dispatch]. rewrite build_is_intent.
    split; [reflexivity|]. split; [now apply parse_encode|now apply faithful_encode].
  - cbn in I. cbn [dispatch].
    destruct t; try discriminate; injection I as <-;
      (eexists; split; [reflexivity|]; split; [now apply parse_encode|now apply faithful_encode]).
Qed.

(* Why the scopes must travel as ONE parameter (the encoding before the fix of Fxx-C15-1 sent one
   scope parameter per scope): of a repeated scope parameter the provider's decoder reads the
   last value only - every other scope is lost. *)
Lemma repeated_scope_parameter_keeps_last w v vs :
  w_scope w = vs ++ [v] -> q_scope (parse w) = words v.
Proof.
  intro E. unfold parse. cbn [q_scope]. rewrite E.
  assert (L : last_opt (vs ++ [v]) = Some v).
  { clear E. induction vs as [|a vs IH]; [reflexivity|]. cbn [app].
    destruct (vs ++ [v]) as [|b l] eqn:X; [destruct vs; discriminate|]. exact IH. }
  now rewrite L.
Qed.

(* ---------------------------------------------------------------- the request view *)

Lemma read_full_x g a typ t :
  read_x g a typ t = option_map (fun p => (fst p, v_sub (snd p))) (read_full g a typ t).
Proof.
  unfold read_x, read_full. destruct (read_native g typ t) as [[i s]|]; [reflexivity|].
  destruct (supported typ && p_verifier (policy g)); [|reflexivity].
  destruct t as [i s| |i sg e j s z|i|c s]; try reflexivity. now destruct (ext_accepts c a).
Qed.

(* GetTokenIDAndSubjectFromToken hands the storage the data of the PRESENTED token: its subject,
   the declared type, its storage id (or itself) and its own claims *)
Lemma read_full_expected g a typ t id v : read_full g a typ t = Some (id, v) -> v = C15_spec.expect_tview g typ t.
Proof.
  intro R. assert (X : read_x g a typ t = Some (id, v_sub v)) by (rewrite read_full_x, R; reflexivity).
  apply read_x_subject in X. unfold C15_spec.expect_tview. rewrite X. clear X.
  unfold read_full in R. destruct (read_native g typ t) as [[i s]|] eqn:RN.
  - injection R as <- <-. cbn [v_sub]. f_equal.
    destruct typ; cbn in RN; try discriminate.
    + destruct t as [i' s'| |ii sg e j s' z|i'|c s']; cbn in RN; try discriminate.
      * now injection RN as <- <-.
      * destruct ii, sg, e; cbn in RN; try discriminate. now injection RN as <- <-.
    + destruct t as [i' s'| |ii sg e j s' z|i'|c s']; cbn in RN; try discriminate; reflexivity.
    + destruct t as [i' s'| |ii sg e j s' z|i'|c s']; cbn in RN; try discriminate; reflexivity.
  - destruct (supported typ && p_verifier (policy g)); [|discriminate].
    destruct t as [i' s'| |ii sg e j s' z|i'|c s']; try discriminate.
    destruct (ext_accepts c a); [|discriminate]. injection R as <- <-. cbn [v_sub].
    destruct typ; reflexivity.
Qed.

Definition actor_expect (g : store) (actor : option (tokstr * ttype)) : option tview :=
  match actor with Some (ta, atyp) => Some (C15_spec.expect_tview g atyp ta) | None => None end.

(* The views of one request, against its answer: a success consulted the storage at both hooks;
   the first view shows exactly the data of this request - subject and actor token each in its
   own place, no actor data without an actor token, lists and requested type as received, the
   authenticated client; the later view shows the same token data and the storage policy's
   decisions. *)
Lemma exchange_views cl r g nx c subj styp actor req scopes aud res : wf_clients cl = true ->
  let x := snd (exchange cl r (g, nx) c subj styp actor req scopes aud) in
  let vs := exch_views cl r g c subj styp actor req scopes aud res in
  (exch_ok x = true -> fst vs <> None /\ snd vs <> None) /\
  (fst vs = None -> snd vs = None) /\
  (forall v, fst vs = Some v ->
     v = View (C15_spec.subject_of g styp subj) (cred_id c) (C15_spec.expect_tview g styp subj) (actor_expect g actor)
              res aud scopes req) /\
  (forall v, snd vs = Some v ->
     v = View (decided_subject (policy g) (C15_spec.subject_of g styp subj)) (cred_id c) (C15_spec.expect_tview g styp subj)
              (actor_expect g actor) res aud (decided_scopes (policy g) scopes) (effective_type (policy g) req)).
Proof.
  intro W. cbn zeta. unfold exchange, exch_views.
  destruct (match r, styp with Prov, TAbsent => true | _, _ => false end);
    [cbn; repeat split; intros; discriminate|].
  fold (exch_auth cl r c) (exch_err cl r c). destruct (exch_auth cl r c) as [k|] eqn:A;
    [|destruct (exch_err_shape cl r c) as [st ->]; cbn; repeat split; intros; discriminate].
  destruct (exch_auth_ok _ _ _ _ W A) as (_ & CI & _).
  destruct (c_exchange k); cbn [negb]; [|cbn; repeat split; intros; discriminate].
  rewrite read_full_x.
  destruct (read_full g false styp subj) as [[sid_ sv]|] eqn:RS; cbn [option_map fst snd];
    [|destruct req; cbn; repeat split; intros; discriminate].
  pose proof (read_full_expected _ _ _ _ _ _ RS) as ES.
  assert (EA : match actor with
               | None => True
               | Some (ta, atyp) => forall aid av, read_full g true atyp ta = Some (aid, av) -> av = C15_spec.expect_tview g atyp ta
               end).
  { destruct actor as [[ta atyp]|]; [|exact I]. intros aid av R. exact (read_full_expected _ _ _ _ _ _ R). }
  destruct actor as [[ta atyp]|].
  - rewrite read_full_x. destruct (read_full g true atyp ta) as [[aid av]|] eqn:RA; cbn [option_map fst snd];
      [|destruct req; cbn; repeat split; intros; discriminate].
    specialize (EA _ _ eq_refl). subst sv av. cbn [v_sub C15_spec.expect_tview actor_expect].
    destruct (x_live g styp sid_); cbn [negb];
      [|destruct req, r; cbn; repeat split; intros; try discriminate; try congruence].
    destruct ((nonempty (C15_spec.subject_of g atyp ta) || match aid with NoId => false | _ => true end) && negb (x_live g atyp aid));
      [destruct req, r; cbn; repeat split; intros; try discriminate; try congruence|].
    unfold vetoed. destruct (string_in "veto" scopes); cbn [orb];
      [destruct req, r; cbn; repeat split; intros; try discriminate; try congruence|].
    rewrite CI. destruct (late_refuses (policy g) scopes), req; cbn;
      repeat split; intros; try discriminate; try congruence.
  - subst sv. cbn [v_sub C15_spec.expect_tview actor_expect nonempty String.eqb negb orb andb].
    destruct (x_live g styp sid_); cbn [negb];
      [|destruct req, r; cbn; repeat split; intros; try discriminate; try congruence].
    unfold vetoed. destruct (string_in "veto" scopes); cbn [orb];
      [destruct req, r; cbn; repeat split; intros; try discriminate; try congruence|].
    rewrite CI. destruct (late_refuses (policy g) scopes), req; cbn;
      repeat split; intros; try discriminate; try congruence.
Qed.

(* ---------------------------------------------------------------- runs *)

Lemma run_app cl a : forall s b, run cl s (a ++ b) = run cl s a ++ run cl (state_after cl s a) b.
Proof.
  induction a as [|o a IH]; intros s b; [reflexivity|]. cbn [app run state_after].
  destruct (step cl s o) as [s' x] eqn:E. cbn [fst]. now rewrite IH.
Qed.

Lemma gafter_run cl a : forall s b,
  C15_spec.gafter cl (fst s) a (run cl s (a ++ b)) = fst (state_after cl s a).
Proof.
  induction a as [|o a IH]; intros s b.
  - cbn. now destruct (run cl s b).
  - cbn [app run state_after]. pose proof (gstep_step cl s o) as G.
    destruct (step cl s o) as [s' x]. cbn [fst snd] in *. cbn [C15_spec.gafter]. rewrite G. apply IH.
Qed.

Lemma split_last_app {A} (l : list A) x : C15_spec.split_last (l ++ [x]) = Some (l, x).
Proof. induction l as [|y l IH]; [reflexivity|]. cbn [app C15_spec.split_last]. now rewrite IH. Qed.

(* ---------------------------------------------------------------- the central theorem *)

Definition wf15 (i : C15_spec.input) : bool :=
  match i with
  | IHist h => wf_input h
  | IHelp cl pol ops host ku r c call => wf_clients cl && wf_call call
  end.
(* outside the input class of the recorded finding Fxx-C08-1 (every token-exchange request of
   the history and the one the caller asks the helper for) *)
Definition outside_findings (i : C15_spec.input) : bool :=
  match i with
  | IHist h => unconfused h
  | IHelp cl pol ops host ku r c call =>
      forallb op_unconfused (located (designated (p_kopts pol)) ops)
      && match C15_spec.intent call with
         | Some q => op_unconfused (locate_op (designated (p_kopts pol)) host ku (op_of r c q))
         | None => true
         end
  end.

Lemma run_hist_spec cl pol ops : wf_clients cl = true ->
  forallb op_unconfused (located (designated (p_kopts pol)) ops) = true ->
  C15_spec.spec_run cl (Store [] [] pol) (located (designated (p_kopts pol)) ops) (run_hist (Hist cl pol ops)) = true.
Proof.
  intros W U. cbn [run_hist]. rewrite configure_designated.
  exact (spec15_run_model cl W (located (designated (p_kopts pol)) ops) (init pol) U).
Qed.

Theorem spec15_model_partial : forall i, wf15 i = true -> outside_findings i = true ->
  C15_spec.spec i (C15_spec.model i) = true.
Proof.
  intros [h|cl pol ops host ku r c call] W U.
  - cbn [C15_spec.model C15_spec.spec]. now apply spec15_hist.
  - cbn [wf15] in W. apply andb_true_iff in W as [W WC].
    cbn [outside_findings] in U. apply andb_true_iff in U as [U UF].
    cbn [C15_spec.model C15_spec.spec]. unfold C15_spec.spec_help.
    destruct (C15_spec.intent call) as [q|] eqn:I.
    + unfold wf_call in WC. rewrite I in WC.
      destruct (helper_roundtrip call q I WC) as (w & D & P & F). rewrite D, P. cbn zeta.
      destruct (q_grant q) eqn:G.
      * (* a token exchange *)
        rewrite configure_designated. set (kc := designated (p_kopts pol)) in *.
        cbn [op_of locate_op] in UF |- *.
        set (subj := localize kc (usage_of (q_styp q)) host ku (q_subj q)) in *.
        set (actor := option_map (fun p : ptok * ttype => (localize kc (usage_of (snd p)) host ku (fst p), snd p)) (q_actor q)) in *.
        set (fin := Exchange r c subj (q_styp q) actor (q_requested q) (q_scope q) (q_audience q)) in *.
        rewrite F. cbn [andb].
        assert (R : run_hist (Hist cl pol (ops ++ [(host, ku, op_of r c q)])) =
                    run cl (init pol) (located kc ops ++ [fin])).
        { cbn [run_hist]. rewrite configure_designated. unfold located. rewrite map_app. reflexivity. }
        rewrite R. clear R.
        assert (UA : forallb op_unconfused (located kc ops ++ [fin]) = true).
        { rewrite forallb_app. apply andb_true_iff. split; [exact U|]. cbn [forallb]. apply andb_true_iff. split; [exact UF|reflexivity]. }
        pose proof (spec15_run_model cl W (located kc ops ++ [fin]) (init pol) UA) as SR.
        cbn [init fst] in SR. rewrite SR. cbn [andb].
        pose proof (gafter_run cl (located kc ops) (init pol) [fin]) as GA. cbn [init fst] in GA. unfold op in *. rewrite GA.
        rewrite run_app. cbn [run]. 
        destruct (state_after cl (init pol) (located kc ops)) as [g nx] eqn:SA. cbn [fst].
        subst fin. cbn [step].
        destruct (exchange_views cl r g nx c subj (q_styp q) actor (q_requested q) (q_scope q) (q_audience q) (q_resource q) W)
          as (H1 & H2 & H3 & H4).
        destruct (exchange cl r (g, nx) c subj (q_styp q) actor (q_requested q) (q_scope q) (q_audience q)) as [s' x] eqn:E.
        cbn [snd] in H1. cbn [run]. rewrite split_last_app.
        destruct (exch_views cl r g c subj (q_styp q) actor (q_requested q) (q_scope q) (q_audience q) (q_resource q)) as [v1 v2].
        cbn [fst snd] in *.
        assert (S1 : match v1 with
                     | Some v => view_eqb v (C15_spec.expect_view1 g c subj (q_styp q) actor q)
                     | None => negb (exch_ok x) && C15_spec.is_none v2
                     end = true).
        { destruct v1 as [v|].
          - rewrite (H3 v eq_refl). apply view_eqb_refl.
          - rewrite (H2 eq_refl). destruct (exch_ok x); [|reflexivity]. destruct (H1 eq_refl) as [N _]. congruence. }
        assert (S2 : match v2 with
                     | Some v => view_eqb v (C15_spec.expect_view2 g c subj (q_styp q) actor q)
                     | None => negb (exch_ok x)
                     end = true).
        { destruct v2 as [v|].
          - rewrite (H4 v eq_refl). apply view_eqb_refl.
          - destruct (exch_ok x); [|reflexivity]. destruct (H1 eq_refl) as [_ N]. congruence. }
        rewrite S1, S2. reflexivity.
      * (* no token exchange was asked for *)
        rewrite F. cbn [andb C15_spec.is_none]. rewrite split_last_app. cbn [C15_spec.is_error andb].
        now apply run_hist_spec.
    + apply dispatch_none in I. rewrite I. cbn [C15_spec.is_none andb]. now apply run_hist_spec.
Qed.

(* ---------------------------------------------------------------- corollaries *)

(* a helper-built request is decided exactly like the request the caller asked for *)
Lemma helper_decided_as_asked cl pol ops host ku r c call q :
  C15_spec.intent call = Some q -> wf_req q = true -> q_grant q = GExchange ->
  exists w v1 v2, C15_spec.wire_faithful q w = true /\
    C15_spec.model (IHelp cl pol ops host ku r c call) =
    OHelp (run_hist (Hist cl pol (ops ++ [(host, ku, Exchange r c (q_subj q) (q_styp q) (q_actor q) (q_requested q) (q_scope q) (q_audience q))])))
          (Some w) v1 v2.
Proof.
  intros I W G. destruct (helper_roundtrip call q I W) as (w & D & P & F).
  cbn [C15_spec.model]. rewrite D, P, G. cbn zeta. unfold op_of. eauto 6.
Qed.

(* Regression for the repaired defect Fxx-C15-1: two scopes passed to WithScope - one scope
   parameter on the wire, the storage sees both, the token is issued for both *)
Example helper_two_scopes :
  let i := IHelp refuting_clients refstore_policy
    [(0, true, Issue Prov "web" "alice" ["openid"])]
    0 true Prov (Basic "web" "web-secret")
    (CallGrants (POpq (AT 2) "alice") TAccess [WScope ["openid"; "profile"]]) in
  wf15 i = true /\ outside_findings i = true /\ C15_spec.spec i (C15_spec.model i) = true /\
  exists xs w v1 v2 x t, C15_spec.model i = OHelp (xs ++ [OExch TAccess x NoId false ["openid"; "profile"] (Some t)]) (Some w) (Some v1) (Some v2) /\
    w_scope w = ["openid profile"] /\ vw_scopes v1 = ["openid"; "profile"] /\ tr_scopes t = ["openid"; "profile"].
Proof. vm_compute. repeat split. exists [OIssued (AT 2) NoId]. do 5 eexists. repeat split. Qed.

Example helper_nonvacuous :
  let i := IHelp refuting_clients refstore_policy
    [(0, true, Issue Prov "web" "alice" ["openid"]);
     (0, true, Issue Prov "web2" "bob" ["openid"])]
    0 true Leg (Basic "web" "web-secret")
    (CallGrants (POpq (AT 2) "alice") TAccess
       [WScope ["profile"]; WActor (POpq (AT 2) "alice") TAccess; WAudience ["web"; "web2"];
        WActor (PJwt 0 true false (AT 4) "bob" "") TAccess; WScope ["openid"];
        WRequested TRefresh; WResource ["urn:res:b"]]) in
  wf15 i = true /\ outside_findings i = true /\ C15_spec.path i (C15_spec.model i) <> 0 /\
  C15_spec.spec i (C15_spec.model i) = true /\
  exists xs w v1 v2, C15_spec.model i = OHelp xs (Some w) (Some v1) (Some v2) /\
    vw_actor v1 = Some (TView "bob" TAccess (VSid (AT 4)) (Some "bob")) /\ vw_scopes v2 = ["openid"] /\
    vw_resource v1 = ["urn:res:b"].
Proof. vm_compute. repeat split; try discriminate. do 4 eexists. repeat split. Qed.
